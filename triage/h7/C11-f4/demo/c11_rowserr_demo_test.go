// Demo for C11 finding f4: when the driver fails while the rows of a
// multi-row query are being fetched, QueryRows returns nil together with a
// truncated slice (rows.Err() is never consulted); inside Transact the body
// then works on the truncated data and the transaction is committed.
//
// Place this file at lib/store/sqlx/c11_rowserr_demo_test.go and run
//
//	go test -vet=off -count=1 -run 'TestC11Demo_RowsErr' ./lib/store/sqlx/
package sqlx_test

import (
	"errors"
	"testing"

	"github.com/DATA-DOG/go-sqlmock"
	"github.com/gotid/god/lib/logx"
	"github.com/gotid/god/lib/store/sqlx"
)

type c11Account struct {
	ID     int64 `db:"id"`
	Amount int64 `db:"amount"`
}

var errC11ConnLost = errors.New("driver: connection lost while fetching rows")

func c11Rows() *sqlmock.Rows {
	// three rows; fetching the second one fails in the driver
	return sqlmock.NewRows([]string{"id", "amount"}).
		AddRow(int64(1), int64(10)).AddRow(int64(2), int64(20)).AddRow(int64(3), int64(30)).
		RowError(1, errC11ConnLost)
}

func TestC11Demo_RowsErrIsReported(t *testing.T) {
	logx.Disable()

	db, mock, err := sqlmock.New()
	if err != nil {
		t.Fatal(err)
	}
	defer db.Close()
	conn := sqlx.NewConnFromDB(db)

	t.Run("struct slice", func(t *testing.T) {
		mock.ExpectQuery("select id, amount from account").WillReturnRows(c11Rows())
		var got []c11Account
		err := conn.QueryRows(&got, "select id, amount from account")
		if err == nil {
			t.Errorf("QueryRows returned nil although the driver failed after %d of 3 rows: %+v", len(got), got)
		}
	})

	t.Run("primitive slice", func(t *testing.T) {
		rs := sqlmock.NewRows([]string{"id"}).AddRow(int64(1)).AddRow(int64(2)).AddRow(int64(3)).
			RowError(2, errC11ConnLost)
		mock.ExpectQuery("select id from account").WillReturnRows(rs)
		var got []int64
		err := conn.QueryRowsPartial(&got, "select id from account")
		if err == nil {
			t.Errorf("QueryRowsPartial returned nil although the driver failed after %d of 3 rows: %v", len(got), got)
		}
	})

	t.Run("inside Transact", func(t *testing.T) {
		mock.MatchExpectationsInOrder(false)
		mock.ExpectBegin()
		mock.ExpectQuery("select id, amount from account").WillReturnRows(c11Rows())
		mock.ExpectExec("update total").WillReturnResult(sqlmock.NewResult(0, 1))
		mock.ExpectCommit()
		mock.ExpectRollback()

		var sum int64 = -1
		err := conn.Transact(func(s sqlx.Session) error {
			var accounts []c11Account
			if e := s.QueryRows(&accounts, "select id, amount from account"); e != nil {
				return e
			}
			sum = 0
			for _, a := range accounts {
				sum += a.Amount
			}
			_, e := s.Exec("update total set amount = ?", sum) // 10 instead of 60
			return e
		})

		if sum >= 0 {
			t.Errorf("the body was handed a truncated result without an error and wrote total=%d (real total 60)", sum)
		}
		if err == nil {
			t.Errorf("a driver fault during the read went unnoticed: Transact returned nil, i.e. committed")
		}
	})
}
