// Demo for C02/f3: the MaxConns token of a request is returned when the timeout handler answers
// 503, although the request's handler goroutine is still running. Every timed-out request thus
// frees a slot while still being inside its handler, and more than MaxConns handlers run at the
// same instant.
//
// Place this file at  api/c02_maxconns_timeout_test.go  (external package api_test) and run
//
//	go test -vet=off -count=1 -run 'TestC02MaxConnsHeldWhileHandlerRuns' -timeout 20s ./api/
package api_test

import (
	"fmt"
	"net"
	"net/http"
	"sync/atomic"
	"testing"
	"time"

	"github.com/gotid/god/api"
	"github.com/gotid/god/lib/logx"
)

func TestC02MaxConnsHeldWhileHandlerRuns(t *testing.T) {
	logx.Disable()

	ln, err := net.Listen("tcp", "127.0.0.1:0")
	if err != nil {
		t.Fatal(err)
	}
	port := ln.Addr().(*net.TCPAddr).Port
	ln.Close()

	var inside int32
	entered := make(chan int32, 16)
	left := make(chan struct{}, 16)
	release := make(chan struct{})
	work := func(w http.ResponseWriter, r *http.Request) {
		entered <- atomic.AddInt32(&inside, 1)
		<-release // a handler that does not watch its context, e.g. stuck in a slow dependency
		atomic.AddInt32(&inside, -1)
		left <- struct{}{}
	}

	svr, err := api.NewServer(api.Config{Host: "127.0.0.1", Port: port, MaxConns: 1, Timeout: 300})
	if err != nil {
		t.Fatal(err)
	}
	svr.AddRoute(api.Route{Method: http.MethodGet, Path: "/work", Handler: work})
	go svr.Start()

	addr := fmt.Sprintf("127.0.0.1:%d", port)
	up := false
	for i := 0; i < 200 && !up; i++ {
		if conn, err := net.Dial("tcp", addr); err == nil {
			conn.Close()
			up = true
		} else {
			time.Sleep(10 * time.Millisecond)
		}
	}
	if !up {
		t.Fatal("server did not come up")
	}

	get := func() int {
		client := &http.Client{Timeout: 10 * time.Second, Transport: &http.Transport{DisableKeepAlives: true}}
		resp, err := client.Get("http://" + addr + "/work")
		if err != nil {
			return -1
		}
		resp.Body.Close()
		return resp.StatusCode
	}

	// Request 1 enters the handler and is answered by the timeout arm after 300ms (whatever the
	// client sees for it is not the subject here); its handler keeps running.
	get()
	select {
	case <-entered:
	default:
		t.Fatal("request 1 did not reach its handler")
	}

	// MaxConns=1 and one request is still inside its handler: request 2 must be rejected.
	second := make(chan int, 1)
	go func() { second <- get() }()
	select {
	case n := <-entered:
		close(release)
		t.Fatalf("MaxConns=1 but %d requests are inside handlers at the same instant: the slot of the timed-out request was handed out while its handler is still running", n)
	case code := <-second:
		if code != http.StatusServiceUnavailable {
			close(release)
			t.Fatalf("excess request got %d, want 503", code)
		}
	case <-time.After(5 * time.Second):
		close(release)
		t.Fatal("request 2 neither rejected nor admitted")
	}

	// Once the first handler has left, the slot must be available again (no leaked token).
	close(release)
	<-left
	deadline := time.Now().Add(3 * time.Second)
	for {
		if code := get(); code == http.StatusOK {
			return
		} else if time.Now().After(deadline) {
			t.Fatalf("slot not returned after the handler finished: got %d, want 200", code)
		}
		time.Sleep(20 * time.Millisecond)
	}
}
