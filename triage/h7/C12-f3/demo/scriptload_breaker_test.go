// Demo for C12 finding f3: ScriptLoad / ScriptLoadCtx bypass the per-address breaker:
// a connection-level failure is never reported to it, and an open breaker does not stop it.
//
// Place this file at lib/store/redis/scriptload_breaker_test.go (package-internal: it swaps
// the unexported Redis.brk) and run
//
//	go test -vet=off -count=1 -run 'TestScriptLoad' ./lib/store/redis/
//
// Both tests fail on the unmodified HEAD and pass once ScriptLoadCtx runs under r.brk like
// every other command.
package redis

import (
	"net"
	"testing"

	"github.com/alicebob/miniredis/v2"
	"github.com/gotid/god/lib/breaker"
	"github.com/gotid/god/lib/logx"
)

type slRecBreaker struct {
	breaker.Breaker
	calls    int
	failures int
}

func (b *slRecBreaker) DoWithAcceptable(req func() error, acceptable breaker.Acceptable) error {
	return b.Breaker.DoWithAcceptable(func() error {
		b.calls++
		return req()
	}, func(err error) bool {
		ok := acceptable(err)
		if !ok {
			b.failures++
		}
		return ok
	})
}

// slOpenBreaker is a breaker in the open state: it drops every request.
type slOpenBreaker struct{ breaker.Breaker }

func (slOpenBreaker) DoWithAcceptable(func() error, breaker.Acceptable) error {
	return breaker.ErrServiceUnavailable
}

func TestScriptLoadFailureReachesBreaker(t *testing.T) {
	logx.Disable()
	l, err := net.Listen("tcp", "127.0.0.1:0")
	if err != nil {
		t.Fatal(err)
	}
	addr := l.Addr().String()
	_ = l.Close() // nothing listens here any more: connection refused

	r := New(addr)
	rec := &slRecBreaker{Breaker: breaker.New(breaker.WithName(addr))}
	r.brk = rec

	// control: EVAL, the sibling script command, is guarded
	if _, err := r.Eval("return 1", nil); err == nil {
		t.Fatal("EVAL against a dead address must fail")
	}
	if rec.calls != 1 || rec.failures != 1 {
		t.Fatalf("control EVAL: calls=%d failures=%d, want 1/1", rec.calls, rec.failures)
	}

	if _, err := r.ScriptLoad("return 1"); err == nil {
		t.Fatal("SCRIPT LOAD against a dead address must fail")
	}
	if rec.calls != 2 || rec.failures != 2 {
		t.Errorf("SCRIPT LOAD failed with 'connection refused' but the breaker saw calls=%d failures=%d (want 2/2)",
			rec.calls, rec.failures)
	}
}

func TestScriptLoadHonoursOpenBreaker(t *testing.T) {
	logx.Disable()
	mr, err := miniredis.Run()
	if err != nil {
		t.Fatal(err)
	}
	defer mr.Close()

	r := New(mr.Addr())
	r.brk = slOpenBreaker{Breaker: breaker.New()}

	// control: every other command is dropped by the open breaker
	if _, err := r.Eval("return 1", nil); err != breaker.ErrServiceUnavailable {
		t.Fatalf("control EVAL under an open breaker: err=%v", err)
	}
	sha, err := r.ScriptLoad("return 1")
	if err != breaker.ErrServiceUnavailable {
		t.Errorf("SCRIPT LOAD under an open breaker went to the server: sha=%q err=%v (want %v)",
			sha, err, breaker.ErrServiceUnavailable)
	}
}
