// Place at: api/handler/breakerhandler_panic_test.go (package-internal, package handler).
// Run:      go test -vet=off -count=1 -run 'TestC01BreakerHandlerPanic' ./api/handler/
//
// BreakerHandler admits a request via brk.Allow() and settles the promise in a
// deferred func that only looks at the recorded status code. When the wrapped
// handler panics, no status was written (Code == 0 < 500), so the panic is
// recorded as a SUCCESS. The property demands: failure on a panic (re-raised).
// A route whose handler always panics must therefore be cut off like one that
// always answers 500 (cf. TestBreakerHandlerReject); on HEAD it never is.
package handler

import (
	"net/http"
	"net/http/httptest"
	"testing"

	"github.com/gotid/god/lib/stat"
)

func TestC01BreakerHandlerPanicCountsAsFailure(t *testing.T) {
	metrics := stat.NewMetrics("unit-test")
	var ran int
	h := BreakerHandler(http.MethodGet, "/c01-panic", metrics)(http.HandlerFunc(
		func(w http.ResponseWriter, r *http.Request) {
			ran++
			panic("boom")
		}))

	// serve returns the response code, or -1 if the panic reached the caller.
	serve := func() (code int) {
		resp := httptest.NewRecorder()
		defer func() {
			if recover() != nil {
				code = -1
			}
		}()
		h.ServeHTTP(resp, httptest.NewRequest(http.MethodGet, "http://localhost", http.NoBody))
		return resp.Code
	}

	for i := 0; i < 1000; i++ {
		if code := serve(); code != -1 && code != http.StatusServiceUnavailable {
			t.Fatalf("request %d: panic must be re-raised or request dropped, got code %d", i, code)
		}
	}

	var drops int
	for i := 0; i < 100; i++ {
		if serve() == http.StatusServiceUnavailable {
			drops++
		}
	}
	if drops < 80 {
		t.Errorf("handler panicked on every one of %d admitted requests, yet only %d of the last 100 requests were dropped (want >= 80, as for a handler answering 500)", ran, drops)
	}
}
