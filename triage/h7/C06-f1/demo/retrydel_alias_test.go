// Demo for C06 finding f1: the background retry of a failed cache delete works on
// the CALLER's key slice instead of the keys that failed to be deleted.
//
// Place this file at lib/store/sqlc/retrydel_alias_test.go and run
//
//	go test -vet=off -count=1 -run TestRetryDeleteUsesTheKeysThatFailed ./lib/store/sqlc/
//
// It fails on the unmodified HEAD (the retry deletes "user:2", "user:1" stays stale)
// and passes once the retry task owns a copy of its keys.
package sqlc_test

import (
	"database/sql"
	"strings"
	"sync"
	"testing"
	"time"

	"github.com/alicebob/miniredis/v2"
	"github.com/alicebob/miniredis/v2/server"
	"github.com/gotid/god/lib/store/cache"
	"github.com/gotid/god/lib/store/redis"
	"github.com/gotid/god/lib/store/sqlc"
	"github.com/gotid/god/lib/store/sqlx"
)

type aliasRow struct {
	Id  int64 `json:"id"`
	Val int   `json:"val"`
}

func TestRetryDeleteUsesTheKeysThatFailed(t *testing.T) {
	mr, err := miniredis.Run()
	if err != nil {
		t.Fatal(err)
	}
	defer mr.Close()

	// fault injection: Redis is "down" for exactly the first DEL, then back.
	var (
		lock     sync.Mutex
		failNext = false
		dels     [][]string
	)
	mr.Server().SetPreHook(func(c *server.Peer, cmd string, args ...string) bool {
		if strings.ToUpper(cmd) != "DEL" {
			return false
		}
		lock.Lock()
		defer lock.Unlock()
		dels = append(dels, append([]string(nil), args...))
		if failNext {
			failNext = false
			c.WriteError("ERR injected: redis is down")
			return true
		}
		return false
	})
	delCount := func() int {
		lock.Lock()
		defer lock.Unlock()
		return len(dels)
	}

	conn := sqlc.NewNodeConn(nil, redis.New(mr.Addr()), cache.WithExpire(time.Hour))

	// the model database
	db := map[string]aliasRow{
		"user:1": {Id: 1, Val: 10},
		"user:2": {Id: 2, Val: 20},
	}
	read := func(key string) (aliasRow, error) {
		var r aliasRow
		err := conn.QueryRow(&r, key, func(_ sqlx.Conn, v any) error {
			row, ok := db[key]
			if !ok {
				return sql.ErrNoRows
			}
			*v.(*aliasRow) = row
			return nil
		})
		return r, err
	}
	write := func(key string, val int, keys ...string) {
		_, err := conn.Exec(func(_ sqlx.Conn) (sql.Result, error) {
			row := db[key]
			row.Val = val
			db[key] = row
			return nil, nil
		}, keys...)
		if err != nil {
			t.Fatalf("Exec: %v", err)
		}
	}

	// both rows get cached
	if r, err := read("user:1"); err != nil || r.Val != 10 {
		t.Fatalf("warm-up read user:1: %v %v", r, err)
	}
	if r, err := read("user:2"); err != nil || r.Val != 20 {
		t.Fatalf("warm-up read user:2: %v %v", r, err)
	}

	// the caller keeps one key buffer for all its writes (a batch job, say)
	keys := make([]string, 1)

	// write 1: user:1 := 11, Redis is down at the delete -> retry is scheduled
	lock.Lock()
	failNext = true
	lock.Unlock()
	keys[0] = "user:1"
	write("user:1", 11, keys...)

	// write 2: user:2 := 21, Redis is back, the delete succeeds; same buffer
	keys[0] = "user:2"
	write("user:2", 21, keys...)
	if r, err := read("user:2"); err != nil || r.Val != 21 {
		t.Fatalf("read user:2 after its write: %v %v", r, err)
	}

	// wait for the background retry (first retry comes within one second)
	deadline := time.Now().Add(6 * time.Second)
	for delCount() < 3 && time.Now().Before(deadline) {
		time.Sleep(20 * time.Millisecond)
	}
	if delCount() < 3 {
		t.Fatalf("the failed delete was never retried; DELs seen: %v", dels)
	}
	time.Sleep(100 * time.Millisecond) // let the retried DEL finish

	lock.Lock()
	retried := dels[2]
	lock.Unlock()
	if len(retried) != 1 || retried[0] != "user:1" {
		t.Errorf("the retry must remove the key whose delete failed (user:1), it removed %v", retried)
	}

	// the retry has succeeded: a read must now see the database's current row
	if r, err := read("user:1"); err != nil || r.Val != 11 {
		t.Errorf("read user:1 after write+successful retry = %+v, %v; want Val=11 (stale cache entry survived)", r, err)
	}
}
