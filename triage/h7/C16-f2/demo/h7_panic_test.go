package executors

// Place in lib/executors/ (uses only the exported API).
// Run: go test -vet=off -count=1 -run TestH7FlusherDiesOnExecutePanic ./lib/executors/

import (
	"sync"
	"testing"
	"time"
)

// History: bulk executor, threshold 2, flush interval 20ms. The execute
// function panics for one batch ([1 2], flushed by the size threshold on the
// background flusher; the panic is recovered and logged by threading.GoSafe).
// Afterwards task 3 is added: the periodic tick must pass it to execute.
// Then tasks 4 and 5 are added: [4 5] reaches the size threshold, must be
// executed, and Add must return.
func TestH7FlusherDiesOnExecutePanic(t *testing.T) {
	var mu sync.Mutex
	var got []any
	executed := make(chan struct{}, 16)

	be := NewBulkExecutor(func(tasks []any) {
		if tasks[0].(int) == 1 {
			panic("execute failed for this batch")
		}
		mu.Lock()
		got = append(got, tasks...)
		mu.Unlock()
		executed <- struct{}{}
	}, WithBulkTasks(2), WithBulkInterval(20*time.Millisecond))

	be.Add(1)
	be.Add(2) // -> the flusher executes [1 2]; execute panics
	time.Sleep(100 * time.Millisecond)

	be.Add(3) // below the threshold: only the periodic tick can flush it
	select {
	case <-executed:
	case <-time.After(2 * time.Second): // 100 flush intervals
		t.Errorf("task 3 was not executed by the periodic tick within 100 intervals after an earlier batch's execute panicked")
	}

	done := make(chan struct{})
	go func() {
		be.Add(4)
		be.Add(5) // reaches the threshold
		close(done)
	}()
	select {
	case <-done:
	case <-time.After(3 * time.Second):
		mu.Lock()
		defer mu.Unlock()
		t.Fatalf("Add blocks forever once the size threshold is reached: no flusher is alive to take the batch; executed so far: %v", got)
	}
	select {
	case <-executed:
	case <-time.After(2 * time.Second):
		t.Errorf("batch [4 5] was never executed")
	}
}
