// Place in lib/syncx/ (package syncx) and run from the repository root:
//
//	go test -vet=off -count=1 -timeout 20s -run TestDemoResourceManagerGetOverlappingClose ./lib/syncx/
//
// C18: "a resource manager creates at most one resource per key under
// concurrent Get and closes all of them on Close."
//
// Schedule (forced with channels): Get("k") is inside its create callback
// when Close runs to completion; then create returns a resource. Whatever Get
// reports to its caller (a value, an error or a panic), the resource the
// manager created must have been closed exactly once by the time both Get and
// Close have returned - nobody else holds a reference that could close it.
// On HEAD Get panics with "assignment to entry in nil map" and the resource
// is never closed.
package syncx

import (
	"io"
	"sync/atomic"
	"testing"
	"time"
)

type demoCloser struct{ closed int32 }

func (c *demoCloser) Close() error {
	atomic.AddInt32(&c.closed, 1)
	return nil
}

func TestDemoResourceManagerGetOverlappingClose(t *testing.T) {
	m := NewResourceManager()
	res := &demoCloser{}

	inCreate := make(chan struct{})
	proceed := make(chan struct{})
	type outcome struct {
		val      io.Closer
		err      error
		panicked any
	}
	done := make(chan outcome, 1)

	go func() {
		var o outcome
		defer func() {
			o.panicked = recover()
			done <- o
		}()
		o.val, o.err = m.Get("k", func() (io.Closer, error) {
			close(inCreate)
			<-proceed
			return res, nil
		})
	}()

	<-inCreate // Get is now inside create()
	if err := m.Close(); err != nil {
		t.Fatalf("Close: %v", err)
	}
	close(proceed) // create() returns its resource after Close has finished

	var o outcome
	select {
	case o = <-done:
	case <-time.After(10 * time.Second):
		t.Fatal("Get did not return")
	}
	t.Logf("Get returned val=%v err=%v panic=%v", o.val, o.err, o.panicked)

	if n := atomic.LoadInt32(&res.closed); n != 1 {
		t.Fatalf("resource created by a Get that overlapped Close was closed %d times, want exactly 1 "+
			"(Get outcome: val=%v err=%v panic=%v)", n, o.val, o.err, o.panicked)
	}
}
