// Demo for C20 / f2: a template that contains the word "go" followed by the word "designer"
// is rejected when the template's PREFIX (the text before "go") also contains "designer",
// because the DESIGNER flag is searched from the start of the template instead of after GO.
// The mirrored case (a second "go" in the suffix, "{go###designergo_designer}") is accepted
// by the repository's own test.
//
// Place: tools/god/util/format/designer_in_prefix_test.go (package-internal).
// tools/god cannot be resolved offline in place; copy tools/god/util/format into a scratch
// module (go.mod: module scratch; go 1.19; require github.com/stretchr/testify v1.8.1; cp go.sum):
//   GOFLAGS=-mod=mod GOPROXY=off GOSUMDB=off go test -vet=off -count=1 -run TestDesignerInPrefix ./util/format
package format

import "testing"

func TestDesignerInPrefix(t *testing.T) {
	cases := []struct{ tpl, id, want string }{
		// prefix "designer_", go=lower, through "_", designer=lower, suffix ""
		{"designer_go_designer", "user_name", "designer_user_name"},
		// prefix "Designer-", go=lower, through "#", designer=Title, suffix ".x"
		{"Designer-go#Designer.x", "welcome_to_go", "Designer-welcome#To#Go.x"},
		// prefix "designer", through ""
		{"designergodesigner", "UserName", "designerusername"},
		// mirrored control that already works: second "go" lands in the suffix
		{"{go###designergo_designer}", "user_name", "{user###namego_designer}"},
	}
	for _, c := range cases {
		got, err := FileNamingFormat(c.tpl, c.id)
		if err != nil {
			t.Errorf("FileNamingFormat(%q, %q): template contains 'go' then 'designer' but was rejected: %v", c.tpl, c.id, err)
			continue
		}
		if got != c.want {
			t.Errorf("FileNamingFormat(%q, %q) = %q, want %q", c.tpl, c.id, got, c.want)
		}
	}

	// still rejected: wrong order only / missing word
	for _, tpl := range []string{"designergo", "designer_go", "designer", "go", "designer_go_design"} {
		if _, err := FileNamingFormat(tpl, "user_name"); err == nil {
			t.Errorf("FileNamingFormat(%q): expected an error", tpl)
		}
	}
}
