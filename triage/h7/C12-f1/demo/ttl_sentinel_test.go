// Demo for C12 finding f1: Redis.TTL / kv TTL flatten go-redis' "no expiry" (-1) and
// "no such key" (-2) replies to 0 seconds.
//
// Place this file at lib/store/redis/ttl_sentinel_test.go and run
//
//	go test -vet=off -count=1 -run 'TestTTLSentinel' ./lib/store/redis/
//
// It fails on the unmodified HEAD (the wrapper answers 0 for both cases) and passes
// once TTLCtx keeps the two negative sentinel replies.
package redis_test

import (
	"context"
	"testing"
	"time"

	"github.com/alicebob/miniredis/v2"
	red "github.com/go-redis/redis/v8"
	"github.com/gotid/god/lib/store/redis"
)

// ttlSeconds is the documented conversion of the wrapper ("remaining lifetime in seconds")
// applied to the go-redis result: a real lifetime is divided down to seconds, the two
// sentinel replies of the TTL command (-1, -2) stay what they are.
func ttlSeconds(d time.Duration) int {
	if d < 0 {
		return int(d)
	}
	return int(d / time.Second)
}

func TestTTLSentinel(t *testing.T) {
	mw, err := miniredis.Run()
	if err != nil {
		t.Fatal(err)
	}
	defer mw.Close()
	mr, err := miniredis.Run()
	if err != nil {
		t.Fatal(err)
	}
	defer mr.Close()

	ctx := context.Background()
	wrapper := redis.New(mw.Addr())
	raw := red.NewClient(&red.Options{Addr: mr.Addr()})
	defer raw.Close()

	// the same history on both servers: one persistent key, one key with a lifetime, one absent key
	if err := wrapper.Set("persistent", "v"); err != nil {
		t.Fatal(err)
	}
	if err := wrapper.SetEx("expiring", "v", 100); err != nil {
		t.Fatal(err)
	}
	raw.Set(ctx, "persistent", "v", 0)
	raw.Set(ctx, "expiring", "v", 100*time.Second)

	for _, key := range []string{"expiring", "persistent", "absent"} {
		d, err := raw.TTL(ctx, key).Result()
		if err != nil {
			t.Fatal(err)
		}
		want := ttlSeconds(d)

		got, err := wrapper.TTL(key)
		if err != nil {
			t.Fatal(err)
		}
		if got != want {
			t.Errorf("TTL(%q): wrapper = %d, go-redis = %v (= %d s)", key, got, d, want)
		}

		got, err = wrapper.TTLCtx(ctx, key)
		if err != nil {
			t.Fatal(err)
		}
		if got != want {
			t.Errorf("TTLCtx(%q): wrapper = %d, go-redis = %v (= %d s)", key, got, d, want)
		}
	}

	// A caller must be able to tell "never expires" from "expires within this second":
	// both currently read 0.
	mw.SetTTL("expiring", 500*time.Millisecond)
	soon, _ := wrapper.TTL("expiring")
	never, _ := wrapper.TTL("persistent")
	if soon == never {
		t.Errorf("a key with 500ms left and a key without expiry both report TTL %d", soon)
	}
}
