// Place at: api/httpx/h7c05_f8_element_constraints_test.go (package httpx)
// Run:      go test -vet=off -count=1 -run TestH7C05F8 ./api/httpx/
//
// Property C05: "... a value outside its declared options=/range= makes it fail", quantified over
// every field kind (slices, maps, pointers ...) x tag options (options, range ...).
// For scalar fields and pointers to scalars the constraints are enforced.  For a slice or map
// field the declared options=/range= are parsed, kept - and never looked at again: fillSlice,
// fillSliceFromString, fillMap and fillMapFromString do not receive the field options, so any
// element is accepted, from a JSON/YAML document as well as from a form value.
package httpx

import (
	"net/http"
	"testing"

	"github.com/gotid/god/lib/mapping"
)

func TestH7C05F8_SliceAndMapElementsIgnoreOptionsAndRange(t *testing.T) {
	// reference: the scalar and the pointer shape enforce the constraint
	var scalar struct {
		Level string `json:"level,options=debug|info"`
		Port  *int   `json:"port,range=[1:65535]"`
	}
	if err := mapping.UnmarshalJsonBytes([]byte(`{"level":"trace","port":80}`), &scalar); err == nil {
		t.Fatal("reference: level=trace must be refused")
	}
	if err := mapping.UnmarshalJsonBytes([]byte(`{"level":"info","port":70000}`), &scalar); err == nil {
		t.Fatal("reference: port=70000 must be refused")
	}

	var levels struct {
		Levels []string `json:"levels,options=debug|info"`
	}
	if err := mapping.UnmarshalJsonBytes([]byte(`{"levels":["info","trace"]}`), &levels); err == nil {
		t.Errorf(`levels is declared options=debug|info, accepted %v`, levels.Levels)
	}
	if err := mapping.UnmarshalYamlBytes([]byte("levels: [info, trace]\n"), &levels); err == nil {
		t.Errorf(`yaml: levels is declared options=debug|info, accepted %v`, levels.Levels)
	}

	var ports struct {
		Ports []int `json:"ports,range=[1:65535]"`
	}
	if err := mapping.UnmarshalJsonBytes([]byte(`{"ports":[80,70000,-1]}`), &ports); err == nil {
		t.Errorf("ports is declared range=[1:65535], accepted %v", ports.Ports)
	}

	var weights struct {
		Weights map[string]float64 `json:"weights,range=[0:1]"`
		Ptrs    []*int8            `json:"ptrs,optional,options=1|2"`
	}
	if err := mapping.UnmarshalJsonBytes([]byte(`{"weights":{"a":0.5,"b":7}}`), &weights); err == nil {
		t.Errorf("weights is declared range=[0:1], accepted %v", weights.Weights)
	}
	if err := mapping.UnmarshalJsonBytes([]byte(`{"weights":{"a":0.5},"ptrs":[1,3]}`), &weights); err == nil {
		t.Errorf("ptrs is declared options=1|2, accepted [%d %d]", *weights.Ptrs[0], *weights.Ptrs[1])
	}

	// values inside the constraints are still accepted
	if err := mapping.UnmarshalJsonBytes([]byte(`{"levels":["info","debug"]}`), &levels); err != nil {
		t.Errorf("levels=[info,debug]: %v", err)
	}
	if err := mapping.UnmarshalJsonBytes([]byte(`{"ports":[1,65535]}`), &ports); err != nil {
		t.Errorf("ports=[1,65535]: %v", err)
	}
	if err := mapping.UnmarshalJsonBytes([]byte(`{"weights":{"a":0,"b":1},"ptrs":[2,1]}`), &weights); err != nil {
		t.Errorf("weights in range: %v", err)
	}
}

func TestH7C05F8_FormSliceElementsIgnoreRange(t *testing.T) {
	var req struct {
		IDs []int `form:"ids,range=[1:100]"`
	}

	r, _ := http.NewRequest(http.MethodGet, "/a?ids=[1,5000]", nil)
	if err := Parse(r, &req); err == nil {
		t.Errorf("ids is declared range=[1:100], Parse accepted %v", req.IDs)
	}

	r, _ = http.NewRequest(http.MethodGet, "/a?ids=[1,100]", nil)
	if err := Parse(r, &req); err != nil || len(req.IDs) != 2 {
		t.Errorf("ids=[1,100]: err=%v ids=%v", err, req.IDs)
	}
}
