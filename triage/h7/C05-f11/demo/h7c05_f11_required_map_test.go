// Place at: lib/mapping/h7c05_f11_required_map_test.go (package mapping)
// Run:      go test -vet=off -count=1 -run TestH7C05F11 ./lib/mapping/
//
// Property C05: "a required field that is absent ... makes it fail".
// A field without `optional`/`default` is required.  For every other kind an absent required
// field is an error (string/int: "字段 x 未设置", slice: type mismatch, struct with a required
// member: "必填字段 未设置").  For a map field processNamedFieldWithoutValue hands a fresh empty map
// to fillMap, so the absent required map is silently accepted as an empty map - in JSON, YAML and
// form documents alike.  The library itself counts such a member as required elsewhere:
// implicitValueRequiredStruct makes a struct with a non-optional map member a required struct.
package mapping

import "testing"

func TestH7C05F11_AbsentRequiredMapIsAccepted(t *testing.T) {
	// reference: the other kinds
	var s struct {
		Hosts []string `json:"hosts"`
	}
	if err := UnmarshalJsonBytes([]byte(`{}`), &s); err == nil {
		t.Fatal("reference: absent required slice accepted")
	}
	var n struct {
		Name string `json:"name"`
	}
	if err := UnmarshalJsonBytes([]byte(`{}`), &n); err == nil {
		t.Fatal("reference: absent required string accepted")
	}

	var m struct {
		Labels map[string]string `json:"labels"`
	}
	if err := UnmarshalJsonBytes([]byte(`{}`), &m); err == nil {
		t.Errorf("json: required field labels is absent, Unmarshal returned nil and labels=%v", m.Labels)
	}
	if err := UnmarshalYamlBytes([]byte("other: 1\n"), &m); err == nil {
		t.Errorf("yaml: required field labels is absent, Unmarshal returned nil and labels=%v", m.Labels)
	}

	var f struct {
		Filter map[string]int `form:"filter"`
	}
	if err := NewUnmarshaler("form", WithStringValues()).Unmarshal(map[string]any{}, &f); err == nil {
		t.Errorf("form: required field filter is absent, Unmarshal returned nil and filter=%v", f.Filter)
	}
}

// the library's own notion of "required": a struct with such a member is a required struct ...
func TestH7C05F11_InconsistentWithRequiredStruct(t *testing.T) {
	type Inner struct {
		Labels map[string]string `json:"labels"`
	}
	var v struct {
		Inner Inner `json:"inner"`
	}
	if err := UnmarshalJsonBytes([]byte(`{}`), &v); err == nil {
		t.Fatal("reference: a struct whose member labels is required is itself required")
	}
	// ... yet when the struct is present and the member is absent, nothing is reported
	if err := UnmarshalJsonBytes([]byte(`{"inner":{}}`), &v); err == nil {
		t.Errorf("inner.labels is required and absent, Unmarshal returned nil and labels=%v", v.Inner.Labels)
	}
}

// optional / present maps are unaffected
func TestH7C05F11_OptionalAndPresentMaps(t *testing.T) {
	var v struct {
		A map[string]string `json:"a,optional"`
		B map[string]int    `json:"b"`
	}
	if err := UnmarshalJsonBytes([]byte(`{"b":{}}`), &v); err != nil || v.A != nil || v.B == nil || len(v.B) != 0 {
		t.Errorf("err=%v v=%+v", err, v)
	}
}
