// Place at: api/httpx/h7c05_f7_nan_range_test.go (package httpx)
// Run:      go test -vet=off -count=1 -run TestH7C05F7 ./api/httpx/
//
// Property C05: "... a value outside its declared options=/range= makes it fail".
// In string mode (form/path/header parts, the `string` tag option) and for env= values a float
// field is parsed with strconv.ParseFloat, which accepts "NaN".  validateNumberRange only tests
// `fv < left` and `fv > right`; both are false for NaN, so NaN passes EVERY range and the handler
// receives a field that is not inside its declared range.
package httpx

import (
	"math"
	"net/http"
	"os"
	"testing"

	"github.com/gotid/god/lib/mapping"
)

func TestH7C05F7_FormNaNPassesRange(t *testing.T) {
	var req struct {
		Rate    float64 `form:"rate,range=[0:1]"`
		Percent float32 `form:"percent,range=(0:100]"`
	}

	// sanity: an ordinary out-of-range value is refused
	r, _ := http.NewRequest(http.MethodGet, "/a?rate=1.5&percent=5", nil)
	if err := Parse(r, &req); err == nil {
		t.Fatalf("rate=1.5 must be refused, got %+v", req)
	}

	r, _ = http.NewRequest(http.MethodGet, "/a?rate=NaN&percent=nan", nil)
	err := Parse(r, &req)
	if err == nil {
		t.Fatalf("rate is declared range=[0:1] and percent range=(0:100], Parse accepted %+v (in range: %v, %v)",
			req, req.Rate >= 0 && req.Rate <= 1, req.Percent > 0 && req.Percent <= 100)
	}
}

func TestH7C05F7_EnvAndStringOptionNaNPassRange(t *testing.T) {
	os.Setenv("H7C05F7_RATIO", "NaN")
	defer os.Unsetenv("H7C05F7_RATIO")

	var fromEnv struct {
		Ratio float64 `json:"ratio,env=H7C05F7_RATIO,range=[0:1]"`
	}
	if err := mapping.UnmarshalJsonBytes([]byte(`{}`), &fromEnv); err == nil {
		t.Errorf("env value NaN accepted for range=[0:1]: %+v (NaN: %v)", fromEnv, math.IsNaN(fromEnv.Ratio))
	}

	var fromString struct {
		Ratio float64 `json:"ratio,string,range=[0:1]"`
	}
	if err := mapping.UnmarshalJsonBytes([]byte(`{"ratio":"NaN"}`), &fromString); err == nil {
		t.Errorf("string-mode value NaN accepted for range=[0:1]: %+v", fromString)
	}
}
