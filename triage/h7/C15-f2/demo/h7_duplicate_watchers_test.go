// Demonstration for property C15, finding f2 (agent h7C15).
//
// Place this file together with export_h7_test.go and fake_h7_test.go (same demo directory) into
//
//	lib/discov/internal/
//
// and run, from the repository root:
//
//	go test -vet=off -count=1 -timeout 60s -run 'TestH7DuplicateWatchers' ./lib/discov/internal/
//
// (with GOFLAGS=-mod=mod go may move go.etcd.io/etcd/api/v3 to the direct block of go.mod; `git checkout go.mod`.)
//
// Two subscribers of the same key on the same cluster. cluster.monitor opens one watch stream PER SUBSCRIBER,
// and every stream's goroutine applies every event to the shared cluster.values[key] and then, outside the
// lock, to ALL listeners. The schedule below is forced with a change listener that blocks (a slow
// consumer, e.g. a gRPC ClientConn.UpdateState):
//
//	history:   rev1 put svc/1=A      rev2 delete svc/1      connection lost, reconnect, reload
//	stream a:  put svc/1 -> cluster.values, first subscriber told ... (stuck in that subscriber's change listener)
//	stream b:  put svc/1, delete svc/1 fully processed (values and both subscribers: svc/1 gone)
//	stream a:  ... resumes: tells the other subscriber "svc/1=A"; the connection drops before a receives rev2
//	reload:    snapshot {} == cluster.values {}  ->  nothing to remove
//
// No key is present, every delivered event has been processed, a reload has happened - yet one subscriber
// reports A for ever.
package internal_test

import (
	"sync/atomic"
	"testing"
	"time"

	"github.com/gotid/god/lib/discov"
	"github.com/gotid/god/lib/discov/internal"
)

func TestH7DuplicateWatchersStaleAfterReload(t *testing.T) {
	eps := []string{"h7-f2:2379"}
	etcd := newFakeEtcd(t)
	internal.SetClientForTest(eps, etcd)

	s1, err := discov.NewSubscriber(eps, "svc")
	if err != nil {
		t.Fatal(err)
	}
	s2, err := discov.NewSubscriber(eps, "svc")
	if err != nil {
		t.Fatal(err)
	}

	// the first change notification (whichever subscriber it is for) is slow
	var calls int32
	entered, gate := make(chan struct{}), make(chan struct{})
	slow := func() {
		if atomic.AddInt32(&calls, 1) == 1 {
			close(entered)
			<-gate
		}
	}
	s1.AddListener(slow)
	s2.AddListener(slow)

	// HEAD opens two streams (the second one right after NewSubscriber returned). An implementation with a
	// single stream per key is fine too: then there simply is no stream b.
	ws := etcd.waitWatchersUpTo(2, 500*time.Millisecond)
	if len(ws) == 0 {
		t.Fatal("no watch stream")
	}
	a, others := ws[0], ws[1:]

	e1 := etcd.put("svc/1", "A")
	doneA := make(chan struct{})
	go func() { a.deliver(e1); close(doneA) }()
	select {
	case <-entered: // stream a is inside the first subscriber's change listener
	case <-time.After(10 * time.Second):
		t.Fatal("no change listener ran for a delivered put")
	}

	e2 := etcd.del("svc/1")
	doneB := make(chan struct{})
	go func() {
		for _, b := range others {
			b.deliver(e1)
		}
		for _, b := range others {
			b.deliver(e2)
		}
		close(doneB)
	}()
	select {
	case <-doneB: // HEAD: stream b is not held up by stream a
	case <-time.After(500 * time.Millisecond): // an implementation that serialises dispatching: b waits for a
	}
	close(gate)
	<-doneA
	<-doneB

	// the connection drops before stream a receives rev2; reconnect and reload
	etcd.disconnect()
	etcd.reconnect()
	internal.ReloadForTest(eps, etcd)
	etcd.waitWatchers(1) // the reloaded key is watched again, i.e. its snapshot has been processed

	if v1, v2 := sortedVals(s1.Values()), sortedVals(s2.Values()); v1 != "[]" || v2 != "[]" {
		t.Fatalf("no key is present under svc/ after the reload, but subscriber 1 reports %s and subscriber 2 reports %s", v1, v2)
	}
}
