package internal

// Test-only exports for the external demo tests of this directory (package internal_test).

// SetClientForTest makes cli the shared connection of the cluster of endpoints, exactly where
// cluster.getClient caches the client it would otherwise dial.
func SetClientForTest(endpoints []string, cli EtcdClient) {
	connManager.Set(getClusterKey(append([]string(nil), endpoints...)), cli)
}

// ReloadForTest runs what the connection-state watcher starts when the connection is re-established.
func ReloadForTest(endpoints []string, cli EtcdClient) {
	c, _ := GetRegistry().getCluster(append([]string(nil), endpoints...))
	c.reload(cli)
}
