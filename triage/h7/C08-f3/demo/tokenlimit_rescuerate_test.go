// Demo for C08 / f3: the in-process fallback bucket is built with
// xrate.Every(time.Second/time.Duration(rate)).  The integer division
// truncates the interval to whole nanoseconds, so the fallback refills FASTER
// than `rate` whenever rate does not divide 1e9 (rate=300000 -> 3333 ns ->
// 300030 tokens/s; 6e8 < rate <= 1e9 -> 1 ns -> 1e9 tokens/s; rate > 1e9 ->
// 0 ns -> unlimited).
//
// Place this file in lib/limit/ (package limit) and run
//
//	go test -vet=off -count=1 -run TestTokenLimit_RescueRateIsExact ./lib/limit/
package limit

import (
	"testing"
	"time"

	"github.com/alicebob/miniredis/v2"
	"github.com/gotid/god/lib/store/redis"
)

func TestTokenLimit_RescueRateIsExact(t *testing.T) {
	s, err := miniredis.Run()
	if err != nil {
		t.Fatal(err)
	}

	const (
		rate  = 300000
		burst = 2 * rate
	)
	l := NewTokenLimiter(rate, burst, redis.New(s.Addr()), "f3-rescue-rate")
	s.Close() // Redis is gone: every decision below is taken by the in-process bucket

	sec := time.Unix(1_700_000_100, 0)

	// second s: the whole burst is taken, the bucket is empty
	if !l.AllowN(sec, burst) {
		t.Fatalf("the initial burst of %d must be granted", burst)
	}
	// second s+1: exactly `rate` tokens have been refilled, rate+1 are not available
	if l.AllowN(sec.Add(time.Second), rate+1) {
		t.Fatalf("%d tokens granted one second after the bucket was emptied, but rate is %d/s: "+
			"between second s and s+1 %d events were admitted, more than burst+rate*1 = %d "+
			"(fallback limiter refills at %v tokens/s)",
			rate+1, rate, burst+rate+1, burst+rate, float64(l.rescueLimiter.Limit()))
	}
}
