// Place this file at lib/collection/cache_expiry_race_test.go (package-internal test) and run:
//
//	go test -vet=off -count=1 -run 'TestCacheExpiryCallbackMustNotDropFreshValue' -timeout 20s ./lib/collection/
//
// The expiry of a key is executed by the timing wheel asynchronously: onTick removes the
// timer from the wheel and only then starts a goroutine that calls cache.Del(key).
// The test forces the schedule "tick fires k  ->  Set(k, fresh)  ->  expiry goroutine runs"
// by gating the wheel's execute callback with a channel (the callback itself is the
// unmodified closure built by NewCache). The fresh value, set 0 seconds ago with a 10s
// expiry, must survive; on HEAD the stale expiry deletes it.
package collection

import (
	"testing"
	"time"
)

type raceDemoTicker struct{ c chan time.Time }

func (m *raceDemoTicker) Chan() <-chan time.Time { return m.c }
func (m *raceDemoTicker) Stop()                  {}

func TestCacheExpiryCallbackMustNotDropFreshValue(t *testing.T) {
	cache, err := NewCache(10 * time.Second)
	if err != nil {
		t.Fatal(err)
	}

	// Re-home the cache on a wheel that is driven by a manual ticker and whose execute
	// callback (the one NewCache built) is delayed until the test opens the gate.
	entered := make(chan struct{}, 16)
	gate := make(chan struct{})
	finished := make(chan struct{}, 16)
	orig := cache.timingWheel
	execute := orig.execute
	orig.Stop()
	ticker := &raceDemoTicker{c: make(chan time.Time)}
	tw, err := newTimingWheelWithClock(time.Second, slots, func(k, v any) {
		entered <- struct{}{}
		<-gate
		execute(k, v)
		finished <- struct{}{}
	}, ticker)
	if err != nil {
		t.Fatal(err)
	}
	cache.timingWheel = tw
	defer tw.Stop()

	tick := func() {
		ticker.c <- time.Now()          // received by the wheel goroutine
		tw.RemoveTimer("__rendezvous__") // returns only after onTick has completed
	}

	cache.Set("k", "v1")

	// v1 expires after 9..10 ticks (10s -5%/+5%, floor to whole ticks).
	fired := false
	for i := 1; i <= 11 && !fired; i++ {
		tick()
		select {
		case <-entered:
			fired = true
			if i < 9 {
				t.Fatalf("v1 expired after %d ticks", i)
			}
		case <-time.After(50 * time.Millisecond):
		}
	}
	if !fired {
		t.Fatal("v1 never expired")
	}

	// The expiry of v1 is now in flight (its goroutine is parked at the gate, i.e. it has
	// not been scheduled yet). A new value is set for the key.
	cache.Set("k", "v2")
	if v, ok := cache.Get("k"); !ok || v != "v2" {
		t.Fatalf("right after Set: got %v %v", v, ok)
	}

	close(gate)
	select {
	case <-finished:
	case <-time.After(5 * time.Second):
		t.Fatal("expiry callback did not finish")
	}

	// v2 was set 0 ticks ago with a 10s expiry: it must still be there ...
	if v, ok := cache.Get("k"); !ok || v != "v2" {
		t.Fatalf("value set 0s ago with a 10s expiry was dropped by the stale expiry of the previous value: Get = %v, %v", v, ok)
	}

	// ... stay for 8 more ticks, and be gone after 11.
	for i := 0; i < 8; i++ {
		tick()
	}
	time.Sleep(20 * time.Millisecond)
	if v, ok := cache.Get("k"); !ok || v != "v2" {
		t.Fatalf("v2 dropped before 95%% of its expiry: Get = %v, %v", v, ok)
	}
	for i := 0; i < 3; i++ {
		tick()
	}
	deadline := time.Now().Add(5 * time.Second)
	for {
		if _, ok := cache.Get("k"); !ok {
			break
		}
		if time.Now().After(deadline) {
			t.Fatal("v2 still present after 11 ticks (110% of its expiry)")
		}
		time.Sleep(time.Millisecond)
	}
}
