// Place at: lib/mapping/h7c05_f12_same_kind_convert_panic_test.go (package mapping)
// Run:      go test -vet=off -count=1 -run TestH7C05F12 ./lib/mapping/
//
// Property C05: "Unmarshalling a JSON/YAML/map/form/path/header document into a tagged struct
// either fails with an error or yields a struct ...; it never panics."
// For a map document (UnmarshalKey / Unmarshaler.Unmarshal) whose value has the same reflect.Kind
// as the field but a type that cannot be converted to it, processFieldPrimitive takes the
// `typeKind == valueKind` branch and setSameKindValue calls reflect.Value.Convert unconditionally:
// a struct value of another struct type for a struct field panics instead of reporting a
// type mismatch.
package mapping

import (
	"testing"
	"time"
)

func TestH7C05F12_StructValueOfAnotherTypePanics(t *testing.T) {
	type Limits struct {
		Max int `key:"max"`
	}
	type OtherLimits struct {
		Max string
	}
	type Config struct {
		Name   string `key:"name"`
		Limits Limits `key:"limits"`
	}

	unmarshal := func(doc map[string]any, v any) (err error, panicked any) {
		defer func() { panicked = recover() }()
		return UnmarshalKey(doc, v), nil
	}

	// reference: a value of the field's own type, and a convertible one, are accepted
	var ok Config
	if err, p := unmarshal(map[string]any{"name": "n", "limits": Limits{Max: 3}}, &ok); err != nil || p != nil || ok.Limits.Max != 3 {
		t.Fatalf("reference: err=%v panic=%v v=%+v", err, p, ok)
	}

	var c Config
	err, p := unmarshal(map[string]any{"name": "n", "limits": OtherLimits{Max: "3"}}, &c)
	if p != nil {
		t.Fatalf("UnmarshalKey panicked: %v", p)
	}
	if err == nil {
		t.Fatalf("an OtherLimits value cannot become a Limits field, got %+v", c)
	}

	// also: a pointer field
	var pc struct {
		Limits *Limits `key:"limits"`
	}
	err, p = unmarshal(map[string]any{"limits": struct{}{}}, &pc)
	if p != nil {
		t.Fatalf("UnmarshalKey panicked: %v", p)
	}
	if err == nil {
		t.Fatalf("struct{}{} cannot become a *Limits field, got %+v", pc)
	}

	// convertible same-kind values keep working
	var d struct {
		Wait time.Duration `key:"wait"`
	}
	if err, p := unmarshal(map[string]any{"wait": int64(5)}, &d); err != nil || p != nil || d.Wait != 5 {
		t.Fatalf("int64 -> Duration: err=%v panic=%v v=%+v", err, p, d)
	}
}
