// Place at: api/httpc/h7c05_f3_nonscalar_parts_roundtrip_test.go (package httpc)
// Run:      go test -vet=off -count=1 -run TestH7C05F3 ./api/httpc/
//
// Property C05: "A request struct sent with the HTTP client helper (path, form, header and json
// parts) is parsed back by the server-side request parser into an equal struct."
// httpc.buildRequest renders every path/form/header value with fmt.Sprint.  For the supported
// field kinds pointer, slice and map that is not what httpx.Parse reads back:
//   *int      -> "0xc000012345" (the address)     server: cannot parse as int
//   nil *int  -> "<nil>" (optional field)          server: cannot parse as int
//   *string   -> the address text                  server: parses a DIFFERENT string, no error
//   []int     -> "[1 2]",  []string -> "[a b]"     server expects a JSON array
//   map       -> "map[a:1]"                        server expects a JSON object
package httpc

import (
	"context"
	"net/http"
	"net/http/httptest"
	"reflect"
	"testing"

	"github.com/gotid/god/api/httpx"
	"github.com/gotid/god/api/router"
)

func h7c05f3RoundTrip(t *testing.T, route string, in, out interface{}) {
	t.Helper()
	var parseErr error
	var called bool
	rt := router.NewRouter()
	if err := rt.Handle(http.MethodPost, route, http.HandlerFunc(func(w http.ResponseWriter, r *http.Request) {
		called = true
		parseErr = httpx.Parse(r, out)
	})); err != nil {
		t.Fatal(err)
	}
	svr := httptest.NewServer(http.HandlerFunc(rt.ServeHTTP))
	defer svr.Close()

	resp, err := Do(context.Background(), http.MethodPost, svr.URL+route, in)
	if err != nil {
		t.Fatalf("client: %v", err)
	}
	resp.Body.Close()
	if !called {
		t.Fatalf("handler not reached, status %d", resp.StatusCode)
	}
	if parseErr != nil {
		t.Fatalf("httpx.Parse rejected the request httpc.Do built: %v", parseErr)
	}
	if !reflect.DeepEqual(in, reflect.ValueOf(out).Elem().Interface()) {
		t.Fatalf("round trip changed the struct: sent %+v, parsed %+v", in, reflect.ValueOf(out).Elem().Interface())
	}
}

func TestH7C05F3_PointerInForm(t *testing.T) {
	type Req struct {
		Page *int `form:"page"`
	}
	five := 5
	var out Req
	h7c05f3RoundTrip(t, "/p", Req{Page: &five}, &out)
}

func TestH7C05F3_NilOptionalPointerInForm(t *testing.T) {
	type Req struct {
		Page *int `form:"page,optional"`
	}
	var out Req
	h7c05f3RoundTrip(t, "/p", Req{}, &out)
}

// no error at all here: the server silently receives another string
func TestH7C05F3_StringPointerInHeaderAndPath(t *testing.T) {
	type Req struct {
		ID    *string `path:"id"`
		Token *string `header:"X-Token"`
	}
	id, token := "n1", "secret"
	var out Req
	h7c05f3RoundTrip(t, "/p/:id", Req{ID: &id, Token: &token}, &out)
}

func TestH7C05F3_SlicesInFormAndHeader(t *testing.T) {
	type Req struct {
		IDs  []int    `form:"ids"`
		Tags []string `form:"tags"`
		Via  []string `header:"X-Via"`
	}
	var out Req
	h7c05f3RoundTrip(t, "/p", Req{IDs: []int{1, 2}, Tags: []string{"a b", "c,d"}, Via: []string{"x", "y"}}, &out)
}

func TestH7C05F3_MapInForm(t *testing.T) {
	type Req struct {
		Filter map[string]int `form:"filter"`
	}
	var out Req
	h7c05f3RoundTrip(t, "/p", Req{Filter: map[string]int{"a": 1, "b": 2}}, &out)
}
