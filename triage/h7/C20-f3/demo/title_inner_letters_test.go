// Demo for C20 / f3: the Title style ("Go" / "Designer") is rendered with strings.Title,
// which upper-cases the letter after EVERY separator inside a word (ASCII punctuation,
// ASCII or unicode space), not only the word's first letter. A word of the identifier
// (words are delimited only by underscores and upper-case letters) that contains such a
// character gets inner capitals although the casing of "Go" is "first letter upper, rest lower".
//
// Place: tools/god/util/format/title_inner_letters_test.go (package-internal).
// tools/god cannot be resolved offline in place; copy tools/god/util/format into a scratch
// module (go.mod: module scratch; go 1.19; require github.com/stretchr/testify v1.8.1; cp go.sum):
//   GOFLAGS=-mod=mod GOPROXY=off GOSUMDB=off go test -vet=off -count=1 -run TestTitleStyleOnlyFirstLetter ./util/format
package format

import "testing"

func TestTitleStyleOnlyFirstLetter(t *testing.T) {
	cases := []struct{ tpl, id, want string }{
		// one word "order-items" (MySQL allows `order-items` as a quoted table name)
		{"Go_designer", "order-items", "Order-items"},
		// words: o'neil | profile
		{"go_Designer", "user_o'neil", "user_O'neil"},
		// words: "café bar" (NO-BREAK SPACE inside the word) | baz
		{"Go_Designer", "café bar_baz", "Café bar_Baz"},
		// words: v1.beta | api
		{"Go_Designer", "v1.beta_api", "V1.beta_Api"},
		// control (already works)
		{"Go_Designer", "welcome_to", "Welcome_To"},
		{"Go_Designer", "école_x", "École_X"},
	}
	for _, c := range cases {
		got, err := FileNamingFormat(c.tpl, c.id)
		if err != nil {
			t.Errorf("FileNamingFormat(%q, %q): unexpected error %v", c.tpl, c.id, err)
			continue
		}
		if got != c.want {
			t.Errorf("FileNamingFormat(%q, %q) = %q, want %q (Title style capitalises only the first letter of a word)", c.tpl, c.id, got, c.want)
		}
	}
}
