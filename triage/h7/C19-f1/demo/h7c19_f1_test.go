package logx

// Demo for property C19, finding f1.
// Place this file as lib/logx/h7c19_f1_test.go and run
//   go test -vet=off -count=1 -run TestH7C19F1 ./lib/logx/
//
// Size rule, 1 MB maximum, no retention limits, no compression. The logger is
// opened and the first size-triggered rotation happens within the same
// wall-clock second (a burst right after start, or a restart on an almost full
// file). The following size-triggered rotations happen more than one second
// after the preceding one, as the property's quantifier demands. Every accepted
// record must then be present in the current file or in exactly one backup.

import (
	"bytes"
	"fmt"
	"os"
	"path/filepath"
	"sort"
	"testing"
	"time"
)

func TestH7C19F1_SecondRotationReplacesFirstBackup(t *testing.T) {
	dir := t.TempDir()
	filename := filepath.Join(dir, "access.log")

	const recLen = 64 << 10 // 64 KiB records, 16 of them fill 1 MB exactly
	record := func(i int) []byte {
		head := fmt.Sprintf("record-%04d ", i)
		rec := append([]byte(head), bytes.Repeat([]byte{'a' + byte(i%26)}, recLen-len(head)-1)...)
		return append(rec, '\n')
	}

	var (
		logger *RotateLogger
		want   [][]byte
	)
	writeN := func(n int) {
		for i := 0; i < n; i++ {
			rec := record(len(want))
			want = append(want, rec)
			// synchronous counterpart of Write, as in the package's own tests
			logger.write(rec)
		}
	}

	// open the logger early in a wall-clock second, so that the first rotation
	// (a few milliseconds later) falls into the same second.
	for attempt := 0; ; attempt++ {
		for time.Now().Nanosecond() > 200_000_000 {
			time.Sleep(5 * time.Millisecond)
		}
		opened := time.Now()
		var err error
		logger, err = NewLogger(filename, NewSizeLimitRotateRule(filename, "-", 0, 1, 0, false), false)
		if err != nil {
			t.Fatal(err)
		}
		want = nil
		writeN(17) // record 16 does not fit any more: rotation 1
		if time.Now().Unix() == opened.Unix() {
			break
		}
		// too slow this time: start over in a clean directory
		logger.Close()
		if attempt == 5 {
			t.Skip("could not place the opening and the first rotation into one second")
		}
		time.Sleep(1100 * time.Millisecond)
		files, _ := filepath.Glob(filepath.Join(dir, "*"))
		for _, f := range files {
			os.Remove(f)
		}
	}

	time.Sleep(1100 * time.Millisecond) // rotations at least one second apart
	writeN(16)                          // record 32 does not fit any more: rotation 2
	time.Sleep(1100 * time.Millisecond)
	writeN(16) // record 48 does not fit any more: rotation 3
	if err := logger.Close(); err != nil {
		t.Fatal(err)
	}

	// read everything back: backups in name order (= time order), then the current file
	backups, err := filepath.Glob(filepath.Join(dir, "access-*.log"))
	if err != nil {
		t.Fatal(err)
	}
	sort.Strings(backups)
	var got []byte
	for _, f := range append(backups, filename) {
		content, err := os.ReadFile(f)
		if err != nil {
			t.Fatal(err)
		}
		t.Logf("%s: %d bytes", filepath.Base(f), len(content))
		got = append(got, content...)
	}

	if len(backups) != 3 {
		t.Errorf("3 rotations happened, want 3 backups, got %d", len(backups))
	}
	var missing []int
	for i, rec := range want {
		if !bytes.Contains(got, rec) {
			missing = append(missing, i)
		}
	}
	if len(missing) > 0 {
		t.Errorf("%d of %d records are in neither the current file nor a backup: %v",
			len(missing), len(want), missing)
	}
	if !bytes.Equal(got, bytes.Join(want, nil)) {
		t.Errorf("backups + current file hold %d bytes, the written records are %d bytes",
			len(got), len(bytes.Join(want, nil)))
	}
}
