// Demo for C03 finding f1: a pattern that uses the same ':name' twice is accepted,
// and the second occurrence is never bound to its path segment.
//
// Place this file at api/router/dupparam_demo_test.go (package router) and run:
//
//	go test -vet=off -count=1 -run TestDemoDuplicateParamName ./api/router/
//
// It fails on the unmodified HEAD and passes once such a pattern is rejected at
// registration (the only sound answer while path variables are a map[string]string).
package router

import (
	"net/http"
	"net/http/httptest"
	"testing"

	"github.com/gotid/god/api/pathvar"
)

func TestDemoDuplicateParamName(t *testing.T) {
	for _, tc := range []struct {
		pattern string
		request string
		segs    []string // the segments the two ':id' stand for, in pattern order
	}{
		{"/users/:id/posts/:id", "/users/1/posts/2", []string{"1", "2"}},
		{"/:id/:id", "/1/2", []string{"1", "2"}},
	} {
		r := NewRouter()
		var ran bool
		var vars map[string]string
		err := r.Handle(http.MethodGet, tc.pattern, http.HandlerFunc(
			func(w http.ResponseWriter, req *http.Request) {
				ran = true
				vars = pathvar.Vars(req)
			}))
		if err != nil {
			// rejected at registration: nothing can be mis-bound.
			continue
		}

		req := httptest.NewRequest(http.MethodGet, "http://localhost"+tc.request, nil)
		r.ServeHTTP(httptest.NewRecorder(), req)
		if !ran {
			t.Errorf("%s: accepted pattern does not match %s", tc.pattern, tc.request)
			continue
		}

		// The pattern was accepted and matched, so each ':id' has to be bound to its own
		// segment. A single map entry can hold only one of them.
		for i, seg := range tc.segs {
			if vars["id"] != seg {
				t.Errorf("pattern %s, request %s: ':id' #%d corresponds to segment %q, "+
					"but the handler sees vars=%v (the pattern was neither rejected nor fully bound)",
					tc.pattern, tc.request, i+1, seg, vars)
			}
		}
	}
}
