// Demo for C14 finding f1: the success score is truncated towards zero on every
// completion, so under steady traffic it can only fall and never rises again.
//
// Place this file in rpc/internal/balancer/p2c/ (package p2c, in-package test) and run
//
//	go test -vet=off -count=1 -run 'TestC14SuccessScore' -timeout 20s ./rpc/internal/balancer/p2c/
//
// Both tests FAIL on the unmodified HEAD and pass once the score is no longer
// rounded against acceptable completions.
package p2c

import (
	"context"
	"math"
	"strconv"
	"sync/atomic"
	"testing"
	"time"

	"google.golang.org/grpc/balancer"
	"google.golang.org/grpc/balancer/base"
	"google.golang.org/grpc/codes"
	"google.golang.org/grpc/resolver"
	"google.golang.org/grpc/status"
)

func c14NewPicker(n int) *p2cPicker {
	ready := make(map[balancer.SubConn]base.SubConnInfo)
	for i := 0; i < n; i++ {
		ready[mockClientConn{id: strconv.Itoa(i)}] = base.SubConnInfo{
			Address: resolver.Address{Addr: strconv.Itoa(i)},
		}
	}
	return new(p2cPickerBuilder).Build(base.PickerBuildInfo{ReadySCs: ready}).(*p2cPicker)
}

// c14Spin paces the traffic without depending on the timer granularity.
func c14Spin(d time.Duration) {
	for start := time.Now(); time.Since(start) < d; {
	}
}

var c14Unavailable = status.Error(codes.Unavailable, "backend down")

// One failed call, then the backend has recovered: 3 seconds of traffic at
// about 2000 calls per second, every call acceptable. An EWMA with a 10s decay
// must have climbed to 1000*(1-exp(-elapsed/10s)) (about 260 after 3s); the
// test only asks for half of that.
func TestC14SuccessScoreRisesOnAcceptableCompletions(t *testing.T) {
	p := c14NewPicker(1)
	c := p.conns[0]

	r, err := p.Pick(balancer.PickInfo{Ctx: context.Background()})
	if err != nil {
		t.Fatal(err)
	}
	r.Done(balancer.DoneInfo{Err: c14Unavailable})
	if got := atomic.LoadUint64(&c.success); got != 0 {
		t.Fatalf("setup: the first completion replaces the score, want 0, got %d", got)
	}

	begin := time.Now()
	const calls = 6000
	for i := 0; i < calls; i++ {
		r, err := p.Pick(balancer.PickInfo{Ctx: context.Background()})
		if err != nil {
			t.Fatal(err)
		}
		c14Spin(500 * time.Microsecond)
		r.Done(balancer.DoneInfo{})
	}
	elapsed := time.Since(begin)

	exact := initSuccess * (1 - math.Exp(-float64(elapsed)/float64(decayTime)))
	got := atomic.LoadUint64(&c.success)
	t.Logf("%d acceptable completions in %v: score %d, exact EWMA %.0f", calls, elapsed, got, exact)
	if float64(got) < exact/2 {
		t.Errorf("score did not move towards %d on acceptable completions: got %d after %d of them in %v (exact EWMA: %.0f)",
			initSuccess, got, calls, elapsed, exact)
	}
}

// A backend that answers 90% of its calls acceptably, at about 3000 calls per
// second. Its exact score hovers around 900; it must stay healthy (> 500).
// On HEAD every failure costs at least one point and no success ever gives one
// back, so 10% errors make the backend unhealthy, and it stays so.
func TestC14SuccessScoreOfMostlyGoodBackendStaysHealthy(t *testing.T) {
	p := c14NewPicker(1)
	c := p.conns[0]

	const calls = 8000
	for i := 0; i < calls; i++ {
		r, err := p.Pick(balancer.PickInfo{Ctx: context.Background()})
		if err != nil {
			t.Fatal(err)
		}
		c14Spin(300 * time.Microsecond)
		if i%10 == 9 {
			r.Done(balancer.DoneInfo{Err: c14Unavailable})
		} else {
			r.Done(balancer.DoneInfo{})
		}
	}

	got := atomic.LoadUint64(&c.success)
	t.Logf("score after %d completions, 10%% of them failures: %d", calls, got)
	if !c.healthy() {
		t.Errorf("a backend with 90%% acceptable completions became unhealthy: score %d (threshold %d)",
			got, throttleSuccess)
	}
}
