// Demo for property C13 (consistent hashing is stable, total and minimally disruptive).
//
// Place this file at lib/hash/phantom_replica_test.go (package hash) and run:
//
//	go test -vet=off -count=1 -timeout 20s -run 'TestC13Phantom' ./lib/hash/
//
// Remove (and therefore every re-Add, which calls Remove first) walks ALL
// h.replicas replica names "<node><i>" of the node, also the ones the node never
// owned because it was added with a reduced weight / replica count.  The name of such
// a phantom replica can be the name of a REAL virtual node of another node
// ("node1"+"10" == "node11"+"0"); Remove then deletes that other node's position
// from the sorted key list.  No two nodes ever share a ring position in these
// histories (asserted below), so the case is not a ring-position collision.
package hash

import (
	"strconv"
	"testing"
)

const c13Keys = 20000

func c13Assign(t *testing.T, ch *ConsistentHash) map[int]string {
	t.Helper()
	m := make(map[int]string, c13Keys)
	for i := 0; i < c13Keys; i++ {
		v, ok := ch.Get("key-" + strconv.Itoa(i))
		if !ok {
			t.Fatalf("Get(key-%d) reports absence although nodes of positive weight are present", i)
		}
		m[i] = v.(string)
	}
	return m
}

// no ring position is shared by two nodes: the history is inside the quantifier.
func c13NoCollision(t *testing.T, ch *ConsistentHash) {
	t.Helper()
	for pos, nodes := range ch.ring {
		if len(nodes) != 1 {
			t.Fatalf("unexpected ring-position collision at %d: %v", pos, nodes)
		}
	}
}

// Removing a node must only move the keys that were assigned to it.
func TestC13PhantomReplicaRemove(t *testing.T) {
	ch := NewConsistentHash()
	ch.AddWithWeight("node1", 10) // 10 virtual nodes: node10 .. node19
	ch.Add("node11")              // 100 virtual nodes: node110 .. node1199
	ch.Add("node2")
	c13NoCollision(t, ch)

	before := c13Assign(t, ch)
	ch.Remove("node1")
	after := c13Assign(t, ch)

	moved := 0
	for k, was := range before {
		if was != "node1" && after[k] != was {
			if moved < 5 {
				t.Errorf("key-%d was on %s (not the removed node) and moved to %s", k, was, after[k])
			}
			moved++
		}
	}
	if moved > 0 {
		t.Errorf("%d keys that were NOT assigned to the removed node changed their node", moved)
	}
}

// Re-adding a node (same weight) must not move any key between two OTHER nodes.
func TestC13PhantomReplicaReAdd(t *testing.T) {
	ch := NewConsistentHash()
	ch.AddWithWeight("node1", 10)
	ch.Add("node11")
	ch.Add("node2")
	c13NoCollision(t, ch)

	before := c13Assign(t, ch)
	ch.AddWithWeight("node1", 10) // identical membership afterwards
	c13NoCollision(t, ch)
	after := c13Assign(t, ch)

	moved := 0
	for k, was := range before {
		if after[k] != was {
			if moved < 5 {
				t.Errorf("key-%d moved %s -> %s although membership and weights are unchanged", k, was, after[k])
			}
			moved++
		}
	}
	if moved > 0 {
		t.Errorf("%d keys changed their node by re-adding node1 with its old weight", moved)
	}
}

// A weight-0 node owns nothing; removing it must not disturb the only serving node.
func TestC13PhantomReplicaZeroWeightPanic(t *testing.T) {
	ch := NewConsistentHash()
	ch.AddWithWeight("node1", 0)     // member, no virtual nodes
	ch.AddWithReplicas("node11", 10) // virtual nodes node110 .. node119
	c13NoCollision(t, ch)

	v, ok := ch.Get("some-key")
	if !ok || v != "node11" {
		t.Fatalf("before: got %v %v, want node11", v, ok)
	}

	ch.Remove("node1")

	defer func() {
		if r := recover(); r != nil {
			t.Fatalf("Get panicked after removing the weight-0 node: %v", r)
		}
	}()
	v, ok = ch.Get("some-key")
	if !ok || v != "node11" {
		t.Fatalf("after Remove(node1): got %v %v, want node11 true", v, ok)
	}
}
