package executors

// Place in lib/executors/ (package-internal: it peeks at the container length
// through be.executor.Sync to know that Add(4) has passed the hand-over point).
// Run: go test -vet=off -count=1 -run TestH7WaitMissesHandedOverBatch ./lib/executors/

import (
	"sync"
	"testing"
	"time"
)

// History: threshold 2. Batch 1 (tasks 1,2) is executing on the flusher and
// is held there. Add(3) returns. Add(4) reaches the threshold: it removes
// [3 4] from the container and hands them to the flusher (commander channel);
// the flusher is busy, so the batch is neither in the container nor counted in
// the wait group. Wait() is called now: task 3 was added (its Add returned)
// before Wait. Batch 1 is released. Wait must not return before [3 4] finished.
func TestH7WaitMissesHandedOverBatch(t *testing.T) {
	var mu sync.Mutex
	finished := map[int]bool{}
	started := make(chan []any, 4)
	release := make(chan struct{})

	be := NewBulkExecutor(func(tasks []any) {
		started <- tasks
		<-release
		mu.Lock()
		for _, v := range tasks {
			finished[v.(int)] = true
		}
		mu.Unlock()
	}, WithBulkTasks(2), WithBulkInterval(time.Hour))

	be.Add(1)
	be.Add(2) // batch 1 handed over; returns once the flusher confirmed
	select {
	case <-started:
	case <-time.After(5 * time.Second):
		t.Fatal("batch 1 never started")
	}

	be.Add(3) // returns: task 3 is "added before Wait"
	add4 := make(chan struct{})
	go func() {
		be.Add(4) // reaches threshold, removes [3 4], blocks until the flusher confirms
		close(add4)
	}()
	// wait until [3 4] left the container (Add(4) is past addAndCheck)
	deadline := time.Now().Add(5 * time.Second)
	for {
		var n int
		be.executor.Sync(func() { n = len(be.container.tasks) })
		if n == 0 {
			break
		}
		if time.Now().After(deadline) {
			t.Fatal("Add(4) did not reach the hand-over")
		}
		time.Sleep(time.Millisecond)
	}
	// (Add(3) left task 3 in the container, so len == 0 only after Add(4) removed [3 4].)

	waitDone := make(chan struct{})
	go func() {
		be.Wait()
		close(waitDone)
	}()
	time.Sleep(50 * time.Millisecond) // let Wait reach waitGroup.Wait (blocked on batch 1)

	release <- struct{}{} // batch 1 finishes

	select {
	case <-waitDone:
		mu.Lock()
		f3 := finished[3]
		mu.Unlock()
		if !f3 {
			t.Errorf("Wait returned although task 3 (added before Wait) has not been executed; finished=%v", finished)
		}
		// let batch 2 finish so that nothing leaks
		select {
		case <-started:
			release <- struct{}{}
		case <-time.After(5 * time.Second):
		}
	case b := <-started:
		// correct behaviour: batch 2 starts while Wait is still blocked
		if len(b) != 2 || b[0].(int) != 3 || b[1].(int) != 4 {
			t.Errorf("unexpected batch 2: %v", b)
		}
		select {
		case <-waitDone:
			t.Errorf("Wait returned while batch [3 4] is still executing")
		case <-time.After(200 * time.Millisecond):
		}
		release <- struct{}{}
		select {
		case <-waitDone:
		case <-time.After(5 * time.Second):
			t.Fatal("Wait never returned")
		}
	case <-time.After(5 * time.Second):
		t.Fatal("neither Wait returned nor batch 2 started")
	}
	<-add4
}
