// Place at: api/httpc/h7c05_f1_uint64_roundtrip_test.go (package httpc)
// Run:      go test -vet=off -count=1 -run TestH7C05F1 ./api/httpc/
//
// Property C05: "A request struct sent with the HTTP client helper (path, form, header and json
// parts) is parsed back by the server-side request parser into an equal struct" and "every field
// equals the document's value exactly".
//
// A uint64 field in the json part whose value is >= 2^63 is sent correctly by httpc.Do
// (encoding/json writes 9223372036854775808) but httpx.Parse rejects it: lib/mapping converts
// every json number for an unsigned field through json.Number.Int64().  The very same value in
// the form part (string mode, strconv.ParseUint) is accepted.
package httpc

import (
	"context"
	"math"
	"net/http"
	"net/http/httptest"
	"testing"

	"github.com/gotid/god/api/httpx"
	"github.com/gotid/god/api/router"
	"github.com/gotid/god/lib/mapping"
)

func TestH7C05F1_Uint64JsonRoundTrip(t *testing.T) {
	type Req struct {
		Form uint64 `form:"f"`
		Body uint64 `json:"b"`
		Max  uint64 `json:"m"`
	}

	in := Req{Form: 1 << 63, Body: 1 << 63, Max: math.MaxUint64}

	var out Req
	var parseErr error
	var called bool
	rt := router.NewRouter()
	if err := rt.Handle(http.MethodPost, "/n", http.HandlerFunc(func(w http.ResponseWriter, r *http.Request) {
		called = true
		parseErr = httpx.Parse(r, &out)
	})); err != nil {
		t.Fatal(err)
	}
	svr := httptest.NewServer(http.HandlerFunc(rt.ServeHTTP))
	defer svr.Close()

	resp, err := Do(context.Background(), http.MethodPost, svr.URL+"/n", in)
	if err != nil {
		t.Fatalf("client: %v", err)
	}
	resp.Body.Close()
	if !called {
		t.Fatalf("handler not reached, status %d", resp.StatusCode)
	}
	if parseErr != nil {
		t.Fatalf("httpx.Parse rejected the request built by httpc.Do from %+v: %v", in, parseErr)
	}
	if out != in {
		t.Fatalf("round trip changed the struct: sent %+v, parsed %+v", in, out)
	}
}

// The same defect seen directly on a document: a well-typed, in-range value is refused.
func TestH7C05F1_Uint64Document(t *testing.T) {
	var v struct {
		A uint64 `json:"a"`
	}
	if err := mapping.UnmarshalJsonBytes([]byte(`{"a":18446744073709551615}`), &v); err != nil {
		t.Fatalf("max uint64 into a uint64 field: %v", err)
	}
	if v.A != math.MaxUint64 {
		t.Fatalf("got %d", v.A)
	}

	// still rejected: out of range / negative
	for _, doc := range []string{`{"a":18446744073709551616}`, `{"a":-1}`, `{"a":1.5}`} {
		if err := mapping.UnmarshalJsonBytes([]byte(doc), &v); err == nil {
			t.Fatalf("%s must be rejected, got %d", doc, v.A)
		}
	}
}
