// Place at: api/handler/c04_nbf_overflow_test.go (package handler)
// Run:  go test -vet=off -count=1 -run 'TestC04NotBeforeOverflow' ./api/handler/
//
// Property C04: "A JWT-protected route runs its handler iff the request carries a
// bearer token whose HMAC signature verifies ... and whose time claims are valid;
// ... otherwise the answer is 401 and the handler does not run."
//
// A correctly signed token whose nbf (or iat) lies absurdly far in the FUTURE
// (e.g. 1e30 seconds, or 1e19 > MaxInt64) is "not valid yet", but the gate admits
// it: golang-jwt v4.4.3 converts the seconds float64 -> int64 -> time.Time
// (newNumericDateFromSeconds); out of range values wrap around to the distant
// past (on amd64 int64(1e30) == MinInt64), so VerifyNotBefore/VerifyIssuedAt pass.
// Authorize / token.Parser rely on that check alone.
// (Demonstrated on linux/amd64, the platform of this study.)
package handler

import (
	"fmt"
	"net/http"
	"net/http/httptest"
	"testing"
	"time"

	"github.com/golang-jwt/jwt/v4"
)

func TestC04NotBeforeOverflow(t *testing.T) {
	const (
		secret     = "B63F477D-BBA3-4E52-96D3-C0034C27694A"
		prevSecret = "14F17379-EB8F-411B-8F12-6929002DCA76"
	)
	now := time.Now().Unix()

	tests := []struct {
		name   string
		claims jwt.MapClaims
		admit  bool
	}{
		// sanity: ordinary tokens behave
		{"valid", jwt.MapClaims{"exp": now + 3600, "nbf": now - 10, "iat": now - 10, "uid": 1}, true},
		{"nbf in one hour", jwt.MapClaims{"exp": now + 7200, "nbf": now + 3600, "uid": 1}, false},
		// not-yet-valid tokens that must be refused
		{"nbf=1e30", jwt.MapClaims{"nbf": 1e30, "uid": 1}, false},
		{"nbf=1e19", jwt.MapClaims{"nbf": 1e19, "uid": 1}, false},
		{"iat=1e30", jwt.MapClaims{"iat": 1e30, "uid": 1}, false},
		{"nbf=1e30 with exp", jwt.MapClaims{"exp": now + 3600, "nbf": 1e30, "uid": 1}, false},
	}

	for _, signWith := range []string{secret, prevSecret} {
		for _, test := range tests {
			t.Run(fmt.Sprintf("%s/%s", signWith[:8], test.name), func(t *testing.T) {
				tok := jwt.New(jwt.SigningMethodHS256)
				tok.Claims = test.claims
				signed, err := tok.SignedString([]byte(signWith))
				if err != nil {
					t.Fatal(err)
				}

				ran := false
				h := Authorize(secret, WithPrevSecret(prevSecret))(
					http.HandlerFunc(func(w http.ResponseWriter, r *http.Request) { ran = true }))
				req := httptest.NewRequest(http.MethodGet, "http://localhost/", http.NoBody)
				req.Header.Set("Authorization", "Bearer "+signed)
				resp := httptest.NewRecorder()
				h.ServeHTTP(resp, req)

				if test.admit {
					if !ran || resp.Code != http.StatusOK {
						t.Fatalf("valid token refused: code=%d ran=%v", resp.Code, ran)
					}
					return
				}
				if ran {
					t.Errorf("handler ran for a token that is not valid yet (claims %v)", test.claims)
				}
				if resp.Code != http.StatusUnauthorized {
					t.Errorf("code=%d, want 401 (claims %v)", resp.Code, test.claims)
				}
			})
		}
	}
}
