// Demo for C11 finding f5: when the body returns an error and the driver's
// Rollback fails too, Transact returns a new error that does not carry the
// function's error (only its text): errors.Is / errors.As on the body's error
// stop working exactly when a Rollback fault is combined with a body error.
//
// Place this file at lib/store/sqlx/c11_rollbackerr_demo_test.go and run
//
//	go test -vet=off -count=1 -run 'TestC11Demo_RollbackFault' ./lib/store/sqlx/
package sqlx_test

import (
	"errors"
	"testing"

	"github.com/DATA-DOG/go-sqlmock"
	"github.com/gotid/god/lib/logx"
	"github.com/gotid/god/lib/store/sqlx"
)

type c11InsufficientFunds struct{ Missing int64 }

func (e *c11InsufficientFunds) Error() string { return "insufficient funds" }

func TestC11Demo_RollbackFaultKeepsFunctionError(t *testing.T) {
	logx.Disable()

	db, mock, err := sqlmock.New()
	if err != nil {
		t.Fatal(err)
	}
	defer db.Close()
	conn := sqlx.NewConnFromDB(db)

	errRollback := errors.New("driver: rollback failed")
	fnErr := &c11InsufficientFunds{Missing: 5}

	// control: without the Rollback fault the function's error comes back as is
	mock.ExpectBegin()
	mock.ExpectRollback()
	if got := conn.Transact(func(sqlx.Session) error { return fnErr }); got != error(fnErr) {
		t.Fatalf("control: want the function's error, got %v", got)
	}

	// same body, Rollback fault injected
	mock.ExpectBegin()
	mock.ExpectRollback().WillReturnError(errRollback)
	got := conn.Transact(func(sqlx.Session) error { return fnErr })
	if got == nil {
		t.Fatal("want an error")
	}
	t.Logf("returned: %v", got)

	var target *c11InsufficientFunds
	if !errors.Is(got, fnErr) || !errors.As(got, &target) {
		t.Errorf("the returned error is not (and does not wrap) the function's error: errors.Is=%v errors.As=%v",
			errors.Is(got, fnErr), errors.As(got, &target))
	}
	if err := mock.ExpectationsWereMet(); err != nil {
		t.Errorf("exactly one Begin/Rollback per call expected: %v", err)
	}
}
