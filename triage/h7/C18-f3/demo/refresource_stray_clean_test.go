// Place in lib/syncx/ (package syncx) and run from the repository root:
//
//	go test -vet=off -count=1 -timeout 20s -run TestDemoRefResourceStrayClean ./lib/syncx/
//
// C18: "A reference-counted resource is cleaned exactly once, when its uses
// drop to zero, and refuses further use".
//
// History: Clean() on a resource nobody uses, then two users A and B call
// Use(), then A calls Clean(). On HEAD the stray Clean drives the counter to
// -1, the two Use calls bring it to 1 and A's Clean to 0: clean() runs while
// B still uses the resource. (With a single user instead - Clean, Use, Clean -
// the counter ends at -1 and the resource is never cleaned.)
//
// The test accepts both sensible sequential specifications of a Clean on an
// unused resource: (a) it is ignored, (b) it cleans at once (uses are zero)
// and every later Use is refused.
package syncx

import "testing"

func TestDemoRefResourceStrayClean(t *testing.T) {
	var cleaned int
	r := NewRefResource(func() { cleaned++ })

	r.Clean() // nobody uses the resource

	if err := r.Use(); err != nil { // user A
		// specification (b): cleaned at once, refuses further use.
		if err != ErrUseOfCleaned || cleaned != 1 {
			t.Fatalf("Use = %v, cleaned = %d", err, cleaned)
		}
		return
	}
	if cleaned != 0 {
		t.Fatalf("Use succeeded on a resource already cleaned %d times", cleaned)
	}
	if err := r.Use(); err != nil { // user B
		t.Fatalf("second Use = %v", err)
	}

	r.Clean() // A is done, B still uses the resource
	if cleaned != 0 {
		t.Fatalf("resource cleaned %d time(s) while one of its two uses is still outstanding", cleaned)
	}
	if err := r.Use(); err != nil {
		t.Fatalf("Use while B still holds the resource = %v", err)
	}
	r.Clean()
	r.Clean() // B is done: uses drop to zero
	if cleaned != 1 {
		t.Fatalf("cleaned %d times after all uses were released, want exactly 1", cleaned)
	}
	if err := r.Use(); err != ErrUseOfCleaned {
		t.Fatalf("Use after clean = %v, want ErrUseOfCleaned", err)
	}
}
