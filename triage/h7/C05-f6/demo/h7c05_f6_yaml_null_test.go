// Place at: lib/conf/h7c05_f6_yaml_null_test.go (package conf)
// Run:      go test -vet=off -count=1 -run TestH7C05F6 ./lib/conf/
//
// Property C05: "The same content written as JSON or as YAML yields the same struct."
// A null value is the same content in both notations (`"a": null` / `a: null`, `a: ~`, `a:`).
// internal/encoding.YamlToJson turns a YAML null into the empty STRING "" (lang.Repr(nil)), so
// the YAML loaders see `"a": ""` where the JSON loaders see `"a": null`:
//   - optional int / *int / slice / struct field: JSON -> field stays zero, YAML -> error;
//   - required string field: JSON -> error (字段 a 不能为空), YAML -> accepted as "";
//   - a null inside a map[string]any: JSON -> nil, YAML -> "".
package conf

import (
	"reflect"
	"testing"

	"github.com/gotid/god/lib/mapping"
)

func TestH7C05F6_YamlNullVsJsonNull(t *testing.T) {
	type Inner struct {
		X int `json:"x,optional"`
	}
	type Config struct {
		Port    int            `json:"port,optional"`
		Limit   *int           `json:"limit,optional"`
		Hosts   []string       `json:"hosts,optional"`
		Inner   Inner          `json:"inner,optional"`
		Labels  map[string]any `json:"labels,optional"`
		Comment string         `json:"comment,optional"`
	}

	jsonDoc := `{"port": null, "limit": null, "hosts": null, "inner": null, "labels": {"a": null, "b": 1}, "comment": null}`
	yamlDoc := "port: null\nlimit: ~\nhosts:\ninner: null\nlabels:\n  a: null\n  b: 1\ncomment: null\n"

	for name, pair := range map[string][2]func(*Config) error{
		"mapping": {
			func(c *Config) error { return mapping.UnmarshalJsonBytes([]byte(jsonDoc), c) },
			func(c *Config) error { return mapping.UnmarshalYamlBytes([]byte(yamlDoc), c) },
		},
		"conf": {
			func(c *Config) error { return LoadFromJsonBytes([]byte(jsonDoc), c) },
			func(c *Config) error { return LoadFromYamlBytes([]byte(yamlDoc), c) },
		},
	} {
		var fromJson, fromYaml Config
		errJson, errYaml := pair[0](&fromJson), pair[1](&fromYaml)
		if errJson != nil {
			t.Fatalf("%s: the JSON document is expected to load: %v", name, errJson)
		}
		if errYaml != nil {
			t.Errorf("%s: JSON loads to %+v, the same content as YAML fails: %v", name, fromJson, errYaml)
			continue
		}
		if !reflect.DeepEqual(fromJson, fromYaml) {
			t.Errorf("%s: JSON -> %#v, YAML -> %#v", name, fromJson, fromYaml)
		}
	}
}

func TestH7C05F6_RequiredFieldGivenAsNull(t *testing.T) {
	type Config struct {
		Name string `json:"name"`
	}

	var fromJson, fromYaml Config
	errJson := mapping.UnmarshalJsonBytes([]byte(`{"name": null}`), &fromJson)
	errYaml := mapping.UnmarshalYamlBytes([]byte("name: null\n"), &fromYaml)
	if errJson == nil {
		t.Fatalf("reference: JSON null for a required field is refused, got %+v", fromJson)
	}
	if errYaml == nil {
		t.Errorf("JSON refuses `name: null` (%v) but YAML accepts it as %+v", errJson, fromYaml)
	}
}
