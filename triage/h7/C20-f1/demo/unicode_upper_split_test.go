// Demo for C20 / f1: split() breaks words only before ASCII 'A'..'Z'; an identifier with a
// non-ASCII upper-case letter (É, Ä, Я, Σ ...) is not split before that letter.
//
// Place: tools/god/util/format/unicode_upper_split_test.go (package-internal).
// tools/god is a separate module that cannot be resolved offline in place; copy
// tools/god/util/format into a scratch module (go.mod: module scratch; go 1.19;
// require github.com/stretchr/testify v1.8.1; cp the repo's go.sum) and run there:
//   GOFLAGS=-mod=mod GOPROXY=off GOSUMDB=off go test -vet=off -count=1 -run TestUnicodeUpperCaseSplits ./util/format
package format

import "testing"

func TestUnicodeUpperCaseSplits(t *testing.T) {
	cases := []struct{ tpl, id, want string }{
		// words: user | École  -> lower, joined by "_"
		{"go_designer", "userÉcole", "user_école"},
		// words: user | École | Name
		{"go_designer", "userÉcoleName", "user_école_name"},
		// words: Über | Name, same rule as ASCII "UserName" -> "user_name"
		{"go_designer", "ÜberName", "über_name"},
		// words: имя | Файла ; first word casing of "Go", others casing of "Designer"
		{"Go#Designer", "имяФайла", "Имя#Файла"},
		// words: a | Éb ; upper first word, lower others
		{"GO-designer", "aÉb", "A-éb"},
		// ASCII control (already works): words user | Ecole
		{"go_designer", "userEcole", "user_ecole"},
	}
	for _, c := range cases {
		got, err := FileNamingFormat(c.tpl, c.id)
		if err != nil {
			t.Errorf("FileNamingFormat(%q, %q): unexpected error %v", c.tpl, c.id, err)
			continue
		}
		if got != c.want {
			t.Errorf("FileNamingFormat(%q, %q) = %q, want %q (words must split before every upper-case letter)", c.tpl, c.id, got, c.want)
		}
	}
}
