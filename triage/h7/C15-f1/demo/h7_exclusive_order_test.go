// Demonstration for property C15, finding f1 (agent h7C15).
//
// Place this file together with export_h7_test.go and fake_h7_test.go (same demo directory) into
//
//	lib/discov/internal/
//
// and run, from the repository root:
//
//	go test -vet=off -count=1 -timeout 60s -run 'TestH7Exclusive' ./lib/discov/internal/
//
// (with GOFLAGS=-mod=mod go may move go.etcd.io/etcd/api/v3 from the indirect to the direct block of
// go.mod because fake_h7_test.go imports it; `git checkout go.mod` afterwards.)
//
// Exclusive mode: "a value is retained only under the most recent key that published it".
// In each test two publishers hold the same value A: an old registration and a newer one (a restarted
// instance that re-registered under a new lease/key while the old key has not expired yet). The subscriber
// learns about both keys NOT from two watch events but (1) from its first load, (2) from the snapshot of a
// reload after a disconnection, (3) from the replay to a subscriber that joins a watched cluster. Then the
// OLD key expires (a delivered watch event). A is still published by the newer key, so it must stay.
package internal_test

import (
	"fmt"
	"testing"

	"github.com/gotid/god/lib/discov"
	"github.com/gotid/god/lib/discov/internal"
)

// (1) first load. etcd returns a range sorted by key, and "svc/10" < "svc/9" although svc/9 is the older
// registration (keys are <prefix>/<lease id or publisher id> in decimal, see discov.makeEtcdKey).
func TestH7ExclusiveFirstLoad(t *testing.T) {
	eps := []string{"h7-f1-load:2379"}
	etcd := newFakeEtcd(t)
	internal.SetClientForTest(eps, etcd)

	etcd.publish("svc/9", "A")  // old instance
	etcd.publish("svc/10", "A") // restarted instance, same address, most recent publisher of A

	sub, err := discov.NewSubscriber(eps, "svc", discov.Exclusive())
	if err != nil {
		t.Fatal(err)
	}
	etcd.waitWatchers(1)
	if got := sortedVals(sub.Values()); got != "[A]" {
		t.Fatalf("after the first load: got %s, want [A]", got)
	}

	etcd.expire("svc/9") // the old registration times out; delivered by the watch and processed on return

	if got := sortedVals(sub.Values()); got != "[A]" {
		t.Fatalf("svc/10=A is present and is the most recent key that published A, but Values()=%s, want [A]", got)
	}
}

// (2) both registrations happen while the watch is down and are only visible in the reload snapshot.
// Here key order and publication order agree; the snapshot diff is nevertheless emitted in map order,
// so every trial has an even chance of going wrong: 40 independent trials.
func TestH7ExclusiveReloadSnapshot(t *testing.T) {
	for trial := 0; trial < 40; trial++ {
		eps := []string{fmt.Sprintf("h7-f1-reload-%d:2379", trial)}
		etcd := newFakeEtcd(t)
		internal.SetClientForTest(eps, etcd)

		etcd.publish("svc/0", "Z")
		sub, err := discov.NewSubscriber(eps, "svc", discov.Exclusive())
		if err != nil {
			t.Fatal(err)
		}
		etcd.waitWatchers(1)

		etcd.disconnect()
		etcd.publish("svc/1", "A") // missed
		etcd.publish("svc/2", "A") // missed; most recent publisher of A
		etcd.reconnect()
		internal.ReloadForTest(eps, etcd)
		etcd.waitWatchers(1)
		if got := sortedVals(sub.Values()); got != "[A Z]" {
			t.Fatalf("trial %d after reload: got %s, want [A Z]", trial, got)
		}

		etcd.expire("svc/1")

		if got := sortedVals(sub.Values()); got != "[A Z]" {
			t.Fatalf("trial %d: svc/2=A is present and is the most recent key that published A, but Values()=%s, want [A Z]", trial, got)
		}
	}
}

// (3) a second (exclusive) subscriber joins a cluster that is already watched; it is told the current
// keys by Registry.Monitor's replay.
func TestH7ExclusiveJoinReplay(t *testing.T) {
	for trial := 0; trial < 40; trial++ {
		eps := []string{fmt.Sprintf("h7-f1-join-%d:2379", trial)}
		etcd := newFakeEtcd(t)
		internal.SetClientForTest(eps, etcd)

		if _, err := discov.NewSubscriber(eps, "svc"); err != nil {
			t.Fatal(err)
		}
		etcd.waitWatchers(1)
		etcd.publish("svc/1", "A")
		etcd.publish("svc/2", "A") // most recent publisher of A

		sub, err := discov.NewSubscriber(eps, "svc", discov.Exclusive())
		if err != nil {
			t.Fatal(err)
		}
		if got := sortedVals(sub.Values()); got != "[A]" {
			t.Fatalf("trial %d after joining: got %s, want [A]", trial, got)
		}

		etcd.expire("svc/1")

		if got := sortedVals(sub.Values()); got != "[A]" {
			t.Fatalf("trial %d: svc/2=A is present and is the most recent key that published A, but Values()=%s, want [A]", trial, got)
		}
	}
}
