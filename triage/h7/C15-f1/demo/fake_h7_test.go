package internal_test

import (
	"context"
	"errors"
	"fmt"
	"reflect"
	"sort"
	"strings"
	"sync"
	"testing"
	"time"

	"go.etcd.io/etcd/api/v3/etcdserverpb"
	"go.etcd.io/etcd/api/v3/mvccpb"
	clientv3 "go.etcd.io/etcd/client/v3"
	"google.golang.org/grpc"
)

// fakeEtcd is a small model of one etcd keyspace behind the EtcdClient interface: revisions,
// prefix Get (sorted by key unless a sort option asks otherwise, like etcd), prefix Watch from a revision.
// Events are handed to a watcher synchronously: deliver returns once the watcher loop has taken
// the event AND come back for the next one, i.e. the event has been processed.
type fakeEtcd struct {
	t        testing.TB
	mu       sync.Mutex
	rev      int64
	data     map[string]*mvccpb.KeyValue
	history  []*clientv3.Event
	watchers []*fakeWatcher
	down     bool
	changed  chan struct{}
	lease    int64
}

type fakeWatcher struct {
	prefix string
	ch     chan clientv3.WatchResponse
	quit   chan struct{}
	sendMu sync.Mutex
	once   sync.Once
}

// sortedVals renders a value list as a sorted set, e.g. "[A B]".
func sortedVals(v []string) string {
	v = append([]string{}, v...)
	sort.Strings(v)
	return fmt.Sprint(v)
}

func newFakeEtcd(t testing.TB) *fakeEtcd {
	f := &fakeEtcd{t: t, data: map[string]*mvccpb.KeyValue{}, changed: make(chan struct{})}
	t.Cleanup(f.dropWatchers)
	return f
}

func (f *fakeEtcd) signal() { close(f.changed); f.changed = make(chan struct{}) }

// ---- model mutations (do not deliver anything) ----

func (f *fakeEtcd) put(key, val string) *clientv3.Event {
	f.mu.Lock()
	defer f.mu.Unlock()
	f.rev++
	kv := &mvccpb.KeyValue{Key: []byte(key), Value: []byte(val), ModRevision: f.rev, CreateRevision: f.rev, Version: 1}
	if old, ok := f.data[key]; ok {
		kv.CreateRevision, kv.Version = old.CreateRevision, old.Version+1
	}
	f.data[key] = kv
	ev := &clientv3.Event{Type: clientv3.EventTypePut, Kv: kv}
	f.history = append(f.history, ev)
	return ev
}

func (f *fakeEtcd) del(key string) *clientv3.Event {
	f.mu.Lock()
	defer f.mu.Unlock()
	if _, ok := f.data[key]; !ok {
		f.t.Fatalf("fake: delete of absent key %q", key)
	}
	f.rev++
	delete(f.data, key)
	ev := &clientv3.Event{Type: clientv3.EventTypeDelete, Kv: &mvccpb.KeyValue{Key: []byte(key), ModRevision: f.rev}}
	f.history = append(f.history, ev)
	return ev
}

// ---- delivery ----

func (w *fakeWatcher) send(resp clientv3.WatchResponse) bool {
	select {
	case w.ch <- resp:
		return true
	case <-w.quit:
		return false
	case <-time.After(10 * time.Second):
		panic("fake: watcher did not take an event within 10s")
	}
}

// deliver hands the events (one response) to the watcher and returns when they have been processed.
func (w *fakeWatcher) deliver(evs ...*clientv3.Event) {
	w.sendMu.Lock()
	defer w.sendMu.Unlock()
	if w.send(clientv3.WatchResponse{Events: evs}) {
		w.send(clientv3.WatchResponse{}) // barrier: taken only after the previous response was handled
	}
}

func (w *fakeWatcher) stop() { w.once.Do(func() { close(w.quit) }) }

func (f *fakeEtcd) live() []*fakeWatcher {
	f.mu.Lock()
	defer f.mu.Unlock()
	return append([]*fakeWatcher(nil), f.watchers...)
}

// deliverAll hands ev to every live watcher whose prefix matches, one watcher after the other.
func (f *fakeEtcd) deliverAll(ev *clientv3.Event) {
	for _, w := range f.live() {
		if strings.HasPrefix(string(ev.Kv.Key), w.prefix) {
			w.deliver(ev)
		}
	}
}

// Publish / Expire: a mutation that the watch delivers (when connected) or that is missed (when down).
func (f *fakeEtcd) publish(key, val string) {
	ev := f.put(key, val)
	if !f.isDown() {
		f.deliverAll(ev)
	}
}

func (f *fakeEtcd) expire(key string) {
	ev := f.del(key)
	if !f.isDown() {
		f.deliverAll(ev)
	}
}

func (f *fakeEtcd) isDown() bool { f.mu.Lock(); defer f.mu.Unlock(); return f.down }

// disconnect: from now on nothing is delivered; the existing watch streams are dead.
func (f *fakeEtcd) disconnect() {
	f.mu.Lock()
	f.down = true
	f.mu.Unlock()
	f.dropWatchers()
}

func (f *fakeEtcd) dropWatchers() {
	f.mu.Lock()
	ws := f.watchers
	f.watchers = nil
	f.mu.Unlock()
	for _, w := range ws {
		w.stop()
	}
}

func (f *fakeEtcd) reconnect() { f.mu.Lock(); f.down = false; f.mu.Unlock() }

// waitWatchers blocks until n watch streams are open.
func (f *fakeEtcd) waitWatchers(n int) []*fakeWatcher {
	deadline := time.After(10 * time.Second)
	for {
		f.mu.Lock()
		ws := append([]*fakeWatcher(nil), f.watchers...)
		ch := f.changed
		f.mu.Unlock()
		if len(ws) >= n {
			// make sure their replay (if any) has been consumed
			for _, w := range ws {
				w.sendMu.Lock()
				w.sendMu.Unlock()
			}
			return ws
		}
		select {
		case <-ch:
		case <-deadline:
			f.t.Fatalf("fake: %d watchers expected, have %d", n, len(ws))
		}
	}
}

// waitWatchersUpTo waits at most d for n open watch streams and returns the ones that are open then.
func (f *fakeEtcd) waitWatchersUpTo(n int, d time.Duration) []*fakeWatcher {
	deadline := time.After(d)
	for {
		f.mu.Lock()
		ws := append([]*fakeWatcher(nil), f.watchers...)
		ch := f.changed
		f.mu.Unlock()
		if len(ws) >= n {
			return ws
		}
		select {
		case <-ch:
		case <-deadline:
			return ws
		}
	}
}

// ---- EtcdClient ----

func (f *fakeEtcd) ActiveConnection() *grpc.ClientConn { return nil }
func (f *fakeEtcd) Close() error                       { return nil }
func (f *fakeEtcd) Ctx() context.Context               { return context.Background() }

func sortOf(op clientv3.Op) (target clientv3.SortTarget, order clientv3.SortOrder) {
	s := reflect.ValueOf(op).FieldByName("sort")
	if !s.IsValid() || s.IsNil() {
		return clientv3.SortByKey, clientv3.SortAscend
	}
	return clientv3.SortTarget(s.Elem().FieldByName("Target").Int()), clientv3.SortOrder(s.Elem().FieldByName("Order").Int())
}

func (f *fakeEtcd) Get(_ context.Context, key string, opts ...clientv3.OpOption) (*clientv3.GetResponse, error) {
	op := clientv3.OpGet(key, opts...)
	f.mu.Lock()
	defer f.mu.Unlock()
	if f.down {
		return nil, errors.New("fake: etcd unreachable")
	}
	var kvs []*mvccpb.KeyValue
	end := string(op.RangeBytes())
	for k, kv := range f.data {
		if (end == "" && k == key) || (end != "" && k >= key && k < end) {
			c := *kv
			kvs = append(kvs, &c)
		}
	}
	target, order := sortOf(op)
	less := func(a, b *mvccpb.KeyValue) bool {
		switch target {
		case clientv3.SortByModRevision:
			return a.ModRevision < b.ModRevision
		case clientv3.SortByCreateRevision:
			return a.CreateRevision < b.CreateRevision
		case clientv3.SortByVersion:
			return a.Version < b.Version
		case clientv3.SortByValue:
			return string(a.Value) < string(b.Value)
		}
		return string(a.Key) < string(b.Key)
	}
	sort.Slice(kvs, func(i, j int) bool { return string(kvs[i].Key) < string(kvs[j].Key) })
	sort.SliceStable(kvs, func(i, j int) bool {
		if order == clientv3.SortDescend {
			return less(kvs[j], kvs[i])
		}
		return less(kvs[i], kvs[j])
	})
	return &clientv3.GetResponse{Header: &etcdserverpb.ResponseHeader{Revision: f.rev}, Kvs: kvs, Count: int64(len(kvs))}, nil
}

func (f *fakeEtcd) Watch(_ context.Context, key string, opts ...clientv3.OpOption) clientv3.WatchChan {
	op := clientv3.OpGet(key, opts...)
	w := &fakeWatcher{prefix: key, ch: make(chan clientv3.WatchResponse), quit: make(chan struct{})}
	f.mu.Lock()
	var replay []*clientv3.Event
	if op.Rev() > 0 {
		for _, ev := range f.history {
			if ev.Kv.ModRevision >= op.Rev() && strings.HasPrefix(string(ev.Kv.Key), key) {
				replay = append(replay, ev)
			}
		}
	}
	w.sendMu.Lock() // released when the replay has been processed
	f.watchers = append(f.watchers, w)
	f.signal()
	f.mu.Unlock()
	go func() {
		defer w.sendMu.Unlock()
		if len(replay) > 0 && w.send(clientv3.WatchResponse{Events: replay}) {
			w.send(clientv3.WatchResponse{})
		}
	}()
	return w.ch
}

func (f *fakeEtcd) Grant(context.Context, int64) (*clientv3.LeaseGrantResponse, error) {
	f.mu.Lock()
	defer f.mu.Unlock()
	f.lease++
	return &clientv3.LeaseGrantResponse{ID: clientv3.LeaseID(f.lease)}, nil
}

func (f *fakeEtcd) KeepAlive(context.Context, clientv3.LeaseID) (<-chan *clientv3.LeaseKeepAliveResponse, error) {
	return make(chan *clientv3.LeaseKeepAliveResponse), nil
}

func (f *fakeEtcd) Put(_ context.Context, key, val string, _ ...clientv3.OpOption) (*clientv3.PutResponse, error) {
	f.publish(key, val)
	return &clientv3.PutResponse{}, nil
}

func (f *fakeEtcd) Revoke(context.Context, clientv3.LeaseID) (*clientv3.LeaseRevokeResponse, error) {
	return &clientv3.LeaseRevokeResponse{}, nil
}
