// Place at: api/httpc/h7c05_f9_optional_zero_roundtrip_test.go (package httpc)
// Run:      go test -vet=off -count=1 -run TestH7C05F9 ./api/httpc/
//
// Property C05: "optional absent fields stay zero ..." and "A request struct sent with the HTTP
// client helper (path, form, header and json parts) is parsed back by the server-side request
// parser into an equal struct."
// mapping.Marshal (used by httpc.buildRequest) validates an optional member that is left at its
// zero value as "not set" (validate returns early), but processMember still emits the zero value.
// The server then sees a PRESENT value "" / 0 and checks it against options=/range= and against
// optional=!other dependencies - and refuses the request the client library just approved.
package httpc

import (
	"context"
	"net/http"
	"net/http/httptest"
	"reflect"
	"testing"

	"github.com/gotid/god/api/httpx"
	"github.com/gotid/god/api/router"
)

func h7c05f9RoundTrip(t *testing.T, route string, in, out interface{}) {
	t.Helper()
	var parseErr error
	var called bool
	rt := router.NewRouter()
	if err := rt.Handle(http.MethodPost, route, http.HandlerFunc(func(w http.ResponseWriter, r *http.Request) {
		called = true
		parseErr = httpx.Parse(r, out)
	})); err != nil {
		t.Fatal(err)
	}
	svr := httptest.NewServer(http.HandlerFunc(rt.ServeHTTP))
	defer svr.Close()

	resp, err := Do(context.Background(), http.MethodPost, svr.URL+route, in)
	if err != nil {
		t.Fatalf("client: %v", err)
	}
	resp.Body.Close()
	if !called {
		t.Fatalf("handler not reached, status %d", resp.StatusCode)
	}
	if parseErr != nil {
		t.Fatalf("httpx.Parse rejected the request httpc.Do built from %+v: %v", in, parseErr)
	}
	if !reflect.DeepEqual(in, reflect.ValueOf(out).Elem().Interface()) {
		t.Fatalf("round trip changed the struct: sent %+v, parsed %+v", in, reflect.ValueOf(out).Elem().Interface())
	}
}

func TestH7C05F9_OptionalWithOptionsLeftUnset(t *testing.T) {
	type Req struct {
		Keyword string `json:"keyword"`
		Sort    string `json:"sort,optional,options=asc|desc"`
	}
	var out Req
	h7c05f9RoundTrip(t, "/search", Req{Keyword: "go"}, &out)
}

func TestH7C05F9_OptionalWithRangeLeftUnset(t *testing.T) {
	type Req struct {
		Keyword  string `form:"q"`
		PageSize int    `form:"size,optional,range=[1:100]"`
		Level    int    `json:"level,optional,range=[1:5]"`
		Mode     string `header:"X-Mode,optional,options=fast|safe"`
	}
	var out Req
	h7c05f9RoundTrip(t, "/search", Req{Keyword: "go"}, &out)
}

func TestH7C05F9_EitherOr(t *testing.T) {
	type Req struct {
		ID   string `json:"id,optional"`
		Name string `json:"name,optional=!id"`
	}
	var out Req
	h7c05f9RoundTrip(t, "/get", Req{ID: "42"}, &out)
}

// set values still travel, zero values of members with a default too
func TestH7C05F9_SetValuesAndDefaults(t *testing.T) {
	type Req struct {
		Sort  string `json:"sort,optional,options=asc|desc"`
		Size  int    `form:"size,optional,range=[1:100]"`
		Flag  bool   `json:"flag,optional"`
		Limit int    `json:"limit,default=10"`
	}
	var out Req
	h7c05f9RoundTrip(t, "/search", Req{Sort: "desc", Size: 100, Flag: true, Limit: 0}, &out)
}
