// Place at: lib/conf/h7c05_f5_canonical_key_test.go (package conf)
// Run:      go test -vet=off -count=1 -run TestH7C05F5 ./lib/conf/
//
// Property C05: "... yields a struct in which every field equals the document's value exactly ...
// config loading additionally accepts keys written in snake_case or with a different initial
// letter case."
// conf.LoadFromJsonBytes/LoadFromYamlBytes canonicalise all document keys (toCamelCase) and give
// the Unmarshaler the same function (WithCanonicalKeyFunc) so that field keys are canonicalised
// before the lookup.  processNamedField does that, but three other lookups use the raw field key:
// the member scan of an optional anonymous struct, its "must not be wrapped" check and the
// optional=<dep> presence test.  With untagged (capitalised) members these lookups never find
// anything in the canonicalised document: the members of an optional embedded struct are
// silently left zero, and optional=<dep> is not enforced.
package conf

import (
	"testing"

	"github.com/gotid/god/lib/mapping"
)

type H7C05F5Log struct {
	Level string
	Path  string `json:",default=logs"`
}

func TestH7C05F5_OptionalAnonymousStructIsSilentlyDropped(t *testing.T) {
	type Config struct {
		Name       string
		H7C05F5Log `json:",optional"`
	}

	for name, load := range map[string]func() (Config, error){
		"json": func() (c Config, err error) {
			err = LoadFromJsonBytes([]byte(`{"Name":"svc","Level":"debug","Path":"/var/log"}`), &c)
			return
		},
		"yaml": func() (c Config, err error) {
			err = LoadFromYamlBytes([]byte("Name: svc\nLevel: debug\nPath: /var/log\n"), &c)
			return
		},
		"json-lower": func() (c Config, err error) {
			err = LoadFromJsonBytes([]byte(`{"name":"svc","level":"debug","path":"/var/log"}`), &c)
			return
		},
	} {
		c, err := load()
		if err != nil {
			t.Errorf("%s: unexpected error %v", name, err)
			continue
		}
		if c.Name != "svc" || c.Level != "debug" || c.Path != "/var/log" {
			t.Errorf("%s: document says Name=svc Level=debug Path=/var/log, loaded %+v", name, c)
		}
	}

	// reference: the plain (non-canonicalising) unmarshaler fills the very same shape
	var ref Config
	if err := mapping.UnmarshalJsonBytes([]byte(`{"Name":"svc","Level":"debug","Path":"/var/log"}`), &ref); err != nil {
		t.Fatal(err)
	}
	if ref.Level != "debug" {
		t.Fatalf("reference run: %+v", ref)
	}
}

func TestH7C05F5_OptionalDependencyIsNotEnforced(t *testing.T) {
	type Config struct {
		CertFile string `json:",optional"`
		KeyFile  string `json:",optional=CertFile"`
	}

	// reference: without canonicalisation KeyFile without CertFile is refused
	var ref Config
	if err := mapping.UnmarshalJsonBytes([]byte(`{"KeyFile":"k.pem"}`), &ref); err == nil {
		t.Fatalf("reference run accepted %+v", ref)
	}

	var c Config
	if err := LoadFromJsonBytes([]byte(`{"KeyFile":"k.pem"}`), &c); err == nil {
		t.Errorf("KeyFile is optional=CertFile and CertFile is absent: the load must fail, got %+v", c)
	}

	// both present: fine; both absent: fine
	if err := LoadFromJsonBytes([]byte(`{"KeyFile":"k.pem","cert_file":"c.pem"}`), &c); err != nil || c.KeyFile != "k.pem" || c.CertFile != "c.pem" {
		t.Errorf("both present: err=%v c=%+v", err, c)
	}
	c = Config{}
	if err := LoadFromJsonBytes([]byte(`{}`), &c); err != nil {
		t.Errorf("both absent: err=%v", err)
	}
}

func TestH7C05F5_NegatedDependencyAlwaysFails(t *testing.T) {
	type Config struct {
		Hosts  string `json:",optional"`
		Target string `json:",optional=!Hosts"`
	}

	var c Config
	if err := LoadFromJsonBytes([]byte(`{"Target":"t"}`), &c); err != nil || c.Target != "t" {
		t.Errorf("exactly one of Hosts/Target is set, the load must succeed: err=%v c=%+v", err, c)
	}
}
