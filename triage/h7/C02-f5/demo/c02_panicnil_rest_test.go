// Demo for C02/f5 (REST half): a handler that panics with a nil value -- panic(nil), or
// panic(err) with an error variable that happens to be nil -- is not treated as a panic. The
// module declares `go 1.19`, so recover() returns nil for such a panic (GODEBUG panicnil=1 is
// the default for modules below go 1.21); RecoverHandler decides "did it panic?" with
// `recover() != nil`, swallows the panic and lets the chain answer 200 with an empty body.
//
// Place this file at  api/handler/c02_panicnil_rest_test.go  (external package handler_test) and run
//
//	go test -vet=off -count=1 -run 'TestC02PanicNilREST' -timeout 20s ./api/handler/
package handler_test

import (
	"net/http"
	"net/http/httptest"
	"testing"
	"time"

	"github.com/gotid/god/api/handler"
)

func TestC02PanicNilREST(t *testing.T) {
	var errNotSet error // a typical source of panic(nil): panic(err) on a nil error

	chains := map[string]func(http.Handler) http.Handler{
		"RecoverHandler": handler.RecoverHandler,
		"TimeoutHandler+RecoverHandler (engine order)": func(next http.Handler) http.Handler {
			return handler.TimeoutHandler(time.Minute)(handler.RecoverHandler(next))
		},
	}
	for name, wrap := range chains {
		h := wrap(http.HandlerFunc(func(w http.ResponseWriter, r *http.Request) {
			panic(errNotSet) // nothing committed before the panic
		}))
		rec := httptest.NewRecorder()
		h.ServeHTTP(rec, httptest.NewRequest(http.MethodGet, "http://localhost", http.NoBody))
		if rec.Code != http.StatusInternalServerError {
			t.Errorf("%s: panicking handler answered with %d, want 500", name, rec.Code)
		}
	}
}
