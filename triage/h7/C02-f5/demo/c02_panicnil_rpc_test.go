// Demo for C02/f5 (RPC half): a unary handler that panics with a nil value is not reported as
// Internal. UnaryTimeoutInterceptor's goroutine and handleCrash both test `recover() != nil`;
// with the module's `go 1.19` (panicnil=1) recover() returns nil for panic(nil): the timeout
// interceptor's goroutine dies silently without closing `done`, so the call sits out the whole
// timeout and then reports DeadlineExceeded; UnaryCrashInterceptor alone returns (nil, nil).
//
// Place this file at  rpc/internal/serverinterceptors/c02_panicnil_rpc_test.go
// (external package serverinterceptors_test) and run
//
//	go test -vet=off -count=1 -run 'TestC02PanicNilRPC' -timeout 20s ./rpc/internal/serverinterceptors/
package serverinterceptors_test

import (
	"context"
	"testing"
	"time"

	"github.com/gotid/god/rpc/internal/serverinterceptors"
	"google.golang.org/grpc"
	"google.golang.org/grpc/codes"
	"google.golang.org/grpc/status"
)

func TestC02PanicNilRPC_CrashAndTimeoutComposed(t *testing.T) {
	info := &grpc.UnaryServerInfo{FullMethod: "/c02/panicnil"}
	timeout := serverinterceptors.UnaryTimeoutInterceptor(2 * time.Second)
	var errNotSet error

	start := time.Now()
	// Same nesting as rpc/internal/server.go + rpc/server.go: Crash outside, Timeout inside.
	_, err := serverinterceptors.UnaryCrashInterceptor(context.Background(), nil, info,
		func(ctx context.Context, req interface{}) (interface{}, error) {
			return timeout(ctx, req, info, func(ctx context.Context, req interface{}) (interface{}, error) {
				panic(errNotSet)
			})
		})
	if code := status.Code(err); code != codes.Internal {
		t.Errorf("panicking handler: got status %v (%v) after %v, want Internal", code, err, time.Since(start).Round(time.Millisecond))
	}
	if d := time.Since(start); d > time.Second {
		t.Errorf("the panic was only answered after %v: the caller waited for the whole timeout", d.Round(time.Millisecond))
	}
}

func TestC02PanicNilRPC_CrashAlone(t *testing.T) {
	info := &grpc.UnaryServerInfo{FullMethod: "/c02/panicnil"}
	var errNotSet error
	resp, err := serverinterceptors.UnaryCrashInterceptor(context.Background(), nil, info,
		func(ctx context.Context, req interface{}) (interface{}, error) {
			panic(errNotSet)
		})
	if code := status.Code(err); code != codes.Internal {
		t.Errorf("panicking handler: got (%v, %v), want an Internal status error", resp, err)
	}
}
