// Demo for C12 finding f2: a Ping that fails at connection level is reported to the
// per-address breaker as a SUCCESS.
//
// Place this file at lib/store/redis/ping_breaker_test.go (package-internal: it swaps the
// unexported Redis.brk for a recording decorator around a real breaker) and run
//
//	go test -vet=off -count=1 -run 'TestPingFailureReachesBreaker' ./lib/store/redis/
//
// It fails on the unmodified HEAD and passes once PingCtx hands the command error to the breaker.
package redis

import (
	"net"
	"testing"

	"github.com/gotid/god/lib/breaker"
	"github.com/gotid/god/lib/logx"
)

// pingRecBreaker decorates a real breaker and records what every guarded call told it.
type pingRecBreaker struct {
	breaker.Breaker
	calls    int // requests that were let through
	failures int // requests whose error was NOT acceptable (what trips the breaker)
	accepts  int // requests marked as success
}

func (b *pingRecBreaker) DoWithAcceptable(req func() error, acceptable breaker.Acceptable) error {
	return b.Breaker.DoWithAcceptable(func() error {
		b.calls++
		return req()
	}, func(err error) bool {
		ok := acceptable(err)
		if ok {
			b.accepts++
		} else {
			b.failures++
		}
		return ok
	})
}

// deadAddr returns a loopback address on which nothing listens (connection refused).
func deadAddr(t *testing.T) string {
	l, err := net.Listen("tcp", "127.0.0.1:0")
	if err != nil {
		t.Fatal(err)
	}
	addr := l.Addr().String()
	_ = l.Close()
	return addr
}

func TestPingFailureReachesBreaker(t *testing.T) {
	logx.Disable()
	addr := deadAddr(t)

	// control: an ordinary command against the dead address is a breaker failure
	ctl := New(addr)
	ctlRec := &pingRecBreaker{Breaker: breaker.New(breaker.WithName(addr))}
	ctl.brk = ctlRec
	if _, err := ctl.Get("k"); err == nil {
		t.Fatal("GET against a dead address must fail")
	}
	if ctlRec.calls != 1 || ctlRec.failures != 1 || ctlRec.accepts != 0 {
		t.Fatalf("control GET: calls=%d failures=%d accepts=%d, want 1/1/0",
			ctlRec.calls, ctlRec.failures, ctlRec.accepts)
	}

	// same address, same kind of failure (dial: connection refused), through Ping
	r := New(addr)
	rec := &pingRecBreaker{Breaker: breaker.New(breaker.WithName(addr))}
	r.brk = rec
	for i := 0; i < 3; i++ {
		if r.Ping() {
			t.Fatal("Ping against a dead address must be false")
		}
	}
	if rec.calls != 3 {
		t.Fatalf("Ping reached the breaker %d times, want 3", rec.calls)
	}
	if rec.failures != 3 || rec.accepts != 0 {
		t.Errorf("3 Pings failed with 'connection refused' but the breaker was told: failures=%d successes=%d (want 3/0)",
			rec.failures, rec.accepts)
	}
}
