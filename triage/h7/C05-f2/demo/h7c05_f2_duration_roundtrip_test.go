// Place at: api/httpc/h7c05_f2_duration_roundtrip_test.go (package httpc)
// Run:      go test -vet=off -count=1 -run TestH7C05F2 ./api/httpc/
//
// Property C05: "A request struct sent with the HTTP client helper (path, form, header and json
// parts) is parsed back by the server-side request parser into an equal struct."
// time.Duration is one of the supported field kinds, yet no part can carry it:
//   - json part: httpc encodes the Duration with encoding/json as the number 1500000000, while
//     lib/mapping only accepts a string such as "1.5s" for a Duration field -> type mismatch;
//   - path/form/header parts: httpc writes fmt.Sprint(d) = "1.5s", while the string-mode parser
//     treats a Duration like any int64 and runs strconv.ParseInt on it -> error.
package httpc

import (
	"context"
	"net/http"
	"net/http/httptest"
	"reflect"
	"testing"
	"time"

	"github.com/gotid/god/api/httpx"
	"github.com/gotid/god/api/router"
)

func h7c05f2RoundTrip(t *testing.T, route string, in, out interface{}) {
	t.Helper()
	var parseErr error
	var called bool
	rt := router.NewRouter()
	if err := rt.Handle(http.MethodPost, route, http.HandlerFunc(func(w http.ResponseWriter, r *http.Request) {
		called = true
		parseErr = httpx.Parse(r, out)
	})); err != nil {
		t.Fatal(err)
	}
	svr := httptest.NewServer(http.HandlerFunc(rt.ServeHTTP))
	defer svr.Close()

	resp, err := Do(context.Background(), http.MethodPost, svr.URL+route, in)
	if err != nil {
		t.Fatalf("client: %v", err)
	}
	resp.Body.Close()
	if !called {
		t.Fatalf("handler not reached, status %d", resp.StatusCode)
	}
	if parseErr != nil {
		t.Fatalf("httpx.Parse rejected the request httpc.Do built from %+v: %v", in, parseErr)
	}
	if !reflect.DeepEqual(in, reflect.ValueOf(out).Elem().Interface()) {
		t.Fatalf("round trip changed the struct: sent %+v, parsed %+v", in, reflect.ValueOf(out).Elem().Interface())
	}
}

func TestH7C05F2_DurationJsonPart(t *testing.T) {
	type Inner struct {
		Wait time.Duration `json:"wait"`
	}
	type Req struct {
		Timeout time.Duration  `json:"timeout"`
		Ptr     *time.Duration `json:"ptr"`
		Inner   Inner          `json:"inner"`
	}
	d := 90 * time.Minute
	var out Req
	h7c05f2RoundTrip(t, "/d", Req{Timeout: 1500 * time.Millisecond, Ptr: &d, Inner: Inner{Wait: time.Nanosecond}}, &out)
}

func TestH7C05F2_DurationFormPart(t *testing.T) {
	type Req struct {
		Timeout time.Duration `form:"timeout"`
	}
	var out Req
	h7c05f2RoundTrip(t, "/d", Req{Timeout: 1500 * time.Millisecond}, &out)
}

func TestH7C05F2_DurationPathAndHeaderPart(t *testing.T) {
	type Req struct {
		Ttl  time.Duration `path:"ttl"`
		Wait time.Duration `header:"X-Wait"`
	}
	var out Req
	h7c05f2RoundTrip(t, "/d/:ttl", Req{Ttl: time.Hour + time.Nanosecond, Wait: -2 * time.Second}, &out)
}
