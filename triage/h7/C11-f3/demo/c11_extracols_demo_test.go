// Demo for C11 finding f3: a result set with MORE columns than an untagged
// destination struct has fields makes QueryRow / QueryRowPartial / QueryRows
// panic ("index out of range") inside mapStructFieldsIntoSlice instead of
// copying by position or reporting an error.
//
// Place this file at lib/store/sqlx/c11_extracols_demo_test.go and run
//
//	go test -vet=off -count=1 -run 'TestC11Demo_ExtraColumns' ./lib/store/sqlx/
package sqlx_test

import (
	"fmt"
	"testing"

	"github.com/DATA-DOG/go-sqlmock"
	"github.com/gotid/god/lib/logx"
	"github.com/gotid/god/lib/store/sqlx"
)

type c11User struct {
	Name string
	Age  int64
}

func TestC11Demo_ExtraColumnsUntaggedStruct(t *testing.T) {
	logx.Disable()

	db, mock, err := sqlmock.New()
	if err != nil {
		t.Fatal(err)
	}
	defer db.Close()
	conn := sqlx.NewConnFromDB(db)

	newRows := func() *sqlmock.Rows {
		// e.g. `select *` after a column was added to the table
		return sqlmock.NewRows([]string{"name", "age", "created_at"}).
			AddRow("first", int64(2), "2020-01-01").AddRow("second", int64(3), "2020-01-02")
	}

	// call runs fn and converts a panic into a test failure; a correct
	// implementation either returns an error (result does not fit) or fills
	// the fields by position and ignores the surplus column.
	call := func(t *testing.T, fn func() error, check func() error) {
		t.Helper()
		var err error
		func() {
			defer func() {
				if p := recover(); p != nil {
					t.Errorf("panicked instead of mapping by position or returning an error: %v", p)
					err = fmt.Errorf("panic")
				}
			}()
			err = fn()
		}()
		if err == nil {
			if e := check(); e != nil {
				t.Errorf("nil error but wrong content: %v", e)
			}
		}
	}

	t.Run("QueryRow", func(t *testing.T) {
		mock.ExpectQuery("select \\* from users").WillReturnRows(newRows())
		var u c11User
		call(t, func() error { return conn.QueryRow(&u, "select * from users where id = ?", 1) },
			func() error {
				if u.Name != "first" || u.Age != 2 {
					return fmt.Errorf("%+v", u)
				}
				return nil
			})
	})

	t.Run("QueryRowPartial", func(t *testing.T) {
		mock.ExpectQuery("select \\* from users").WillReturnRows(newRows())
		var u c11User
		call(t, func() error { return conn.QueryRowPartial(&u, "select * from users where id = ?", 1) },
			func() error {
				if u.Name != "first" || u.Age != 2 {
					return fmt.Errorf("%+v", u)
				}
				return nil
			})
	})

	t.Run("QueryRows", func(t *testing.T) {
		mock.ExpectQuery("select \\* from users").WillReturnRows(newRows())
		var us []*c11User
		call(t, func() error { return conn.QueryRows(&us, "select * from users") },
			func() error {
				if len(us) != 2 || us[0].Name != "first" || us[1].Age != 3 {
					return fmt.Errorf("%+v", us)
				}
				return nil
			})
	})
}
