package logx

// Demo for property C19, finding f3.
// Place this file as lib/logx/h7c19_f3_test.go and run
//   go test -vet=off -count=1 -run TestH7C19F3 ./lib/logx/
//
// Rule configuration with an empty delimiter (backups are then called
// access.log2026-10-01 under the daily rule and access2026-10-01T10:00:00Z.log
// under the size rule). Clean-up must never remove the current file.

import (
	"os"
	"path/filepath"
	"strings"
	"testing"
	"time"
)

func TestH7C19F3_EmptyDelimiterDaily(t *testing.T) {
	dir := t.TempDir()
	filename := filepath.Join(dir, "access.log")
	// a genuinely outdated backup; its removal tells that clean-up has run
	outdated := filename + time.Now().Add(-10*24*time.Hour).Format("2006-01-02")
	if err := os.WriteFile(outdated, []byte("old\n"), 0o600); err != nil {
		t.Fatal(err)
	}

	rule := DefaultRotateRule(filename, "", 1, false).(*DailyRotateRule)
	logger, err := NewLogger(filename, rule, false)
	if err != nil {
		t.Fatal(err)
	}

	logger.write([]byte("yesterday 1\n"))
	logger.write([]byte("yesterday 2\n"))

	// what clean-up would remove right now
	for _, f := range rule.OutdatedFiles() {
		if f == filename {
			t.Errorf("OutdatedFiles lists the current file %s", f)
		}
	}

	// the day changes (simulated through the rule): the next record rotates
	rule.rotatedTime = time.Now().Add(-24 * time.Hour).Format(dateFormat)
	logger.write([]byte("today 1\n"))
	waitGone(t, outdated)
	logger.write([]byte("today 2\n"))
	if err := logger.Close(); err != nil {
		t.Fatal(err)
	}

	content, err := os.ReadFile(filename)
	if err != nil {
		t.Fatalf("the current file is gone after clean-up: %v", err)
	}
	if string(content) != "today 1\ntoday 2\n" {
		t.Errorf("current file holds %q", content)
	}
	backup, err := os.ReadFile(filename + time.Now().Format("2006-01-02"))
	if err != nil || string(backup) != "yesterday 1\nyesterday 2\n" {
		t.Errorf("backup: %q, %v", backup, err)
	}
}

func TestH7C19F3_EmptyDelimiterSize(t *testing.T) {
	dir := t.TempDir()
	filename := filepath.Join(dir, "access.log")
	outdated := filepath.Join(dir, "access"+time.Now().Add(-10*24*time.Hour).Format(time.RFC3339)+".log")
	if err := os.WriteFile(outdated, []byte("old\n"), 0o600); err != nil {
		t.Fatal(err)
	}

	rule := NewSizeLimitRotateRule(filename, "", 1, 1, 0, false)
	logger, err := NewLogger(filename, rule, false)
	if err != nil {
		t.Fatal(err)
	}

	for _, f := range rule.OutdatedFiles() {
		if f == filename {
			t.Errorf("OutdatedFiles lists the current file %s", f)
		}
	}

	half := []byte(strings.Repeat("x", 600<<10-1) + "\n")
	logger.write(half)
	logger.write(half) // does not fit any more: rotation
	waitGone(t, outdated)
	logger.write([]byte("after\n"))
	if err := logger.Close(); err != nil {
		t.Fatal(err)
	}

	content, err := os.ReadFile(filename)
	if err != nil {
		t.Fatalf("the current file is gone after clean-up: %v", err)
	}
	if len(content) != len(half)+len("after\n") {
		t.Errorf("current file holds %d bytes", len(content))
	}
}

// waitGone waits until the asynchronous clean-up following a rotation has removed file.
func waitGone(t *testing.T, file string) {
	t.Helper()
	deadline := time.Now().Add(10 * time.Second)
	for {
		if _, err := os.Stat(file); os.IsNotExist(err) {
			// the removals of one clean-up follow each other immediately
			time.Sleep(200 * time.Millisecond)
			return
		}
		if time.Now().After(deadline) {
			t.Fatalf("clean-up did not remove the outdated backup %s", file)
		}
		time.Sleep(10 * time.Millisecond)
	}
}
