// Demo for C02/f1: over a real loopback server built with api.NewServer the client never
// receives the 503 timeout response (nor a response the handler produced in the last tenth of
// the timeout): engine.withTimeout sets http.Server.WriteTimeout to 0.9*Timeout, i.e. the
// connection's write deadline expires BEFORE the timeout handler writes anything.
//
// Place this file at  api/c02_writetimeout_test.go  (external package api_test) and run
//
//	go test -vet=off -count=1 -run 'TestC02WriteTimeout' -timeout 20s ./api/
package api_test

import (
	"fmt"
	"io"
	"net"
	"net/http"
	"testing"
	"time"

	"github.com/gotid/god/api"
	"github.com/gotid/god/lib/logx"
)

func c02FreePort(t *testing.T) int {
	ln, err := net.Listen("tcp", "127.0.0.1:0")
	if err != nil {
		t.Fatal(err)
	}
	defer ln.Close()
	return ln.Addr().(*net.TCPAddr).Port
}

// c02StartServer starts a real api.Server on the loopback interface and waits until it accepts.
func c02StartServer(t *testing.T, c api.Config, add func(svr *api.Server)) string {
	logx.Disable()
	c.Host = "127.0.0.1"
	c.Port = c02FreePort(t)
	svr, err := api.NewServer(c)
	if err != nil {
		t.Fatal(err)
	}
	add(svr)
	go svr.Start()

	addr := fmt.Sprintf("127.0.0.1:%d", c.Port)
	for i := 0; i < 200; i++ {
		conn, err := net.Dial("tcp", addr)
		if err == nil {
			conn.Close()
			return "http://" + addr
		}
		time.Sleep(10 * time.Millisecond)
	}
	t.Fatal("server did not come up")
	return ""
}

func c02Get(t *testing.T, url string) (int, string, error) {
	client := &http.Client{Timeout: 10 * time.Second, Transport: &http.Transport{DisableKeepAlives: true}}
	resp, err := client.Get(url)
	if err != nil {
		return 0, "", err
	}
	defer resp.Body.Close()
	body, _ := io.ReadAll(resp.Body)
	return resp.StatusCode, string(body), nil
}

// The handler overruns the timeout: the client must receive the timeout response (503).
func TestC02WriteTimeout_TimeoutResponseReachesClient(t *testing.T) {
	release := make(chan struct{})
	defer close(release)
	// 2s timeout: a correct server leaves a comfortable margin between the handler deadline and
	// the connection's write deadline even on a loaded machine.
	url := c02StartServer(t, api.Config{Timeout: 2000}, func(svr *api.Server) {
		svr.AddRoute(api.Route{Method: http.MethodGet, Path: "/slow", Handler: func(w http.ResponseWriter, r *http.Request) {
			select { // far beyond the 2s route timeout
			case <-release:
			case <-time.After(8 * time.Second):
			}
			w.Write([]byte("late"))
		}})
	})

	code, body, err := c02Get(t, url+"/slow")
	if err != nil {
		t.Fatalf("client received no response at all: %v (want 503 timeout response)", err)
	}
	if code != http.StatusServiceUnavailable {
		t.Fatalf("got %d %q, want 503", code, body)
	}
}

// The handler finishes well within a route timeout raised with api.WithTimeout (1s of 3s): the
// client must receive precisely the handler's response.
func TestC02WriteTimeout_RouteTimeoutAboveConfig(t *testing.T) {
	url := c02StartServer(t, api.Config{Timeout: 400}, func(svr *api.Server) {
		svr.AddRoute(api.Route{Method: http.MethodGet, Path: "/report", Handler: func(w http.ResponseWriter, r *http.Request) {
			time.Sleep(time.Second)
			w.Header().Set("X-Report", "done")
			w.WriteHeader(http.StatusCreated)
			w.Write([]byte("report"))
		}}, api.WithTimeout(3*time.Second))
	})

	code, body, err := c02Get(t, url+"/report")
	if err != nil {
		t.Fatalf("client received no response at all: %v (handler finished after 1s of a 3s route timeout)", err)
	}
	if code != http.StatusCreated || body != "report" {
		t.Fatalf("got %d %q, want 201 \"report\"", code, body)
	}
}
