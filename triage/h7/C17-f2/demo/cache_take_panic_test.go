// Place this file at lib/collection/cache_take_panic_test.go (package-internal test) and run:
//
//	go test -vet=off -count=1 -run 'TestCacheTakeFetchPanicMustNotLookLikeSuccess' -timeout 20s ./lib/collection/
//
// Two callers Take the same missing key. The first one runs fetch, which panics (the caller
// recovers, as every rest/rpc handler of this toolkit does through its recover middleware).
// The second caller joined the flight while fetch was running. It must not be told
// "success, the value is nil": fetch produced no result at all. A correct implementation
// hands the failure to the waiter (an error, or the same panic).
package collection

import (
	"runtime"
	"strings"
	"testing"
	"time"
)

func TestCacheTakeFetchPanicMustNotLookLikeSuccess(t *testing.T) {
	cache, err := NewCache(time.Minute)
	if err != nil {
		t.Fatal(err)
	}

	inFetch := make(chan struct{})
	release := make(chan struct{})
	var fetches int

	leaderDone := make(chan any, 1)
	go func() {
		defer func() { leaderDone <- recover() }()
		cache.Take("k", func() (any, error) {
			fetches++
			close(inFetch)
			<-release
			panic("backend exploded")
		})
	}()
	<-inFetch

	type result struct {
		val      any
		err      error
		panicked any
	}
	waiterDone := make(chan result, 1)
	go func() {
		var r result
		defer func() {
			r.panicked = recover()
			waiterDone <- r
		}()
		r.val, r.err = cache.Take("k", func() (any, error) {
			fetches++
			return "second fetch", nil
		})
	}()

	// Wait until the second caller is inside the single-flight barrier, i.e. it has joined
	// (or is about to join) the leader's call, which stays registered until fetch returns.
	deadline := time.Now().Add(10 * time.Second)
	for {
		buf := make([]byte, 1<<20)
		stacks := string(buf[:runtime.Stack(buf, true)])
		if strings.Contains(stacks, "(*flightGroup).createCall") {
			break
		}
		if time.Now().After(deadline) {
			t.Fatal("the second caller never reached the barrier")
		}
		time.Sleep(time.Millisecond)
	}
	close(release)

	if p := <-leaderDone; p == nil {
		t.Fatal("the leader's fetch was expected to panic")
	}

	select {
	case r := <-waiterDone:
		if r.panicked == nil && r.err == nil {
			t.Fatalf("fetch ran %d time(s) and panicked, yet the concurrent Take caller got (%v, nil): a success that fetch never produced", fetches, r.val)
		}
	case <-time.After(10 * time.Second):
		t.Fatal("the waiting Take caller never returned")
	}

	if _, ok := cache.Get("k"); ok {
		t.Fatal("nothing may be cached for a fetch that did not succeed")
	}
}
