// Demo for C11 finding f2: a destination with an embedded (anonymous) struct
// whose fields carry `db` tags is filled BY POSITION, not by column name, so a
// permutation of the result columns silently swaps values (or fails to scan).
//
// Place this file at lib/store/sqlx/c11_embedded_demo_test.go and run
//
//	go test -vet=off -count=1 -run 'TestC11Demo_Embedded' ./lib/store/sqlx/
package sqlx_test

import (
	"testing"

	"github.com/DATA-DOG/go-sqlmock"
	"github.com/gotid/god/lib/logx"
	"github.com/gotid/god/lib/store/sqlx"
)

type C11Embed struct {
	Value int64 `db:"value"`
}

type c11Row struct {
	Name string `db:"name"`
	Age  int64  `db:"age"`
	C11Embed
}

type c11RowPtr struct {
	Age int64 `db:"age"`
	*C11Embed
}

// Same column set as the repository's own
// TestUnmarshalRowsStructAndEmbeddedAnonymousStructWithTags, only the order of
// the SELECT list differs; every field is tagged.
func TestC11Demo_EmbeddedTaggedStructIgnoresColumnNames(t *testing.T) {
	logx.Disable()

	db, mock, err := sqlmock.New()
	if err != nil {
		t.Fatal(err)
	}
	defer db.Close()
	conn := sqlx.NewConnFromDB(db)

	t.Run("rows/all-integer columns are silently swapped", func(t *testing.T) {
		rs := sqlmock.NewRows([]string{"value", "age"}).AddRow(int64(30), int64(2)).AddRow(int64(40), int64(3))
		mock.ExpectQuery("select value, age from users").WillReturnRows(rs)

		var got []c11RowPtr
		if err := conn.QueryRows(&got, "select value, age from users"); err != nil {
			t.Fatalf("QueryRows: %v", err)
		}
		if len(got) != 2 {
			t.Fatalf("want 2 rows, got %d", len(got))
		}
		for i, want := range []struct{ age, value int64 }{{2, 30}, {3, 40}} {
			if got[i].Age != want.age || got[i].C11Embed == nil || got[i].Value != want.value {
				v := int64(-1)
				if got[i].C11Embed != nil {
					v = got[i].Value
				}
				t.Errorf("row %d: want age=%d value=%d, got age=%d value=%d (column order leaked into the mapping)",
					i, want.age, want.value, got[i].Age, v)
			}
		}
	})

	t.Run("row/permuted columns of different types fail to scan", func(t *testing.T) {
		rs := sqlmock.NewRows([]string{"value", "age", "name"}).AddRow(int64(3), int64(2), "first")
		mock.ExpectQuery("select value, age, name from users").WillReturnRows(rs)

		var got c11Row
		if err := conn.QueryRow(&got, "select value, age, name from users where id = ?", 1); err != nil {
			t.Fatalf("QueryRow with a permuted column list: %v", err)
		}
		if got.Name != "first" || got.Age != 2 || got.Value != 3 {
			t.Errorf("want {first 2 3}, got {%s %d %d}", got.Name, got.Age, got.Value)
		}
	})

	t.Run("partial/a missing leading column shifts the rest", func(t *testing.T) {
		rs := sqlmock.NewRows([]string{"value"}).AddRow(int64(7))
		mock.ExpectQuery("select value from users").WillReturnRows(rs)

		var got c11RowPtr
		if err := conn.QueryRowPartial(&got, "select value from users where id = ?", 1); err != nil {
			t.Fatalf("QueryRowPartial: %v", err)
		}
		if got.Age != 0 || got.C11Embed == nil || got.Value != 7 {
			t.Errorf("want age=0 value=7, got age=%d embed=%+v", got.Age, got.C11Embed)
		}
	})
}
