// Demo for C08 / f4: in fallback mode the caller's clock is handed straight to
// golang.org/x/time/rate, whose Limiter sets its `last` to the request time of
// every GRANTED request even when that time is older than `last`.  A granted
// request carrying an older second therefore rewinds the refill clock and the
// next request carrying the newer second is credited the same span again.
//
// Place this file in lib/limit/ (package limit) and run
//
//	go test -vet=off -count=1 -run TestTokenLimit_RescueOutOfOrderSeconds ./lib/limit/
//
// Schedule (explicit caller clocks): Redis is down; callers A (clock: second
// s+1) and B (clock: second s) share the limiter.  All requests carry second s
// or s+1, so at most burst + rate*1 events may be admitted.
package limit

import (
	"testing"
	"time"

	"github.com/alicebob/miniredis/v2"
	"github.com/gotid/god/lib/store/redis"
)

func TestTokenLimit_RescueOutOfOrderSeconds(t *testing.T) {
	s, err := miniredis.Run()
	if err != nil {
		t.Fatal(err)
	}

	const (
		rate  = 5
		burst = 10
		bound = burst + rate*1
	)
	l := NewTokenLimiter(rate, burst, redis.New(s.Addr()), "f4-rescue-clock-order")
	s.Close() // every decision below is taken by the in-process bucket

	sec := time.Unix(1_700_000_100, 0)
	callerA := sec.Add(time.Second)
	callerB := sec

	admitted := 0
	take := func(now time.Time) bool {
		ok := l.AllowN(now, 1)
		if ok {
			admitted++
		}
		return ok
	}

	// A takes burst-1 tokens at second s+1, one token is left
	for i := 0; i < burst-1; i++ {
		if !take(callerA) {
			t.Fatalf("take %d of the initial burst refused", i+1)
		}
	}
	for round := 0; round < 20; round++ {
		// B's late request for second s takes the last token ...
		take(callerB)
		// ... and A, still at second s+1, takes all but one of what is there
		for i := 0; i < rate-1; i++ {
			take(callerA)
		}
	}

	if admitted > bound {
		t.Fatalf("admitted %d events although every request carried second s or s+1; "+
			"the bucket (burst=%d, rate=%d/s) allows at most burst+rate*1 = %d",
			admitted, burst, rate, bound)
	}
}
