package logx

// Demo for property C19, finding f4.
// Place this file as lib/logx/h7c19_f4_test.go and run
//   go test -vet=off -count=1 -run TestH7C19F4 ./lib/logx/
//
// Backup names of the size rule carry the local UTC offset (RFC 3339). The
// pre-existing backups below are the names a logger running in New York
// produced around the end of daylight saving time on 2025-11-02 (02:00 EDT
// becomes 01:00 EST): a rotation at 01:50 EDT (05:50 UTC) and one twenty minutes
// later at 01:10 EST (06:10 UTC). With maxBackups = 2 the clean-up after the
// next rotation has to keep the two newest backups, i.e. the one made by that
// rotation and the one of 01:10 EST, and may remove only the one of 01:50 EDT.

import (
	"os"
	"path/filepath"
	"strings"
	"testing"
	"time"
)

func TestH7C19F4_NewerBackupRemovedAcrossOffsetChange(t *testing.T) {
	dir := t.TempDir()
	filename := filepath.Join(dir, "access.log")
	older := filepath.Join(dir, "access-2025-11-02T01:50:00-04:00.log") // 05:50 UTC
	newer := filepath.Join(dir, "access-2025-11-02T01:10:00-05:00.log") // 06:10 UTC
	for _, f := range []string{older, newer} {
		if err := os.WriteFile(f, []byte(filepath.Base(f)+"\n"), 0o600); err != nil {
			t.Fatal(err)
		}
	}
	to, _ := time.Parse(time.RFC3339, "2025-11-02T01:50:00-04:00")
	tn, _ := time.Parse(time.RFC3339, "2025-11-02T01:10:00-05:00")
	if !to.Before(tn) {
		t.Fatal("test is wrong")
	}

	rule := NewSizeLimitRotateRule(filename, "-", 0, 1, 2, false)
	logger, err := NewLogger(filename, rule, false)
	if err != nil {
		t.Fatal(err)
	}
	half := []byte(strings.Repeat("x", 600<<10-1) + "\n")
	logger.write(half)
	logger.write(half) // does not fit any more: rotation, three backups now

	// wait for the asynchronous clean-up: one of the two old backups has to go
	deadline := time.Now().Add(10 * time.Second)
	for {
		_, errOlder := os.Stat(older)
		_, errNewer := os.Stat(newer)
		if errOlder != nil || errNewer != nil {
			break
		}
		if time.Now().After(deadline) {
			t.Fatal("clean-up removed nothing although there are 3 backups and maxBackups is 2")
		}
		time.Sleep(10 * time.Millisecond)
	}
	time.Sleep(200 * time.Millisecond)
	if err := logger.Close(); err != nil {
		t.Fatal(err)
	}

	if _, err := os.Stat(newer); err != nil {
		t.Errorf("the backup of 06:10 UTC (one of the two newest) was removed: %v", err)
	}
	if _, err := os.Stat(older); err == nil {
		t.Errorf("the backup of 05:50 UTC (the oldest of three) was kept")
	}
}

// The same mix-up in the retention test: with one day of retention a backup made
// 20 hours ago must stay. Its name was written while the host ran at UTC-8, the
// host's zone is UTC now (this test runs wherever time.Local points to; the name
// is rendered in a zone 8 hours behind it).
func TestH7C19F4_RecentBackupRemovedAfterZoneChange(t *testing.T) {
	dir := t.TempDir()
	filename := filepath.Join(dir, "access.log")
	_, offset := time.Now().Zone()
	behind := time.FixedZone("behind", offset-8*3600)
	recent := filepath.Join(dir, "access-"+time.Now().Add(-20*time.Hour).In(behind).Format(time.RFC3339)+".log")
	outdated := filepath.Join(dir, "access-"+time.Now().Add(-10*24*time.Hour).Format(time.RFC3339)+".log")
	for _, f := range []string{recent, outdated} {
		if err := os.WriteFile(f, []byte(filepath.Base(f)+"\n"), 0o600); err != nil {
			t.Fatal(err)
		}
	}

	rule := NewSizeLimitRotateRule(filename, "-", 1, 1, 0, false)
	logger, err := NewLogger(filename, rule, false)
	if err != nil {
		t.Fatal(err)
	}
	half := []byte(strings.Repeat("x", 600<<10-1) + "\n")
	logger.write(half)
	logger.write(half) // rotation
	waitRemoved(t, outdated)
	if err := logger.Close(); err != nil {
		t.Fatal(err)
	}

	if _, err := os.Stat(recent); err != nil {
		t.Errorf("a backup made 20 hours ago was removed although one day is retained: %v", err)
	}
}

func waitRemoved(t *testing.T, file string) {
	t.Helper()
	deadline := time.Now().Add(10 * time.Second)
	for {
		if _, err := os.Stat(file); os.IsNotExist(err) {
			time.Sleep(200 * time.Millisecond) // the removals of one clean-up follow each other immediately
			return
		}
		if time.Now().After(deadline) {
			t.Fatalf("clean-up did not remove the outdated backup %s", file)
		}
		time.Sleep(10 * time.Millisecond)
	}
}
