// Place in lib/mr/ (external test package) and run:
//
//	go test -vet=off -count=1 -timeout 60s -run TestCancelWhileReducerWrites ./lib/mr/
//
// Property C07: "cancel(err) makes the call return that error" / "the call returns the single value the reducer
// wrote" - one of the two, whichever comes first; the only panics the statement allows are those raised by the
// generator, a mapper or the reducer (and the double write).
//
// guardedWriter.Write is check-then-act:
//
//	select { case <-ctx.Done(): return; case <-done: return; default: channel <- v }
//
// and cancel() -> finish() closes BOTH done and output from whichever goroutine cancels. If a mapper's cancel(err)
// (or the ctx arm of the caller) runs finish() after the reducer's Write has taken the default arm and before its
// send has completed, the reducer goroutine performs a send on the closed output channel: the runtime panic
// "send on closed channel" is raised inside the library's own Write, recovered by the reducer goroutine's guard,
// forwarded to panicChan, and re-raised in the calling goroutine (by the select or by the deferred poll) - the
// caller of MapReduce gets a runtime panic that none of its functions raised, instead of the cancel error.
//
// Write has no user hook between its select and its send, so the window cannot be forced from outside; the mapper
// and the reducer are released by the same close(start) and the call is repeated. On the unmodified HEAD about
// one call in 30000 panics on a multi-core machine (first panic after ~0.3 s); budget 1.2 million calls / 15 s.
package mr_test

import (
	"errors"
	"fmt"
	"runtime"
	"testing"
	"time"

	"github.com/gotid/god/lib/mr"
)

func TestCancelWhileReducerWrites(t *testing.T) {
	if runtime.GOMAXPROCS(0) < 4 {
		defer runtime.GOMAXPROCS(runtime.GOMAXPROCS(4))
	}
	errCancelled := errors.New("cancelled by mapper")

	call := func() (v any, err error, raised any) {
		defer func() { raised = recover() }()
		start := make(chan struct{})
		v, err = mr.MapReduce(func(source chan<- any) {
			source <- 1
		}, func(item any, w mr.Writer, cancel func(error)) {
			close(start)
			cancel(errCancelled)
		}, func(pipe <-chan any, w mr.Writer, cancel func(error)) {
			<-start
			w.Write("result")
		})
		return
	}

	const budget = 1200000
	deadline := time.Now().Add(15 * time.Second)
	for i := 0; i < budget && time.Now().Before(deadline); i++ {
		v, err, raised := call()
		switch {
		case raised != nil:
			t.Fatalf("call #%d: MapReduce panicked with %q although neither generator, mapper nor reducer panics",
				i, fmt.Sprint(raised))
		case err == errCancelled && v == nil: // the cancel came first
		case err == nil && v == "result": // the reducer's write came first
		default:
			t.Fatalf("call #%d: unexpected outcome value %v, error %v", i, v, err)
		}
	}
}
