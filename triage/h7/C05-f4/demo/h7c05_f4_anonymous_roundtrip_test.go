// Place at: api/httpc/h7c05_f4_anonymous_roundtrip_test.go (package httpc)
// Run:      go test -vet=off -count=1 -run TestH7C05F4 ./api/httpc/
//
// Property C05: "A request struct sent with the HTTP client helper (path, form, header and json
// parts) is parsed back by the server-side request parser into an equal struct."
// The quantifier covers "nested/anonymous structs".  httpx.Parse reads the members of an anonymous
// (embedded) struct at the level of the outer struct, but mapping.Marshal - used by
// httpc.buildRequest - files the whole embedded struct under the pseudo tag "" and its type name,
// which buildRequest never looks at: every path/form/header/json member of it is dropped.
package httpc

import (
	"context"
	"net/http"
	"net/http/httptest"
	"reflect"
	"testing"

	"github.com/gotid/god/api/httpx"
	"github.com/gotid/god/api/router"
)

type (
	H7C05F4Paging struct {
		Page int `form:"page"`
		Size int `form:"size"`
	}

	H7C05F4Auth struct {
		Token string `header:"X-Token"`
	}

	H7C05F4Body struct {
		Name string `json:"name"`
	}

	H7C05F4Key struct {
		ID string `path:"id"`
	}
)

func h7c05f4RoundTrip(t *testing.T, route string, in, out interface{}) {
	t.Helper()
	var parseErr error
	var called bool
	rt := router.NewRouter()
	if err := rt.Handle(http.MethodPost, route, http.HandlerFunc(func(w http.ResponseWriter, r *http.Request) {
		called = true
		parseErr = httpx.Parse(r, out)
	})); err != nil {
		t.Fatal(err)
	}
	svr := httptest.NewServer(http.HandlerFunc(rt.ServeHTTP))
	defer svr.Close()

	resp, err := Do(context.Background(), http.MethodPost, svr.URL+route, in)
	if err != nil {
		t.Fatalf("client: %v", err)
	}
	resp.Body.Close()
	if !called {
		t.Fatalf("handler not reached, status %d", resp.StatusCode)
	}
	if parseErr != nil {
		t.Fatalf("httpx.Parse rejected the request httpc.Do built from %+v: %v", in, parseErr)
	}
	if !reflect.DeepEqual(in, reflect.ValueOf(out).Elem().Interface()) {
		t.Fatalf("round trip changed the struct: sent %+v, parsed %+v", in, reflect.ValueOf(out).Elem().Interface())
	}
}

func TestH7C05F4_AnonymousFormAndHeader(t *testing.T) {
	type Req struct {
		H7C05F4Paging
		H7C05F4Auth
		Keyword string `form:"q"`
	}
	var out Req
	h7c05f4RoundTrip(t, "/list", Req{H7C05F4Paging{Page: 2, Size: 20}, H7C05F4Auth{Token: "t"}, "go"}, &out)
}

func TestH7C05F4_AnonymousJson(t *testing.T) {
	type Req struct {
		H7C05F4Body
		Age int `json:"age"`
	}
	var out Req
	h7c05f4RoundTrip(t, "/create", Req{H7C05F4Body{Name: "n"}, 7}, &out)
}

func TestH7C05F4_AnonymousPath(t *testing.T) {
	type Req struct {
		H7C05F4Key
		Age int `json:"age"`
	}
	var out Req
	// on HEAD the client already fails: 缺少路径变量 "id"
	h7c05f4RoundTrip(t, "/item/:id", Req{H7C05F4Key{ID: "k1"}, 7}, &out)
}

func TestH7C05F4_AnonymousPointer(t *testing.T) {
	type Req struct {
		*H7C05F4Paging
		Keyword string `form:"q"`
	}
	var out Req
	h7c05f4RoundTrip(t, "/list", Req{&H7C05F4Paging{Page: 1, Size: 5}, "go"}, &out)
}
