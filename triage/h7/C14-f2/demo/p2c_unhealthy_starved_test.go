// Demo for C14 finding f2: with many ready connections an unhealthy connection
// is resampled away before it can reach choose(), so the "not picked for more
// than a second" rule never sees it and it is starved under sustained traffic.
//
// Place this file in rpc/internal/balancer/p2c/ (package p2c, in-package test) and run
//
//	go test -vet=off -count=1 -run 'TestC14UnhealthyConnStillPickedOncePerSecond' -timeout 20s -v ./rpc/internal/balancer/p2c/
//
// FAILS on the unmodified HEAD (0 picks in 5 seconds of 1000 picks/s), passes
// once an overdue connection is no longer resampled away.
package p2c

import (
	"context"
	"math/rand"
	"strconv"
	"testing"
	"time"

	"google.golang.org/grpc/balancer"
	"google.golang.org/grpc/balancer/base"
	"google.golang.org/grpc/codes"
	"google.golang.org/grpc/resolver"
	"google.golang.org/grpc/status"
)

func TestC14UnhealthyConnStillPickedOncePerSecond(t *testing.T) {
	const (
		backends = 50
		calls    = 5000 // paced 1ms apart: 5 seconds at 1000 picks/s, 20/s per backend
	)

	ready := make(map[balancer.SubConn]base.SubConnInfo)
	for i := 0; i < backends; i++ {
		ready[mockClientConn{id: strconv.Itoa(i)}] = base.SubConnInfo{
			Address: resolver.Address{Addr: strconv.Itoa(i)},
		}
	}
	p := new(p2cPickerBuilder).Build(base.PickerBuildInfo{ReadySCs: ready}).(*p2cPicker)
	// fixed seed: the sequence of sampled pairs is the same in every run.
	p.r = rand.New(rand.NewSource(1))

	pick := func() balancer.PickResult {
		r, err := p.Pick(balancer.PickInfo{Ctx: context.Background()})
		if err != nil {
			t.Fatal(err)
		}
		return r
	}

	// Phase 1: the backend behind the first pick is down; its call fails and
	// it becomes unhealthy. Everybody else answers.
	first := pick()
	bad := first.SubConn
	first.Done(balancer.DoneInfo{Err: status.Error(codes.Unavailable, "backend down")})
	var badConn *subConn
	for _, c := range p.conns {
		if c.conn == bad {
			badConn = c
		}
	}
	if badConn == nil || badConn.healthy() {
		t.Fatalf("setup: the failed backend should be unhealthy")
	}

	// Phase 2: the backend has recovered (every call would succeed now).
	// Sustained traffic: 1000 picks per second for 5 seconds.
	begin := time.Now()
	picked := 0
	for i := 0; i < calls; i++ {
		r := pick()
		if r.SubConn == bad {
			picked++
		}
		r.Done(balancer.DoneInfo{})
		for next := begin.Add(time.Duration(i+1) * time.Millisecond); time.Now().Before(next); {
		}
	}
	elapsed := time.Since(begin)

	// "at least about once per second": ask for one pick per two seconds.
	want := int(elapsed / (2 * time.Second))
	t.Logf("%d picks in %v over %d backends: the unhealthy one was picked %d times (score now %d)",
		calls, elapsed, backends, picked, badConn.success)
	if picked < want {
		t.Errorf("unhealthy connection picked %d times in %v of sustained traffic, want at least %d (about one per second)",
			picked, elapsed, want)
	}
	if !badConn.healthy() && picked < want {
		t.Errorf("the recovered backend could not regain its score: still %d", badConn.success)
	}
}
