// Demo for C08 / f1: the token script stores the caller's `now` as the refill
// timestamp even when it is OLDER than the stored one, so the same second is
// credited again by the next caller that supplies the newer second.
//
// Place this file in lib/limit/ (package limit) and run
//
//	go test -vet=off -count=1 -run TestTokenLimit_OutOfOrderSeconds ./lib/limit/
//
// Schedule reproduced (deterministically, with explicit caller clocks): two
// concurrent callers A and B share one key.  A's clock shows second s+1, B's
// clock shows second s (B read the clock just before the second boundary and
// its EVAL reaches Redis after A's, or B runs on a host whose clock is one
// second behind).  Every timestamp handed to AllowN lies in {s, s+1}, so at
// most burst + rate*1 events may be admitted in total.
package limit

import (
	"testing"
	"time"

	"github.com/alicebob/miniredis/v2"
	"github.com/gotid/god/lib/store/redis"
)

func TestTokenLimit_OutOfOrderSeconds(t *testing.T) {
	s, err := miniredis.Run()
	if err != nil {
		t.Fatal(err)
	}
	defer s.Close()

	const (
		rate  = 5
		burst = 10
		bound = burst + rate*1 // everything happens between second s and s+1
	)
	l := NewTokenLimiter(rate, burst, redis.New(s.Addr()), "f1-clock-order")

	sec := time.Unix(1_700_000_100, 0)
	callerA := sec.Add(time.Second) // clock of caller A: second s+1
	callerB := sec                  // clock of caller B: second s

	admitted := 0
	for round := 0; round < 20; round++ {
		// A drains whatever is in the bucket at second s+1
		for i := 0; i < 2*bound && l.AllowN(callerA, 1); i++ {
			admitted++
		}
		// B's (late / skewed) request for second s arrives
		if l.AllowN(callerB, 1) {
			admitted++
		}
	}

	if admitted > bound {
		t.Fatalf("admitted %d events although every request carried second s or s+1; "+
			"the bucket (burst=%d, rate=%d/s) allows at most burst+rate*1 = %d",
			admitted, burst, rate, bound)
	}
}
