// Place at: lib/mapping/h7c05_f10_required_cache_test.go (package mapping)
// Run:      go test -vet=off -count=1 -run TestH7C05F10 ./lib/mapping/
//
// Property C05 (state anchor: "process-wide memo ... keyed by ..."): the outcome of unmarshalling a
// document into a struct shape must depend on the shape and the document only.
// structRequiredCache memoises "does an absent struct-typed field count as a missing required
// field?" per reflect.Type, but the answer depends on the tag key of the Unmarshaler as well
// (implicitValueRequiredStruct: a member that carries only OTHER tag keys makes the struct
// required; a member `key:"x,optional"` does not).  Whichever Unmarshaler sees the type first
// decides for all the others:
//   - a form unmarshaler looks at type Filter first (answer under "form": required) -> the json
//     unmarshaler now refuses an absent Filter although all its json members are optional;
//   - a form unmarshaler looks at type Key first (answer under "form": not required) -> the json
//     unmarshaler now accepts an absent Key that it refuses on a cold cache.
package mapping

import (
	"testing"
)

type (
	// all members optional under "json"; under "form" the member has a different key -> required
	h7c05f10FilterA struct {
		Tag string `json:"tag,optional"`
	}
	// identical twin, used for the reference run with a cold cache
	h7c05f10FilterB struct {
		Tag string `json:"tag,optional"`
	}
)

func TestH7C05F10_AnotherTagKeyPoisonsTheRequiredMemo(t *testing.T) {
	form := NewUnmarshaler("form", WithStringValues())

	// reference (cold cache, json only): an absent struct whose members are all optional is fine
	var ref struct {
		Filter h7c05f10FilterB `json:"filter"`
	}
	if err := UnmarshalJsonBytes([]byte(`{}`), &ref); err != nil {
		t.Fatalf("reference run: %v", err)
	}

	// an unrelated form document is parsed into a struct that also uses the Filter type
	var other struct {
		Filter h7c05f10FilterA `form:"filter"`
	}
	_ = form.Unmarshal(map[string]any{}, &other) // fails or not - irrelevant here

	// same shape and same document as the reference run
	var v struct {
		Filter h7c05f10FilterA `json:"filter"`
	}
	if err := UnmarshalJsonBytes([]byte(`{}`), &v); err != nil {
		t.Errorf("same shape, same document as the reference run, but after a form unmarshaler saw the type: %v", err)
	}
}

type (
	// under "json" the only member belongs to another tag key -> the struct counts as required;
	// under "form" the member is optional -> not required
	h7c05f10KeyA struct {
		ID string `form:"id,optional"`
	}
	// identical twin for the cold-cache reference run
	h7c05f10KeyB struct {
		ID string `form:"id,optional"`
	}
)

func TestH7C05F10_RequiredStructAcceptedAfterOtherTagKey(t *testing.T) {
	form := NewUnmarshaler("form", WithStringValues())

	// reference (cold cache): under "json" the library treats the struct as required -> an
	// absent one is an error
	var ref struct {
		Key h7c05f10KeyB `json:"key"`
	}
	if err := UnmarshalJsonBytes([]byte(`{}`), &ref); err == nil {
		t.Fatalf("reference run: absent required struct accepted")
	}

	var other struct {
		Key h7c05f10KeyA `form:"key"`
	}
	if err := form.Unmarshal(map[string]any{}, &other); err != nil {
		t.Fatalf("form run: %v", err)
	}

	var v struct {
		Key h7c05f10KeyA `json:"key"`
	}
	if err := UnmarshalJsonBytes([]byte(`{}`), &v); err == nil {
		t.Errorf("same shape, same document as the reference run (which failed), but after a form unmarshaler saw the type the absent required struct is accepted")
	}
}
