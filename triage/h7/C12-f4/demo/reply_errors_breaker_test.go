// Demo for C12 finding f4: error REPLIES of a healthy server (WRONGTYPE, "value is not an
// integer", ...) are booked as breaker failures, so after a history that contains some of
// them the wrapper silently drops perfectly valid commands that go-redis executes.
//
// Place this file at lib/store/redis/reply_errors_breaker_test.go (external test package,
// public API only, the real breaker) and run
//
//	go test -vet=off -count=1 -run 'TestReplyErrorsDoNotBreakTransparency' ./lib/store/redis/
//
// It fails on the unmodified HEAD and passes once acceptable() stops counting per-command
// error replies as failures of the address.
//
// Determinism: the Google breaker drops with probability (total-5-1.5*accepts)/(total+1).
// After the 300 WRONGTYPE attempts below that ratio is > 0.75 for the first valid command and
// only decays as valid commands get through; the chance that all 60 valid commands pass on
// HEAD is < 1e-9. With a correct classification the ratio is 0 throughout.
package redis_test

import (
	"context"
	"strconv"
	"strings"
	"testing"

	"github.com/alicebob/miniredis/v2"
	red "github.com/go-redis/redis/v8"
	"github.com/gotid/god/lib/logx"
	"github.com/gotid/god/lib/store/redis"
)

func TestReplyErrorsDoNotBreakTransparency(t *testing.T) {
	logx.Disable()
	mw, err := miniredis.Run()
	if err != nil {
		t.Fatal(err)
	}
	defer mw.Close()
	mr, err := miniredis.Run()
	if err != nil {
		t.Fatal(err)
	}
	defer mr.Close()

	ctx := context.Background()
	wrapper := redis.New(mw.Addr())
	raw := red.NewClient(&red.Options{Addr: mr.Addr()})
	defer raw.Close()

	// History, part 1: a list key, and a caller that keeps INCRementing it.
	// Server, connection and address are perfectly healthy; every reply is WRONGTYPE.
	if _, err := wrapper.RPush("jobs", "a"); err != nil {
		t.Fatal(err)
	}
	raw.RPush(ctx, "jobs", "a")
	for i := 0; i < 300; i++ {
		_, werr := wrapper.Incr("jobs")
		_, rerr := raw.Incr(ctx, "jobs").Result()
		if rerr == nil || !strings.HasPrefix(rerr.Error(), "WRONGTYPE") {
			t.Fatalf("go-redis: unexpected reply %v", rerr)
		}
		if werr == nil {
			t.Fatalf("wrapper: INCR on a list succeeded")
		}
	}

	// History, part 2: valid commands on an unrelated key. go-redis executes all of them.
	dropped := 0
	var firstErr error
	for i := 0; i < 60; i++ {
		v := strconv.Itoa(i)
		if err := raw.Set(ctx, "greeting", v, 0).Err(); err != nil {
			t.Fatalf("go-redis SET: %v", err)
		}
		if err := wrapper.Set("greeting", v); err != nil {
			dropped++
			if firstErr == nil {
				firstErr = err
			}
		}
	}
	if dropped > 0 {
		t.Errorf("%d of 60 valid SETs were not executed by the wrapper (first error: %v); go-redis executed all 60",
			dropped, firstErr)
	}
	if got, want := mw.Dump(), mr.Dump(); got != want {
		t.Errorf("keyspaces diverged\nwrapper server:\n%s\ngo-redis server:\n%s", got, want)
	}
}
