// Demo for C03 finding f2: with a not-allowed handler configured, a method mismatch is
// answered without the Allow header.
//
// Place this file at api/router/allowheader_demo_test.go (package router) and run:
//
//	go test -vet=off -count=1 -run TestDemoAllowHeaderWithNotAllowedHandler ./api/router/
//
// It fails on the unmodified HEAD and passes once ServeHTTP sets Allow before it
// delegates to the configured handler.
package router

import (
	"net/http"
	"net/http/httptest"
	"sort"
	"strings"
	"testing"
)

func TestDemoAllowHeaderWithNotAllowedHandler(t *testing.T) {
	r := NewRouter()
	nop := http.HandlerFunc(func(w http.ResponseWriter, r *http.Request) {})
	for _, rt := range [][2]string{
		{http.MethodGet, "/a/:b"},
		{http.MethodPut, "/a/b"},
		{http.MethodDelete, "/a/b/c"}, // does not match /a/b: must not be listed
	} {
		if err := r.Handle(rt[0], rt[1], nop); err != nil {
			t.Fatal(err)
		}
	}

	// the usual reason to configure one: a custom body for the 405 answer.
	r.SetNotAllowedHandler(http.HandlerFunc(func(w http.ResponseWriter, r *http.Request) {
		w.Header().Set("Content-Type", "application/json")
		w.WriteHeader(http.StatusMethodNotAllowed)
		_, _ = w.Write([]byte(`{"code":405}`))
	}))

	w := httptest.NewRecorder()
	r.ServeHTTP(w, httptest.NewRequest(http.MethodPost, "http://localhost/a/b", nil))

	if w.Code != http.StatusMethodNotAllowed {
		t.Fatalf("code = %d, want 405", w.Code)
	}
	var got []string
	if h := w.Header().Get("Allow"); h != "" {
		got = strings.Split(h, ", ")
	}
	sort.Strings(got)
	want := []string{http.MethodGet, http.MethodPut}
	if strings.Join(got, ",") != strings.Join(want, ",") {
		t.Fatalf("Allow = %q, want exactly %v (the other methods having a matching pattern)",
			w.Header().Get("Allow"), want)
	}
}
