// Demo for C02/f2: Config.MaxConns does not bound the number of requests inside handlers: every
// route gets a private latch of MaxConns tokens (engine.bindRoute calls handler.MaxConns per route
// and MaxConns creates the latch per wrapped handler), so a server with R routes admits
// R*MaxConns concurrent handlers and the excess request is not rejected with 503.
//
// Place this file at  api/c02_maxconns_routes_test.go  (external package api_test) and run
//
//	go test -vet=off -count=1 -run 'TestC02MaxConnsAcrossRoutes' -timeout 20s ./api/
package api_test

import (
	"fmt"
	"net"
	"net/http"
	"sync/atomic"
	"testing"
	"time"

	"github.com/gotid/god/api"
	"github.com/gotid/god/lib/logx"
)

func TestC02MaxConnsAcrossRoutes(t *testing.T) {
	logx.Disable()
	const maxConns = 2

	ln, err := net.Listen("tcp", "127.0.0.1:0")
	if err != nil {
		t.Fatal(err)
	}
	port := ln.Addr().(*net.TCPAddr).Port
	ln.Close()

	var inside int32
	entered := make(chan int32, 16)
	release := make(chan struct{})
	defer close(release)
	block := func(w http.ResponseWriter, r *http.Request) {
		entered <- atomic.AddInt32(&inside, 1)
		<-release
		atomic.AddInt32(&inside, -1)
	}

	svr, err := api.NewServer(api.Config{Host: "127.0.0.1", Port: port, MaxConns: maxConns})
	if err != nil {
		t.Fatal(err)
	}
	svr.AddRoutes([]api.Route{
		{Method: http.MethodGet, Path: "/a", Handler: block},
		{Method: http.MethodGet, Path: "/b", Handler: block},
	})
	go svr.Start()

	addr := fmt.Sprintf("127.0.0.1:%d", port)
	up := false
	for i := 0; i < 200 && !up; i++ {
		if conn, err := net.Dial("tcp", addr); err == nil {
			conn.Close()
			up = true
		} else {
			time.Sleep(10 * time.Millisecond)
		}
	}
	if !up {
		t.Fatal("server did not come up")
	}

	client := &http.Client{Timeout: 15 * time.Second}
	get := func(path string, code chan<- int) {
		resp, err := client.Get("http://" + addr + path)
		if err != nil {
			code <- -1
			return
		}
		resp.Body.Close()
		code <- resp.StatusCode
	}

	// Fill the server up to MaxConns with requests that stay inside their handler.
	sink := make(chan int, 16)
	for i := 0; i < maxConns; i++ {
		go get("/a", sink)
		select {
		case <-entered:
		case <-time.After(5 * time.Second):
			t.Fatal("request did not reach its handler")
		}
	}

	// MaxConns requests are inside handlers; one more (to the other route) must be rejected.
	extra := make(chan int, 1)
	go get("/b", extra)
	select {
	case n := <-entered:
		t.Fatalf("MaxConns=%d but %d requests are inside handlers at the same instant (the excess request was admitted instead of getting 503)", maxConns, n)
	case code := <-extra:
		if code != http.StatusServiceUnavailable {
			t.Fatalf("excess request got %d, want 503", code)
		}
	case <-time.After(5 * time.Second):
		t.Fatal("excess request neither rejected nor admitted")
	}
}
