// Demo for C11 finding f1: a transaction body that panics with a nil value
// (panic(nil)) is COMMITTED and Transact returns nil.
//
// Place this file at lib/store/sqlx/c11_panicnil_demo_test.go and run
//
//	go test -vet=off -count=1 -run 'TestC11Demo_PanicNil' ./lib/store/sqlx/
//
// The module's go.mod says `go 1.19`, so even with a Go >= 1.21 toolchain the
// GODEBUG default is panicnil=1: recover() returns nil for panic(nil).  The
// deferred function of transactOnConn takes `recover() != nil` as its only
// sign of a panic, so the panic is swallowed, err is still nil and the
// transaction is committed.
package sqlx_test

import (
	"context"
	"strings"
	"testing"

	"github.com/DATA-DOG/go-sqlmock"
	"github.com/gotid/god/lib/logx"
	"github.com/gotid/god/lib/store/sqlx"
)

func TestC11Demo_PanicNilIsRolledBack(t *testing.T) {
	logx.Disable()

	db, mock, err := sqlmock.New()
	if err != nil {
		t.Fatal(err)
	}
	defer db.Close()

	// Both endings are registered and matched in any order, so that we observe
	// which one the code under test picks: the one that is still "remaining"
	// afterwards is the one that did NOT happen.
	mock.MatchExpectationsInOrder(false)
	mock.ExpectBegin()
	mock.ExpectExec("insert into account").WillReturnResult(sqlmock.NewResult(1, 1))
	mock.ExpectCommit()
	mock.ExpectRollback()

	conn := sqlx.NewConnFromDB(db)

	var (
		result    error
		returned  bool // Transact returned normally (did not re-panic)
		panicSeen bool
	)
	func() {
		defer func() {
			if !returned {
				panicSeen = true
				_ = recover()
			}
		}()
		result = conn.TransactCtx(context.Background(), func(ctx context.Context, s sqlx.Session) error {
			if _, e := s.ExecCtx(ctx, "insert into account(id, amount) values (?, ?)", 1, 100); e != nil {
				return e
			}
			var p any // a nil panic value, e.g. `panic(err)` with a nil err
			panic(p)
		})
		returned = true
	}()

	unmet := ""
	if e := mock.ExpectationsWereMet(); e != nil {
		unmet = e.Error()
	}
	committed := !strings.Contains(unmet, "ExpectedCommit")
	rolledBack := !strings.Contains(unmet, "ExpectedRollback")
	t.Logf("Transact result=%v, panic propagated=%v, committed=%v, rolledBack=%v",
		result, panicSeen, committed, rolledBack)

	if committed {
		t.Errorf("the body panicked, yet the transaction was committed")
	}
	if !rolledBack {
		t.Errorf("the body panicked, yet the transaction was not rolled back")
	}
	if !panicSeen && result == nil {
		t.Errorf("the body panicked, yet Transact returned nil: the caller never learns of the panic")
	}
}
