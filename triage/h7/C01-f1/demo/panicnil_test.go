// Place at: lib/breaker/panicnil_test.go (package-internal).
// Run:      go test -vet=off -count=1 -run 'TestC01PanicNil' ./lib/breaker/
//
// The module's go.mod says "go 1.19", so GODEBUG panicnil=1 is the default:
// panic(nil) makes recover() return nil. googleBreaker.doReq detects a panic
// with `if e := recover(); e != nil`, so a req that does panic(nil) is
// recovered (the panic is swallowed, doReq returns nil) and NO outcome is
// recorded. The property demands: an admitted call records exactly one
// outcome, failure on a panic, and the panic is re-raised to the caller.
package breaker

import (
	"testing"
)

func c01PanicNilCall(do func(req func() error) error) (ran, reraised, returned bool, ret error) {
	func() {
		defer func() {
			if !returned {
				// do() did not return normally: a panic is propagating.
				reraised = true
				recover()
			}
		}()
		ret = do(func() error {
			ran = true
			panic(nil)
		})
		returned = true
	}()
	return
}

func TestC01PanicNilGoogleBreaker(t *testing.T) {
	b := newGoogleBreaker()
	ran, reraised, returned, ret := c01PanicNilCall(func(req func() error) error {
		return b.doReq(req, nil, defaultAcceptable)
	})
	if !ran {
		t.Fatal("fresh breaker must admit the call")
	}
	accepts, total := b.history()
	if total != 1 || accepts != 0 {
		t.Errorf("admitted call that panicked must record exactly one failure; got total=%d successes=%d", total, accepts)
	}
	if !reraised || returned {
		t.Errorf("panic must be re-raised to the caller; doReq returned normally with err=%v", ret)
	}
}

// Same through the public API / named registry: a dependency that only ever
// panics (with a nil value) is never cut off, and every call "succeeds".
func TestC01PanicNilNeverTrips(t *testing.T) {
	const name = "c01-panic-nil"
	var swallowed, rejected int
	for i := 0; i < 1000; i++ {
		_, reraised, _, ret := c01PanicNilCall(func(req func() error) error {
			return Do(name, req)
		})
		switch {
		case ret == ErrServiceUnavailable:
			rejected++
		case !reraised:
			swallowed++
		}
	}
	if swallowed != 0 {
		t.Errorf("%d of 1000 panicking calls returned normally (panic swallowed)", swallowed)
	}
	if rejected == 0 {
		t.Errorf("a dependency that keeps panicking was never cut off in 1000 calls")
	}
}
