// Demo for C14 finding f3: among three backends, one that fails every call
// *quickly* is unhealthy but still wins every load comparison it takes part
// in, so it is chosen about as often as its healthy neighbours.
//
// Place this file in rpc/internal/balancer/p2c/ (package p2c, in-package test) and run
//
//	go test -vet=off -count=1 -run 'TestC14FastFailingBackendIsAvoided' -timeout 20s -v ./rpc/internal/balancer/p2c/
//
// FAILS on the unmodified HEAD (the failing backend gets ~8/27 = 30% of the
// picks, more than one of the healthy ones), passes once a healthy node is
// preferred to an unhealthy one.
package p2c

import (
	"context"
	"math/rand"
	"strconv"
	"testing"
	"time"

	"google.golang.org/grpc/balancer"
	"google.golang.org/grpc/balancer/base"
	"google.golang.org/grpc/codes"
	"google.golang.org/grpc/resolver"
	"google.golang.org/grpc/status"
)

func TestC14FastFailingBackendIsAvoided(t *testing.T) {
	ready := make(map[balancer.SubConn]base.SubConnInfo)
	for i := 0; i < 3; i++ {
		ready[mockClientConn{id: strconv.Itoa(i)}] = base.SubConnInfo{
			Address: resolver.Address{Addr: strconv.Itoa(i)},
		}
	}
	p := new(p2cPickerBuilder).Build(base.PickerBuildInfo{ReadySCs: ready}).(*p2cPicker)
	p.r = rand.New(rand.NewSource(1))
	bad := p.conns[0]

	// one call at a time; the bad backend refuses at once (Unavailable), the
	// two good ones answer after 300 microseconds.
	call := func() balancer.SubConn {
		r, err := p.Pick(balancer.PickInfo{Ctx: context.Background()})
		if err != nil {
			t.Fatal(err)
		}
		if r.SubConn == bad.conn {
			r.Done(balancer.DoneInfo{Err: status.Error(codes.Unavailable, "refused")})
		} else {
			for start := time.Now(); time.Since(start) < 300*time.Microsecond; {
			}
			r.Done(balancer.DoneInfo{})
		}
		return r.SubConn
	}

	// warm-up: bounded number of completions until the bad backend is unhealthy
	// and every backend has a latency estimate.
	for i := 0; i < 300; i++ {
		call()
	}
	if bad.healthy() {
		t.Fatalf("setup: backend whose calls all fail should be unhealthy, score %d", bad.success)
	}
	for _, c := range p.conns[1:] {
		if !c.healthy() {
			t.Fatalf("setup: good backend %s should be healthy, score %d", c.addr.Addr, c.success)
		}
	}

	const calls = 3000
	count := make(map[balancer.SubConn]int)
	for i := 0; i < calls; i++ {
		count[call()]++
	}

	nBad := count[bad.conn]
	least := calls
	for _, c := range p.conns[1:] {
		if n := count[c.conn]; n < least {
			least = n
		}
	}
	t.Logf("picks: failing backend %d, healthy backends %d and %d",
		nBad, count[p.conns[1].conn], count[p.conns[2].conn])
	// "chosen markedly less often than they are": at most half as often as the
	// least chosen healthy backend.
	if nBad*2 > least {
		t.Errorf("unhealthy backend chosen %d times, the least chosen healthy one %d times: not markedly less",
			nBad, least)
	}
}
