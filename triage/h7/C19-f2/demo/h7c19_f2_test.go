package logx

// Demo for property C19, finding f2.
// Place this file as lib/logx/h7c19_f2_test.go and run
//   go test -vet=off -count=1 -run TestH7C19F2 ./lib/logx/
//
// Size rule, 1 MB maximum, one day of retention. The current file was opened
// three days ago (a log that fills slowly, as error.log or slow.log usually do)
// and reaches the maximum now. The rotation turns it into the newest backup; it
// holds the records written up to this very moment. Clean-up may remove backups
// older than the retention days, never the newest backup.
//
// There is no clock hook, so "opened three days ago" is reproduced by giving
// RotateLogger.backup the value that init() computed three days ago
// (rule.BackupFilename() at that time); nothing else is touched.

import (
	"bytes"
	"fmt"
	"os"
	"path/filepath"
	"testing"
	"time"
)

func TestH7C19F2_NewestBackupOfSlowlyFilledFileIsDeleted(t *testing.T) {
	dir := t.TempDir()
	filename := filepath.Join(dir, "error.log")
	nameAt := func(ts time.Time) string {
		return filepath.Join(dir, fmt.Sprintf("error-%s.log", ts.Format(time.RFC3339)))
	}

	// a genuinely outdated backup (ten days old): clean-up has to remove it, which
	// also tells the test that the asynchronous clean-up has run.
	outdated := nameAt(time.Now().Add(-10 * 24 * time.Hour))
	if err := os.WriteFile(outdated, []byte("old\n"), 0o600); err != nil {
		t.Fatal(err)
	}

	rule := NewSizeLimitRotateRule(filename, "-", 1, 1, 0, false)
	logger, err := NewLogger(filename, rule, false)
	if err != nil {
		t.Fatal(err)
	}
	// the logger was opened three days ago
	logger.backup = nameAt(time.Now().Add(-3 * 24 * time.Hour))

	const recLen = 64 << 10
	var want [][]byte
	for i := 0; i < 17; i++ { // 16 records fill 1 MB, the 17th triggers the rotation
		head := fmt.Sprintf("record-%04d ", i)
		rec := append([]byte(head), bytes.Repeat([]byte{'a' + byte(i%26)}, recLen-len(head)-1)...)
		rec = append(rec, '\n')
		want = append(want, rec)
		logger.write(rec) // synchronous counterpart of Write, as in the package's own tests
	}

	// wait for the clean-up that follows the rotation
	deadline := time.Now().Add(10 * time.Second)
	for {
		if _, err := os.Stat(outdated); os.IsNotExist(err) {
			break
		}
		if time.Now().After(deadline) {
			t.Fatal("clean-up did not remove the ten days old backup")
		}
		time.Sleep(10 * time.Millisecond)
	}
	time.Sleep(200 * time.Millisecond) // the removals of one clean-up follow each other immediately
	if err := logger.Close(); err != nil {
		t.Fatal(err)
	}

	files, err := filepath.Glob(filepath.Join(dir, "error*"))
	if err != nil {
		t.Fatal(err)
	}
	var got []byte
	for _, f := range files {
		content, err := os.ReadFile(f)
		if err != nil {
			t.Fatal(err)
		}
		t.Logf("%s: %d bytes", filepath.Base(f), len(content))
		got = append(got, content...)
	}

	missing := 0
	for _, rec := range want {
		if !bytes.Contains(got, rec) {
			missing++
		}
	}
	if missing > 0 {
		t.Errorf("%d of the %d records written within the last seconds are in neither the current file "+
			"nor a backup: clean-up removed the backup the rotation had just made", missing, len(want))
	}
	if len(files) != 2 {
		t.Errorf("want the current file and the newest backup, got %v", files)
	}
}
