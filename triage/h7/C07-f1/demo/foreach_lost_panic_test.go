// Place in lib/mr/ (external test package) and run:
//
//	go test -vet=off -count=1 -timeout 60s -run TestForEachGeneratorPanicIsNeverSwallowed ./lib/mr/
//
// Property C07: "a panic in the generator, a mapper or the reducer is re-raised in the calling goroutine".
//
// ForEach waits in `select { case v := <-panicChan.channel: panic(v); case _, ok := <-collector: if !ok { return } }`.
// Since panicChan is buffered, the forwarder of a panic no longer waits for the caller: the generator goroutine
// stores the panic, closes the source, executeMappers closes the collector - all of which may be finished before
// the calling goroutine arrives at its select (the caller is merely descheduled for a moment after its two `go`
// statements). The select then finds BOTH arms ready and picks one at random; the collector arm returns normally
// and the panic is swallowed. mapReduceWithPanicChan polls panicChan again before returning, ForEach does not.
//
// There is no user hook between ForEach's `go` statements and its select, so the schedule cannot be forced from
// outside; the test repeats the smallest input (a generator that panics at once) until the schedule occurs.
// On the unmodified HEAD it occurs about once per 20000 calls on a multi-core machine (first miss after ~0.1 s);
// the budget below is 600000 calls / 15 s. A correct ForEach never returns normally here.
package mr_test

import (
	"runtime"
	"testing"
	"time"

	"github.com/gotid/god/lib/mr"
)

func TestForEachGeneratorPanicIsNeverSwallowed(t *testing.T) {
	if runtime.GOMAXPROCS(0) < 4 {
		defer runtime.GOMAXPROCS(runtime.GOMAXPROCS(4))
	}

	call := func() (raised any) {
		defer func() { raised = recover() }()
		mr.ForEach(func(source chan<- any) {
			panic("generator failed")
		}, func(item any) {})
		return nil
	}

	const budget = 600000
	deadline := time.Now().Add(15 * time.Second)
	for i := 0; i < budget && time.Now().Before(deadline); i++ {
		if r := call(); r == nil {
			t.Fatalf("call #%d: ForEach returned normally although its generator panicked; the panic was swallowed", i)
		} else if r != "generator failed" {
			t.Fatalf("call #%d: unexpected panic value %v", i, r)
		}
	}
}

// The same through FinishVoid's sibling shape: one mapper panic, nothing else.
func TestForEachMapperPanicIsNeverSwallowed(t *testing.T) {
	if runtime.GOMAXPROCS(0) < 4 {
		defer runtime.GOMAXPROCS(runtime.GOMAXPROCS(4))
	}

	call := func() (raised any) {
		defer func() { raised = recover() }()
		mr.FinishVoid(func() { panic("fn failed") })
		return nil
	}

	const budget = 600000
	deadline := time.Now().Add(15 * time.Second)
	for i := 0; i < budget && time.Now().Before(deadline); i++ {
		if r := call(); r == nil {
			t.Fatalf("call #%d: FinishVoid returned normally although its function panicked", i)
		}
	}
}
