// C09 finding f1: "buckets per second" is truncated to an integer (0 for buckets longer than 1s).
//
// Place this file at lib/load/c09_windows_truncation_test.go (package load, in-package because the
// CPU reading is injected through the package variable systemOverloadChecker) and run:
//
//	go test -vet=off -count=1 -timeout 20s -run 'TestC09WindowsTruncation' ./lib/load/
//
// Both subtests FAIL on the unmodified HEAD (the shedder rejects although the number of in-flight
// requests is far below maxPass x buckets-per-second x minRt) and pass once the factor is kept
// as a fraction.
package load

import (
	"testing"
	"time"

	"github.com/gotid/god/lib/logx"
)

func c09RunTruncation(t *testing.T, window time.Duration, nbuckets int, hold time.Duration, served, inflight int) {
	logx.Disable()
	saved := systemOverloadChecker
	defer func() { systemOverloadChecker = saved }()
	systemOverloadChecker = func(int64) bool { return false } // CPU below the threshold

	bucket := window / time.Duration(nbuckets)
	begin := time.Now()
	sh := NewAdaptiveShedder(WithWindow(window), WithBuckets(nbuckets), WithCpuThreshold(500)).(*adaptiveShedder)

	// Phase 1 (all inside the first bucket): `served` requests, each taking `hold`, all pass.
	var ps []Promise
	for i := 0; i < served; i++ {
		p, err := sh.Allow()
		if err != nil {
			t.Fatalf("unexpected rejection while CPU is low: %v", err)
		}
		ps = append(ps, p)
	}
	time.Sleep(hold)
	for _, p := range ps {
		p.Pass()
	}
	if el := time.Since(begin); el >= bucket {
		t.Skipf("machine too slow: phase 1 took %v, bucket is %v", el, bucket)
	}

	// Let the first bucket become a completed (visible) bucket.
	time.Sleep(bucket + bucket/10 - time.Since(begin))

	// Phase 2: `inflight` requests are in flight, and stay so while a few of them are replaced
	// (Fail does not touch the windows) so that the smoothed in-flight count converges as well.
	var flying []Promise
	for i := 0; i < inflight; i++ {
		p, err := sh.Allow()
		if err != nil {
			t.Fatalf("unexpected rejection while CPU is low: %v", err)
		}
		flying = append(flying, p)
	}
	for i := 0; i < 200; i++ {
		flying[0].Fail()
		p, err := sh.Allow()
		if err != nil {
			t.Fatalf("unexpected rejection while CPU is low: %v", err)
		}
		flying = append(flying[1:], p)
	}

	maxPass, minRt := sh.maxPass(), sh.minRt()
	perSecond := float64(time.Second) / float64(bucket)
	capacity := float64(maxPass) * perSecond * minRt / 1e3
	t.Logf("bucket=%v buckets/s=%.3f maxPass=%d minRt=%.0fms => capacity %.1f; flying=%d avgFlying=%.1f; shedder: windows=%v maxFlight=%d",
		bucket, perSecond, maxPass, minRt, capacity, sh.flying, sh.avgFlying, sh.windows, sh.maxFlight())
	if float64(inflight) >= capacity {
		t.Skipf("timing off: capacity %.1f is not above the %d in-flight requests", capacity, inflight)
	}

	// Phase 3: the CPU goes over the threshold. in-flight (current and smoothed) < capacity,
	// so the request must be admitted.
	systemOverloadChecker = func(int64) bool { return true }
	p, err := sh.Allow()
	if err != nil {
		t.Errorf("rejected under overload with %d in flight (smoothed %.1f) although the capacity estimated from the window is %.1f",
			inflight, sh.avgFlying, capacity)
	} else {
		p.Fail()
	}
	for _, p := range flying {
		p.Fail()
	}
	if sh.flying != 0 {
		t.Errorf("in-flight count is %d after every admitted request reported", sh.flying)
	}
}

func TestC09WindowsTruncation(t *testing.T) {
	// bucket = 1.2s => 0.83 buckets per second, truncated to 0: capacity collapses to 1
	// no matter what the window measured (100 passes/bucket, 600ms => capacity 50).
	t.Run("bucket_longer_than_1s", func(t *testing.T) {
		c09RunTruncation(t, 12*time.Second, 10, 600*time.Millisecond, 100, 20)
	})
	// bucket = 600ms => 1.67 buckets per second, truncated to 1: capacity 30 instead of 50.
	t.Run("bucket_not_dividing_1s", func(t *testing.T) {
		c09RunTruncation(t, 6*time.Second, 10, 300*time.Millisecond, 100, 40)
	})
}
