// Place in lib/mr/ (external test package) and run:
//
//	go test -vet=off -count=1 -timeout 60s -run 'TestDoneContext' ./lib/mr/
//
// Property C07: "a context that is done makes it return context.DeadlineExceeded".
//
// mapReduceWithPanicChan ends in
//
//	select {
//	case <-options.ctx.Done():  cancel(DeadlineExceeded); return nil, DeadlineExceeded
//	case v := <-panicChan.channel: ...
//	case v, ok := <-output:     retErr? / ok? / else return nil, ErrReduceNoOutput
//	}
//
// With a context that is done, executeMappers stops at once and closes the collector, the reducer sees the end of
// its pipe, its writer.Write(v) is DROPPED by guardedWriter because the context is done, it returns and finish()
// closes output. If that happens before the calling goroutine arrives at the select (it is descheduled for a
// moment after its `go` statements), both the ctx arm and the output arm are ready, the select picks at random,
// and the output arm reports ErrReduceNoOutput - for a reducer that did write - and MapReduceVoid turns that into
// a nil error: a call whose context was done before it started, that mapped nothing and whose result was thrown
// away, reports success.
//
// TestDoneContextForced forces that schedule: the context's Done method (called by the calling goroutine exactly
// once, when it evaluates the cases of the final select) holds the calling goroutine back until the goroutines of
// the pipeline are gone. TestDoneContextNatural uses a plain cancelled context.Context and just repeats the call;
// on the unmodified HEAD about one call in 10000 goes wrong on a multi-core machine.
package mr_test

import (
	"bytes"
	"context"
	"runtime"
	"strconv"
	"testing"
	"time"

	"github.com/gotid/god/lib/mr"
)

func goid() uint64 {
	var buf [64]byte
	b := buf[:runtime.Stack(buf[:], false)]
	b = bytes.TrimPrefix(b, []byte("goroutine "))
	b = b[:bytes.IndexByte(b, ' ')]
	id, _ := strconv.ParseUint(string(b), 10, 64)
	return id
}

// heldBack is a context that is done; it is an ordinary cancelled context except that the goroutine `caller` is
// held in Done() until no more than `base` goroutines exist (i.e. the goroutines the call has started are gone).
type heldBack struct {
	context.Context
	caller uint64
	base   int
}

func (c heldBack) Done() <-chan struct{} {
	if goid() == c.caller {
		deadline := time.Now().Add(2 * time.Second)
		for runtime.NumGoroutine() > c.base && time.Now().Before(deadline) {
			runtime.Gosched()
		}
	}
	return c.Context.Done()
}

func closedSource() <-chan any {
	source := make(chan any)
	close(source)
	return source
}

func TestDoneContextForced(t *testing.T) {
	done, cancel := context.WithCancel(context.Background())
	cancel()

	for i := 0; i < 64; i++ {
		ctx := heldBack{Context: done, caller: goid(), base: runtime.NumGoroutine()}
		v, err := mr.MapReduceChan(closedSource(), func(item any, w mr.Writer, c func(error)) {
			w.Write(item)
		}, func(pipe <-chan any, w mr.Writer, c func(error)) {
			for range pipe {
			}
			w.Write("result")
		}, mr.WithContext(ctx))
		if err != context.DeadlineExceeded {
			t.Fatalf("call #%d: context is done, want context.DeadlineExceeded, got value %v, error %v", i, v, err)
		}
	}
}

func TestDoneContextForcedVoid(t *testing.T) {
	done, cancel := context.WithCancel(context.Background())
	cancel()

	for i := 0; i < 64; i++ {
		ctx := heldBack{Context: done, caller: goid(), base: runtime.NumGoroutine()}
		generated := make(chan struct{})
		err := mr.MapReduceVoid(func(source chan<- any) {
			close(generated)
		}, func(item any, w mr.Writer, c func(error)) {
		}, func(pipe <-chan any, c func(error)) {
			<-generated
			for range pipe {
			}
		}, mr.WithContext(ctx))
		if err != context.DeadlineExceeded {
			t.Fatalf("call #%d: context is done, want context.DeadlineExceeded, got error %v", i, err)
		}
	}
}

func TestDoneContextNatural(t *testing.T) {
	if runtime.GOMAXPROCS(0) < 4 {
		defer runtime.GOMAXPROCS(runtime.GOMAXPROCS(4))
	}
	ctx, cancel := context.WithCancel(context.Background())
	cancel()

	const budget = 600000
	deadline := time.Now().Add(15 * time.Second)
	for i := 0; i < budget && time.Now().Before(deadline); i++ {
		v, err := mr.MapReduceChan(closedSource(), func(item any, w mr.Writer, c func(error)) {
			w.Write(item)
		}, func(pipe <-chan any, w mr.Writer, c func(error)) {
			for range pipe {
			}
			w.Write("result")
		}, mr.WithContext(ctx))
		if err != context.DeadlineExceeded {
			t.Fatalf("call #%d: context is done, want context.DeadlineExceeded, got value %v, error %v", i, v, err)
		}
	}
}
