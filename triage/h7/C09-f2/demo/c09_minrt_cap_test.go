// C09 finding f2: the "min average latency" of the capacity estimate is capped at 1000ms
// (defaultMinRt is used as the start value of the minimum, not only as the value for an empty window).
//
// Place this file at lib/load/c09_minrt_cap_test.go (package load, in-package because the CPU
// reading is injected through the package variable systemOverloadChecker) and run:
//
//	go test -vet=off -count=1 -timeout 20s -run 'TestC09MinRtCap' ./lib/load/
//
// FAILS on the unmodified HEAD: the window holds one bucket with 30 passes of ~2000ms each, so the
// capacity is 30 x 10 buckets/s x 2.0s = 600, but the shedder computes 30 x 10 x 1.0s = 300 and
// rejects with 450 requests in flight.
package load

import (
	"testing"
	"time"

	"github.com/gotid/god/lib/collection"
	"github.com/gotid/god/lib/logx"
)

func TestC09MinRtCap(t *testing.T) {
	logx.Disable()
	saved := systemOverloadChecker
	defer func() { systemOverloadChecker = saved }()
	systemOverloadChecker = func(int64) bool { return false } // CPU below the threshold

	const (
		served   = 30
		hold     = 2 * time.Second
		inflight = 450
	)
	// default configuration: 5s window, 50 buckets of 100ms, 10 buckets per second
	sh := NewAdaptiveShedder(WithCpuThreshold(500)).(*adaptiveShedder)

	// Phase 1: 30 slow requests (2s each) pass, all in the same 100ms bucket.
	var ps []Promise
	for i := 0; i < served; i++ {
		p, err := sh.Allow()
		if err != nil {
			t.Fatalf("unexpected rejection while CPU is low: %v", err)
		}
		ps = append(ps, p)
	}
	time.Sleep(hold)
	for _, p := range ps {
		p.Pass()
	}
	// let that bucket become a completed (visible) one
	time.Sleep(150 * time.Millisecond)

	// Phase 2: 450 requests in flight; replace some (Fail does not touch the windows) so that
	// the smoothed in-flight count converges too.
	var flying []Promise
	for i := 0; i < inflight; i++ {
		p, err := sh.Allow()
		if err != nil {
			t.Fatalf("unexpected rejection while CPU is low: %v", err)
		}
		flying = append(flying, p)
	}
	for i := 0; i < 200; i++ {
		flying[0].Fail()
		p, err := sh.Allow()
		if err != nil {
			t.Fatalf("unexpected rejection while CPU is low: %v", err)
		}
		flying = append(flying[1:], p)
	}

	// reference: min over the visible buckets of the average latency, and max passes per bucket
	var minAvg float64
	var maxPass float64
	sh.rtCounter.Reduce(func(b *collection.Bucket) {
		if b.Count > 0 {
			if avg := b.Sum / float64(b.Count); minAvg == 0 || avg < minAvg {
				minAvg = avg
			}
		}
	})
	sh.passCounter.Reduce(func(b *collection.Bucket) {
		if b.Sum > maxPass {
			maxPass = b.Sum
		}
	})
	capacity := maxPass * 10 * minAvg / 1e3
	t.Logf("window: maxPass=%.0f minAvgLatency=%.0fms => capacity %.0f; flying=%d avgFlying=%.1f; shedder: minRt=%.0f maxFlight=%d",
		maxPass, minAvg, capacity, sh.flying, sh.avgFlying, sh.minRt(), sh.maxFlight())
	if maxPass != served || minAvg < 2000 || float64(inflight) >= capacity {
		t.Skipf("timing off (bucket split): maxPass=%.0f minAvg=%.0f capacity=%.0f", maxPass, minAvg, capacity)
	}

	// Phase 3: CPU over the threshold; current and smoothed in-flight (450) < capacity (600).
	systemOverloadChecker = func(int64) bool { return true }
	p, err := sh.Allow()
	if err != nil {
		t.Errorf("rejected under overload with %d in flight (smoothed %.1f) although the capacity estimated from the window is %.0f (= %.0f passes/bucket x 10 buckets/s x %.3fs)",
			inflight, sh.avgFlying, capacity, maxPass, minAvg/1e3)
	} else {
		p.Fail()
	}
	for _, p := range flying {
		p.Fail()
	}
	if sh.flying != 0 {
		t.Errorf("in-flight count is %d after every admitted request reported", sh.flying)
	}
}
