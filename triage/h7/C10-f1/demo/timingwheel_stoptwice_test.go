// Place in: lib/collection/timingwheel_stoptwice_test.go (external test package collection_test)
// Run:      go test -vet=off -count=1 -timeout 20s -run TestTimingWheelStopTwice ./lib/collection/
//
// Property C10: "Every operation after Stop reports ErrClosed" over every history of
// SetTimer/MoveTimer/RemoveTimer/Drain/Stop calls. The history  Stop, Stop  makes the
// second Stop panic ("close of closed channel") instead of being a no-op on a closed wheel.
package collection_test

import (
	"testing"
	"time"

	"github.com/gotid/god/lib/collection"
)

func TestTimingWheelStopTwice(t *testing.T) {
	tw, err := collection.NewTimingWheel(time.Hour, 4, func(key, value any) {})
	if err != nil {
		t.Fatal(err)
	}
	if err := tw.SetTimer("k", 1, 2*time.Hour); err != nil {
		t.Fatalf("SetTimer before Stop: %v", err)
	}

	tw.Stop()

	func() {
		defer func() {
			if r := recover(); r != nil {
				t.Errorf("second Stop panicked: %v", r)
			}
		}()
		tw.Stop() // an operation after Stop: must find the wheel closed, not crash
	}()

	// the wheel stays closed for every other operation
	if err := tw.SetTimer("k", 2, time.Hour); err != collection.ErrClosed {
		t.Errorf("SetTimer after Stop: got %v, want ErrClosed", err)
	}
	if err := tw.MoveTimer("k", time.Hour); err != collection.ErrClosed {
		t.Errorf("MoveTimer after Stop: got %v, want ErrClosed", err)
	}
	if err := tw.RemoveTimer("k"); err != collection.ErrClosed {
		t.Errorf("RemoveTimer after Stop: got %v, want ErrClosed", err)
	}
	if err := tw.Drain(func(key, value any) {}); err != collection.ErrClosed {
		t.Errorf("Drain after Stop: got %v, want ErrClosed", err)
	}
}
