// Place in lib/syncx/ (package syncx) and run from the repository root:
//
//	go test -vet=off -count=1 -timeout 20s -run TestDemoLimitZero ./lib/syncx/
//
// C18: "A limit of n never has more than n outstanding borrows, returning
// without having borrowed is an error".
//
// n = 0: nobody can ever hold a borrow, so every Return must report
// ErrLimitReturn and a blocking Borrow must never complete. On HEAD the pool
// of a 0-limit is an unbuffered channel; the non-blocking receive in Return
// pairs up with the goroutine blocked in Borrow: Return reports nil although
// nothing had been borrowed and Borrow completes, leaving 1 > 0 outstanding
// borrows.
package syncx

import (
	"sync/atomic"
	"testing"
	"time"
)

func TestDemoLimitZero(t *testing.T) {
	l := NewLimit(0)

	if l.TryBorrow() {
		t.Fatal("TryBorrow on a 0-limit succeeded")
	}
	if err := l.Return(); err != ErrLimitReturn {
		t.Fatalf("Return on a fresh 0-limit = %v, want ErrLimitReturn", err)
	}

	var borrowed int32
	go func() {
		l.Borrow() // must block for ever: the limit is 0
		atomic.StoreInt32(&borrowed, 1)
	}()

	// Poll Return for one second; the blocked Borrow is picked up as soon as
	// the goroutine above is parked in its channel send (first few rounds).
	deadline := time.Now().Add(time.Second)
	for time.Now().Before(deadline) {
		if err := l.Return(); err != ErrLimitReturn {
			time.Sleep(50 * time.Millisecond)
			t.Fatalf("Return without any completed borrow = %v, want ErrLimitReturn; "+
				"Borrow on the 0-limit completed: %v (outstanding borrows 1 > limit 0)",
				err, atomic.LoadInt32(&borrowed) == 1)
		}
		time.Sleep(time.Millisecond)
	}
	if atomic.LoadInt32(&borrowed) == 1 {
		t.Fatal("Borrow on a 0-limit completed")
	}
}
