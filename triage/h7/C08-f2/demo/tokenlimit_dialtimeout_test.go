// Demo for C08 / f2: when Redis is unreachable in the "packets are dropped"
// way (host down, network partition: the TCP connect times out), go-redis
// returns `dial tcp ...: i/o timeout`.  net's timeout error answers true to
// errors.Is(err, context.DeadlineExceeded), so TokenLimiter.reserveN takes it
// for an expiry of the CALLER's context, refuses the request and never starts
// the in-process fallback, although the caller's context is Background().
//
// Place this file in lib/limit/ (package limit) and run
//
//	go test -vet=off -count=1 -timeout 60s -run TestTokenLimit_DialTimeoutFallsBack ./lib/limit/
//
// Linux only (it builds a TCP black hole from a listening socket whose accept
// queue is full, so that further SYNs are silently dropped).  The first call
// needs about 10-13 s (go-redis dial timeout 5 s, retried); the test enforces
// 19 s itself.
package limit

import (
	"context"
	"fmt"
	"net"
	"runtime"
	"sync/atomic"
	"syscall"
	"testing"
	"time"

	"github.com/gotid/god/lib/store/redis"
)

// blackHole returns an address on which TCP connects hang until they time out.
func blackHole(t *testing.T) string {
	fd, err := syscall.Socket(syscall.AF_INET, syscall.SOCK_STREAM, 0)
	if err != nil {
		t.Fatal(err)
	}
	t.Cleanup(func() { _ = syscall.Close(fd) })
	if err = syscall.Bind(fd, &syscall.SockaddrInet4{Addr: [4]byte{127, 0, 0, 1}}); err != nil {
		t.Fatal(err)
	}
	if err = syscall.Listen(fd, 0); err != nil { // never accepted
		t.Fatal(err)
	}
	sa, err := syscall.Getsockname(fd)
	if err != nil {
		t.Fatal(err)
	}
	addr := fmt.Sprintf("127.0.0.1:%d", sa.(*syscall.SockaddrInet4).Port)

	// fill the accept queue; from then on the kernel drops every SYN
	for i := 0; i < 8; i++ {
		c, err := net.DialTimeout("tcp", addr, 300*time.Millisecond)
		if err != nil {
			return addr
		}
		t.Cleanup(func() { _ = c.Close() })
	}
	t.Skip("could not build a TCP black hole on this system")
	return ""
}

func TestTokenLimit_DialTimeoutFallsBack(t *testing.T) {
	// go-redis sizes its pool as 10*GOMAXPROCS and stops dialling after that
	// many dial errors; one P keeps the first call at ~10 s.
	defer runtime.GOMAXPROCS(runtime.GOMAXPROCS(1))

	const (
		rate  = 5
		burst = 10
		calls = 5 // few calls: stays below the breaker's protection threshold
	)
	l := NewTokenLimiter(rate, burst, redis.New(blackHole(t)), "f2-dial-timeout")

	results := make(chan bool, calls)
	go func() {
		for i := 0; i < calls; i++ {
			results <- l.AllowCtx(context.Background())
		}
	}()

	deadline := time.After(19 * time.Second)
	for i := 0; i < calls; i++ {
		select {
		case ok := <-results:
			if !ok {
				t.Fatalf("call %d: refused although Redis is unreachable, the caller's context is "+
					"Background() and the in-process bucket (burst=%d) is full; redisAlive=%d "+
					"(fallback never started)", i+1, burst, atomic.LoadUint32(&l.redisAlive))
			}
		case <-deadline:
			t.Fatalf("call %d did not return within 19s", i+1)
		}
	}
	if atomic.LoadUint32(&l.redisAlive) != 0 {
		t.Fatalf("limiter still believes Redis is alive")
	}
}
