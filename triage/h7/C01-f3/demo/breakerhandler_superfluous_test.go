// Place at: api/handler/breakerhandler_superfluous_test.go (package-internal, package handler).
// Run:      go test -vet=off -count=1 -run 'TestC01BreakerHandlerSuperfluous' ./api/handler/
//
// The handler below always answers HTTP 200 (it writes the body first, which
// commits status 200; the later WriteHeader(500) is a superfluous call that
// net/http and httptest ignore - the client sees 200 every time).
// response.WithCodeResponseWriter nevertheless overwrites Code with the value
// of the LAST WriteHeader call, so BreakerHandler books every one of these 200
// responses as a failure and then cuts the route off with 503.
// Property: "Outcomes the built-in integrations declare benign (HTTP status
// below 500 ...) never move a breaker towards open."
package handler

import (
	"net/http"
	"net/http/httptest"
	"testing"

	"github.com/gotid/god/lib/stat"
)

func TestC01BreakerHandlerSuperfluousWriteHeader(t *testing.T) {
	metrics := stat.NewMetrics("unit-test")
	h := BreakerHandler(http.MethodGet, "/c01-superfluous", metrics)(http.HandlerFunc(
		func(w http.ResponseWriter, r *http.Request) {
			_, _ = w.Write([]byte("ok"))                  // commits "200 OK"
			w.WriteHeader(http.StatusInternalServerError) // superfluous, ignored by net/http
		}))

	codes := map[int]int{}
	for i := 0; i < 2000; i++ {
		resp := httptest.NewRecorder()
		h.ServeHTTP(resp, httptest.NewRequest(http.MethodGet, "http://localhost", http.NoBody))
		if resp.Code != http.StatusOK {
			t.Fatalf("request %d: every admitted response so far had HTTP status 200 (%v), yet the breaker rejected this request with %d",
				i, codes, resp.Code)
		}
		codes[resp.Code]++
	}
}
