// Place at: api/handler/c04_unauthorized_callback_body_test.go (package handler)
// Run:  go test -vet=off -count=1 -run 'TestC04UnauthorizedCallbackBody' ./api/handler/
//
// Property C04: "... otherwise the answer is 401 and the handler does not run."
//
// A JWT-protected route with an unauthorized callback that only writes a body
// (it never calls WriteHeader) answers 200 to a request that carries no / a
// forged token. unauthorized() runs the callback first and only afterwards
// calls WriteHeader(401) ("if the user did not set a header we set 401"), but
// the callback's Write already committed the implicit 200.
package handler

import (
	"io"
	"net/http"
	"net/http/httptest"
	"testing"
)

func c04BodyOnlyCallback(w http.ResponseWriter, _ *http.Request, _ error) {
	w.Header().Set("Content-Type", "application/json")
	_, _ = w.Write([]byte(`{"msg":"unauthorized"}`))
}

// Handler-level: no token at all.
func TestC04UnauthorizedCallbackBody_Recorder(t *testing.T) {
	ran := false
	h := Authorize("B63F477D-BBA3-4E52-96D3-C0034C27694A",
		WithUnauthorizedCallback(c04BodyOnlyCallback))(
		http.HandlerFunc(func(w http.ResponseWriter, r *http.Request) { ran = true }))

	req := httptest.NewRequest(http.MethodGet, "http://localhost/", http.NoBody)
	resp := httptest.NewRecorder()
	h.ServeHTTP(resp, req)

	if ran {
		t.Fatalf("inner handler ran for a request without a token")
	}
	if resp.Code != http.StatusUnauthorized {
		t.Fatalf("request without a token answered %d, want 401 (body %q)", resp.Code, resp.Body.String())
	}
}

// Over a real net/http server, with a token forged under another secret,
// and with a callback that flushes before writing.
func TestC04UnauthorizedCallbackBody_Server(t *testing.T) {
	const secret = "B63F477D-BBA3-4E52-96D3-C0034C27694A"
	forged, err := buildToken("another-secret-0123456789", map[string]interface{}{"uid": 1}, 3600)
	if err != nil {
		t.Fatal(err)
	}

	callbacks := map[string]UnauthorizedCallback{
		"write": c04BodyOnlyCallback,
		"flush": func(w http.ResponseWriter, _ *http.Request, _ error) {
			w.Header().Set("X-Reason", "unauthorized")
			if f, ok := w.(http.Flusher); ok {
				f.Flush()
			}
		},
	}
	for name, cb := range callbacks {
		t.Run(name, func(t *testing.T) {
			ran := false
			srv := httptest.NewServer(Authorize(secret, WithUnauthorizedCallback(cb))(
				http.HandlerFunc(func(w http.ResponseWriter, r *http.Request) { ran = true })))
			defer srv.Close()

			req, _ := http.NewRequest(http.MethodGet, srv.URL+"/", nil)
			req.Header.Set("Authorization", "Bearer "+forged)
			resp, err := http.DefaultClient.Do(req)
			if err != nil {
				t.Fatal(err)
			}
			body, _ := io.ReadAll(resp.Body)
			resp.Body.Close()

			if ran {
				t.Fatalf("inner handler ran for a forged token")
			}
			if resp.StatusCode != http.StatusUnauthorized {
				t.Fatalf("forged token answered %d, want 401 (body %q)", resp.StatusCode, body)
			}
		})
	}
}
