// Demo for C02/f4: a handler that sends an informational (1xx) header before its final status
// gets a different status through the timeout handler than the one it set: timeoutWriter latches
// the FIRST WriteHeader call as "the" status, also when it is 103 Early Hints / 102 Processing /
// 100 Continue, and treats the handler's real WriteHeader(201) as superfluous.
//
// Place this file at  api/handler/c02_informational_test.go  (external package handler_test) and run
//
//	go test -vet=off -count=1 -run 'TestC02Informational' -timeout 20s ./api/handler/
package handler_test

import (
	"io"
	"net/http"
	"net/http/httptest"
	"testing"
	"time"

	"github.com/gotid/god/api/handler"
)

func c02EarlyHints(w http.ResponseWriter, r *http.Request) {
	w.Header().Set("Link", "</style.css>; rel=preload; as=style")
	w.WriteHeader(http.StatusEarlyHints) // informational, not the response status (RFC 8297)
	w.Header().Set("X-Final", "yes")
	w.WriteHeader(http.StatusCreated)
	w.Write([]byte("created"))
}

func c02Fetch(t *testing.T, h http.Handler) (int, string, string) {
	ts := httptest.NewServer(h)
	defer ts.Close()
	resp, err := ts.Client().Get(ts.URL)
	if err != nil {
		t.Fatal(err)
	}
	defer resp.Body.Close()
	body, _ := io.ReadAll(resp.Body)
	return resp.StatusCode, resp.Header.Get("X-Final"), string(body)
}

func TestC02Informational_StatusThroughTimeoutHandler(t *testing.T) {
	// Baseline: without the timeout handler the client receives the handler's status.
	code, hdr, body := c02Fetch(t, http.HandlerFunc(c02EarlyHints))
	if code != http.StatusCreated || hdr != "yes" || body != "created" {
		t.Fatalf("baseline: got %d %q %q, want 201 \"yes\" \"created\"", code, hdr, body)
	}

	// The handler finishes far within the timeout: the client must receive precisely the same.
	code, hdr, body = c02Fetch(t, handler.TimeoutHandler(time.Minute)(http.HandlerFunc(c02EarlyHints)))
	if code != http.StatusCreated || hdr != "yes" || body != "created" {
		t.Fatalf("through TimeoutHandler: got %d %q %q, want 201 \"yes\" \"created\" (the handler's status)", code, hdr, body)
	}
}

func TestC02Informational_Recorder(t *testing.T) {
	for _, info := range []int{http.StatusContinue, http.StatusProcessing, http.StatusEarlyHints} {
		h := handler.TimeoutHandler(time.Minute)(http.HandlerFunc(func(w http.ResponseWriter, r *http.Request) {
			w.WriteHeader(info)
			w.WriteHeader(http.StatusAccepted)
			w.Write([]byte("ok"))
		}))
		rec := httptest.NewRecorder()
		h.ServeHTTP(rec, httptest.NewRequest(http.MethodGet, "http://localhost", http.NoBody))
		if rec.Code != http.StatusAccepted {
			t.Errorf("informational %d then 202: final status %d, want 202", info, rec.Code)
		}
	}
}
