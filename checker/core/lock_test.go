package core

import (
	"testing"

	"golang.org/x/tools/go/ssa"
)

const lockSrc = `package t
import "sync"
type T struct { mu sync.Mutex; rw sync.RWMutex; n int; m map[string]int }
func (t *T) Ok()        { t.mu.Lock(); t.n++; t.mu.Unlock() }
func (t *T) Deferred()  { t.mu.Lock(); defer t.mu.Unlock(); t.n++ }
func (t *T) Early(b bool) { if b { return }; t.mu.Lock(); defer t.mu.Unlock(); t.n++ }
func (t *T) Leak(b bool) { t.mu.Lock(); if b { return }; t.n++; t.mu.Unlock() }
func (t *T) Outside()   { t.mu.Lock(); t.mu.Unlock(); t.n++ }
func (t *T) helperLocked() { t.n++ }
func (t *T) ViaHelper() { t.mu.Lock(); t.helperLocked(); t.mu.Unlock() }
func (t *T) Closure()   { t.mu.Lock(); defer t.mu.Unlock(); func() { t.n++ }() }
func (t *T) Goroutine() { t.mu.Lock(); defer t.mu.Unlock(); go func() { t.n++ }() }
`

func TestLockEngine(t *testing.T) {
	pkg := build(t, lockSrc)
	la := &LockAnalysis{entry: map[*ssa.Function]LockSet{}, at: map[ssa.Instruction]LockSet{},
		sum: map[*ssa.Function]*fnSummary{}, Imbalance: map[*ssa.Function]string{}, inPkg: map[*ssa.Function]bool{}, dead: map[*ssa.Function]bool{}}
	la.Funcs = SSAPkgFuncs(pkg.Prog, pkg)
	for _, f := range la.Funcs {
		la.inPkg[f] = true
		la.entry[f] = LockSet{}
	}
	for round := 0; round < 6; round++ {
		for _, f := range la.Funcs {
			la.analyse(f)
		}
		if !la.updateEntries() {
			break
		}
	}
	for _, f := range la.Funcs {
		la.analyse(f)
	}
	acc := la.CheckGuards([]Guard{{Type: "T", Field: "n", Lock: "mu"}}, nil, nil)
	bad := map[string]bool{}
	for _, a := range acc {
		if !a.OK {
			bad[a.Fn.String()] = true
		}
	}
	wantBad := map[string]bool{"(*t.T).Outside": true, "(*t.T).Goroutine$1": true}
	for k := range wantBad {
		if !bad[k] {
			t.Errorf("missed unguarded access in %s", k)
		}
	}
	for k := range bad {
		if !wantBad[k] {
			t.Errorf("false alarm in %s", k)
		}
	}
	imb := map[string]bool{}
	for f := range la.Imbalance {
		imb[f.String()] = true
	}
	if !imb["(*t.T).Leak"] || len(imb) != 1 {
		t.Errorf("imbalance = %v, want only leak", imb)
	}
}
