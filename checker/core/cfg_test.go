package core

import (
	"go/ast"
	"go/importer"
	"go/parser"
	"go/token"
	"go/types"
	"testing"

	"golang.org/x/tools/go/ssa"
	"golang.org/x/tools/go/ssa/ssautil"
)

const guardSrc = `package t
func target()
func other()
func f() (int, error)

func earlyReturn() { _, err := f(); if err != nil { return }; target() }
func positive()    { _, err := f(); if err == nil { target() } }
func andCond(b bool) { _, err := f(); if err == nil && b { target() } }
func orCond(b bool)  { _, err := f(); if err != nil || b { return }; target() }
func swtch()        { _, err := f(); switch { case err != nil: return; default: target() } }
func boolVar(b bool) { _, err := f(); ok := err == nil && b; if ok { target() } }
func notGuarded(b bool) { _, err := f(); if err != nil && b { return }; target() }
func orWeak(b bool)  { _, err := f(); if err == nil || b { target() } }
func inverted()     { _, err := f(); if err == nil { return }; target() }
func deMorgan(b bool) { _, err := f(); if !(err != nil || !b) { target() } }
func loop(n int)    { _, err := f(); for i := 0; i < n; i++ { if err != nil { continue }; target() } }
func reassigned()   { _, err := f(); if err != nil { return }; _, err = f(); target(); _ = err }
`

func build(t *testing.T, src string) *ssa.Package {
	fset := token.NewFileSet()
	f, err := parser.ParseFile(fset, "t.go", src, 0)
	if err != nil {
		t.Fatal(err)
	}
	pkg, _, err := ssautil.BuildPackage(&types.Config{Importer: importer.Default()}, fset, types.NewPackage("t", "t"), []*ast.File{f}, ssa.InstantiateGenerics)
	if err != nil {
		t.Fatal(err)
	}
	return pkg
}

func TestRequires(t *testing.T) {
	pkg := build(t, guardSrc)
	isTarget := func(in ssa.Instruction) bool {
		c := AsCall(in)
		return c != nil && CalleeName(c) == "t.target"
	}
	isF := func(in ssa.Instruction) bool {
		c := AsCall(in)
		return c != nil && CalleeName(c) == "t.f"
	}
	want := map[string]bool{ // guarded by err == nil of the FIRST f() call?
		"earlyReturn": true, "positive": true, "andCond": true, "orCond": true, "swtch": true,
		"boolVar": true, "notGuarded": false, "orWeak": false, "inverted": false, "deMorgan": true,
		"loop": true, "reassigned": true,
	}
	for name, guarded := range want {
		fn := pkg.Func(name)
		first := Instrs(fn, isF)[0]
		w := Requires(fn, isTarget, ErrNil(1, Is(first)))
		if (w == nil) != guarded {
			t.Errorf("%s: guarded=%v, want %v", name, w == nil, guarded)
		}
	}
	// in `reassigned` the target is NOT guarded by the second call's error
	fn := pkg.Func("reassigned")
	second := Instrs(fn, isF)[1]
	if w := Requires(fn, isTarget, ErrNil(1, Is(second))); w == nil {
		t.Errorf("reassigned: target reported guarded by the second call's error")
	}
}

const pathSrc = `package t
func a()
func b()
func c() bool

func once()          { a(); b() }
func missingOnPath() { if c() { a() }; b() }
func twice()         { a(); if c() { a() }; b() }
func deferred()      { defer a(); if c() { return }; b() }
func loopTwice()     { for c() { a() }; b() }
func bBeforeA()      { b(); a() }
`

func TestPaths(t *testing.T) {
	pkg := build(t, pathSrc)
	isA, isB := PlainOrDefer("t.a"), PlainOrDefer("t.b")
	type exp struct{ must, once, aBeforeB bool }
	want := map[string]exp{
		"once":          {true, true, true},
		"missingOnPath": {false, true, false},
		"twice":         {true, false, true},
		"deferred":      {true, true, true},
		"loopTwice":     {false, false, false},
		"bBeforeA":      {true, true, false},
	}
	for name, e := range want {
		fn := pkg.Func(name)
		if got := MustPass(Entry(fn), isA, IsReturn) == nil; got != e.must {
			t.Errorf("%s: must-pass=%v want %v", name, got, e.must)
		}
		if got := AtMostOnce(fn, isA) == nil; got != e.once {
			t.Errorf("%s: at-most-once=%v want %v", name, got, e.once)
		}
		if got := Precedes(fn, isA, isB) == nil; got != e.aBeforeB {
			t.Errorf("%s: a-precedes-b=%v want %v", name, got, e.aBeforeB)
		}
	}
}

// PlainOrDefer matches calls and defers of the named function.
func PlainOrDefer(name string) func(ssa.Instruction) bool {
	return func(in ssa.Instruction) bool {
		c := AsCall(in)
		return c != nil && CalleeName(c) == name
	}
}

func TestPoly(t *testing.T) {
	p := ParsePoly("(1 + d - 2*d*r) * base")
	q := ParsePoly("base + base*d - r*d*base*2")
	if !p.Equal(q) {
		t.Errorf("%s != %s", p, q)
	}
	if p.Equal(ParsePoly("(1 + d - d*r) * base")) {
		t.Errorf("unequal polynomials compare equal")
	}
	iv, ok := ParsePoly("1 + d - 2*d*r").Range(map[string]Interval{"d": {0.05, 0.05}, "r": {0, 1}})
	if !ok || iv.Lo < 0.95-1e-12 || iv.Hi > 1.05+1e-12 {
		t.Errorf("range %v", iv)
	}
	if !ParsePoly("max(a, b)").Equal(ParsePoly("max(b, a)")) {
		t.Errorf("max not commutative")
	}
	c, rest, lin := ParsePoly("w*old + (1-w)*x").Coef("old")
	if !lin || !c.Equal(ParsePoly("w")) || !rest.Equal(ParsePoly("x - w*x")) {
		t.Errorf("coef: %s | %s", c, rest)
	}
}

const nilPhiSrc = `package t
func list() ([]string, error)
func sortIt([]string)
func use([]string)

// what an inlined helper returning (v, err) leaves behind: two φs at the join, tested by the caller
func inlinedHelper(gz bool) {
	var files []string
	var err error
	fs, e := list()
	if e != nil {
		files, err = nil, e
	} else {
		sortIt(fs)
		files, err = fs, nil
	}
	if err != nil {
		return
	}
	use(files)
}

// the same with the caller's test inverted: the failed path feasibly reaches use() unsorted
func inverted(gz bool) {
	var files []string
	var err error
	fs, e := list()
	if e != nil {
		files, err = nil, e
	} else {
		sortIt(fs)
		files, err = fs, nil
	}
	if err == nil {
		return
	}
	use(files)
}
`

func TestReachNilPhi(t *testing.T) {
	pkg := build(t, nilPhiSrc)
	is := func(name string) func(ssa.Instruction) bool {
		return func(in ssa.Instruction) bool {
			c := AsCall(in)
			return c != nil && CalleeName(c) == name
		}
	}
	for name, wantUnsorted := range map[string]bool{"inlinedHelper": false, "inverted": true} {
		f := pkg.Func(name)
		_, got := Reach(Q{From: []At{Entry(f)}, Target: is("t.use"), Blocked: is("t.sortIt")})
		if got != wantUnsorted {
			t.Errorf("%s: use() reachable without sortIt() = %v, want %v", name, got, wantUnsorted)
		}
	}
}
