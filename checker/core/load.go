// Package core holds the loader, the obligation plumbing and the rule engines
// shared by all property rule tables.
package core

import (
	"fmt"
	"go/ast"
	"go/token"
	"go/types"
	"os"
	"sort"
	"strings"

	"golang.org/x/tools/go/callgraph"
	"golang.org/x/tools/go/callgraph/cha"
	"golang.org/x/tools/go/callgraph/vta"
	"golang.org/x/tools/go/packages"
	"golang.org/x/tools/go/ssa"
	"golang.org/x/tools/go/ssa/ssautil"
)

// Mod is the import path prefix of the analysed module.
const Mod = "github.com/gotid/god"

// Prog is the loaded, type-checked and SSA-built program.
type Prog struct {
	Repo    string
	Fset    *token.FileSet
	Pkgs    map[string]*packages.Package
	SSA     *ssa.Program
	SSAPkgs map[string]*ssa.Package
	All     bool // loaded with LoadAllSyntax (dependencies have bodies)

	cg *callgraph.Graph
}

// MinPackages is the number of main-module packages confirmed on the pinned tree.
const MinPackages = 81

// Load type-checks every package of the main module below repo and builds SSA.
// It never writes below repo: -mod=readonly, GOWORK=off, GOFLAGS cleared.
func Load(repo string, all bool) (*Prog, error) {
	env := []string{}
	for _, e := range os.Environ() {
		if strings.HasPrefix(e, "GOFLAGS=") || strings.HasPrefix(e, "GOWORK=") ||
			strings.HasPrefix(e, "GOPROXY=") || strings.HasPrefix(e, "GOSUMDB=") ||
			strings.HasPrefix(e, "GOTOOLCHAIN=") {
			continue
		}
		env = append(env, e)
	}
	env = append(env, "GOFLAGS=", "GOWORK=off", "GOPROXY=off", "GOSUMDB=off", "GOTOOLCHAIN=local")
	mode := packages.NeedName | packages.NeedFiles | packages.NeedCompiledGoFiles |
		packages.NeedImports | packages.NeedTypes | packages.NeedTypesSizes |
		packages.NeedSyntax | packages.NeedTypesInfo | packages.NeedModule
	if all {
		mode |= packages.NeedDeps
	}
	cfg := &packages.Config{
		Mode:       mode,
		Dir:        repo,
		Env:        env,
		BuildFlags: []string{"-mod=readonly"},
		Tests:      false,
	}
	pkgs, err := packages.Load(cfg, "./...")
	if err != nil {
		return nil, fmt.Errorf("packages.Load: %w", err)
	}
	var errs []string
	packages.Visit(pkgs, nil, func(p *packages.Package) {
		for _, e := range p.Errors {
			errs = append(errs, e.Error())
		}
	})
	if len(errs) > 0 {
		sort.Strings(errs)
		if len(errs) > 10 {
			errs = errs[:10]
		}
		return nil, fmt.Errorf("type/load errors: %s", strings.Join(errs, "; "))
	}
	if len(pkgs) < MinPackages {
		return nil, fmt.Errorf("only %d packages loaded (expected >= %d)", len(pkgs), MinPackages)
	}
	p := &Prog{Repo: repo, Pkgs: map[string]*packages.Package{}, SSAPkgs: map[string]*ssa.Package{}, All: all}
	p.Fset = pkgs[0].Fset
	var prog *ssa.Program
	var spkgs []*ssa.Package
	bmode := ssa.InstantiateGenerics
	if all {
		prog, spkgs = ssautil.AllPackages(pkgs, bmode)
	} else {
		prog, spkgs = ssautil.Packages(pkgs, bmode)
	}
	prog.Build()
	p.SSA = prog
	for i, pk := range pkgs {
		p.Pkgs[pk.PkgPath] = pk
		if spkgs[i] == nil {
			return nil, fmt.Errorf("no SSA for %s", pk.PkgPath)
		}
		p.SSAPkgs[pk.PkgPath] = spkgs[i]
	}
	return p, nil
}

// CallGraph returns the VTA call graph (built once); requires All.
func (p *Prog) CallGraph() *callgraph.Graph {
	if p.cg == nil {
		fns := ssautil.AllFunctions(p.SSA)
		p.cg = vta.CallGraph(fns, cha.CallGraph(p.SSA))
	}
	return p.cg
}

// Pkg returns the SSA package for a path relative to the module ("lib/breaker").
func (p *Prog) Pkg(rel string) *ssa.Package {
	return p.SSAPkgs[Mod+"/"+rel]
}

// Func resolves a function or method: recv "" for package-level functions.
// Returns nil when absent.
func (p *Prog) Func(rel, recv, name string) *ssa.Function {
	sp := p.Pkg(rel)
	if sp == nil {
		return nil
	}
	if recv == "" {
		return sp.Func(name)
	}
	t := sp.Type(recv)
	if t == nil {
		return nil
	}
	named, ok := t.Type().(*types.Named)
	if !ok {
		return nil
	}
	for i := 0; i < named.NumMethods(); i++ {
		m := named.Method(i)
		if m.Name() == name {
			return p.SSA.FuncValue(m)
		}
	}
	return nil
}

// Methods returns all source methods declared on the named type (pointer and value receivers).
func (p *Prog) Methods(rel, recv string) []*ssa.Function {
	sp := p.Pkg(rel)
	if sp == nil {
		return nil
	}
	t := sp.Type(recv)
	if t == nil {
		return nil
	}
	named, ok := t.Type().(*types.Named)
	if !ok {
		return nil
	}
	var out []*ssa.Function
	for i := 0; i < named.NumMethods(); i++ {
		if f := p.SSA.FuncValue(named.Method(i)); f != nil && f.Blocks != nil {
			out = append(out, f)
		}
	}
	sort.Slice(out, func(i, j int) bool { return out[i].Name() < out[j].Name() })
	return out
}

// PkgFuncs returns every source function of the package (functions, methods and
// their closures, recursively), in deterministic order.
func (p *Prog) PkgFuncs(rel string) []*ssa.Function {
	sp := p.Pkg(rel)
	if sp == nil {
		return nil
	}
	return SSAPkgFuncs(p.SSA, sp)
}

// SSAPkgFuncs lists the source functions of one SSA package.
func SSAPkgFuncs(prog *ssa.Program, sp *ssa.Package) []*ssa.Function {
	var out []*ssa.Function
	seen := map[*ssa.Function]bool{}
	var add func(f *ssa.Function)
	add = func(f *ssa.Function) {
		if f == nil || seen[f] || f.Blocks == nil {
			return
		}
		seen[f] = true
		out = append(out, f)
		for _, a := range f.AnonFuncs {
			add(a)
		}
	}
	var names []string
	for n := range sp.Members {
		names = append(names, n)
	}
	sort.Strings(names)
	for _, n := range names {
		switch m := sp.Members[n].(type) {
		case *ssa.Function:
			add(m)
		case *ssa.Type:
			if named, ok := m.Type().(*types.Named); ok {
				for i := 0; i < named.NumMethods(); i++ {
					add(prog.FuncValue(named.Method(i)))
				}
			}
		}
	}
	return out
}

// WithAnon returns f followed by all its nested closures.
func WithAnon(f *ssa.Function) []*ssa.Function {
	if f == nil {
		return nil
	}
	out := []*ssa.Function{f}
	for _, a := range f.AnonFuncs {
		out = append(out, WithAnon(a)...)
	}
	return out
}

// Pos renders a position relative to the repository root.
func (p *Prog) Pos(pos token.Pos) string {
	if !pos.IsValid() {
		return "?"
	}
	ps := p.Fset.Position(pos)
	f := strings.TrimPrefix(ps.Filename, p.Repo+"/")
	return fmt.Sprintf("%s:%d", f, ps.Line)
}

// InstrPos gives the best available position of an instruction.
func (p *Prog) InstrPos(in ssa.Instruction) string {
	if in == nil {
		return "?"
	}
	if in.Pos().IsValid() {
		return p.Pos(in.Pos())
	}
	// fall back to any operand / neighbouring instruction with a position
	if b := in.Block(); b != nil {
		idx := -1
		for i, x := range b.Instrs {
			if x == in {
				idx = i
			}
		}
		for d := 1; d < len(b.Instrs); d++ {
			for _, j := range []int{idx - d, idx + d} {
				if j >= 0 && j < len(b.Instrs) && b.Instrs[j].Pos().IsValid() {
					return p.Pos(b.Instrs[j].Pos()) + "~"
				}
			}
		}
		if b.Parent() != nil {
			return p.Pos(b.Parent().Pos()) + "~"
		}
	}
	return "?"
}

// FuncName is a stable printable name: pkg-relative, receiver, name, closures as $n.
func FuncName(f *ssa.Function) string {
	if f == nil {
		return "<nil>"
	}
	s := f.String()
	s = strings.ReplaceAll(s, Mod+"/", "")
	return s
}

// FileOf returns the syntax file that contains pos in package rel.
func (p *Prog) FileOf(rel string, pos token.Pos) *ast.File {
	pk := p.Pkgs[Mod+"/"+rel]
	if pk == nil {
		return nil
	}
	for _, f := range pk.Syntax {
		if f.Pos() <= pos && pos <= f.End() {
			return f
		}
	}
	return nil
}
