// Package core holds the loader, the obligation plumbing and the rule engines
// shared by all property rule tables.
package core

import (
	_ "embed"
	"fmt"
	"go/ast"
	"go/token"
	"go/types"
	"os"
	"sort"
	"strings"

	"golang.org/x/tools/go/callgraph"
	"golang.org/x/tools/go/callgraph/cha"
	"golang.org/x/tools/go/callgraph/vta"
	"golang.org/x/tools/go/packages"
	"golang.org/x/tools/go/ssa"
	"golang.org/x/tools/go/ssa/ssautil"
)

// Mod is the import path prefix of the analysed module.
const Mod = "github.com/gotid/god"

// Prog is the loaded, type-checked and SSA-built program.
type Prog struct {
	Repo    string
	Fset    *token.FileSet
	Pkgs    map[string]*packages.Package
	SSA     *ssa.Program
	SSAPkgs map[string]*ssa.Package
	All     bool // loaded with LoadAllSyntax (dependencies have bodies)

	// Variant is 0 for the program as written; >0 for a behaviour-equivalent
	// variant in which helpers were inlined (see Variant). Hidden lists the
	// helpers that were inlined at every use and are therefore dead in the variant.
	VariantLevel int
	Hidden       map[*ssa.Function]bool
	Inlined      []string
	Split        int // struct allocations of new types split into their fields (variant 2)

	pkgList []*packages.Package
	cg      *callgraph.Graph
}

// MinPackages is the number of main-module packages confirmed on the pinned tree.
const MinPackages = 81

// Load type-checks every package of the main module below repo and builds SSA.
// It never writes below repo: -mod=readonly, GOWORK=off, GOFLAGS cleared.
func Load(repo string, all bool) (*Prog, error) {
	env := []string{}
	for _, e := range os.Environ() {
		if strings.HasPrefix(e, "GOFLAGS=") || strings.HasPrefix(e, "GOWORK=") ||
			strings.HasPrefix(e, "GOPROXY=") || strings.HasPrefix(e, "GOSUMDB=") ||
			strings.HasPrefix(e, "GOTOOLCHAIN=") {
			continue
		}
		env = append(env, e)
	}
	env = append(env, "GOFLAGS=", "GOWORK=off", "GOPROXY=off", "GOSUMDB=off", "GOTOOLCHAIN=local")
	mode := packages.NeedName | packages.NeedFiles | packages.NeedCompiledGoFiles |
		packages.NeedImports | packages.NeedTypes | packages.NeedTypesSizes |
		packages.NeedSyntax | packages.NeedTypesInfo | packages.NeedModule
	if all {
		mode |= packages.NeedDeps
	}
	cfg := &packages.Config{
		Mode:       mode,
		Dir:        repo,
		Env:        env,
		BuildFlags: []string{"-mod=readonly", "-trimpath"},
		Tests:      false,
	}
	pkgs, err := packages.Load(cfg, "./...")
	if err != nil {
		return nil, fmt.Errorf("packages.Load: %w", err)
	}
	var errs []string
	packages.Visit(pkgs, nil, func(p *packages.Package) {
		for _, e := range p.Errors {
			errs = append(errs, e.Error())
		}
	})
	if len(errs) > 0 {
		sort.Strings(errs)
		if len(errs) > 10 {
			errs = errs[:10]
		}
		return nil, fmt.Errorf("type/load errors: %s", strings.Join(errs, "; "))
	}
	if len(pkgs) < MinPackages {
		return nil, fmt.Errorf("only %d packages loaded (expected >= %d)", len(pkgs), MinPackages)
	}
	p := &Prog{Repo: repo, Pkgs: map[string]*packages.Package{}, SSAPkgs: map[string]*ssa.Package{}, All: all, pkgList: pkgs}
	p.Fset = pkgs[0].Fset
	var prog *ssa.Program
	var spkgs []*ssa.Package
	bmode := ssa.InstantiateGenerics
	if all {
		prog, spkgs = ssautil.AllPackages(pkgs, bmode)
	} else {
		prog, spkgs = ssautil.Packages(pkgs, bmode)
	}
	prog.Build()
	p.SSA = prog
	for i, pk := range pkgs {
		p.Pkgs[pk.PkgPath] = pk
		if spkgs[i] == nil {
			return nil, fmt.Errorf("no SSA for %s", pk.PkgPath)
		}
		p.SSAPkgs[pk.PkgPath] = spkgs[i]
	}
	return p, nil
}

// CallGraph returns the VTA call graph (built once); requires All.
func (p *Prog) CallGraph() *callgraph.Graph {
	if p.cg == nil {
		fns := ssautil.AllFunctions(p.SSA)
		p.cg = vta.CallGraph(fns, cha.CallGraph(p.SSA))
	}
	return p.cg
}

// Pkg returns the SSA package for a path relative to the module ("lib/breaker").
func (p *Prog) Pkg(rel string) *ssa.Package {
	return p.SSAPkgs[Mod+"/"+rel]
}

// Func resolves a function or method: recv "" for package-level functions.
// Returns nil when absent.
func (p *Prog) Func(rel, recv, name string) *ssa.Function {
	sp := p.Pkg(rel)
	if sp == nil {
		return nil
	}
	if recv == "" {
		f := sp.Func(name)
		if f != nil && p.Hidden[f] {
			return nil
		}
		return f
	}
	t := sp.Type(recv)
	if t == nil {
		return nil
	}
	named, ok := t.Type().(*types.Named)
	if !ok {
		return nil
	}
	for i := 0; i < named.NumMethods(); i++ {
		m := named.Method(i)
		if m.Name() == name {
			f := p.SSA.FuncValue(m)
			if f != nil && p.Hidden[f] {
				return nil
			}
			return f
		}
	}
	return nil
}

// Methods returns all source methods declared on the named type (pointer and value receivers).
func (p *Prog) Methods(rel, recv string) []*ssa.Function {
	sp := p.Pkg(rel)
	if sp == nil {
		return nil
	}
	t := sp.Type(recv)
	if t == nil {
		return nil
	}
	named, ok := t.Type().(*types.Named)
	if !ok {
		return nil
	}
	var out []*ssa.Function
	for i := 0; i < named.NumMethods(); i++ {
		if f := p.SSA.FuncValue(named.Method(i)); f != nil && f.Blocks != nil && !p.Hidden[f] {
			out = append(out, f)
		}
	}
	sort.Slice(out, func(i, j int) bool { return out[i].Name() < out[j].Name() })
	return out
}

// PkgFuncs returns every source function of the package (functions, methods and
// their closures, recursively), in deterministic order.
func (p *Prog) PkgFuncs(rel string) []*ssa.Function {
	sp := p.Pkg(rel)
	if sp == nil {
		return nil
	}
	all := SSAPkgFuncs(p.SSA, sp)
	if len(p.Hidden) == 0 {
		return all
	}
	out := all[:0:0]
	for _, f := range all {
		if !p.hidden(f) {
			out = append(out, f)
		}
	}
	// A hidden method whose body the variant inlined into its bound-method wrapper (x.m used as a
	// value) lives on in that wrapper, a synthetic function without package: list it, with the
	// literals it now carries, wherever a listed function creates it — otherwise a rule that
	// enumerates the package would look past that code and hold vacuously on the variant.
	seen := map[*ssa.Function]bool{}
	for _, f := range out {
		seen[f] = true
	}
	for i := 0; i < len(out); i++ {
		for _, b := range out[i].Blocks {
			for _, in := range b.Instrs {
				mc, ok := in.(*ssa.MakeClosure)
				if !ok {
					continue
				}
				g, ok := mc.Fn.(*ssa.Function)
				if !ok || seen[g] || g.Blocks == nil || !inlinedBoundWrapperOf(g, sp) {
					continue
				}
				for _, a := range WithAnon(g) {
					if !seen[a] && a.Blocks != nil {
						seen[a] = true
						out = append(out, a)
					}
				}
			}
		}
	}
	return out
}

// inlinedBoundWrapperOf: w is the bound-method wrapper of a method of package sp and no longer calls
// that method (a variant inlined the method's body into it).
func inlinedBoundWrapperOf(w *ssa.Function, sp *ssa.Package) bool {
	if w.Synthetic == "" || strings.HasPrefix(w.Synthetic, "godcheck") || w.Object() == nil || len(w.FreeVars) == 0 {
		return false
	}
	tf, ok := w.Object().(*types.Func)
	if !ok {
		return false
	}
	t := w.Prog.FuncValue(tf)
	if t == nil || t.Pkg != sp {
		return false
	}
	for _, b := range w.Blocks {
		for _, in := range b.Instrs {
			if c, ok := in.(ssa.CallInstruction); ok && c.Common().StaticCallee() == t {
				return false
			}
		}
	}
	return true
}

// hidden: a helper inlined at every use is dead in the variant. Its closures stay
// visible: the inlined copies of its MakeClosure instructions still create them.
func (p *Prog) hidden(f *ssa.Function) bool { return p.Hidden[f] }

// SSAPkgFuncs lists the source functions of one SSA package.
func SSAPkgFuncs(prog *ssa.Program, sp *ssa.Package) []*ssa.Function {
	var out []*ssa.Function
	seen := map[*ssa.Function]bool{}
	var add func(f *ssa.Function)
	add = func(f *ssa.Function) {
		if f == nil || seen[f] || f.Blocks == nil {
			return
		}
		seen[f] = true
		out = append(out, f)
		for _, a := range f.AnonFuncs {
			add(a)
		}
	}
	var names []string
	for n := range sp.Members {
		names = append(names, n)
	}
	sort.Strings(names)
	for _, n := range names {
		switch m := sp.Members[n].(type) {
		case *ssa.Function:
			add(m)
		case *ssa.Type:
			if named, ok := m.Type().(*types.Named); ok {
				for i := 0; i < named.NumMethods(); i++ {
					add(prog.FuncValue(named.Method(i)))
				}
			}
		}
	}
	return out
}

// WithAnon returns f followed by all its nested closures.
func WithAnon(f *ssa.Function) []*ssa.Function {
	if f == nil {
		return nil
	}
	out := []*ssa.Function{f}
	for _, a := range f.AnonFuncs {
		out = append(out, WithAnon(a)...)
	}
	return out
}

// Pos renders a position relative to the repository root.
func (p *Prog) Pos(pos token.Pos) string {
	if !pos.IsValid() {
		return "?"
	}
	ps := p.Fset.Position(pos)
	f := strings.TrimPrefix(ps.Filename, p.Repo+"/")
	return fmt.Sprintf("%s:%d", f, ps.Line)
}

// InstrPos gives the best available position of an instruction.
func (p *Prog) InstrPos(in ssa.Instruction) string {
	if in == nil {
		return "?"
	}
	if in.Pos().IsValid() {
		return p.Pos(in.Pos())
	}
	// fall back to any operand / neighbouring instruction with a position
	if b := in.Block(); b != nil {
		idx := -1
		for i, x := range b.Instrs {
			if x == in {
				idx = i
			}
		}
		for d := 1; d < len(b.Instrs); d++ {
			for _, j := range []int{idx - d, idx + d} {
				if j >= 0 && j < len(b.Instrs) && b.Instrs[j].Pos().IsValid() {
					return p.Pos(b.Instrs[j].Pos()) + "~"
				}
			}
		}
		if b.Parent() != nil {
			return p.Pos(b.Parent().Pos()) + "~"
		}
	}
	return "?"
}

// FuncName is a stable printable name: pkg-relative, receiver, name, closures as $n.
func FuncName(f *ssa.Function) string {
	if f == nil {
		return "<nil>"
	}
	s := f.String()
	s = strings.ReplaceAll(s, Mod+"/", "")
	return s
}

// FileOf returns the syntax file that contains pos in package rel.
func (p *Prog) FileOf(rel string, pos token.Pos) *ast.File {
	pk := p.Pkgs[Mod+"/"+rel]
	if pk == nil {
		return nil
	}
	for _, f := range pk.Syntax {
		if f.Pos() <= pos && pos <= f.End() {
			return f
		}
	}
	return nil
}

//go:embed baseline_funcs.txt
var baselineFuncsTxt string

// IgnoreBaseline makes Variant inline every eligible helper (self-test of the inliner).
var IgnoreBaseline bool

var baselineFuncs = func() map[string]bool {
	m := map[string]bool{}
	for _, l := range strings.Split(baselineFuncsTxt, "\n") {
		if l = strings.TrimSpace(l); l != "" {
			m[l] = true
		}
	}
	return m
}()

// AllFuncNames lists the top-level functions and methods of the main module.
func (p *Prog) AllFuncNames() []string {
	var out []string
	for _, sp := range p.SSAPkgs {
		for _, f := range SSAPkgFuncs(p.SSA, sp) {
			if f.Parent() == nil && f.Synthetic == "" {
				out = append(out, FuncName(f))
			}
		}
	}
	sort.Strings(out)
	return out
}

// AllTypeNames lists the named types declared in the main module ("type <pkg>.<Name>").
func (p *Prog) AllTypeNames() []string {
	var out []string
	for _, sp := range p.SSAPkgs {
		for _, m := range sp.Members {
			if t, ok := m.(*ssa.Type); ok {
				out = append(out, "type "+Short(sp.Pkg.Path())+"."+t.Name())
			}
		}
	}
	sort.Strings(out)
	return out
}

// isNewType: a named type of the main module that did not exist on the tree the
// rule tables were confirmed on (same role as the helper list: it only steers
// the normalisation, never a verdict).
func isNewType(t *types.Named) bool {
	if t == nil || t.Obj() == nil || t.Obj().Pkg() == nil || t.Obj().Exported() || !strings.HasPrefix(t.Obj().Pkg().Path(), Mod) {
		return false
	}
	if t.TypeArgs().Len() > 0 || t.TypeParams().Len() > 0 {
		return false
	}
	return IgnoreBaseline || !baselineFuncs["type "+Short(t.Obj().Pkg().Path())+"."+t.Obj().Name()]
}

// Variant builds a behaviour-equivalent variant of the program in which small
// helpers of the main module are inlined into their callers at SSA level
// (level 1: unexported functions/methods with exactly one use, a plain static
// call in the same package; level 2: additionally unexported helpers with at
// most three plain static call sites and a small body). Helpers inlined at every
// use are hidden from PkgFuncs/Func/Methods. The rule tables are evaluated on a
// variant only when they do not hold on the program as written: a check passes
// when it holds on the program or on one of its variants (inlining preserves
// behaviour, so a necessary condition that holds on a variant holds).
func (p *Prog) Variant(level int) *Prog {
	prog, spkgs := ssautil.Packages(p.pkgList, ssa.InstantiateGenerics)
	prog.Build()
	v := &Prog{Repo: p.Repo, Fset: p.Fset, Pkgs: p.Pkgs, SSA: prog, SSAPkgs: map[string]*ssa.Package{}, pkgList: p.pkgList,
		VariantLevel: level, Hidden: map[*ssa.Function]bool{}}
	for i, pk := range p.pkgList {
		v.SSAPkgs[pk.PkgPath] = spkgs[i]
	}
	var all []*ssa.Function
	for _, sp := range spkgs {
		all = append(all, SSAPkgFuncs(prog, sp)...)
	}
	// an instance of a generic function stands for its origin (instances are concrete bodies)
	origin := func(f *ssa.Function) *ssa.Function {
		if f != nil && f.Origin() != nil && len(f.TypeArgs()) > 0 {
			return f.Origin()
		}
		return f
	}
	plainOrInstance := func(f *ssa.Function) bool {
		return f.Synthetic == "" || (f.Origin() != nil && len(f.TypeArgs()) > 0)
	}
	isNewHelper := func(f *ssa.Function) bool {
		if f == nil || f.Parent() != nil || f.Blocks == nil || !plainOrInstance(f) {
			return false
		}
		o := origin(f)
		return o.Object() != nil && !o.Object().Exported() &&
			o.Name() != "init" && o.Name() != "main" && !mayBeInvoked(o) && (IgnoreBaseline || !baselineFuncs[FuncName(o)])
	}
	// `defer h(args)` / `go h(args)` of a new helper become deferred / spawned closures with h inlined
	closureized := map[*ssa.Function]bool{}
	for round := 0; round < 3; round++ { // the closures made in one round may contain further such calls
		n := 0
		for _, f := range all {
			for _, g := range ssa.ClosureizeDeferAndGo(f, func(callee *ssa.Function) bool { return origin(callee).Pkg == f.Pkg && isNewHelper(callee) }) {
				closureized[g] = true
				n++
			}
		}
		if n == 0 {
			break
		}
		all = all[:0]
		for _, sp := range spkgs {
			all = append(all, SSAPkgFuncs(prog, sp)...)
		}
	}
	type use struct{ calls, other, bound int }
	uses := map[*ssa.Function]*use{}
	get := func(f *ssa.Function) *use {
		u := uses[f]
		if u == nil {
			u = &use{}
			uses[f] = u
		}
		return u
	}
	for _, f := range all {
		for _, b := range f.Blocks {
			for _, in := range b.Instrs {
				var callee *ssa.Function
				if c, ok := in.(ssa.CallInstruction); ok {
					callee = c.Common().StaticCallee()
					if callee != nil {
						if _, plain := in.(*ssa.Call); plain && origin(callee).Pkg == f.Pkg {
							if _, viaClosure := c.Common().Value.(*ssa.MakeClosure); !viaClosure {
								get(callee).calls++
							} else {
								get(callee).other++
							}
						} else {
							get(callee).other++
						}
					}
				}
				for _, op := range in.Operands(nil) {
					if fv, ok := (*op).(*ssa.Function); ok && fv != callee {
						get(fv).other++
						if fv.Synthetic != "" && fv.Object() != nil {
							if tf, ok := fv.Object().(*types.Func); ok {
								if t := prog.FuncValue(tf); t != nil {
									get(t).other++
									get(t).bound++
								}
							}
						}
					}
					if mc, ok := (*op).(*ssa.MakeClosure); ok {
						if w, ok := mc.Fn.(*ssa.Function); ok && w.Synthetic != "" && w.Object() != nil {
							if tf, ok := w.Object().(*types.Func); ok {
								if t := prog.FuncValue(tf); t != nil {
									get(t).other++
									get(t).bound++ // `x.m` as a function value: variant 2 inlines m into the wrapper
								}
							}
						}
					}
				}
			}
		}
	}
	size := func(f *ssa.Function) int {
		n := 0
		for _, b := range f.Blocks {
			n += len(b.Instrs)
		}
		return n
	}
	candidate := func(f *ssa.Function) bool {
		if f == nil || f.Parent() != nil || f.Blocks == nil || !plainOrInstance(f) {
			return false
		}
		o := origin(f)
		if o.Object() == nil || o.Object().Exported() || o.Name() == "init" || o.Name() == "main" || mayBeInvoked(o) {
			return false
		}
		// Only helpers that did not exist on the tree the rule tables were
		// confirmed on are inlined: the tables anchor on that tree's own helper
		// structure (by role), so inlining its helpers would remove the anchors,
		// while a helper extracted since then hides the shape the rules look for.
		// The list only steers this normalisation; it never decides a verdict.
		if baselineFuncs[FuncName(o)] && !IgnoreBaseline {
			return false
		}
		u := uses[f]
		if u == nil || u.calls == 0 {
			return false
		}
		other := u.other
		if level >= 2 {
			other -= u.bound
		}
		if other > 0 {
			return false
		}
		switch level {
		case 1:
			return u.calls == 1
		default:
			return size(f) <= 400
		}
	}
	inlined := map[*ssa.Function]bool{}
	helperPass := func() {
		for _, f := range all {
			got := ssa.InlineStaticCalls(f, func(site *ssa.Call, callee *ssa.Function) bool {
				return origin(callee).Pkg == f.Pkg && candidate(callee)
			}, 4)
			for _, g := range got {
				inlined[g] = true
			}
		}
	}
	helperPass()
	if level >= 2 {
		// A function literal that is applied on the spot – typically after a new higher-order helper
		// (`c.locked(func() { … })`) was inlined – is its body: inline it too (never one that calls
		// recover(); its defers run where its RunDefers stood), then look for helpers once more.
		n := 0
		for _, f := range all {
			got := ssa.InlineStaticCalls(f, func(site *ssa.Call, callee *ssa.Function) bool {
				mc, ok := site.Call.Value.(*ssa.MakeClosure)
				if !ok || callee.Parent() == nil || mc.Referrers() == nil {
					return false
				}
				// every use of the literal is a direct call of it (one or several sites, e.g. the visit
				// closure of an inlined iteration helper that calls it in two loops)
				for _, r := range *mc.Referrers() {
					c, isCall := r.(*ssa.Call)
					if !isCall || c.Call.Value != ssa.Value(mc) {
						return false
					}
					for _, a := range c.Call.Args {
						if a == ssa.Value(mc) {
							return false
						}
					}
				}
				return true
			}, 2)
			n += len(got)
			if len(got) > 0 {
				dead := map[*ssa.Function]bool{}
				for _, g := range got {
					dead[g] = true
				}
				if ssa.RemoveDeadClosures(f, dead) > 0 {
					for g := range dead {
						inlined[g] = true
					}
				}
			}
		}
		if n > 0 {
			helperPass()
		}
		// `x.m` used as a function value, m a new method: the wrapper becomes m's body over the receiver.
		for _, f := range all {
			for _, g := range ssa.InlineBoundMethods(f, func(m *ssa.Function) bool { return origin(m).Pkg == f.Pkg && isNewHelper(m) }) {
				inlined[g] = true
			}
		}
	}
	for g := range closureized {
		inlined[g] = true
	}
	// hide a helper only when no reference to it is left anywhere
	left := map[*ssa.Function]bool{}
	for _, f := range all {
		for _, b := range f.Blocks {
			for _, in := range b.Instrs {
				for _, op := range in.Operands(nil) {
					if fv, ok := (*op).(*ssa.Function); ok && inlined[fv] {
						left[fv] = true
					}
				}
			}
		}
	}
	for g := range inlined {
		if left[g] {
			continue
		}
		v.Hidden[g] = true
		v.Inlined = append(v.Inlined, FuncName(g))
	}
	if level >= 2 {
		var wrappers []*ssa.Function
		// A struct of a new unexported type that is only ever accessed field by field (its methods were
		// new helpers and are inlined by now) is split into its fields: locals moved into a struct, and
		// closures turned into methods of it, get back the shape of locals captured by closures.
		sites := map[*ssa.Function][]*ssa.MakeClosure{}
		seenFn := map[*ssa.Function]bool{}
		var scan func(f *ssa.Function)
		scan = func(f *ssa.Function) {
			if f == nil || seenFn[f] {
				return
			}
			seenFn[f] = true
			for _, b := range f.Blocks {
				for _, in := range b.Instrs {
					if mc, ok := in.(*ssa.MakeClosure); ok {
						if k, ok := mc.Fn.(*ssa.Function); ok {
							sites[k] = append(sites[k], mc)
							if k.Parent() == nil { // bound-method wrapper: not among the package's functions
								wrappers = append(wrappers, k)
								scan(k)
							}
						}
					}
				}
			}
		}
		for _, f := range all {
			if !v.Hidden[f] {
				scan(f)
			}
		}
		split := 0
		live := append(append([]*ssa.Function(nil), all...), wrappers...)
		// small immutable struct values of new types passed by value (value receivers, by-value
		// capture): the copies are elided first, what is left is one allocation read field by field
		for _, f := range live {
			if !v.Hidden[f] {
				ssa.ElideStructCopies(f, isNewType, sites)
			}
		}
		for _, f := range live {
			if !v.Hidden[f] {
				split += ssa.ScalarReplaceStructs(f, isNewType, sites)
			}
		}
		v.Split = split
	}
	// closures that no live function creates any more are dead code (the closure-ized `defer h()`
	// inside a helper that was inlined everywhere: every inlined copy has its own): hide them too
	liveFn := map[*ssa.Function]bool{}
	var mark func(f *ssa.Function)
	mark = func(f *ssa.Function) {
		if f == nil || liveFn[f] || f.Blocks == nil {
			return
		}
		liveFn[f] = true
		for _, b := range f.Blocks {
			for _, in := range b.Instrs {
				for _, op := range in.Operands(nil) {
					if g, ok := (*op).(*ssa.Function); ok {
						mark(g)
					}
				}
			}
		}
	}
	for _, f := range all {
		if f.Parent() == nil && !v.Hidden[f] {
			mark(f)
		}
	}
	for _, f := range all {
		if f.Parent() != nil && !liveFn[f] {
			// only closures whose lexical ancestors include a hidden helper can have lost their creator
			for a := f.Parent(); a != nil; a = a.Parent() {
				if v.Hidden[a] {
					v.Hidden[f] = true
					break
				}
			}
		}
	}
	sort.Strings(v.Inlined)
	return v
}
