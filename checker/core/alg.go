package core

import (
	"fmt"
	"go/ast"
	"go/constant"
	"go/parser"
	"go/token"
	"go/types"
	"math"
	"math/big"
	"sort"
	"strconv"
	"strings"

	"golang.org/x/tools/go/ssa"
)

// K7: normal form of an SSA value as a polynomial with rational coefficients
// over atoms. Atoms are leaves (parameters, field loads, call results, φ) or
// applications of uninterpreted function symbols to normalised arguments.

// Poly maps a monomial (sorted atom names joined by '*', "" for the constant
// term) to its coefficient.
type Poly map[string]*big.Rat

func PConst(r *big.Rat) Poly {
	p := Poly{}
	if r.Sign() != 0 {
		p[""] = new(big.Rat).Set(r)
	}
	return p
}

func PInt(n int64) Poly { return PConst(new(big.Rat).SetInt64(n)) }

func PAtom(name string) Poly { return Poly{name: big.NewRat(1, 1)} }

func (p Poly) Add(q Poly) Poly {
	r := Poly{}
	for k, v := range p {
		r[k] = new(big.Rat).Set(v)
	}
	for k, v := range q {
		if c, ok := r[k]; ok {
			c.Add(c, v)
			if c.Sign() == 0 {
				delete(r, k)
			}
		} else if v.Sign() != 0 {
			r[k] = new(big.Rat).Set(v)
		}
	}
	return r
}

func (p Poly) Scale(c *big.Rat) Poly {
	r := Poly{}
	if c.Sign() == 0 {
		return r
	}
	for k, v := range p {
		r[k] = new(big.Rat).Mul(v, c)
	}
	return r
}

func (p Poly) Neg() Poly { return p.Scale(big.NewRat(-1, 1)) }

func (p Poly) Sub(q Poly) Poly { return p.Add(q.Neg()) }

func mulMono(a, b string) string {
	if a == "" {
		return b
	}
	if b == "" {
		return a
	}
	parts := append(splitMono(a), splitMono(b)...)
	sort.Strings(parts)
	return strings.Join(parts, "*")
}

// splitMono splits a monomial at top-level '*' (atoms may contain nested parentheses).
func splitMono(m string) []string {
	var out []string
	depth, start := 0, 0
	for i, c := range m {
		switch c {
		case '(', '[':
			depth++
		case ')', ']':
			depth--
		case '*':
			if depth == 0 {
				out = append(out, m[start:i])
				start = i + 1
			}
		}
	}
	return append(out, m[start:])
}

func (p Poly) Mul(q Poly) Poly {
	r := Poly{}
	for k1, v1 := range p {
		for k2, v2 := range q {
			k := mulMono(k1, k2)
			c := new(big.Rat).Mul(v1, v2)
			if e, ok := r[k]; ok {
				e.Add(e, c)
				if e.Sign() == 0 {
					delete(r, k)
				}
			} else if c.Sign() != 0 {
				r[k] = c
			}
		}
	}
	return r
}

// IsConst reports whether p is a constant and returns it.
func (p Poly) IsConst() (*big.Rat, bool) {
	if len(p) == 0 {
		return new(big.Rat), true
	}
	if len(p) == 1 {
		if c, ok := p[""]; ok {
			return c, true
		}
	}
	return nil, false
}

func ratStr(r *big.Rat) string {
	if r.IsInt() {
		return r.Num().String()
	}
	f, _ := r.Float64()
	// print short decimal when exact enough, else fraction
	s := strconv.FormatFloat(f, 'g', 12, 64)
	return s
}

// String is the canonical rendering (terms sorted).
func (p Poly) String() string {
	if len(p) == 0 {
		return "0"
	}
	keys := make([]string, 0, len(p))
	for k := range p {
		keys = append(keys, k)
	}
	sort.Strings(keys)
	var sb strings.Builder
	for i, k := range keys {
		c := p[k]
		if i > 0 {
			sb.WriteString(" + ")
		}
		switch {
		case k == "":
			sb.WriteString(ratStr(c))
		case c.Cmp(big.NewRat(1, 1)) == 0:
			sb.WriteString(k)
		default:
			sb.WriteString(ratStr(c) + "*" + k)
		}
	}
	return sb.String()
}

// Equal compares two polynomials; coefficients are compared with relative
// tolerance 1e-12 (typed float constants are pre-rounded by the type checker).
func (p Poly) Equal(q Poly) bool {
	for k, v := range p {
		w, ok := q[k]
		if !ok {
			w = new(big.Rat)
		}
		if !ratClose(v, w) {
			return false
		}
	}
	for k, w := range q {
		if _, ok := p[k]; !ok && !ratClose(new(big.Rat), w) {
			return false
		}
	}
	return true
}

func ratClose(a, b *big.Rat) bool {
	if a.Cmp(b) == 0 {
		return true
	}
	fa, _ := a.Float64()
	fb, _ := b.Float64()
	d := math.Abs(fa - fb)
	m := math.Max(math.Abs(fa), math.Abs(fb))
	return d <= 1e-12*math.Max(m, 1)
}

// Atoms lists the distinct atoms occurring in p.
func (p Poly) Atoms() []string {
	set := map[string]bool{}
	for k := range p {
		if k == "" {
			continue
		}
		for _, a := range splitMono(k) {
			set[a] = true
		}
	}
	var out []string
	for a := range set {
		out = append(out, a)
	}
	sort.Strings(out)
	return out
}

// Coef returns the coefficient polynomial of atom a in p, when p is linear in
// a (degree ≤ 1), together with the remainder not containing a.
func (p Poly) Coef(a string) (coef, rest Poly, linear bool) {
	coef, rest, linear = Poly{}, Poly{}, true
	for k, v := range p {
		parts := splitMono(k)
		n := 0
		var others []string
		for _, x := range parts {
			if x == a {
				n++
			} else if x != "" {
				others = append(others, x)
			}
		}
		switch n {
		case 0:
			rest[k] = new(big.Rat).Set(v)
		case 1:
			coef[strings.Join(others, "*")] = new(big.Rat).Set(v)
		default:
			linear = false
		}
	}
	return
}

// ---- normalisation of SSA values ----

// Alg configures normalisation.
type Alg struct {
	// Name gives a rule-chosen name to a leaf value ("" = use the structural descriptor).
	Name func(v ssa.Value) string
	// Inline lists in-module functions whose single-return body may be inlined (by callee name, module prefix stripped).
	Inline map[string]bool
	depth  int
	// Opaque stops normalisation at matching values (they become leaves).
	Opaque func(v ssa.Value) bool
	// PhiAsMax renders a φ produced by the comparison idiom `if a < b { a = b }` as max/min when recognisable.
	args map[*ssa.Parameter]Poly
}

func fn(name string, args ...Poly) Poly {
	ss := make([]string, len(args))
	for i, a := range args {
		ss[i] = a.String()
	}
	return PAtom(name + "(" + strings.Join(ss, ", ") + ")")
}

func fnComm(name string, args ...Poly) Poly {
	ss := make([]string, len(args))
	for i, a := range args {
		ss[i] = a.String()
	}
	sort.Strings(ss)
	return PAtom(name + "(" + strings.Join(ss, ", ") + ")")
}

func isFloat(t types.Type) bool {
	b, ok := t.Underlying().(*types.Basic)
	return ok && b.Info()&types.IsFloat != 0
}

func isInteger(t types.Type) bool {
	b, ok := t.Underlying().(*types.Basic)
	return ok && b.Info()&types.IsInteger != 0
}

func constRat(c *ssa.Const) (*big.Rat, bool) {
	if c.Value == nil {
		return nil, false
	}
	switch c.Value.Kind() {
	case constant.Int:
		if i, ok := constant.Int64Val(c.Value); ok {
			return new(big.Rat).SetInt64(i), true
		}
		if bi, ok := constant.Val(c.Value).(*big.Int); ok {
			return new(big.Rat).SetInt(bi), true
		}
	case constant.Float:
		switch x := constant.Val(c.Value).(type) {
		case *big.Rat:
			return new(big.Rat).Set(x), true
		case *big.Float:
			if r, _ := x.Rat(nil); r != nil {
				return r, true
			}
		}
	}
	return nil, false
}

// Norm computes the normal form of v.
func (a *Alg) Norm(v ssa.Value) Poly {
	if a.depth > 40 {
		return PAtom("…")
	}
	a.depth++
	defer func() { a.depth-- }()
	if a.Opaque != nil && a.Opaque(v) {
		return a.leaf(v)
	}
	v = Forward(v)
	switch x := v.(type) {
	case *ssa.Const:
		if r, ok := constRat(x); ok {
			return PConst(r)
		}
	case *ssa.Parameter:
		if a.args != nil {
			if p, ok := a.args[x]; ok {
				return p
			}
		}
	case *ssa.BinOp:
		l, r := a.Norm(x.X), a.Norm(x.Y)
		switch x.Op {
		case token.ADD:
			if isNumeric(x.Type()) {
				return l.Add(r)
			}
		case token.SUB:
			return l.Sub(r)
		case token.MUL:
			return l.Mul(r)
		case token.QUO:
			if c, ok := r.IsConst(); ok && c.Sign() != 0 && !isInteger(x.Type()) {
				return l.Scale(new(big.Rat).Inv(c))
			}
			if isInteger(x.Type()) {
				// exact when both constant and divisible; otherwise floor division symbol
				if lc, ok1 := l.IsConst(); ok1 {
					if rc, ok2 := r.IsConst(); ok2 && rc.Sign() != 0 {
						q := new(big.Rat).Quo(lc, rc)
						if q.IsInt() {
							return PConst(q)
						}
					}
				}
				return fn("idiv", l, r)
			}
			return fn("div", l, r)
		case token.REM:
			return fn("mod", l, r)
		}
	case *ssa.UnOp:
		if x.Op == token.SUB {
			return a.Norm(x.X).Neg()
		}
	case *ssa.Convert:
		from, to := x.X.Type(), x.Type()
		if isFloat(from) && isInteger(to) {
			return fn("int", a.Norm(x.X))
		}
		if isNumeric(from) && isNumeric(to) {
			return a.Norm(x.X)
		}
	case *ssa.ChangeType:
		return a.Norm(x.X)
	case *ssa.Call:
		name := Short(CalleeName(x))
		args := Args(x)
		switch name {
		case "math.Max":
			return fnComm("max", a.Norm(args[0]), a.Norm(args[1]))
		case "math.Min":
			return fnComm("min", a.Norm(args[0]), a.Norm(args[1]))
		case "math.Ceil":
			return fn("ceil", a.Norm(args[0]))
		case "math.Floor":
			return fn("floor", a.Norm(args[0]))
		case "math.Sqrt":
			return fn("sqrt", a.Norm(args[0]))
		case "math.Exp":
			return fn("exp", a.Norm(args[0]))
		case "(time.Duration).Seconds":
			return a.Norm(args[0]).Scale(big.NewRat(1, 1e9))
		case "(time.Duration).Milliseconds":
			return fn("idiv", a.Norm(args[0]), PInt(1e6))
		case "builtin:len":
			return fn("len", a.leafPoly(args[0]))
		case "builtin:min":
			ps := make([]Poly, len(args))
			for i := range args {
				ps[i] = a.Norm(args[i])
			}
			return fnComm("min", ps...)
		case "builtin:max":
			ps := make([]Poly, len(args))
			for i := range args {
				ps[i] = a.Norm(args[i])
			}
			return fnComm("max", ps...)
		}
		if a.Inline != nil && a.Inline[name] {
			if callee := x.Call.StaticCallee(); callee != nil && callee.Blocks != nil {
				if p, ok := a.inline(callee, args); ok {
					return p
				}
			}
		}
	}
	return a.leaf(v)
}

func isNumeric(t types.Type) bool {
	b, ok := t.Underlying().(*types.Basic)
	return ok && b.Info()&types.IsNumeric != 0
}

func (a *Alg) inline(callee *ssa.Function, args []ssa.Value) (Poly, bool) {
	var ret *ssa.Return
	for _, b := range callee.Blocks {
		for _, in := range b.Instrs {
			if r, ok := in.(*ssa.Return); ok {
				if ret != nil {
					return nil, false
				}
				ret = r
			}
		}
	}
	if ret == nil || len(ret.Results) != 1 {
		return nil, false
	}
	saved := a.args
	na := map[*ssa.Parameter]Poly{}
	for i, p := range callee.Params {
		if i < len(args) {
			na[p] = a.Norm(args[i])
		}
	}
	a.args = na
	defer func() { a.args = saved }()
	return a.Norm(ret.Results[0]), true
}

func (a *Alg) leafPoly(v ssa.Value) Poly { return a.leaf(v) }

func (a *Alg) leaf(v ssa.Value) Poly {
	if a.Name != nil {
		if n := a.Name(v); n != "" {
			return PAtom(n)
		}
	}
	d := Describe(v)
	// atoms must not contain top-level '*' or spaces that confuse monomial splitting
	d = strings.ReplaceAll(d, "*", "×")
	return PAtom("⟨" + d + "⟩")
}

// ParsePoly parses an expected form written as a Go expression over atom names,
// numbers, + - * /, and function symbols f(args).
func ParsePoly(src string) Poly {
	e, err := parser.ParseExpr(src)
	if err != nil {
		panic(fmt.Sprintf("ParsePoly(%q): %v", src, err))
	}
	return evalExpr(e)
}

var commutative = map[string]bool{"max": true, "min": true}

func evalExpr(e ast.Expr) Poly {
	switch x := e.(type) {
	case *ast.ParenExpr:
		return evalExpr(x.X)
	case *ast.BasicLit:
		r, ok := new(big.Rat).SetString(x.Value)
		if !ok {
			panic("bad number " + x.Value)
		}
		return PConst(r)
	case *ast.Ident:
		return PAtom(x.Name)
	case *ast.SelectorExpr:
		return PAtom(types.ExprString(x))
	case *ast.UnaryExpr:
		if x.Op == token.SUB {
			return evalExpr(x.X).Neg()
		}
	case *ast.BinaryExpr:
		l, r := evalExpr(x.X), evalExpr(x.Y)
		switch x.Op {
		case token.ADD:
			return l.Add(r)
		case token.SUB:
			return l.Sub(r)
		case token.MUL:
			return l.Mul(r)
		case token.QUO:
			if c, ok := r.IsConst(); ok && c.Sign() != 0 {
				return l.Scale(new(big.Rat).Inv(c))
			}
			return fn("div", l, r)
		case token.REM:
			return fn("mod", l, r)
		}
	case *ast.CallExpr:
		name := types.ExprString(x.Fun)
		args := make([]Poly, len(x.Args))
		for i, a := range x.Args {
			args[i] = evalExpr(a)
		}
		if commutative[name] {
			return fnComm(name, args...)
		}
		return fn(name, args...)
	}
	panic(fmt.Sprintf("ParsePoly: unsupported expression %T", e))
}

// ---- interval evaluation ----

// Interval is a closed interval of float64.
type Interval struct{ Lo, Hi float64 }

// Range bounds a polynomial that is multilinear in its atoms by evaluating it
// at the vertices of the box given by env (atoms missing from env make the
// result unbounded).
func (p Poly) Range(env map[string]Interval) (Interval, bool) {
	atoms := p.Atoms()
	for _, a := range atoms {
		if _, ok := env[a]; !ok {
			return Interval{math.Inf(-1), math.Inf(1)}, false
		}
	}
	if len(atoms) > 16 {
		return Interval{math.Inf(-1), math.Inf(1)}, false
	}
	lo, hi := math.Inf(1), math.Inf(-1)
	n := len(atoms)
	val := map[string]float64{}
	for mask := 0; mask < 1<<n; mask++ {
		for i, a := range atoms {
			if mask>>i&1 == 1 {
				val[a] = env[a].Hi
			} else {
				val[a] = env[a].Lo
			}
		}
		s := 0.0
		for k, c := range p {
			f, _ := c.Float64()
			if k != "" {
				for _, a := range splitMono(k) {
					f *= val[a]
				}
			}
			s += f
		}
		lo, hi = math.Min(lo, s), math.Max(hi, s)
	}
	return Interval{lo, hi}, true
}

// CmpPoly is the atom "want > 0" for a polynomial in the algebra's atoms, in
// any spelling: a comparison X op Y matches when Norm(X) − Norm(Y) is want or
// −want (so `len(files) > mb`, `mb < len(files)`, `len(files)-mb > 0` and
// `excess > 0` with excess := len(files)-mb are the same atom). With nonStrict
// the weaker `want ≥ 0` is accepted as establishing it too.
func CmpPoly(a *Alg, want Poly, nonStrict bool) Atom {
	return func(v ssa.Value) (bool, bool) {
		b, ok := v.(*ssa.BinOp)
		if !ok {
			return false, false
		}
		switch b.Op {
		case token.GTR, token.GEQ, token.LSS, token.LEQ:
		default:
			return false, false
		}
		if !isNumeric(b.X.Type()) {
			return false, false
		}
		d := a.Norm(b.X).Sub(a.Norm(b.Y))
		op := b.Op
		switch {
		case d.Equal(want):
		case d.Equal(want.Neg()):
			op = flipOp(op)
		default:
			return false, false
		}
		// now: want op 0
		switch op {
		case token.GTR:
			return true, true
		case token.LEQ:
			return true, false
		case token.GEQ:
			return nonStrict, true
		case token.LSS:
			return nonStrict, false
		}
		return false, false
	}
}
