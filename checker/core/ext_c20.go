package core

// In-process loader for leaf packages of a nested module that the go command
// cannot resolve offline (tools/god, property C20): the packages are parsed
// with go/parser, type-checked with go/types and built with
// ssautil.BuildPackage. Their imports (standard library and
// golang.org/x/text, which is in the main module's build list) are served from
// export data obtained by one extra packages.Load in the main module, with the
// same read-only configuration as Load. Nothing below the repository is
// written and no go command runs inside the nested module.

import (
	_ "embed"
	"fmt"
	"go/ast"
	"go/parser"
	"go/token"
	"go/types"
	"os"
	"path/filepath"
	"sort"
	"strconv"
	"strings"

	"golang.org/x/tools/go/packages"
	"golang.org/x/tools/go/ssa"
	"golang.org/x/tools/go/ssa/ssautil"
)

// ExtPkg is one in-process loaded package.
type ExtPkg struct {
	Rel   string // directory relative to the nested module root ("util/format")
	Path  string // import path
	Files []*ast.File
	Types *types.Package
	Info  *types.Info
	SSA   *ssa.Package
}

// Ext is a set of in-process loaded packages of one nested module.
type Ext struct {
	ModDir  string // directory of the nested module relative to the repository ("tools/god")
	ModPath string
	Pkgs    map[string]*ExtPkg // by Rel

	// VariantLevel/Hidden/Inlined mirror Prog: when the Prog the packages are
	// loaded for is an inlined variant, the same normalisation is applied here.
	VariantLevel int
	Hidden       map[*ssa.Function]bool
	Inlined      []string
	Split        int // structs split into their fields (variant 2)
}

type mapImporter map[string]*types.Package

func (m mapImporter) Import(path string) (*types.Package, error) {
	if path == "unsafe" {
		return types.Unsafe, nil
	}
	if p := m[path]; p != nil && p.Complete() {
		return p, nil
	}
	return nil, fmt.Errorf("import %q: not available to the in-process loader", path)
}

// LoadExt loads the packages in directories rels of the nested module modDir
// (both relative paths). Packages may import each other only if listed in
// dependency order.
func (p *Prog) LoadExt(modDir string, rels ...string) (*Ext, error) {
	root := filepath.Join(p.Repo, modDir)
	gm, err := os.ReadFile(filepath.Join(root, "go.mod"))
	if err != nil {
		return nil, err
	}
	modPath := ""
	for _, l := range strings.Split(string(gm), "\n") {
		l = strings.TrimSpace(l)
		if strings.HasPrefix(l, "module ") {
			modPath = strings.Trim(strings.TrimSpace(strings.TrimPrefix(l, "module ")), `"`)
			break
		}
	}
	if modPath == "" {
		return nil, fmt.Errorf("%s/go.mod: no module line", modDir)
	}
	ext := &Ext{ModDir: modDir, ModPath: modPath, Pkgs: map[string]*ExtPkg{}}
	own := map[string]bool{}
	for _, rel := range rels {
		own[modPath+"/"+rel] = true
	}
	// parse
	need := map[string]bool{}
	for _, rel := range rels {
		dir := filepath.Join(root, rel)
		ents, err := os.ReadDir(dir)
		if err != nil {
			return nil, err
		}
		ep := &ExtPkg{Rel: rel, Path: modPath + "/" + rel}
		var names []string
		for _, e := range ents {
			n := e.Name()
			if e.IsDir() || !strings.HasSuffix(n, ".go") || strings.HasSuffix(n, "_test.go") {
				continue
			}
			names = append(names, n)
		}
		sort.Strings(names)
		for _, n := range names {
			f, err := parser.ParseFile(p.Fset, filepath.Join(dir, n), nil, parser.ParseComments|parser.SkipObjectResolution)
			if err != nil {
				return nil, err
			}
			ep.Files = append(ep.Files, f)
			for _, im := range f.Imports {
				ip, _ := strconv.Unquote(im.Path.Value)
				if !own[ip] {
					need[ip] = true
				}
			}
		}
		if len(ep.Files) == 0 {
			return nil, fmt.Errorf("%s/%s: no Go files", modDir, rel)
		}
		ext.Pkgs[rel] = ep
	}
	// imports from export data, through the main module (read-only)
	var pats []string
	for ip := range need {
		if ip != "unsafe" && ip != "C" {
			pats = append(pats, ip)
		}
	}
	sort.Strings(pats)
	imp := mapImporter{}
	if len(pats) > 0 {
		env := []string{}
		for _, e := range os.Environ() {
			if strings.HasPrefix(e, "GOFLAGS=") || strings.HasPrefix(e, "GOWORK=") ||
				strings.HasPrefix(e, "GOPROXY=") || strings.HasPrefix(e, "GOSUMDB=") ||
				strings.HasPrefix(e, "GOTOOLCHAIN=") {
				continue
			}
			env = append(env, e)
		}
		env = append(env, "GOFLAGS=", "GOWORK=off", "GOPROXY=off", "GOSUMDB=off", "GOTOOLCHAIN=local")
		cfg := &packages.Config{
			Mode:       packages.NeedName | packages.NeedTypes | packages.NeedImports | packages.NeedModule,
			Dir:        p.Repo,
			Env:        env,
			Fset:       p.Fset,
			BuildFlags: []string{"-mod=readonly", "-trimpath"},
		}
		deps, err := packages.Load(cfg, pats...)
		if err != nil {
			return nil, fmt.Errorf("packages.Load(imports of %s): %w", modDir, err)
		}
		for _, d := range deps {
			for _, e := range d.Errors {
				return nil, fmt.Errorf("import %s: %s", d.PkgPath, e.Error())
			}
			if d.Types == nil || !d.Types.Complete() {
				return nil, fmt.Errorf("import %s: no type information", d.PkgPath)
			}
			imp[d.PkgPath] = d.Types
		}
		for _, ip := range pats {
			if imp[ip] == nil {
				return nil, fmt.Errorf("import %s not resolved in the main module's build list", ip)
			}
		}
	}
	// type-check + SSA, one package at a time
	for _, rel := range rels {
		ep := ext.Pkgs[rel]
		var terrs []string
		tc := &types.Config{
			Importer: imp,
			Error:    func(err error) { terrs = append(terrs, err.Error()) },
		}
		ep.Types = types.NewPackage(ep.Path, ep.Files[0].Name.Name)
		var info *types.Info
		func() {
			defer func() {
				if e := recover(); e != nil {
					terrs = append(terrs, fmt.Sprint(e))
				}
			}()
			ep.SSA, info, err = ssautil.BuildPackage(tc, p.Fset, ep.Types, ep.Files, ssa.InstantiateGenerics)
		}()
		if err != nil || len(terrs) > 0 {
			if len(terrs) > 5 {
				terrs = terrs[:5]
			}
			return nil, fmt.Errorf("type errors in %s/%s: %v %s", modDir, rel, err, strings.Join(terrs, "; "))
		}
		ep.Info = info
		imp[ep.Path] = ep.Types
	}
	if p.VariantLevel > 0 {
		ext.applyVariant(p.VariantLevel)
		if os.Getenv("GODCHECK_DEBUG_VARIANTS") != "" {
			bad := 0
			for _, f := range ext.AllFuncs() {
				if !ssa.SanityCheckFunction(f, os.Stdout) {
					bad++
				}
			}
			fmt.Printf("debug: %s variant %d: inlined %v, %d structs split, %d functions fail go/ssa's sanity check\n", modDir, p.VariantLevel, ext.Inlined, ext.Split, bad)
		}
	}
	return ext, nil
}

//go:embed baseline_ext_funcs.txt
var baselineExtFuncsTxt string

// baselineExtFuncs: top-level functions of the in-process loaded leaf packages on
// the tree the rule tables were confirmed on (same role as baseline_funcs.txt).
var baselineExtFuncs = func() map[string]bool {
	m := map[string]bool{}
	for _, l := range strings.Split(baselineExtFuncsTxt, "\n") {
		if l = strings.TrimSpace(l); l != "" {
			m[l] = true
		}
	}
	return m
}()

// FuncNames lists the top-level functions and methods of the loaded packages
// (the content of baseline_ext_funcs.txt is this list on the confirmed tree).
func (e *Ext) FuncNames() []string {
	var out []string
	for _, f := range e.AllFuncs() {
		if f.Parent() == nil && f.Synthetic == "" {
			out = append(out, FuncName(f))
		}
	}
	sort.Strings(out)
	return out
}

// applyVariant is Prog.Variant for the in-process loaded packages: unexported
// helpers that are not in the baseline list are inlined into their same-package
// callers (level 1: single plain static call; level 2: every plain static call
// of a small helper), `defer h()` / `go h()` of such helpers become closures, and
// helpers inlined at every use are hidden from Funcs/AllFuncs/Func. Level 2 also
// applies the other normalisations of Prog.Variant: function literals applied on
// the spot, bound method values of new methods, and structs of new unexported
// types (not listed as `type pkg.Name` in baseline_ext_funcs.txt) that are only
// accessed field by field.
func (e *Ext) applyVariant(level int) {
	e.VariantLevel, e.Hidden = level, map[*ssa.Function]bool{}
	collect := func() []*ssa.Function {
		var rels []string
		for r := range e.Pkgs {
			rels = append(rels, r)
		}
		sort.Strings(rels)
		var out []*ssa.Function
		for _, r := range rels {
			if ep := e.Pkgs[r]; ep.SSA != nil {
				out = append(out, SSAPkgFuncs(ep.SSA.Prog, ep.SSA)...)
			}
		}
		return out
	}
	all := collect()
	isNewHelper := func(f *ssa.Function) bool {
		return f != nil && f.Parent() == nil && f.Blocks != nil && f.Object() != nil && !f.Object().Exported() && f.Synthetic == "" &&
			f.Name() != "init" && f.Name() != "main" && !mayBeInvoked(f) && (IgnoreBaseline || !baselineExtFuncs[FuncName(f)])
	}
	closureized := map[*ssa.Function]bool{}
	for _, f := range all {
		for _, g := range ssa.ClosureizeDeferAndGo(f, func(callee *ssa.Function) bool { return callee.Pkg == f.Pkg && isNewHelper(callee) }) {
			closureized[g] = true
		}
	}
	if len(closureized) > 0 {
		all = collect()
	}
	type use struct{ calls, other int }
	uses := map[*ssa.Function]*use{}
	get := func(f *ssa.Function) *use {
		if uses[f] == nil {
			uses[f] = &use{}
		}
		return uses[f]
	}
	for _, f := range all {
		for _, b := range f.Blocks {
			for _, in := range b.Instrs {
				var callee *ssa.Function
				if c, ok := in.(ssa.CallInstruction); ok {
					if callee = c.Common().StaticCallee(); callee != nil {
						_, plain := in.(*ssa.Call)
						_, viaClosure := c.Common().Value.(*ssa.MakeClosure)
						if plain && callee.Pkg == f.Pkg && !viaClosure {
							get(callee).calls++
						} else {
							get(callee).other++
						}
					}
				}
				for _, op := range in.Operands(nil) {
					if fv, ok := (*op).(*ssa.Function); ok && fv != callee {
						get(fv).other++
						if fv.Synthetic != "" && fv.Object() != nil {
							if tf, ok := fv.Object().(*types.Func); ok {
								if t := fv.Prog.FuncValue(tf); t != nil {
									get(t).other++
								}
							}
						}
					}
					if mc, ok := (*op).(*ssa.MakeClosure); ok {
						if w, ok := mc.Fn.(*ssa.Function); ok && w.Synthetic != "" && w.Object() != nil {
							if tf, ok := w.Object().(*types.Func); ok {
								if t := w.Prog.FuncValue(tf); t != nil {
									get(t).other++
								}
							}
						}
					}
				}
			}
		}
	}
	size := func(f *ssa.Function) int {
		n := 0
		for _, b := range f.Blocks {
			n += len(b.Instrs)
		}
		return n
	}
	candidate := func(f *ssa.Function) bool {
		if !isNewHelper(f) {
			return false
		}
		u := uses[f]
		if u == nil || u.other > 0 || u.calls == 0 {
			return false
		}
		if level == 1 {
			return u.calls == 1
		}
		return size(f) <= 400
	}
	inlined := map[*ssa.Function]bool{}
	helperPass := func() {
		for _, f := range all {
			for _, g := range ssa.InlineStaticCalls(f, func(site *ssa.Call, callee *ssa.Function) bool {
				return callee.Pkg == f.Pkg && candidate(callee)
			}, 4) {
				inlined[g] = true
			}
		}
	}
	helperPass()
	if level >= 2 {
		// the variant-2 normalisations of Prog.Variant (same order): function literals applied on the
		// spot are inlined, then helpers once more, then bound method values of new methods
		n := 0
		for _, f := range all {
			got := ssa.InlineStaticCalls(f, func(site *ssa.Call, callee *ssa.Function) bool {
				mc, ok := site.Call.Value.(*ssa.MakeClosure)
				return ok && callee.Parent() != nil && mc.Referrers() != nil && len(*mc.Referrers()) == 1
			}, 2)
			n += len(got)
			if len(got) > 0 {
				dead := map[*ssa.Function]bool{}
				for _, g := range got {
					dead[g] = true
				}
				if ssa.RemoveDeadClosures(f, dead) > 0 {
					for g := range dead {
						inlined[g] = true
					}
				}
			}
		}
		if n > 0 {
			helperPass()
		}
		for _, f := range all {
			for _, g := range ssa.InlineBoundMethods(f, func(m *ssa.Function) bool { return m.Pkg == f.Pkg && isNewHelper(m) }) {
				inlined[g] = true
			}
		}
	}
	for g := range closureized {
		inlined[g] = true
	}
	left := map[*ssa.Function]bool{}
	for _, f := range all {
		for _, b := range f.Blocks {
			for _, in := range b.Instrs {
				for _, op := range in.Operands(nil) {
					if fv, ok := (*op).(*ssa.Function); ok && inlined[fv] {
						left[fv] = true
					}
				}
			}
		}
	}
	for g := range inlined {
		if !left[g] {
			e.Hidden[g] = true
			e.Inlined = append(e.Inlined, FuncName(g))
		}
	}
	if level >= 2 {
		// structs of new unexported types of the loaded packages that are only accessed field by
		// field are split into one cell per field (copies of small immutable values elided first)
		isNewType := func(t *types.Named) bool {
			if t == nil || t.Obj() == nil || t.Obj().Pkg() == nil || t.Obj().Exported() || t.TypeArgs().Len() > 0 || t.TypeParams().Len() > 0 {
				return false
			}
			own := false
			for _, ep := range e.Pkgs {
				if ep.Types == t.Obj().Pkg() {
					own = true
				}
			}
			return own && (IgnoreBaseline || !baselineExtFuncs["type "+Short(t.Obj().Pkg().Path())+"."+t.Obj().Name()])
		}
		var wrappers []*ssa.Function
		sites := map[*ssa.Function][]*ssa.MakeClosure{}
		seenFn := map[*ssa.Function]bool{}
		var scan func(f *ssa.Function)
		scan = func(f *ssa.Function) {
			if f == nil || seenFn[f] {
				return
			}
			seenFn[f] = true
			for _, b := range f.Blocks {
				for _, in := range b.Instrs {
					if mc, ok := in.(*ssa.MakeClosure); ok {
						if k, ok := mc.Fn.(*ssa.Function); ok {
							sites[k] = append(sites[k], mc)
							if k.Parent() == nil { // bound-method wrapper
								wrappers = append(wrappers, k)
								scan(k)
							}
						}
					}
				}
			}
		}
		for _, f := range all {
			if !e.Hidden[f] {
				scan(f)
			}
		}
		live := append(append([]*ssa.Function(nil), all...), wrappers...)
		for _, f := range live {
			if !e.Hidden[f] {
				ssa.ElideStructCopies(f, isNewType, sites)
			}
		}
		for _, f := range live {
			if !e.Hidden[f] {
				e.Split += ssa.ScalarReplaceStructs(f, isNewType, sites)
			}
		}
	}
	// closures that no live function creates any more (the closure-ized `defer h()` inside a helper
	// that was inlined everywhere) are dead code: hide them too
	liveFn := map[*ssa.Function]bool{}
	var mark func(f *ssa.Function)
	mark = func(f *ssa.Function) {
		if f == nil || liveFn[f] || f.Blocks == nil {
			return
		}
		liveFn[f] = true
		for _, b := range f.Blocks {
			for _, in := range b.Instrs {
				for _, op := range in.Operands(nil) {
					if g, ok := (*op).(*ssa.Function); ok {
						mark(g)
					}
				}
			}
		}
	}
	for _, f := range all {
		if f.Parent() == nil && !e.Hidden[f] {
			mark(f)
		}
	}
	for _, f := range all {
		if f.Parent() != nil && !liveFn[f] {
			for a := f.Parent(); a != nil; a = a.Parent() {
				if e.Hidden[a] {
					e.Hidden[f] = true
					break
				}
			}
		}
	}
	sort.Strings(e.Inlined)
}

// TypeNames lists the named types of the loaded packages ("type <pkg>.<Name>": the
// type lines of baseline_ext_funcs.txt are this list on the confirmed tree).
func (e *Ext) TypeNames() []string {
	var out []string
	for _, ep := range e.Pkgs {
		if ep.SSA == nil {
			continue
		}
		for _, m := range ep.SSA.Members {
			if t, ok := m.(*ssa.Type); ok {
				out = append(out, "type "+Short(ep.SSA.Pkg.Path())+"."+t.Name())
			}
		}
	}
	sort.Strings(out)
	return out
}

func (e *Ext) visible(fs []*ssa.Function) []*ssa.Function {
	if len(e.Hidden) == 0 {
		return fs
	}
	var out []*ssa.Function
	for _, f := range fs {
		hidden := false
		for g := f; g != nil; g = g.Parent() {
			if e.Hidden[g] {
				hidden = true
			}
		}
		if !hidden {
			out = append(out, f)
		}
	}
	return out
}

// Funcs lists the source functions (and closures) of the package in rel.
func (e *Ext) Funcs(rel string) []*ssa.Function {
	ep := e.Pkgs[rel]
	if ep == nil || ep.SSA == nil {
		return nil
	}
	return e.visible(SSAPkgFuncs(ep.SSA.Prog, ep.SSA))
}

// AllFuncs lists the source functions of every loaded package.
func (e *Ext) AllFuncs() []*ssa.Function {
	var rels []string
	for r := range e.Pkgs {
		rels = append(rels, r)
	}
	sort.Strings(rels)
	var out []*ssa.Function
	for _, r := range rels {
		out = append(out, e.Funcs(r)...)
	}
	return out
}

// Func resolves a function or method of the package in rel (recv "" for functions).
func (e *Ext) Func(rel, recv, name string) *ssa.Function {
	ep := e.Pkgs[rel]
	if ep == nil || ep.SSA == nil {
		return nil
	}
	if recv == "" {
		if f := ep.SSA.Func(name); f != nil && !e.Hidden[f] {
			return f
		}
		return nil
	}
	t := ep.SSA.Type(recv)
	if t == nil {
		return nil
	}
	named, ok := t.Type().(*types.Named)
	if !ok {
		return nil
	}
	for i := 0; i < named.NumMethods(); i++ {
		if m := named.Method(i); m.Name() == name {
			if f := ep.SSA.Prog.FuncValue(m); f != nil && !e.Hidden[f] {
				return f
			}
			return nil
		}
	}
	return nil
}

// ConstValue returns the integer value of the package-level constant name.
func (e *Ext) ConstValue(rel, name string) (int64, bool) {
	ep := e.Pkgs[rel]
	if ep == nil || ep.Types == nil {
		return 0, false
	}
	c, ok := ep.Types.Scope().Lookup(name).(*types.Const)
	if !ok {
		return 0, false
	}
	v, exact := constantInt64(c)
	return v, exact
}

func constantInt64(c *types.Const) (int64, bool) {
	s := c.Val().ExactString()
	n, err := strconv.ParseInt(s, 10, 64)
	return n, err == nil
}

var _ = token.NoPos
