package core

// In-process loader for leaf packages of a nested module that the go command
// cannot resolve offline (tools/god, property C20): the packages are parsed
// with go/parser, type-checked with go/types and built with
// ssautil.BuildPackage. Their imports (standard library and
// golang.org/x/text, which is in the main module's build list) are served from
// export data obtained by one extra packages.Load in the main module, with the
// same read-only configuration as Load. Nothing below the repository is
// written and no go command runs inside the nested module.

import (
	"fmt"
	"go/ast"
	"go/parser"
	"go/token"
	"go/types"
	"os"
	"path/filepath"
	"sort"
	"strconv"
	"strings"

	"golang.org/x/tools/go/packages"
	"golang.org/x/tools/go/ssa"
	"golang.org/x/tools/go/ssa/ssautil"
)

// ExtPkg is one in-process loaded package.
type ExtPkg struct {
	Rel   string // directory relative to the nested module root ("util/format")
	Path  string // import path
	Files []*ast.File
	Types *types.Package
	Info  *types.Info
	SSA   *ssa.Package
}

// Ext is a set of in-process loaded packages of one nested module.
type Ext struct {
	ModDir  string // directory of the nested module relative to the repository ("tools/god")
	ModPath string
	Pkgs    map[string]*ExtPkg // by Rel
}

type mapImporter map[string]*types.Package

func (m mapImporter) Import(path string) (*types.Package, error) {
	if path == "unsafe" {
		return types.Unsafe, nil
	}
	if p := m[path]; p != nil && p.Complete() {
		return p, nil
	}
	return nil, fmt.Errorf("import %q: not available to the in-process loader", path)
}

// LoadExt loads the packages in directories rels of the nested module modDir
// (both relative paths). Packages may import each other only if listed in
// dependency order.
func (p *Prog) LoadExt(modDir string, rels ...string) (*Ext, error) {
	root := filepath.Join(p.Repo, modDir)
	gm, err := os.ReadFile(filepath.Join(root, "go.mod"))
	if err != nil {
		return nil, err
	}
	modPath := ""
	for _, l := range strings.Split(string(gm), "\n") {
		l = strings.TrimSpace(l)
		if strings.HasPrefix(l, "module ") {
			modPath = strings.Trim(strings.TrimSpace(strings.TrimPrefix(l, "module ")), `"`)
			break
		}
	}
	if modPath == "" {
		return nil, fmt.Errorf("%s/go.mod: no module line", modDir)
	}
	ext := &Ext{ModDir: modDir, ModPath: modPath, Pkgs: map[string]*ExtPkg{}}
	own := map[string]bool{}
	for _, rel := range rels {
		own[modPath+"/"+rel] = true
	}
	// parse
	need := map[string]bool{}
	for _, rel := range rels {
		dir := filepath.Join(root, rel)
		ents, err := os.ReadDir(dir)
		if err != nil {
			return nil, err
		}
		ep := &ExtPkg{Rel: rel, Path: modPath + "/" + rel}
		var names []string
		for _, e := range ents {
			n := e.Name()
			if e.IsDir() || !strings.HasSuffix(n, ".go") || strings.HasSuffix(n, "_test.go") {
				continue
			}
			names = append(names, n)
		}
		sort.Strings(names)
		for _, n := range names {
			f, err := parser.ParseFile(p.Fset, filepath.Join(dir, n), nil, parser.ParseComments|parser.SkipObjectResolution)
			if err != nil {
				return nil, err
			}
			ep.Files = append(ep.Files, f)
			for _, im := range f.Imports {
				ip, _ := strconv.Unquote(im.Path.Value)
				if !own[ip] {
					need[ip] = true
				}
			}
		}
		if len(ep.Files) == 0 {
			return nil, fmt.Errorf("%s/%s: no Go files", modDir, rel)
		}
		ext.Pkgs[rel] = ep
	}
	// imports from export data, through the main module (read-only)
	var pats []string
	for ip := range need {
		if ip != "unsafe" && ip != "C" {
			pats = append(pats, ip)
		}
	}
	sort.Strings(pats)
	imp := mapImporter{}
	if len(pats) > 0 {
		env := []string{}
		for _, e := range os.Environ() {
			if strings.HasPrefix(e, "GOFLAGS=") || strings.HasPrefix(e, "GOWORK=") ||
				strings.HasPrefix(e, "GOPROXY=") || strings.HasPrefix(e, "GOSUMDB=") ||
				strings.HasPrefix(e, "GOTOOLCHAIN=") {
				continue
			}
			env = append(env, e)
		}
		env = append(env, "GOFLAGS=", "GOWORK=off", "GOPROXY=off", "GOSUMDB=off", "GOTOOLCHAIN=local")
		cfg := &packages.Config{
			Mode:       packages.NeedName | packages.NeedTypes | packages.NeedImports | packages.NeedModule,
			Dir:        p.Repo,
			Env:        env,
			Fset:       p.Fset,
			BuildFlags: []string{"-mod=readonly", "-trimpath"},
		}
		deps, err := packages.Load(cfg, pats...)
		if err != nil {
			return nil, fmt.Errorf("packages.Load(imports of %s): %w", modDir, err)
		}
		for _, d := range deps {
			for _, e := range d.Errors {
				return nil, fmt.Errorf("import %s: %s", d.PkgPath, e.Error())
			}
			if d.Types == nil || !d.Types.Complete() {
				return nil, fmt.Errorf("import %s: no type information", d.PkgPath)
			}
			imp[d.PkgPath] = d.Types
		}
		for _, ip := range pats {
			if imp[ip] == nil {
				return nil, fmt.Errorf("import %s not resolved in the main module's build list", ip)
			}
		}
	}
	// type-check + SSA, one package at a time
	for _, rel := range rels {
		ep := ext.Pkgs[rel]
		var terrs []string
		tc := &types.Config{
			Importer: imp,
			Error:    func(err error) { terrs = append(terrs, err.Error()) },
		}
		ep.Types = types.NewPackage(ep.Path, ep.Files[0].Name.Name)
		var info *types.Info
		func() {
			defer func() {
				if e := recover(); e != nil {
					terrs = append(terrs, fmt.Sprint(e))
				}
			}()
			ep.SSA, info, err = ssautil.BuildPackage(tc, p.Fset, ep.Types, ep.Files, ssa.InstantiateGenerics)
		}()
		if err != nil || len(terrs) > 0 {
			if len(terrs) > 5 {
				terrs = terrs[:5]
			}
			return nil, fmt.Errorf("type errors in %s/%s: %v %s", modDir, rel, err, strings.Join(terrs, "; "))
		}
		ep.Info = info
		imp[ep.Path] = ep.Types
	}
	return ext, nil
}

// Funcs lists the source functions (and closures) of the package in rel.
func (e *Ext) Funcs(rel string) []*ssa.Function {
	ep := e.Pkgs[rel]
	if ep == nil || ep.SSA == nil {
		return nil
	}
	return SSAPkgFuncs(ep.SSA.Prog, ep.SSA)
}

// AllFuncs lists the source functions of every loaded package.
func (e *Ext) AllFuncs() []*ssa.Function {
	var rels []string
	for r := range e.Pkgs {
		rels = append(rels, r)
	}
	sort.Strings(rels)
	var out []*ssa.Function
	for _, r := range rels {
		out = append(out, e.Funcs(r)...)
	}
	return out
}

// Func resolves a function or method of the package in rel (recv "" for functions).
func (e *Ext) Func(rel, recv, name string) *ssa.Function {
	ep := e.Pkgs[rel]
	if ep == nil || ep.SSA == nil {
		return nil
	}
	if recv == "" {
		return ep.SSA.Func(name)
	}
	t := ep.SSA.Type(recv)
	if t == nil {
		return nil
	}
	named, ok := t.Type().(*types.Named)
	if !ok {
		return nil
	}
	for i := 0; i < named.NumMethods(); i++ {
		if m := named.Method(i); m.Name() == name {
			return ep.SSA.Prog.FuncValue(m)
		}
	}
	return nil
}

// ConstValue returns the integer value of the package-level constant name.
func (e *Ext) ConstValue(rel, name string) (int64, bool) {
	ep := e.Pkgs[rel]
	if ep == nil || ep.Types == nil {
		return 0, false
	}
	c, ok := ep.Types.Scope().Lookup(name).(*types.Const)
	if !ok {
		return 0, false
	}
	v, exact := constantInt64(c)
	return v, exact
}

func constantInt64(c *types.Const) (int64, bool) {
	s := c.Val().ExactString()
	n, err := strconv.ParseInt(s, 10, 64)
	return n, err == nil
}

var _ = token.NoPos
