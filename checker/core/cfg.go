package core

import (
	"go/token"
	"go/types"

	"golang.org/x/tools/go/ssa"
)

// Edge is a control-flow edge between two blocks of one function.
type Edge struct{ From, To *ssa.BasicBlock }

// At is a program point: instruction index Idx of block B (execution is about
// to run B.Instrs[Idx]).
type At struct {
	B   *ssa.BasicBlock
	Idx int
}

// Entry is the program point at the start of fn.
func Entry(fn *ssa.Function) At { return At{fn.Blocks[0], 0} }

// After is the program point just after in.
func After(in ssa.Instruction) At {
	b := in.Block()
	for i, x := range b.Instrs {
		if x == in {
			return At{b, i + 1}
		}
	}
	panic("instruction not in its block")
}

// Before is the program point just before in.
func Before(in ssa.Instruction) At {
	a := After(in)
	a.Idx--
	return a
}

// Head is the program point at the start of block b.
func Head(b *ssa.BasicBlock) At { return At{b, 0} }

// Q is a reachability query.
type Q struct {
	From    []At
	Target  func(ssa.Instruction) bool // reaching such an instruction answers true
	Blocked func(ssa.Instruction) bool // paths stop at such an instruction (checked before Target)
	Cut     func(Edge) bool            // such edges are deleted
}

// Reach answers whether some path from q.From reaches a Target instruction
// without executing a Blocked instruction or following a Cut edge. It returns
// the witness instruction. One piece of path sensitivity is built in: when a
// block ends in `if φ` and φ (a boolean φ-node of that block) is a constant on
// the edge the path came in by, only the feasible successor is followed (this
// is the shape `x := a && b; if x` lowers to).
func Reach(q Q) (ssa.Instruction, bool) {
	type state struct {
		at  At
		cls int // 0 unknown, 1 the block's φ-condition is true, 2 false
	}
	type key struct {
		b   *ssa.BasicBlock
		cls int
	}
	seen := map[key]bool{}
	var work []state
	for _, f := range q.From {
		work = append(work, state{f, 0})
	}
	for len(work) > 0 {
		st := work[len(work)-1]
		work = work[:len(work)-1]
		at := st.at
		if at.Idx == 0 {
			if seen[key{at.B, st.cls}] || seen[key{at.B, 0}] {
				continue
			}
			seen[key{at.B, st.cls}] = true
		}
		stopped := false
		for i := at.Idx; i < len(at.B.Instrs); i++ {
			in := at.B.Instrs[i]
			if q.Blocked != nil && q.Blocked(in) {
				stopped = true
				break
			}
			if q.Target != nil && q.Target(in) {
				return in, true
			}
		}
		if stopped {
			continue
		}
		for si, s := range at.B.Succs {
			if q.Cut != nil && q.Cut(Edge{at.B, s}) {
				continue
			}
			if st.cls != 0 && len(at.B.Succs) == 2 {
				// if-terminated block whose condition is known on this path
				if (st.cls == 1 && si == 1) || (st.cls == 2 && si == 0) {
					continue
				}
			}
			work = append(work, state{At{s, 0}, phiCondClass(at.B, s)})
		}
	}
	return nil, false
}

// phiCondClass: when s ends in `if φ` with φ a φ-node of s (possibly under !),
// and φ's incoming value on the edge from pred is a boolean constant, return
// 1 (condition true) or 2 (false); else 0.
func phiCondClass(pred, s *ssa.BasicBlock) int {
	if len(s.Instrs) == 0 {
		return 0
	}
	iff, ok := s.Instrs[len(s.Instrs)-1].(*ssa.If)
	if !ok {
		return 0
	}
	v := iff.Cond
	flip := false
	for {
		if u, ok := v.(*ssa.UnOp); ok && u.Op == token.NOT {
			v, flip = u.X, !flip
			continue
		}
		break
	}
	if b, ok := v.(*ssa.BinOp); ok && (b.Op == token.EQL || b.Op == token.NEQ) {
		// `if φ ==/!= nil` with φ a φ-node of s (what a helper returning (v, err), inlined under its
		// caller's `if err != nil`, leaves behind): decided when the operand entering from pred is the
		// constant nil, or a value found non-nil on every path to pred
		return nilPhiCondClass(pred, s, b, flip)
	}
	phi, ok := v.(*ssa.Phi)
	if !ok || phi.Block() != s {
		return 0
	}
	// the block must not have side effects we would skip: only φs and the if matter for feasibility
	idx := -1
	n := 0
	for i, p := range s.Preds {
		if p == pred {
			idx = i
			n++
		}
	}
	if idx < 0 || n != 1 {
		return 0
	}
	c, ok := phi.Edges[idx].(*ssa.Const)
	if !ok || c.Value == nil {
		return 0
	}
	val := c.Value.String() == "true"
	if flip {
		val = !val
	}
	if val {
		return 1
	}
	return 2
}

// IsReturn matches normal returns.
func IsReturn(in ssa.Instruction) bool { _, ok := in.(*ssa.Return); return ok }

// IsExit matches returns and panics.
func IsExit(in ssa.Instruction) bool {
	switch in.(type) {
	case *ssa.Return, *ssa.Panic:
		return true
	}
	return false
}

// Is builds a matcher for a fixed set of instructions.
func Is(ins ...ssa.Instruction) func(ssa.Instruction) bool {
	m := map[ssa.Instruction]bool{}
	for _, i := range ins {
		m[i] = true
	}
	return func(i ssa.Instruction) bool { return m[i] }
}

// Or combines matchers.
func Or(fs ...func(ssa.Instruction) bool) func(ssa.Instruction) bool {
	return func(i ssa.Instruction) bool {
		for _, f := range fs {
			if f != nil && f(i) {
				return true
			}
		}
		return false
	}
}

// CutSet builds an edge predicate from a list of edges.
func CutSet(es ...[]Edge) func(Edge) bool {
	m := map[Edge]bool{}
	for _, l := range es {
		for _, e := range l {
			m[e] = true
		}
	}
	return func(e Edge) bool { return m[e] }
}

// Instrs lists the instructions of fn matching pred, in block order.
func Instrs(fn *ssa.Function, pred func(ssa.Instruction) bool) []ssa.Instruction {
	var out []ssa.Instruction
	for _, b := range fn.Blocks {
		for _, in := range b.Instrs {
			if pred(in) {
				out = append(out, in)
			}
		}
	}
	return out
}

// ---- atoms: conditions labelling edges ----

// Atom inspects a boolean SSA value and reports whether it is the atom, and
// with which polarity (pos=true: the atom holds when the value is true).
type Atom func(v ssa.Value) (match, pos bool)

// Not negates an atom.
func Not(a Atom) Atom {
	return func(v ssa.Value) (bool, bool) {
		m, p := a(v)
		return m, !p
	}
}

// AnyOf matches when any of the atoms matches (same polarity semantics).
func AnyOf(as ...Atom) Atom {
	return func(v ssa.Value) (bool, bool) {
		for _, a := range as {
			if m, p := a(v); m {
				return true, p
			}
		}
		return false, false
	}
}

// matchCond strips `!` and evaluates the atom on a condition value.
func matchCond(a Atom, v ssa.Value) (bool, bool) {
	flip := false
	for {
		if u, ok := v.(*ssa.UnOp); ok && u.Op == token.NOT {
			v = u.X
			flip = !flip
			continue
		}
		break
	}
	m, p := a(v)
	if !m {
		return false, false
	}
	if flip {
		p = !p
	}
	return true, p
}

// EdgesOf returns the edges on which atom a is established (holds) and the
// edges on which its negation is established (fails). It understands `If`
// terminators on the atom (under any number of `!`), and boolean φ-nodes that
// merge the atom with constants (the shape `x := a && b; if x` lowers to).
func EdgesOf(fn *ssa.Function, a Atom) (holds, fails []Edge) {
	for _, b := range fn.Blocks {
		if len(b.Instrs) == 0 {
			continue
		}
		iff, ok := b.Instrs[len(b.Instrs)-1].(*ssa.If)
		if !ok {
			continue
		}
		if m, p := matchCond(a, iff.Cond); m {
			t, f := Edge{b, b.Succs[0]}, Edge{b, b.Succs[1]}
			if p {
				holds, fails = append(holds, t), append(fails, f)
			} else {
				holds, fails = append(holds, f), append(fails, t)
			}
			continue
		}
		// φ of booleans: if x where x = φ(false, ..., atom) – the true edge
		// establishes every non-constant-true incoming... handled conservatively:
		// true edge of `if φ(c1..cn)` establishes atom when every incoming is
		// either constant false or the atom with positive polarity.
		if phi, ok := iff.Cond.(*ssa.Phi); ok {
			allPos, allNeg := true, true
			any := false
			for _, e := range phi.Edges {
				if c, ok := e.(*ssa.Const); ok {
					if c.Value != nil && c.Value.String() == "false" {
						allNeg = false // a false incoming never reaches the true edge
						continue
					}
					allPos = false
					if c.Value != nil && c.Value.String() == "true" {
						continue
					}
					allNeg = false
					continue
				}
				m, p := matchCond(a, e)
				if !m {
					allPos, allNeg = false, false
					continue
				}
				any = true
				if !p {
					allPos = false
				} else {
					allNeg = false
				}
			}
			if any && allPos {
				holds = append(holds, Edge{b, b.Succs[0]})
			}
			_ = allNeg
		}
	}
	return
}

// Requires reports the first Target instruction still reachable from the entry
// of fn once every edge establishing one of the given atoms has been removed:
// nil means every path to a target passes an edge on which some atom holds.
func Requires(fn *ssa.Function, target func(ssa.Instruction) bool, atoms ...Atom) ssa.Instruction {
	var cut []Edge
	for _, a := range atoms {
		h, _ := EdgesOf(fn, a)
		cut = append(cut, h...)
	}
	w, _ := Reach(Q{From: []At{Entry(fn)}, Target: target, Cut: CutSet(cut)})
	return w
}

// EdgeCount returns how many edges establish the atom (to detect vacuous guards).
func EdgeCount(fn *ssa.Function, a Atom) int {
	h, _ := EdgesOf(fn, a)
	return len(h)
}

// ReachableFromEdges reports a target reachable from the heads of the given edges.
func ReachableFromEdges(es []Edge, target func(ssa.Instruction) bool, blocked func(ssa.Instruction) bool) ssa.Instruction {
	var from []At
	for _, e := range es {
		from = append(from, Head(e.To))
	}
	w, _ := Reach(Q{From: from, Target: target, Blocked: blocked})
	return w
}

// MustPass reports an exit (matching exit) reachable from `from` without
// executing an instruction matching site: nil means every path passes a site.
func MustPass(from At, site, exit func(ssa.Instruction) bool) ssa.Instruction {
	w, _ := Reach(Q{From: []At{from}, Target: exit, Blocked: site})
	return w
}

// Precedes reports an occurrence of b reachable from the entry without passing a: nil means a precedes every b.
func Precedes(fn *ssa.Function, a, b func(ssa.Instruction) bool) ssa.Instruction {
	w, _ := Reach(Q{From: []At{Entry(fn)}, Target: b, Blocked: a})
	return w
}

// AtMostOnce reports a second site reachable after a first one: nil means no path executes two sites.
func AtMostOnce(fn *ssa.Function, site func(ssa.Instruction) bool) ssa.Instruction {
	for _, in := range Instrs(fn, site) {
		if w, ok := Reach(Q{From: []At{After(in)}, Target: site}); ok {
			return w
		}
	}
	return nil
}

// Dominates reports whether instruction a dominates instruction b.
func Dominates(a, b ssa.Instruction) bool {
	ba, bb := a.Block(), b.Block()
	if ba == bb {
		for _, in := range ba.Instrs {
			if in == a {
				return true
			}
			if in == b {
				return false
			}
		}
	}
	return ba.Dominates(bb)
}

// Returns lists the normal return instructions of fn (the synthetic return of
// the recover block of a function with defers is excluded).
func Returns(fn *ssa.Function) []*ssa.Return {
	var out []*ssa.Return
	for _, b := range fn.Blocks {
		if b == fn.Recover {
			continue
		}
		if r, ok := b.Instrs[len(b.Instrs)-1].(*ssa.Return); ok {
			out = append(out, r)
		}
	}
	return out
}

// Result is result i of a return, looking through the spill slots go/ssa
// introduces for functions with defers or named results.
func Result(r *ssa.Return, i int) ssa.Value { return Forward(r.Results[i]) }

// ConcreteCut returns an edge predicate that removes the infeasible successor
// of every `if` whose condition compares a value matched by isVar with an
// integer constant, for the concrete value c of that variable (other
// conditions keep both successors). Combined with Reach it evaluates guards of
// the shape `r >= 'A' && r <= 'Z'` exactly for one input.
func ConcreteCut(fn *ssa.Function, isVar func(ssa.Value) bool, c int64) func(Edge) bool {
	dead := map[Edge]bool{}
	for _, b := range fn.Blocks {
		iff, ok := b.Instrs[len(b.Instrs)-1].(*ssa.If)
		if !ok {
			continue
		}
		cond := iff.Cond
		flip := false
		for {
			if u, ok := cond.(*ssa.UnOp); ok && u.Op == token.NOT {
				cond, flip = u.X, !flip
				continue
			}
			break
		}
		bo, ok := cond.(*ssa.BinOp)
		if !ok {
			continue
		}
		var k int64
		var op token.Token
		if isVar(Strip(bo.X)) {
			kk, ok := ConstInt(bo.Y)
			if !ok {
				continue
			}
			k, op = kk, bo.Op
		} else if isVar(Strip(bo.Y)) {
			kk, ok := ConstInt(bo.X)
			if !ok {
				continue
			}
			k, op = kk, flipOp(bo.Op)
		} else {
			continue
		}
		var val bool
		switch op {
		case token.EQL:
			val = c == k
		case token.NEQ:
			val = c != k
		case token.LSS:
			val = c < k
		case token.LEQ:
			val = c <= k
		case token.GTR:
			val = c > k
		case token.GEQ:
			val = c >= k
		default:
			continue
		}
		if flip {
			val = !val
		}
		if val {
			dead[Edge{b, b.Succs[1]}] = true
		} else {
			dead[Edge{b, b.Succs[0]}] = true
		}
	}
	return func(e Edge) bool { return dead[e] }
}

func isNilConst(v ssa.Value) bool {
	c, ok := v.(*ssa.Const)
	return ok && c.Value == nil && !isBasicType(c.Type())
}

func isBasicType(t types.Type) bool {
	_, ok := t.Underlying().(*types.Basic)
	return ok
}

func nilPhiCondClass(pred, s *ssa.BasicBlock, b *ssa.BinOp, flip bool) int {
	var phi *ssa.Phi
	switch {
	case isNilConst(b.Y):
		phi, _ = b.X.(*ssa.Phi)
	case isNilConst(b.X):
		phi, _ = b.Y.(*ssa.Phi)
	}
	if phi == nil || phi.Block() != s {
		return 0
	}
	idx, n := -1, 0
	for i, p := range s.Preds {
		if p == pred {
			idx = i
			n++
		}
	}
	if idx < 0 || n != 1 {
		return 0
	}
	op := phi.Edges[idx]
	var isNil bool
	switch {
	case isNilConst(op):
		isNil = true
	case knownNonNilAt(op, pred):
		isNil = false
	default:
		return 0
	}
	val := (b.Op == token.EQL) == isNil
	if flip {
		val = !val
	}
	if val {
		return 1
	}
	return 2
}

// knownNonNilAt: some `if v != nil` / `if v == nil` has a non-nil successor that is entered only
// through that test and dominates blk (an SSA value never changes, so v is non-nil in blk).
func knownNonNilAt(v ssa.Value, blk *ssa.BasicBlock) bool {
	if _, ok := v.(*ssa.Const); ok {
		return false
	}
	refs := v.Referrers()
	if refs == nil {
		return false
	}
	for _, r := range *refs {
		b, ok := r.(*ssa.BinOp)
		if !ok || (b.Op != token.EQL && b.Op != token.NEQ) {
			continue
		}
		if !(b.X == v && isNilConst(b.Y)) && !(b.Y == v && isNilConst(b.X)) {
			continue
		}
		brefs := b.Referrers()
		if brefs == nil {
			continue
		}
		for _, br := range *brefs {
			iff, ok := br.(*ssa.If)
			if !ok || len(iff.Block().Succs) != 2 {
				continue
			}
			succ := iff.Block().Succs[0]
			if b.Op == token.EQL {
				succ = iff.Block().Succs[1]
			}
			if len(succ.Preds) == 1 && succ != iff.Block() && (succ == blk || succ.Dominates(blk)) {
				return true
			}
		}
	}
	return false
}
