package core

import (
	"go/constant"
	"go/token"
	"go/types"

	"golang.org/x/tools/go/ssa"
)

// A small evaluator for pure functions over constants: integers (durations,
// runes), booleans, strings, and slices/arrays of those held in package-level
// variables that are initialised once by a composite literal and never written
// again. It lets a rule *evaluate* a table or a guard on concrete arguments
// instead of matching how it is spelled (switch, if-chain, lookup loop over a
// ladder slice, map literal …). Anything outside that fragment makes Eval
// answer ok=false, and the rule decides what that means (usually unresolved).
//
// Nothing of the analysed program is executed: this is constant propagation
// through the SSA of one function with a step bound.

// EvalSlice is the value of a constant slice or array.
type EvalSlice struct{ Elems []any }

// EvalMap is the value of a constant map: keys by their exact constant spelling;
// a value is nil when it is not a scalar constant (the struct{}{} of a set).
type EvalMap struct {
	Keys map[string]constant.Value
	Vals map[string]any
}

func evalMapKey(c constant.Value) string { return c.Kind().String() + ":" + c.ExactString() }

type evalPtr struct {
	sl  *EvalSlice
	idx int
}

type evaluator struct {
	p     *Prog
	steps int
	depth int
}

// Eval evaluates fn on the given arguments (constant.Value, or *EvalSlice) and
// returns its results.
func (p *Prog) Eval(fn *ssa.Function, args ...any) (res []any, ok bool) {
	e := &evaluator{p: p, steps: 20000}
	defer func() {
		if r := recover(); r != nil {
			res, ok = nil, false
		}
	}()
	return e.call(fn, args)
}

// EvalInt is a convenience wrapper for int64 arguments.
func EvalInt(n int64) any { return constant.MakeInt64(n) }

// AsInt extracts an int64 from an evaluated value.
func AsInt(v any) (int64, bool) {
	c, ok := v.(constant.Value)
	if !ok || c.Kind() != constant.Int {
		return 0, false
	}
	return constant.Int64Val(c)
}

// AsBool extracts a bool from an evaluated value.
func AsBool(v any) (bool, bool) {
	c, ok := v.(constant.Value)
	if !ok || c.Kind() != constant.Bool {
		return false, false
	}
	return constant.BoolVal(c), true
}

type evalFail struct{}

func (e *evaluator) fail() { panic(evalFail{}) }

func (e *evaluator) call(fn *ssa.Function, args []any) ([]any, bool) {
	if fn == nil || len(fn.Blocks) == 0 || len(args) != len(fn.Params) || e.depth > 8 || fn.Recover != nil {
		return nil, false
	}
	e.depth++
	defer func() { e.depth-- }()
	env := map[ssa.Value]any{}
	for i, prm := range fn.Params {
		env[prm] = args[i]
	}
	var prev *ssa.BasicBlock
	b := fn.Blocks[0]
	for {
		// φ-nodes read the values of the predecessor edge simultaneously
		newPhi := map[ssa.Value]any{}
		for _, in := range b.Instrs {
			phi, ok := in.(*ssa.Phi)
			if !ok {
				break
			}
			idx := -1
			for i, pr := range b.Preds {
				if pr == prev {
					idx = i
				}
			}
			if idx < 0 {
				e.fail()
			}
			newPhi[phi] = e.val(env, phi.Edges[idx])
		}
		for k, v := range newPhi {
			env[k] = v
		}
		for _, in := range b.Instrs {
			e.steps--
			if e.steps <= 0 {
				e.fail()
			}
			switch x := in.(type) {
			case *ssa.Phi, *ssa.DebugRef:
			case *ssa.Return:
				var out []any
				for _, r := range x.Results {
					out = append(out, e.val(env, r))
				}
				return out, true
			case *ssa.Jump:
				prev, b = b, b.Succs[0]
			case *ssa.If:
				c, ok := AsBool(e.val(env, x.Cond))
				if !ok {
					e.fail()
				}
				if c {
					prev, b = b, b.Succs[0]
				} else {
					prev, b = b, b.Succs[1]
				}
			case ssa.Value:
				env[x] = e.instr(env, x)
			default:
				e.fail() // stores, sends, go, defer, panics: not pure
			}
		}
	}
}

func (e *evaluator) val(env map[ssa.Value]any, v ssa.Value) any {
	if c, ok := v.(*ssa.Const); ok {
		if c.Value == nil {
			if _, isSlice := c.Type().Underlying().(*types.Slice); isSlice {
				return &EvalSlice{}
			}
			e.fail()
		}
		return c.Value
	}
	if g, ok := v.(*ssa.Global); ok {
		if sl := e.p.constGlobal(g); sl != nil {
			return sl
		}
		if m := e.p.constMapGlobal(g); m != nil {
			return m
		}
		e.fail()
	}
	r, ok := env[v]
	if !ok {
		e.fail()
	}
	return r
}

func (e *evaluator) instr(env map[ssa.Value]any, v ssa.Value) any {
	switch x := v.(type) {
	case *ssa.BinOp:
		a, aok := e.val(env, x.X).(constant.Value)
		b, bok := e.val(env, x.Y).(constant.Value)
		if !aok || !bok {
			e.fail()
		}
		switch x.Op {
		case token.EQL, token.NEQ, token.LSS, token.LEQ, token.GTR, token.GEQ:
			return constant.MakeBool(constant.Compare(a, x.Op, b))
		case token.SHL, token.SHR:
			n, ok := constant.Uint64Val(b)
			if !ok || n > 63 {
				e.fail()
			}
			return e.wrap(constant.Shift(a, x.Op, uint(n)), x.Type())
		case token.QUO:
			if a.Kind() == constant.Int {
				if constant.Sign(b) == 0 {
					e.fail()
				}
				return e.wrap(constant.BinaryOp(a, token.QUO_ASSIGN, b), x.Type())
			}
			return constant.BinaryOp(a, x.Op, b)
		case token.REM:
			if constant.Sign(b) == 0 {
				e.fail()
			}
			return e.wrap(constant.BinaryOp(a, x.Op, b), x.Type())
		case token.ADD, token.SUB, token.MUL, token.AND, token.OR, token.XOR, token.AND_NOT:
			return e.wrap(constant.BinaryOp(a, x.Op, b), x.Type())
		}
	case *ssa.UnOp:
		switch x.Op {
		case token.NOT:
			b, ok := AsBool(e.val(env, x.X))
			if !ok {
				e.fail()
			}
			return constant.MakeBool(!b)
		case token.SUB:
			a, ok := e.val(env, x.X).(constant.Value)
			if !ok {
				e.fail()
			}
			return e.wrap(constant.UnaryOp(token.SUB, a, 0), x.Type())
		case token.MUL: // load
			switch pt := e.val(env, x.X).(type) {
			case evalPtr:
				if pt.idx < 0 || pt.idx >= len(pt.sl.Elems) {
					e.fail()
				}
				return pt.sl.Elems[pt.idx]
			case *EvalSlice: // load of a constant global holding a slice/array
				return pt
			case *EvalMap:
				return pt
			}
		}
	case *ssa.IndexAddr:
		sl, ok := e.val(env, x.X).(*EvalSlice)
		i, iok := AsInt(e.val(env, x.Index))
		if !ok || !iok || i < 0 || int(i) >= len(sl.Elems) {
			e.fail() // would panic at run time: not a value
		}
		return evalPtr{sl, int(i)}
	case *ssa.Lookup:
		m, ok := e.val(env, x.X).(*EvalMap)
		k, kok := e.val(env, x.Index).(constant.Value)
		if !ok || !kok {
			e.fail()
		}
		val, found := m.Vals[evalMapKey(k)]
		if !found || val == nil {
			if _, isBasic := x.X.Type().Underlying().(*types.Map).Elem().Underlying().(*types.Basic); !isBasic && !x.CommaOk {
				e.fail()
			}
			if !found {
				val = zeroOf(x.X.Type().Underlying().(*types.Map).Elem())
			}
		}
		if x.CommaOk {
			return []any{val, constant.MakeBool(found)}
		}
		if val == nil {
			e.fail()
		}
		return val
	case *ssa.Index:
		sl, ok := e.val(env, x.X).(*EvalSlice)
		i, iok := AsInt(e.val(env, x.Index))
		if !ok || !iok || i < 0 || int(i) >= len(sl.Elems) {
			e.fail()
		}
		return sl.Elems[i]
	case *ssa.Convert:
		a, ok := e.val(env, x.X).(constant.Value)
		if !ok {
			e.fail()
		}
		if bt, isB := x.Type().Underlying().(*types.Basic); isB && bt.Info()&types.IsInteger != 0 && a.Kind() == constant.Int {
			return e.wrap(a, x.Type())
		}
	case *ssa.ChangeType:
		return e.val(env, x.X)
	case *ssa.Extract:
		t, ok := e.val(env, x.Tuple).([]any)
		if !ok || x.Index >= len(t) {
			e.fail()
		}
		return t[x.Index]
	case *ssa.Call:
		if bi, ok := x.Call.Value.(*ssa.Builtin); ok {
			if bi.Name() == "len" && len(x.Call.Args) == 1 {
				switch a := e.val(env, x.Call.Args[0]).(type) {
				case *EvalSlice:
					return constant.MakeInt64(int64(len(a.Elems)))
				case *EvalMap:
					return constant.MakeInt64(int64(len(a.Keys)))
				case constant.Value:
					if a.Kind() == constant.String {
						return constant.MakeInt64(int64(len(constant.StringVal(a))))
					}
				}
			}
			e.fail()
		}
		callee := x.Call.StaticCallee()
		if callee == nil || x.Call.IsInvoke() || callee.Pkg == nil || callee.Pkg.Pkg.Path() != x.Parent().Pkg.Pkg.Path() {
			e.fail()
		}
		var args []any
		for _, a := range x.Call.Args {
			args = append(args, e.val(env, a))
		}
		res, ok := e.call(callee, args)
		if !ok {
			e.fail()
		}
		if len(res) == 1 {
			return res[0]
		}
		return res
	}
	e.fail()
	return nil
}

// wrap truncates an integer result to the width of its type (two's complement).
func (e *evaluator) wrap(c constant.Value, t types.Type) constant.Value {
	bt, ok := t.Underlying().(*types.Basic)
	if !ok || c.Kind() != constant.Int || bt.Info()&types.IsInteger == 0 {
		return c
	}
	var bits uint
	switch bt.Kind() {
	case types.Int8, types.Uint8:
		bits = 8
	case types.Int16, types.Uint16:
		bits = 16
	case types.Int32, types.Uint32:
		bits = 32
	default:
		bits = 64
	}
	unsigned := bt.Info()&types.IsUnsigned != 0
	mod := constant.Shift(constant.MakeInt64(1), token.SHL, bits)
	m := constant.BinaryOp(c, token.REM, mod)
	if constant.Sign(m) < 0 {
		m = constant.BinaryOp(m, token.ADD, mod)
	}
	if !unsigned {
		half := constant.Shift(constant.MakeInt64(1), token.SHL, bits-1)
		if constant.Compare(m, token.GEQ, half) {
			m = constant.BinaryOp(m, token.SUB, mod)
		}
	}
	return m
}

// constGlobal returns the value of a package-level slice/array variable that is
// initialised once, in the package initialiser, from a composite literal of
// constants, and that nothing else in its package writes to (no store to the
// variable, no store through an element address, no address escaping into a
// call); nil otherwise.
func (p *Prog) constGlobal(g *ssa.Global) *EvalSlice {
	if g.Pkg == nil {
		return nil
	}
	initFn := g.Pkg.Func("init")
	if initFn == nil {
		return nil
	}
	var val *EvalSlice
	stores := 0
	var inPlace *EvalSlice
	if _, isMap := g.Type().Underlying().(*types.Pointer).Elem().Underlying().(*types.Map); isMap {
		return nil
	}
	for _, f := range SSAPkgFuncs(g.Pkg.Prog, g.Pkg) {
		for _, b := range f.Blocks {
			for _, in := range b.Instrs {
				for _, op := range in.Operands(nil) {
					if *op != ssa.Value(g) {
						continue
					}
					switch x := in.(type) {
					case *ssa.Store:
						if x.Addr != ssa.Value(g) || f != initFn {
							return nil
						}
						stores++
						val = literalSlice(x.Val)
					case *ssa.UnOp:
						if x.Op != token.MUL || !readOnlyUses(x) {
							return nil
						}
					case *ssa.IndexAddr: // array variable indexed in place: read anywhere, written once per element in init
						if f == initFn {
							if !inPlaceInit(x, g, &inPlace) {
								return nil
							}
						} else if !onlyLoaded(x) {
							return nil
						}
					case *ssa.DebugRef:
					default:
						return nil
					}
				}
			}
		}
	}
	if inPlace != nil && stores == 0 {
		for i, e := range inPlace.Elems {
			if e == nil {
				arr := g.Type().Underlying().(*types.Pointer).Elem().Underlying().(*types.Array)
				z := zeroOf(arr.Elem())
				if z == nil {
					return nil
				}
				inPlace.Elems[i] = z
			}
		}
		return inPlace
	}
	if stores != 1 || inPlace != nil {
		return nil
	}
	return val
}

// inPlaceInit records `g[i] = const` of the package initialiser (how an array variable with a
// literal initialiser is lowered): constant index, one store of a constant per element.
func inPlaceInit(ia *ssa.IndexAddr, g *ssa.Global, acc **EvalSlice) bool {
	arr, ok := g.Type().Underlying().(*types.Pointer).Elem().Underlying().(*types.Array)
	if !ok {
		return false
	}
	if *acc == nil {
		*acc = &EvalSlice{Elems: make([]any, arr.Len())}
	}
	i, ok := ConstInt(ia.Index)
	if !ok || i < 0 || i >= arr.Len() || ia.Referrers() == nil {
		return false
	}
	for _, r := range *ia.Referrers() {
		switch x := r.(type) {
		case *ssa.Store:
			c, isC := x.Val.(*ssa.Const)
			if x.Addr != ssa.Value(ia) || !isC || c.Value == nil || (*acc).Elems[i] != nil {
				return false
			}
			(*acc).Elems[i] = c.Value
		case *ssa.DebugRef:
		default:
			return false
		}
	}
	return true
}

// zeroOf is the zero value of a basic type as a constant (nil for anything else).
func zeroOf(t types.Type) any {
	bt, ok := t.Underlying().(*types.Basic)
	if !ok {
		return nil
	}
	switch {
	case bt.Info()&types.IsInteger != 0:
		return constant.MakeInt64(0)
	case bt.Info()&types.IsFloat != 0:
		return constant.MakeFloat64(0)
	case bt.Info()&types.IsString != 0:
		return constant.MakeString("")
	case bt.Info()&types.IsBoolean != 0:
		return constant.MakeBool(false)
	}
	return nil
}

// constMapGlobal returns the content of a package-level map variable that is
// provably constant: stored to exactly once, in the package initialiser, with a
// fresh make(map…) that is filled in the same block by updates with constant keys
// (and constant or struct{}{} values) and used for nothing else; every other
// mention of the variable — in its package, or in the whole program when it is
// exported — is a load that is only looked up, ranged over or measured with len.
func (p *Prog) constMapGlobal(g *ssa.Global) *EvalMap {
	if g == nil || g.Pkg == nil {
		return nil
	}
	if _, ok := g.Type().Underlying().(*types.Pointer).Elem().Underlying().(*types.Map); !ok {
		return nil
	}
	initFn := g.Pkg.Func("init")
	if initFn == nil {
		return nil
	}
	pkgs := []*ssa.Package{g.Pkg}
	if g.Object() == nil || g.Object().Exported() {
		pkgs = g.Pkg.Prog.AllPackages()
	}
	var out *EvalMap
	stores := 0
	for _, sp := range pkgs {
		for _, f := range SSAPkgFuncs(g.Pkg.Prog, sp) {
			for _, b := range f.Blocks {
				for _, in := range b.Instrs {
					uses := false
					for _, op := range in.Operands(nil) {
						if *op == ssa.Value(g) {
							uses = true
						}
					}
					if !uses {
						continue
					}
					switch x := in.(type) {
					case *ssa.Store:
						if x.Addr != ssa.Value(g) || f != initFn {
							return nil
						}
						stores++
						if out = literalMap(x); out == nil {
							return nil
						}
					case *ssa.UnOp:
						if x.Op != token.MUL || !mapReadOnly(x) {
							return nil
						}
					case *ssa.DebugRef:
					default:
						return nil
					}
				}
			}
		}
	}
	if stores != 1 {
		return nil
	}
	return out
}

func mapReadOnly(v ssa.Value) bool {
	refs := v.Referrers()
	if refs == nil {
		return false
	}
	for _, r := range *refs {
		switch x := r.(type) {
		case *ssa.Lookup:
			if x.X != v || x.Index == v {
				return false
			}
		case *ssa.Range, *ssa.DebugRef:
		case *ssa.Call:
			bi, ok := x.Call.Value.(*ssa.Builtin)
			if !ok || bi.Name() != "len" {
				return false
			}
		default:
			return false
		}
	}
	return true
}

// literalMap reads `map[K]V{k0: v0, …}` as lowered into the block of the store st.
func literalMap(st *ssa.Store) *EvalMap {
	mk, ok := st.Val.(*ssa.MakeMap)
	if !ok || mk.Block() != st.Block() || mk.Referrers() == nil {
		return nil
	}
	out := &EvalMap{Keys: map[string]constant.Value{}, Vals: map[string]any{}}
	pos := map[ssa.Instruction]int{}
	for i, in := range st.Block().Instrs {
		pos[in] = i
	}
	for _, r := range *mk.Referrers() {
		switch x := r.(type) {
		case *ssa.MapUpdate:
			k, isC := x.Key.(*ssa.Const)
			if x.Map != ssa.Value(mk) || x.Block() != st.Block() || pos[x] > pos[st] || !isC || k.Value == nil {
				return nil
			}
			key := evalMapKey(k.Value)
			if _, dup := out.Keys[key]; dup {
				return nil
			}
			out.Keys[key] = k.Value
			if c, ok := x.Value.(*ssa.Const); ok && c.Value != nil {
				out.Vals[key] = c.Value
			} else {
				out.Vals[key] = nil // struct{}{} of a set, or something Eval does not model
			}
		case *ssa.Store:
			if x != st {
				return nil
			}
		case *ssa.DebugRef:
		default:
			return nil
		}
	}
	return out
}

func readOnlyUses(v ssa.Value) bool {
	if v.Referrers() == nil {
		return false
	}
	for _, r := range *v.Referrers() {
		switch x := r.(type) {
		case *ssa.IndexAddr:
			if !onlyLoaded(x) {
				return false
			}
		case *ssa.Index, *ssa.DebugRef, *ssa.BinOp:
		case *ssa.Call:
			if bi, ok := x.Call.Value.(*ssa.Builtin); !ok || (bi.Name() != "len" && bi.Name() != "cap") {
				return false
			}
		case *ssa.Phi:
			if !readOnlyUses(x) {
				return false
			}
		default:
			return false
		}
	}
	return true
}

func onlyLoaded(ia *ssa.IndexAddr) bool {
	for _, r := range *ia.Referrers() {
		if u, ok := r.(*ssa.UnOp); ok && u.Op == token.MUL {
			continue
		}
		if _, ok := r.(*ssa.DebugRef); ok {
			continue
		}
		return false
	}
	return true
}

// literalSlice reads `[]T{c0, c1, …}` as lowered by the builder: a slice of a
// fresh array whose elements are stored once each with constants.
func literalSlice(v ssa.Value) *EvalSlice {
	sl, ok := v.(*ssa.Slice)
	if !ok || sl.Low != nil || sl.High != nil {
		return nil
	}
	al, ok := sl.X.(*ssa.Alloc)
	if !ok {
		return nil
	}
	arr, ok := al.Type().Underlying().(*types.Pointer).Elem().Underlying().(*types.Array)
	if !ok {
		return nil
	}
	out := &EvalSlice{Elems: make([]any, arr.Len())}
	for _, r := range *al.Referrers() {
		switch x := r.(type) {
		case *ssa.IndexAddr:
			i, ok := ConstInt(x.Index)
			if !ok || i < 0 || i >= arr.Len() {
				return nil
			}
			for _, rr := range *x.Referrers() {
				st, ok := rr.(*ssa.Store)
				if !ok || st.Addr != ssa.Value(x) || out.Elems[i] != nil {
					return nil
				}
				c, ok := st.Val.(*ssa.Const)
				if !ok || c.Value == nil {
					return nil
				}
				out.Elems[i] = c.Value
			}
		case *ssa.Slice, *ssa.DebugRef:
		default:
			return nil
		}
	}
	for i, e := range out.Elems {
		if e == nil { // element left at its zero value
			bt, ok := arr.Elem().Underlying().(*types.Basic)
			if !ok || bt.Info()&types.IsInteger == 0 {
				return nil
			}
			out.Elems[i] = constant.MakeInt64(0)
		}
	}
	return out
}
