package core

import "golang.org/x/tools/go/ssa"

// Additions to the K4 lock engine used by C18 (self-deadlock rule).

// Releases lists the lock paths (in the caller's name space) that the call
// releases on the net: an unlock operation, or a static in-package helper
// whose summary releases a lock it did not acquire.
func (la *LockAnalysis) Releases(c ssa.CallInstruction) []string {
	if path, _, acq, ok := lockOp(c); ok {
		if !acq && path != "" {
			return []string{path}
		}
		return nil
	}
	var out []string
	if callee := c.Common().StaticCallee(); callee != nil && la.inPkg[callee] {
		if s := la.sum[callee]; s != nil {
			m := argMap(callee, c)
			for p := range s.released {
				if q := mapPath(p, m); q != "" {
					out = append(out, q)
				}
			}
		}
	}
	return out
}

// MayAcquire lists the locks (path in the caller's name space → kind) that the
// call acquires at some point: a lock operation itself, or a static in-package
// callee whose own body contains one (one level; closures are not followed).
func (la *LockAnalysis) MayAcquire(c ssa.CallInstruction) map[string]byte {
	out := map[string]byte{}
	if path, k, acq, ok := lockOp(c); ok {
		if acq && path != "" {
			out[path] = byte(k)
		}
		return out
	}
	callee := c.Common().StaticCallee()
	if callee == nil || !la.inPkg[callee] {
		return out
	}
	m := argMap(callee, c)
	for _, b := range callee.Blocks {
		for _, in := range b.Instrs {
			cc, ok := in.(*ssa.Call)
			if !ok {
				continue
			}
			if path, k, acq, ok := lockOp(cc); ok && acq && path != "" {
				if _, heldAtEntry := la.entry[callee][path]; heldAtEntry {
					continue
				}
				if q := mapPath(path, m); q != "" {
					out[q] = byte(k)
				}
			}
		}
	}
	return out
}

// DeferredReleases lists the lock paths released by the deferred calls that
// run at the function exit rd.
func (la *LockAnalysis) DeferredReleases(rd *ssa.RunDefers) []string {
	var out []string
	for _, d := range pendingDefers(rd.Parent(), rd) {
		out = append(out, la.Releases(d)...)
	}
	return out
}

// HeldKind reports whether path is held before in, and as which kind ('R'/'W').
func (la *LockAnalysis) HeldKind(in ssa.Instruction, path string) (byte, bool) {
	k, ok := la.at[in][path]
	return byte(k), ok
}
