package core

import (
	"go/constant"
	"go/token"
	"go/types"
	"testing"

	"golang.org/x/tools/go/ssa"
)

const evalSrc = `package t
import "time"

var ladder = []time.Duration{time.Second, 5 * time.Second, time.Minute}
var mutable = []int{1, 2, 3}

func poke() { mutable[0] = 9 }

func sw(d time.Duration) (time.Duration, bool) {
	switch d {
	case time.Second:
		return 5 * time.Second, true
	case 5 * time.Second:
		return time.Minute, true
	}
	return 0, false
}

func look(d time.Duration) (time.Duration, bool) {
	for i := 0; i+1 < len(ladder); i++ {
		if ladder[i] == d {
			return ladder[i+1], true
		}
	}
	return 0, false
}

func rng(d time.Duration) (time.Duration, bool) {
	for i, x := range ladder {
		if x == d && i+1 < len(ladder) {
			return ladder[i+1], true
		}
	}
	return 0, false
}

var states = [...]int{2, 1, 3}
var methods = map[string]struct{}{"GET": {}, "PUT": {}}
var weights = map[string]int{"a": 1, "b": 5}
var dirty = map[string]int{"a": 1}

func soil() { dirty["b"] = 2 }

func state(code int) (int, bool) {
	if code < 0 || code >= len(states) {
		return 0, false
	}
	return states[code], true
}
func valid(m string) bool { _, ok := methods[m]; return ok }
func weight(k string) int { return weights[k] + len(weights) }
func viaDirty(k string) int { return dirty[k] }

func viaMutable(i int) int { return mutable[i] }
func forever(n int) int    { for { n++ } }
func wraps(x int8) int8     { return x + 100 }
func helper(x int) int      { return twice(x) + 1 }
func twice(x int) int       { return 2 * x }
`

func TestEval(t *testing.T) {
	pkg := build(t, evalSrc)
	p := &Prog{}
	for _, name := range []string{"sw", "look", "rng"} {
		fn := pkg.Func(name)
		for _, c := range []struct {
			in, out int64
			ok      bool
		}{{1e9, 5e9, true}, {5e9, 60e9, true}, {60e9, 0, false}, {7, 0, false}} {
			res, ok := p.Eval(fn, EvalInt(c.in))
			if !ok || len(res) != 2 {
				t.Fatalf("%s(%d): not evaluable", name, c.in)
			}
			n, _ := AsInt(res[0])
			b, _ := AsBool(res[1])
			if b != c.ok || (b && n != c.out) {
				t.Errorf("%s(%d) = (%d,%v), want (%d,%v)", name, c.in, n, b, c.out, c.ok)
			}
		}
	}
	if _, ok := p.Eval(pkg.Func("viaMutable"), EvalInt(0)); ok {
		t.Errorf("a table that is written elsewhere was evaluated")
	}
	for code, want := range map[int64]int64{0: 2, 1: 1, 2: 3} {
		res, ok := p.Eval(pkg.Func("state"), EvalInt(code))
		if n, _ := AsInt(res[0]); !ok || n != want {
			t.Errorf("state(%d) = %v (ok=%v), want %d", code, res, ok, want)
		}
	}
	if res, ok := p.Eval(pkg.Func("state"), EvalInt(3)); !ok {
		t.Errorf("state(3) not evaluable")
	} else if b, _ := AsBool(res[1]); b {
		t.Errorf("state(3) reported in range")
	}
	for m, want := range map[string]bool{"GET": true, "PUT": true, "POST": false} {
		res, ok := p.Eval(pkg.Func("valid"), constant.MakeString(m))
		if b, _ := AsBool(res[0]); !ok || b != want {
			t.Errorf("valid(%q) = %v (ok=%v), want %v", m, res, ok, want)
		}
	}
	if res, ok := p.Eval(pkg.Func("weight"), constant.MakeString("b")); !ok {
		t.Errorf("weight not evaluable")
	} else if n, _ := AsInt(res[0]); n != 7 {
		t.Errorf("weight(b) = %d, want 7", n)
	}
	if res, ok := p.Eval(pkg.Func("weight"), constant.MakeString("zz")); !ok {
		t.Errorf("weight(zz) not evaluable")
	} else if n, _ := AsInt(res[0]); n != 2 {
		t.Errorf("weight(zz) = %d, want 2", n)
	}
	if _, ok := p.Eval(pkg.Func("viaDirty"), constant.MakeString("a")); ok {
		t.Errorf("a map that is written elsewhere was evaluated")
	}
	if _, ok := p.Eval(pkg.Func("forever"), EvalInt(0)); ok {
		t.Errorf("non-terminating function evaluated")
	}
	if res, ok := p.Eval(pkg.Func("wraps"), EvalInt(100)); !ok {
		t.Errorf("wraps not evaluable")
	} else if n, _ := AsInt(res[0]); n != -56 {
		t.Errorf("int8(100)+100 = %d, want -56", n)
	}
	if res, ok := p.Eval(pkg.Func("helper"), EvalInt(4)); !ok {
		t.Errorf("helper not evaluable")
	} else if n, _ := AsInt(res[0]); n != 9 {
		t.Errorf("helper(4) = %d", n)
	}
}

const cmpPolySrc = `package t
func target()
func a(files []string, mb int) { if len(files) > mb { target() } }
func b(files []string, mb int) { if mb < len(files) { target() } }
func c(files []string, mb int) { if excess := len(files) - mb; excess > 0 { target() } }
func d(files []string, mb int) { if len(files)-mb <= 0 { return }; target() }
func e(files []string, mb int) { if len(files) < mb { target() } }
func f(files []string, mb int) { if len(files) > mb+1 { target() } }
`

func TestCmpPoly(t *testing.T) {
	pkg := build(t, cmpPolySrc)
	isTarget := func(in ssa.Instruction) bool {
		c := AsCall(in)
		return c != nil && CalleeName(c) == "t.target"
	}
	for name, guarded := range map[string]bool{"a": true, "b": true, "c": true, "d": true, "e": false, "f": false} {
		fn := pkg.Func(name)
		alg := &Alg{Name: func(v ssa.Value) string {
			if _, ok := v.(*ssa.Parameter); ok {
				if _, isSlice := v.Type().Underlying().(*types.Slice); isSlice {
					return "files"
				}
				return "mb"
			}
			return ""
		}}
		atom := CmpPoly(alg, ParsePoly("len(files) - mb"), false)
		if got := EdgeCount(fn, atom) > 0 && Requires(fn, isTarget, atom) == nil; got != guarded {
			t.Errorf("%s: guarded=%v want %v", name, got, guarded)
		}
	}
	_ = token.ADD
}
