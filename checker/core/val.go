package core

import (
	"fmt"
	"go/constant"
	"go/token"
	"go/types"
	"strings"

	"golang.org/x/tools/go/ssa"
)

// ---- callee resolution ----

// CalleeName describes the resolved callee of a call instruction in a stable
// textual form:
//
//	static function / method:  "pkgpath.Func", "(pkgpath.T).M", "(*pkgpath.T).M"
//	interface method:          "(pkgpath.I).M"   (invoke mode)
//	closure call:              "closure:<parent>$n"
//	dynamic call of a value:   "dyn:<descr>"  e.g. dyn:param:req, dyn:freevar:fn, dyn:field:x.f
//	builtin:                   "builtin:close"
func CalleeName(c ssa.CallInstruction) string {
	cc := c.Common()
	if cc.IsInvoke() {
		return "(" + typeString(cc.Value.Type()) + ")." + cc.Method.Name()
	}
	switch v := cc.Value.(type) {
	case *ssa.Function:
		return funcString(v)
	case *ssa.Builtin:
		return "builtin:" + v.Name()
	case *ssa.MakeClosure:
		return "closure:" + funcString(v.Fn.(*ssa.Function))
	}
	return "dyn:" + Describe(cc.Value)
}

func typeString(t types.Type) string {
	return types.TypeString(t, func(p *types.Package) string { return p.Path() })
}

func funcString(f *ssa.Function) string {
	if f.Origin() != nil {
		f = f.Origin()
	}
	if f.Parent() != nil {
		return f.String()
	}
	if recv := f.Signature.Recv(); recv != nil {
		return "(" + typeString(recv.Type()) + ")." + f.Name()
	}
	if f.Pkg != nil {
		return f.Pkg.Pkg.Path() + "." + f.Name()
	}
	if o := f.Object(); o != nil && o.Pkg() != nil {
		return o.Pkg().Path() + "." + f.Name()
	}
	return f.String()
}

// Short strips the module prefix from a callee name for readability.
func Short(s string) string { return strings.ReplaceAll(s, Mod+"/", "") }

// AsCall returns the call instruction behind in (Call, Defer or Go), or nil.
func AsCall(in ssa.Instruction) ssa.CallInstruction {
	if c, ok := in.(ssa.CallInstruction); ok {
		return c
	}
	return nil
}

// CallTo builds an instruction matcher for calls (incl. defer and go) whose
// callee name (module prefix stripped) equals one of names.
func CallTo(names ...string) func(ssa.Instruction) bool {
	set := map[string]bool{}
	for _, n := range names {
		set[n] = true
	}
	return func(in ssa.Instruction) bool {
		c := AsCall(in)
		if c == nil {
			return false
		}
		return set[Short(CalleeName(c))]
	}
}

// PlainCallTo is CallTo restricted to ordinary calls (no defer/go).
func PlainCallTo(names ...string) func(ssa.Instruction) bool {
	f := CallTo(names...)
	return func(in ssa.Instruction) bool {
		if _, ok := in.(*ssa.Call); !ok {
			return false
		}
		return f(in)
	}
}

// CallMethod matches calls to a method named name (any receiver type whose
// printed form contains recvSub; recvSub "" matches all), static or invoke.
func CallMethod(recvSub, name string) func(ssa.Instruction) bool {
	return func(in ssa.Instruction) bool {
		c := AsCall(in)
		if c == nil {
			return false
		}
		n := Short(CalleeName(c))
		if !strings.HasSuffix(n, ")."+name) {
			return false
		}
		return recvSub == "" || strings.Contains(n, recvSub)
	}
}

// CallOfValue matches dynamic calls of a function value satisfying pred
// (e.g. a function-typed parameter).
func CallOfValue(pred func(ssa.Value) bool) func(ssa.Instruction) bool {
	return func(in ssa.Instruction) bool {
		c := AsCall(in)
		if c == nil || c.Common().IsInvoke() {
			return false
		}
		switch c.Common().Value.(type) {
		case *ssa.Function, *ssa.Builtin:
			return false
		}
		return pred(c.Common().Value)
	}
}

// Calls lists the call instructions of fn matching pred.
func Calls(fn *ssa.Function, pred func(ssa.Instruction) bool) []ssa.CallInstruction {
	var out []ssa.CallInstruction
	for _, in := range Instrs(fn, pred) {
		out = append(out, in.(ssa.CallInstruction))
	}
	return out
}

// Args returns the explicit arguments of a call (receiver first for static method calls;
// for invoke calls the receiver is prepended).
func Args(c ssa.CallInstruction) []ssa.Value {
	cc := c.Common()
	if cc.IsInvoke() {
		return append([]ssa.Value{cc.Value}, cc.Args...)
	}
	return cc.Args
}

// ---- value shapes ----

// Strip removes value-preserving wrappers: ChangeType, Convert between named
// and underlying, MakeInterface, ChangeInterface.
func Strip(v ssa.Value) ssa.Value {
	for {
		switch x := v.(type) {
		case *ssa.ChangeType:
			v = x.X
		case *ssa.MakeInterface:
			v = x.X
		case *ssa.ChangeInterface:
			v = x.X
		case *ssa.Convert:
			v = x.X
		default:
			return v
		}
	}
}

// IsNil reports whether v is the nil constant.
func IsNil(v ssa.Value) bool {
	c, ok := v.(*ssa.Const)
	return ok && c.Value == nil
}

// ConstInt returns the integer value of a constant.
func ConstInt(v ssa.Value) (int64, bool) {
	c, ok := Strip(v).(*ssa.Const)
	if !ok || c.Value == nil {
		return 0, false
	}
	if c.Value.Kind() == constant.Int {
		return c.Int64(), true
	}
	if c.Value.Kind() == constant.Float {
		f, _ := constant.Float64Val(c.Value)
		if f == float64(int64(f)) {
			return int64(f), true
		}
	}
	return 0, false
}

// ConstFloat returns the numeric value of a constant.
func ConstFloat(v ssa.Value) (float64, bool) {
	c, ok := Strip(v).(*ssa.Const)
	if !ok || c.Value == nil {
		return 0, false
	}
	switch c.Value.Kind() {
	case constant.Int, constant.Float:
		f, _ := constant.Float64Val(constant.ToFloat(c.Value))
		return f, true
	}
	return 0, false
}

// ConstString returns the string value of a constant.
func ConstString(v ssa.Value) (string, bool) {
	c, ok := Strip(v).(*ssa.Const)
	if !ok || c.Value == nil || c.Value.Kind() != constant.String {
		return "", false
	}
	return constant.StringVal(c.Value), true
}

// ResultOf decomposes v into (call, result index) when v is a call result.
func ResultOf(v ssa.Value) (*ssa.Call, int) {
	switch x := v.(type) {
	case *ssa.Call:
		return x, 0
	case *ssa.Extract:
		if c, ok := x.Tuple.(*ssa.Call); ok {
			return c, x.Index
		}
	}
	return nil, -1
}

// IsResult reports whether v (after Forward) is result idx of a call matched by callee.
func IsResult(v ssa.Value, idx int, callee func(ssa.Instruction) bool) bool {
	c, i := ResultOf(Forward(v))
	return c != nil && i == idx && callee(c)
}

// FieldOf decomposes a load of a struct field: v == *(&x.f) or x.f. It returns the base x and the field.
func FieldOf(v ssa.Value) (base ssa.Value, field *types.Var) {
	switch x := v.(type) {
	case *ssa.UnOp:
		if x.Op == token.MUL {
			if fa, ok := x.X.(*ssa.FieldAddr); ok {
				return fa.X, fieldVar(fa.X.Type(), fa.Field)
			}
		}
	case *ssa.Field:
		return x.X, fieldVar(x.X.Type(), x.Field)
	}
	return nil, nil
}

func fieldVar(t types.Type, i int) *types.Var {
	if p, ok := t.Underlying().(*types.Pointer); ok {
		t = p.Elem()
	}
	st, ok := t.Underlying().(*types.Struct)
	if !ok || i >= st.NumFields() {
		return nil
	}
	return st.Field(i)
}

// FieldAddrName returns "T.f" for a FieldAddr / Field value ("" otherwise).
func FieldAddrName(v ssa.Value) string {
	var x ssa.Value
	var idx int
	switch fa := v.(type) {
	case *ssa.FieldAddr:
		x, idx = fa.X, fa.Field
	case *ssa.Field:
		x, idx = fa.X, fa.Field
	default:
		return ""
	}
	t := x.Type()
	if p, ok := t.Underlying().(*types.Pointer); ok {
		t = p.Elem()
	}
	fv := fieldVar(t, idx)
	if fv == nil {
		return ""
	}
	return typeBase(t) + "." + fv.Name()
}

func typeBase(t types.Type) string {
	if p, ok := t.(*types.Pointer); ok {
		t = p.Elem()
	}
	if n, ok := t.(*types.Named); ok {
		return n.Obj().Name()
	}
	return t.String()
}

// FieldAddrNameOfLoad returns "T.f" when v is a load of that field, else "".
func FieldAddrNameOfLoad(v ssa.Value) string {
	switch x := v.(type) {
	case *ssa.UnOp:
		if x.Op == token.MUL {
			return FieldAddrName(x.X)
		}
	case *ssa.Field:
		return FieldAddrName(x)
	}
	return ""
}

// IsFieldLoad reports whether v loads field "T.f" (after Forward).
func IsFieldLoad(v ssa.Value, tf string) bool {
	v = Forward(v)
	switch x := v.(type) {
	case *ssa.UnOp:
		if x.Op == token.MUL {
			return FieldAddrName(x.X) == tf
		}
	case *ssa.Field:
		return FieldAddrName(x) == tf
	}
	return false
}

// Forward follows loads of local allocations (named results, captured or
// address-taken locals) to the stored value: the unique store when the
// allocation has exactly one, otherwise the nearest preceding store in the
// same block or its chain of unique predecessors (closures that capture the
// variable are assumed not to run in between: in this code base they are
// deferred or run by callees that were not yet handed the closure).
func Forward(v ssa.Value) ssa.Value {
	for i := 0; i < 8; i++ {
		u, ok := v.(*ssa.UnOp)
		if !ok || u.Op != token.MUL {
			return v
		}
		al, ok := u.X.(*ssa.Alloc)
		if !ok {
			return v
		}
		var st *ssa.Store
		n := 0
		for _, r := range *al.Referrers() {
			if s, ok := r.(*ssa.Store); ok && s.Addr == al {
				st = s
				n++
			}
			if _, ok := r.(*ssa.MakeClosure); ok {
				n += 2 // captured: may be written elsewhere
			}
		}
		if n == 1 {
			v = st.Val
			continue
		}
		if s := reachingStore(u, al); s != nil {
			v = s.Val
			continue
		}
		return v
	}
	return v
}

func reachingStore(load *ssa.UnOp, al *ssa.Alloc) *ssa.Store {
	b := load.Block()
	idx := -1
	for i, in := range b.Instrs {
		if in == ssa.Instruction(load) {
			idx = i
		}
	}
	for depth := 0; depth < 8 && b != nil; depth++ {
		for i := idx - 1; i >= 0; i-- {
			if s, ok := b.Instrs[i].(*ssa.Store); ok && s.Addr == al {
				return s
			}
		}
		if len(b.Preds) != 1 {
			return nil
		}
		b = b.Preds[0]
		idx = len(b.Instrs)
	}
	return nil
}

// Describe gives a stable structural descriptor of a value (access path).
func Describe(v ssa.Value) string {
	return describe(v, 0)
}

func describe(v ssa.Value, d int) string {
	if d > 12 {
		return "…"
	}
	switch x := v.(type) {
	case nil:
		return "<nil>"
	case *ssa.Parameter:
		return "param:" + x.Name()
	case *ssa.FreeVar:
		return "freevar:" + x.Name()
	case *ssa.Global:
		return "global:" + x.Pkg.Pkg.Path() + "." + x.Name()
	case *ssa.Const:
		if x.Value == nil {
			return "nil"
		}
		return "const:" + x.Value.ExactString()
	case *ssa.Function:
		return "func:" + funcString(x)
	case *ssa.Alloc:
		if x.Comment != "" {
			return "var:" + x.Comment
		}
		return "alloc"
	case *ssa.FieldAddr:
		return describe(x.X, d+1) + "." + fieldVar(x.X.Type(), x.Field).Name()
	case *ssa.Field:
		return describe(x.X, d+1) + "." + fieldVar(x.X.Type(), x.Field).Name()
	case *ssa.UnOp:
		if x.Op == token.MUL {
			// a load: same path as the address (paths denote the location's content)
			return describe(x.X, d+1)
		}
		return x.Op.String() + "(" + describe(x.X, d+1) + ")"
	case *ssa.ChangeType:
		return describe(x.X, d+1)
	case *ssa.Convert:
		return describe(x.X, d+1)
	case *ssa.MakeInterface:
		return describe(x.X, d+1)
	case *ssa.ChangeInterface:
		return describe(x.X, d+1)
	case *ssa.Extract:
		return describe(x.Tuple, d+1) + "#" + fmt.Sprint(x.Index)
	case *ssa.Call:
		as := []string{}
		for _, a := range x.Call.Args {
			as = append(as, describe(a, d+2))
		}
		return "call(" + Short(CalleeName(x)) + ")(" + strings.Join(as, ",") + ")"
	case *ssa.IndexAddr:
		return describe(x.X, d+1) + "[" + describe(x.Index, d+1) + "]"
	case *ssa.Index:
		return describe(x.X, d+1) + "[" + describe(x.Index, d+1) + "]"
	case *ssa.Lookup:
		return describe(x.X, d+1) + "[" + describe(x.Index, d+1) + "]"
	case *ssa.BinOp:
		return "(" + describe(x.X, d+1) + x.Op.String() + describe(x.Y, d+1) + ")"
	case *ssa.Phi:
		return "phi:" + x.Comment
	case *ssa.MakeClosure:
		return "closure:" + funcString(x.Fn.(*ssa.Function))
	case *ssa.TypeAssert:
		return "assert(" + describe(x.X, d+1) + ")"
	case *ssa.Slice:
		return "slice(" + describe(x.X, d+1) + ")"
	}
	return fmt.Sprintf("%T", v)
}

// ---- comparison atoms ----

// Cmp builds an atom for `x op y` (either operand order for the symmetric
// ==/!=; `pos` says which operator makes the atom hold). For example
// Cmp(token.EQL, isErr, IsNil) is the atom "err == nil"; `err != nil`
// establishes it on its false edge.
func Cmp(op token.Token, x, y func(ssa.Value) bool) Atom {
	return func(v ssa.Value) (bool, bool) {
		b, ok := v.(*ssa.BinOp)
		if !ok {
			return false, false
		}
		match := func(l, r ssa.Value) bool { return x(l) && y(r) }
		switch op {
		case token.EQL, token.NEQ:
			if b.Op != token.EQL && b.Op != token.NEQ {
				return false, false
			}
			if match(b.X, b.Y) || match(b.Y, b.X) {
				return true, b.Op == op
			}
		default:
			// ordered: x op y  ≡  y flip(op) x ;  negation(op) gives the opposite polarity
			if match(b.X, b.Y) {
				if b.Op == op {
					return true, true
				}
				if b.Op == negOp(op) {
					return true, false
				}
			}
			if match(b.Y, b.X) {
				if b.Op == flipOp(op) {
					return true, true
				}
				if b.Op == negOp(flipOp(op)) {
					return true, false
				}
			}
		}
		return false, false
	}
}

func negOp(op token.Token) token.Token {
	switch op {
	case token.LSS:
		return token.GEQ
	case token.GEQ:
		return token.LSS
	case token.GTR:
		return token.LEQ
	case token.LEQ:
		return token.GTR
	case token.EQL:
		return token.NEQ
	case token.NEQ:
		return token.EQL
	}
	return token.ILLEGAL
}

func flipOp(op token.Token) token.Token {
	switch op {
	case token.LSS:
		return token.GTR
	case token.GTR:
		return token.LSS
	case token.LEQ:
		return token.GEQ
	case token.GEQ:
		return token.LEQ
	}
	return op
}

// BoolVal is the atom "the boolean value satisfying pred is true".
func BoolVal(pred func(ssa.Value) bool) Atom {
	return func(v ssa.Value) (bool, bool) {
		if pred(v) {
			return true, true
		}
		return false, false
	}
}

// ErrNil is the atom "result #idx of a call matched by callee == nil".
func ErrNil(idx int, callee func(ssa.Instruction) bool) Atom {
	return Cmp(token.EQL, func(v ssa.Value) bool { return IsResult(v, idx, callee) }, IsNil)
}

// IsLenOf matches len(x) where x satisfies pred.
func IsLenOf(pred func(ssa.Value) bool) func(ssa.Value) bool {
	return func(v ssa.Value) bool {
		c, ok := Strip(v).(*ssa.Call)
		if !ok {
			return false
		}
		b, ok := c.Call.Value.(*ssa.Builtin)
		return ok && b.Name() == "len" && pred(c.Call.Args[0])
	}
}

// FieldLoad matches loads of field "T.f".
func FieldLoad(tf string) func(ssa.Value) bool {
	return func(v ssa.Value) bool { return IsFieldLoad(v, tf) }
}

// AnyVal matches every value.
func AnyVal(ssa.Value) bool { return true }

// IsConstInt matches an integer constant of value n.
func IsConstInt(n int64) func(ssa.Value) bool {
	return func(v ssa.Value) bool {
		c, ok := ConstInt(v)
		return ok && c == n
	}
}

// IsGlobal matches a load of (or the address of) the package-level variable rel.Name.
func IsGlobal(rel, name string) func(ssa.Value) bool {
	return func(v ssa.Value) bool {
		v = Strip(v)
		if u, ok := v.(*ssa.UnOp); ok && u.Op == token.MUL {
			v = u.X
		}
		g, ok := v.(*ssa.Global)
		if !ok {
			return false
		}
		p := g.Pkg.Pkg.Path()
		return g.Name() == name && (p == Mod+"/"+rel || p == rel)
	}
}

// IsParam matches the parameter called name.
func IsParam(name string) func(ssa.Value) bool {
	return func(v ssa.Value) bool {
		p, ok := Strip(Forward(Strip(v))).(*ssa.Parameter)
		return ok && p.Name() == name
	}
}

// IsFreeVar matches (a load of) the captured variable called name.
func IsFreeVar(name string) func(ssa.Value) bool {
	return func(v ssa.Value) bool {
		v = Strip(v)
		if u, ok := v.(*ssa.UnOp); ok && u.Op == token.MUL {
			v = u.X
		}
		p, ok := v.(*ssa.FreeVar)
		return ok && p.Name() == name
	}
}

// ---- data dependence (K8) ----

// DependsOn reports whether v transitively depends (def-use, through φ,
// conversions, composite/slice construction via local allocations, and call
// results on their arguments) on a value satisfying src.
func DependsOn(v ssa.Value, src func(ssa.Value) bool) bool {
	seen := map[ssa.Value]bool{}
	var walk func(v ssa.Value) bool
	walk = func(v ssa.Value) bool {
		if v == nil || seen[v] {
			return false
		}
		seen[v] = true
		if src(v) {
			return true
		}
		// memory: if v is (derived from) a local allocation, include everything stored into it
		if root := allocRoot(v); root != nil {
			for _, st := range storesInto(root) {
				if walk(st.Val) {
					return true
				}
			}
			// values passed by address to calls (e.g. buf.WriteString) are not followed
		}
		if in, ok := v.(ssa.Instruction); ok {
			for _, op := range in.Operands(nil) {
				if *op != nil && walk(*op) {
					return true
				}
			}
		}
		return false
	}
	return walk(v)
}

func allocRoot(v ssa.Value) *ssa.Alloc {
	for i := 0; i < 10; i++ {
		switch x := v.(type) {
		case *ssa.Alloc:
			return x
		case *ssa.FieldAddr:
			v = x.X
		case *ssa.IndexAddr:
			v = x.X
		case *ssa.Slice:
			v = x.X
		case *ssa.UnOp:
			if x.Op != token.MUL {
				return nil
			}
			v = x.X
		default:
			return nil
		}
	}
	return nil
}

func storesInto(al *ssa.Alloc) []*ssa.Store {
	var out []*ssa.Store
	seen := map[ssa.Value]bool{}
	var visit func(v ssa.Value)
	visit = func(v ssa.Value) {
		if seen[v] {
			return
		}
		seen[v] = true
		refs := v.Referrers()
		if refs == nil {
			return
		}
		for _, r := range *refs {
			switch x := r.(type) {
			case *ssa.Store:
				if x.Addr == v {
					out = append(out, x)
				}
			case *ssa.FieldAddr:
				visit(x)
			case *ssa.IndexAddr:
				visit(x)
			case *ssa.Slice:
				visit(x)
			}
		}
	}
	visit(al)
	return out
}

// StoresToField lists the stores in fn whose address is field "T.f".
func StoresToField(fn *ssa.Function, tf string) []*ssa.Store {
	var out []*ssa.Store
	for _, b := range fn.Blocks {
		for _, in := range b.Instrs {
			if st, ok := in.(*ssa.Store); ok && FieldAddrName(st.Addr) == tf {
				out = append(out, st)
			}
		}
	}
	return out
}

// IsStoreToField matches stores to field "T.f".
func IsStoreToField(tf string) func(ssa.Instruction) bool {
	return func(in ssa.Instruction) bool {
		st, ok := in.(*ssa.Store)
		return ok && FieldAddrName(st.Addr) == tf
	}
}

// MapUpdatesOn matches map updates whose map operand is a load of field "T.f".
func IsMapUpdateOn(tf string) func(ssa.Instruction) bool {
	return func(in ssa.Instruction) bool {
		mu, ok := in.(*ssa.MapUpdate)
		return ok && IsFieldLoad(mu.Map, tf)
	}
}

// Or2 combines value predicates.
func Or2(fs ...func(ssa.Value) bool) func(ssa.Value) bool {
	return func(v ssa.Value) bool {
		for _, f := range fs {
			if f(v) {
				return true
			}
		}
		return false
	}
}

// ---- position-based parameter anchors (robust against renaming) ----

// ParamAt matches the i-th parameter of fn (the receiver is index 0 for
// methods), looking through conversions and spill slots.
func ParamAt(fn *ssa.Function, i int) func(ssa.Value) bool {
	return func(v ssa.Value) bool {
		if fn == nil || i < 0 || i >= len(fn.Params) {
			return false
		}
		p, ok := Strip(Forward(Strip(v))).(*ssa.Parameter)
		return ok && p == fn.Params[i]
	}
}

// captureRoot resolves a free variable to what it captures in the enclosing
// functions: a parameter, or the local variable's allocation.
func captureRoot(fv *ssa.FreeVar) (param *ssa.Parameter, local *ssa.Alloc) {
	c := fv.Parent()
	for depth := 0; depth < 6 && c != nil && c.Parent() != nil; depth++ {
		idx := -1
		for k, x := range c.FreeVars {
			if x == fv {
				idx = k
			}
		}
		if idx < 0 {
			return nil, nil
		}
		par := c.Parent()
		var binding ssa.Value
		// In an inlined variant the closure is created by the inlined copy of its
		// MakeClosure in another function of the package (its lexical parent is dead):
		// prefer such a site.
		if site := makeClosureSite(c); site != nil && idx < len(site.Bindings) {
			binding = site.Bindings[idx]
			par = site.Parent()
		} else {
			for _, b := range par.Blocks {
				for _, in := range b.Instrs {
					if mc, ok := in.(*ssa.MakeClosure); ok && mc.Fn == c && idx < len(mc.Bindings) {
						binding = mc.Bindings[idx]
					}
				}
			}
		}
		switch x := binding.(type) {
		case *ssa.Parameter:
			return x, nil
		case *ssa.Alloc:
			for _, r := range *x.Referrers() {
				if st, ok := r.(*ssa.Store); ok && st.Addr == x {
					if p, ok := st.Val.(*ssa.Parameter); ok {
						return p, nil
					}
				}
			}
			return nil, x
		case *ssa.FreeVar:
			fv, c = x, par
			continue
		default:
			return nil, nil
		}
	}
	return nil, nil
}

var closureSites = map[*ssa.Function]*ssa.MakeClosure{}
var closureSitesDone = map[*ssa.Package]bool{}

// makeClosureSite returns a MakeClosure creating c that lies outside c's lexical parent (an
// inlined copy), or nil.
func makeClosureSite(c *ssa.Function) *ssa.MakeClosure {
	if c.Pkg == nil {
		return nil
	}
	if !closureSitesDone[c.Pkg] {
		closureSitesDone[c.Pkg] = true
		for _, f := range SSAPkgFuncs(c.Prog, c.Pkg) {
			for _, b := range f.Blocks {
				for _, in := range b.Instrs {
					if mc, ok := in.(*ssa.MakeClosure); ok {
						if fn, ok := mc.Fn.(*ssa.Function); ok && fn.Parent() != nil && fn.Parent() != f {
							closureSites[fn] = mc
						}
					}
				}
			}
		}
	}
	return closureSites[c]
}

func freeVarOf(v ssa.Value) *ssa.FreeVar {
	v = Strip(v)
	if u, ok := v.(*ssa.UnOp); ok && u.Op == token.MUL {
		v = u.X
	}
	fv, _ := v.(*ssa.FreeVar)
	return fv
}

// CapturedParam matches (a load of) a free variable that captures the i-th
// parameter of root, at any closure nesting depth.
func CapturedParam(root *ssa.Function, i int) func(ssa.Value) bool {
	return func(v ssa.Value) bool {
		fv := freeVarOf(v)
		if fv == nil || root == nil || i >= len(root.Params) {
			return false
		}
		p, _ := captureRoot(fv)
		return p != nil && p == root.Params[i]
	}
}

// ParamOrCaptured matches the i-th parameter of root, directly or as captured by a closure.
func ParamOrCaptured(root *ssa.Function, i int) func(ssa.Value) bool {
	return Or2(ParamAt(root, i), CapturedParam(root, i))
}

// CapturedLocal matches (a load of) a free variable capturing a local variable
// of an enclosing function some store to which satisfies pred.
func CapturedLocal(pred func(stored ssa.Value) bool) func(ssa.Value) bool {
	return func(v ssa.Value) bool {
		fv := freeVarOf(v)
		if fv == nil {
			return false
		}
		_, al := captureRoot(fv)
		if al == nil {
			return false
		}
		for _, r := range *al.Referrers() {
			if st, ok := r.(*ssa.Store); ok && st.Addr == al && pred(st.Val) {
				return true
			}
		}
		return false
	}
}

// ParamIndexName names a parameter "p<i>" by its position (receiver = p0 for methods); "" for other values.
func ParamIndexName(v ssa.Value) string {
	p, ok := v.(*ssa.Parameter)
	if !ok || p.Parent() == nil {
		return ""
	}
	for i, q := range p.Parent().Params {
		if q == p {
			return fmt.Sprintf("p%d", i)
		}
	}
	return ""
}

// EmptyLen is the atom "len(x) == 0" for x matched by pred, in any of its
// spellings (== 0, < 1, <= 0 and the negated forms on the other edge).
func EmptyLen(pred func(ssa.Value) bool) Atom {
	l := IsLenOf(pred)
	return AnyOf(Cmp(token.EQL, l, IsConstInt(0)), Cmp(token.LSS, l, IsConstInt(1)), Cmp(token.LEQ, l, IsConstInt(0)))
}

// ForwardField resolves a load of a field of a local struct allocation to the
// value stored into that field, when the function stores to that field of that
// allocation exactly once (through any FieldAddr of it) and never overwrites
// the struct as a whole — or initialises the struct exactly once by copying
// another local struct for which the same holds; otherwise it returns Forward(v).
func ForwardField(v ssa.Value) ssa.Value {
	v = Forward(v)
	u, ok := Strip(v).(*ssa.UnOp)
	if !ok || u.Op != token.MUL {
		return v
	}
	fa, ok := u.X.(*ssa.FieldAddr)
	if !ok {
		return v
	}
	al, ok := fa.X.(*ssa.Alloc)
	if !ok {
		return v
	}
	if r := fieldOfLocal(al, fa.Field, 0); r != nil {
		return r
	}
	return v
}

func fieldOfLocal(al *ssa.Alloc, field, depth int) ssa.Value {
	if al.Referrers() == nil || depth > 4 {
		return nil
	}
	var fieldStores, wholeStores []*ssa.Store
	for _, r := range *al.Referrers() {
		switch x := r.(type) {
		case *ssa.FieldAddr:
			if x.Field != field || x.Referrers() == nil {
				continue
			}
			for _, rr := range *x.Referrers() {
				if st, ok := rr.(*ssa.Store); ok && st.Addr == ssa.Value(x) {
					fieldStores = append(fieldStores, st)
				}
			}
		case *ssa.Store:
			if x.Addr == ssa.Value(al) {
				wholeStores = append(wholeStores, x)
			}
		}
	}
	switch {
	case len(fieldStores) == 1 && len(wholeStores) == 0:
		return Forward(fieldStores[0].Val)
	case len(fieldStores) == 0 && len(wholeStores) == 1:
		if u, ok := Strip(wholeStores[0].Val).(*ssa.UnOp); ok && u.Op == token.MUL {
			if src, ok := u.X.(*ssa.Alloc); ok {
				return fieldOfLocal(src, field, depth+1)
			}
		}
	}
	return nil
}
