package core

import (
	"strings"
	"testing"

	"golang.org/x/tools/go/ssa"
)

const lockSrc18 = `package t
import "sync"
type T struct { mu sync.Mutex; rw sync.RWMutex; n int }
func Guard(l sync.Locker, fn func()) { l.Lock(); defer l.Unlock(); fn() }
func (t *T) ViaGuard()   { Guard(&t.mu, func() { t.n++ }) }
func (t *T) WrongGuard() { var o sync.Mutex; Guard(&o, func() { t.n++ }) }
func (t *T) DeferredAfterUnlock() { t.mu.Lock(); defer func() { t.n++ }(); t.mu.Unlock() }
func (t *T) DeferredUnderLock()   { t.mu.Lock(); defer t.mu.Unlock(); defer func() { t.n++ }() }
func (t *T) DeferredBeforeLock()  { defer func() { t.n++ }(); t.mu.Lock(); defer t.mu.Unlock() }
func (t *T) DeferredCleanup()     { defer func() { t.mu.Lock(); t.n++; t.mu.Unlock() }(); t.mu.Lock(); t.n++; t.mu.Unlock() }
func (t *T) release()    { t.n++; t.mu.Unlock() }
func (t *T) ViaRelease() { t.mu.Lock(); t.release() }
func (t *T) Mismatch()   { t.rw.RLock(); t.rw.Unlock() }
func (t *T) NoUnlock()   { t.mu.Lock(); t.n++ }
func (t *T) EarlyLoop(b bool) int { if b { return 0 }; t.mu.Lock(); defer t.mu.Unlock(); for { if t.n > 0 { return t.n }; t.n++ } }
`

func TestLockEngineDefersAndHelpers(t *testing.T) {
	pkg := build(t, lockSrc18)
	la := &LockAnalysis{entry: map[*ssa.Function]LockSet{}, at: map[ssa.Instruction]LockSet{},
		sum: map[*ssa.Function]*fnSummary{}, Imbalance: map[*ssa.Function]string{}, inPkg: map[*ssa.Function]bool{}, dead: map[*ssa.Function]bool{}}
	la.Funcs = SSAPkgFuncs(pkg.Prog, pkg)
	for _, f := range la.Funcs {
		la.inPkg[f] = true
		la.entry[f] = LockSet{}
	}
	for round := 0; round < 6; round++ {
		for _, f := range la.Funcs {
			la.analyse(f)
		}
		if !la.updateEntries() {
			break
		}
	}
	for _, f := range la.Funcs {
		la.analyse(f)
	}
	bad := map[string]bool{}
	for _, a := range la.CheckGuards([]Guard{{Type: "T", Field: "n", Lock: "mu"}}, nil, nil) {
		if !a.OK {
			bad[a.Fn.String()] = true
		}
	}
	wantBad := map[string]bool{"(*t.T).WrongGuard$1": true, "(*t.T).DeferredAfterUnlock$1": true, "(*t.T).DeferredBeforeLock$1": true}
	for k := range wantBad {
		if !bad[k] {
			t.Errorf("missed unguarded access in %s", k)
		}
	}
	for k := range bad {
		if !wantBad[k] {
			t.Errorf("false alarm in %s", k)
		}
	}
	imb := map[string]bool{}
	for f := range la.Imbalance {
		imb[f.String()] = true
	}
	if !imb["(*t.T).Mismatch"] || len(imb) != 1 {
		t.Errorf("imbalance = %v, want only Mismatch", imb)
	}
	net := map[string]string{}
	for _, f := range la.Funcs {
		if e := la.NetEffect(f); e != "" {
			net[f.String()] = e
		}
	}
	if len(net) != 2 || !strings.Contains(net["(*t.T).release"], "releases t.mu") || !strings.Contains(net["(*t.T).NoUnlock"], "t.mu:W still held") {
		t.Errorf("net effects = %v, want release (releases) and NoUnlock (still held) only", net)
	}
}
