package core

import (
	"bytes"
	"go/types"
	"strings"
	"testing"

	"golang.org/x/tools/go/ssa"
)

const sroaSrc = `package t
import "sync"

type call struct {
	mu   sync.Mutex
	resp int
	done chan struct{}
}

func newCall() *call { return &call{done: make(chan struct{})} }

func (c *call) run(h func() int) {
	c.mu.Lock()
	defer c.mu.Unlock()
	c.resp = h()
	close(c.done)
}

func (c *call) result() int {
	c.mu.Lock()
	defer c.mu.Unlock()
	return c.resp
}

func serve(h func() int) int {
	c := newCall()
	go c.run(h)
	<-c.done
	return c.result()
}

type pending struct{ n *int; start int }
func (p *pending) finish(d int) { *p.n += d - p.start }
func mk(n *int) func(int) {
	p := &pending{n: n, start: 3}
	return p.finish
}

type run struct{ out chan int; err error }
func (r *run) cancel(e error) { r.err = e; close(r.out) }
func (r *run) fin() int { return <-r.out }
func captured(work func(func(error))) int {
	r := &run{out: make(chan int)}
	go work(func(e error) { r.cancel(e) })
	go work(r.cancel)
	return r.fin()
}

type flight struct{ key string; n *int }
func (f flight) land() { *f.n += len(f.key) }
func (f flight) run(fn func()) { defer f.land(); fn() }
func byValue(key string, n *int, fn func()) {
	f := flight{key: key, n: n}
	f.run(fn)
}

type escaping struct{ x int }
var sink *escaping
func leak() { e := &escaping{x: 1}; sink = e; e.x = 2 }
`

func TestScalarReplace(t *testing.T) {
	pkg := build(t, sroaSrc)
	all := SSAPkgFuncs(pkg.Prog, pkg)
	isMethodOrCtor := func(f *ssa.Function) bool {
		switch f.Name() {
		case "newCall", "run", "result", "finish", "cancel", "fin", "land":
			return true
		}
		return false
	}
	for round := 0; round < 3; round++ {
		n := 0
		for _, f := range all {
			n += len(ssa.ClosureizeDeferAndGo(f, isMethodOrCtor))
		}
		if n == 0 {
			break
		}
		all = SSAPkgFuncs(pkg.Prog, pkg)
	}
	for _, f := range all {
		ssa.InlineStaticCalls(f, func(_ *ssa.Call, callee *ssa.Function) bool { return isMethodOrCtor(callee) }, 4)
	}
	for _, f := range all {
		ssa.InlineBoundMethods(f, isMethodOrCtor)
	}
	live := map[string]bool{"serve": true, "mk": true, "leak": true, "captured": true, "byValue": true}
	sites := map[*ssa.Function][]*ssa.MakeClosure{}
	var wrappers []*ssa.Function
	var scan func(f *ssa.Function)
	seen := map[*ssa.Function]bool{}
	scan = func(f *ssa.Function) {
		if seen[f] {
			return
		}
		seen[f] = true
		for _, b := range f.Blocks {
			for _, in := range b.Instrs {
				if mc, ok := in.(*ssa.MakeClosure); ok {
					k := mc.Fn.(*ssa.Function)
					sites[k] = append(sites[k], mc)
					if k.Parent() == nil {
						wrappers = append(wrappers, k)
					}
					scan(k)
				}
			}
		}
	}
	for _, f := range all {
		if live[f.Name()] {
			scan(f)
		}
	}
	want := func(t *types.Named) bool { return true }
	got := map[string]int{}
	for _, f := range all {
		if live[f.Name()] {
			ssa.ElideStructCopies(f, want, sites)
		}
	}
	for _, f := range all {
		if live[f.Name()] {
			got[f.Name()] = ssa.ScalarReplaceStructs(f, want, sites)
		}
	}
	if got["serve"] != 1 || got["mk"] != 1 || got["leak"] != 0 || got["captured"] != 1 || got["byValue"] != 1 {
		t.Errorf("structs split: %v, want serve:1 mk:1 leak:0 captured:1 byValue:1", got)
	}
	var buf bytes.Buffer
	// what is still reachable from the live functions (the inlined originals are dead code)
	reach := map[*ssa.Function]bool{}
	var walk func(f *ssa.Function)
	walk = func(f *ssa.Function) {
		if f == nil || reach[f] || f.Blocks == nil {
			return
		}
		reach[f] = true
		for _, b := range f.Blocks {
			for _, in := range b.Instrs {
				for _, op := range in.Operands(nil) {
					if g, ok := (*op).(*ssa.Function); ok {
						walk(g)
					}
				}
			}
		}
	}
	for _, f := range all {
		if live[f.Name()] {
			walk(f)
		}
	}
	for f := range reach {
		if isMethodOrCtor(f) {
			continue
		}
		if !ssa.SanityCheckFunction(f, &buf) {
			t.Errorf("%s fails go/ssa's sanity check after the transformation:\n%s", f, buf.String())
		}
	}
	// serve: no allocation of the struct is left, the mutex and the channel are cells of their own
	serve := pkg.Func("serve")
	var cells []string
	for _, b := range serve.Blocks {
		for _, in := range b.Instrs {
			if al, ok := in.(*ssa.Alloc); ok {
				cells = append(cells, al.Type().String())
			}
		}
	}
	joined := strings.Join(cells, " ")
	if strings.Contains(joined, "t.call") || !strings.Contains(joined, "*sync.Mutex") || !strings.Contains(joined, "*chan struct{}") {
		t.Errorf("serve allocates %v after splitting", cells)
	}
	// mk: the function value returned is a closure over the fields' cells
	for _, b := range pkg.Func("mk").Blocks {
		for _, in := range b.Instrs {
			if mc, ok := in.(*ssa.MakeClosure); ok {
				if len(mc.Bindings) != 2 {
					t.Errorf("mk: closure binds %d values, want the 2 field cells", len(mc.Bindings))
				}
			}
		}
	}
}
