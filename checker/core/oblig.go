package core

import (
	"encoding/json"
	"fmt"
	"os"
	"path/filepath"
	"regexp"
	"runtime/debug"
	"sort"
	"strings"
	"time"
)

// Verdict of one obligation.
type Verdict string

const (
	Held       Verdict = "held"
	Violated   Verdict = "violated"
	Unresolved Verdict = "unresolved"
)

// O is one obligation: (rule kind, instance, construct) with its verdict.
type O struct {
	Key     string   `json:"obligation"` // e.g. C11-D1/K1/tx-finalised/recover-arm
	Rule    string   `json:"rule"`       // rule text
	Verdict Verdict  `json:"verdict"`
	Sites   int      `json:"matched_sites"`
	Where   []string `json:"where,omitempty"` // constructs inspected (function names, sites)
	Msgs    []string `json:"messages,omitempty"`
	Known   string   `json:"known_finding,omitempty"`

	zeroOK bool
	run    *Run
}

// Run collects the obligations of one property check.
type Run struct {
	Prop  string
	Tier  string
	P     *Prog
	Obl   []*O
	Funcs map[string]bool // functions analysed
	Calls int             // call sites inspected
	start time.Time

	Only *regexp.Regexp // replay: evaluate only matching obligations
	// keep/prefix are set while the obligations of another property's rule table
	// are imported (see Import).
	keep   func(key string) bool
	prefix string

	Explanation string
	NotDecided  string
	Trusted     []string
	Extra       map[string]any
}

// ProcStart is the start of the process (wall time includes loading).
var ProcStart = time.Now()

func NewRun(prop, tier string, p *Prog) *Run {
	return &Run{Prop: prop, Tier: tier, P: p, Funcs: map[string]bool{}, start: ProcStart, Extra: map[string]any{}}
}

// Check evaluates one obligation. A panic inside f, or an obligation that
// neither failed nor matched any site, is reported as unresolved (fail-closed).
func (r *Run) Check(key, rule string, f func(o *O)) *O {
	if r.keep != nil && !r.keep(key) {
		return &O{Key: key, Rule: rule, Verdict: Held, run: r}
	}
	key = r.prefix + key
	o := &O{Key: r.Prop + "-" + key, Rule: rule, Verdict: Held, run: r}
	if r.Only != nil && !r.Only.MatchString(o.Key) {
		return o
	}
	r.Obl = append(r.Obl, o)
	func() {
		defer func() {
			if e := recover(); e != nil {
				o.Verdict = Unresolved
				st := string(debug.Stack())
				if len(st) > 1500 {
					st = st[:1500]
				}
				o.Msgs = append(o.Msgs, fmt.Sprintf("analysis panic: %v\n%s", e, st))
			}
		}()
		f(o)
	}()
	if o.Verdict == Held && o.Sites == 0 && !o.zeroOK {
		o.Verdict = Unresolved
		o.Msgs = append(o.Msgs, "rule matched no site (vacuous): anchor not found on the current tree")
	}
	return o
}

// Import evaluates the obligations of another property's rule table that
// satisfy keep, under this property (keys get the given prefix). Used where a
// property rests on a mechanism whose rules live in another table (the rolling
// window under the breaker, the timing wheel and the single-flight group under
// the caches).
func (r *Run) Import(table func(*Run), prefix string, keep func(key string) bool) {
	expl, nd := r.Explanation, r.NotDecided
	r.keep, r.prefix = keep, prefix
	defer func() {
		r.keep, r.prefix = nil, ""
		r.Explanation, r.NotDecided = expl, nd
	}()
	table(r)
}

// Site records n matched sites (constructs the rule actually inspected).
func (o *O) Site(n int, where ...string) {
	o.Sites += n
	for _, w := range where {
		if len(o.Where) < 12 {
			o.Where = append(o.Where, w)
		}
	}
}

// ZeroOK marks a rule whose expected number of matches is zero (lint style).
func (o *O) ZeroOK() { o.zeroOK = true }

// Fail records a violation with the offending construct.
func (o *O) Fail(where string, format string, a ...any) {
	if o.Verdict != Unresolved {
		o.Verdict = Violated
	}
	o.Msgs = append(o.Msgs, where+": "+fmt.Sprintf(format, a...))
}

// Unres marks the obligation unresolved (anchor vanished, shape not understood).
func (o *O) Unres(format string, a ...any) {
	o.Verdict = Unresolved
	o.Msgs = append(o.Msgs, "UNRESOLVED: "+fmt.Sprintf(format, a...))
}

// Need returns false (and marks unresolved) when the anchor is nil/false.
func (o *O) Need(ok bool, what string) bool {
	if !ok {
		o.Unres("anchor not found: %s", what)
	}
	return ok
}

// OK reports whether the obligation has not failed so far.
func (o *O) OK() bool { return o.Verdict == Held }

// Fn records that a function was analysed.
func (r *Run) Fn(names ...string) {
	for _, n := range names {
		r.Funcs[n] = true
	}
}

// ---- known findings ----

type Finding struct {
	Property   string `json:"property"`
	Obligation string `json:"obligation"` // regexp matched against the obligation key
	Match      string `json:"match"`      // regexp matched against the violation message (construct)
	Status     string `json:"status"`     // "known" | "fixed"
	Commit     string `json:"commit,omitempty"`
	WhatFails  string `json:"what_fails"`
}

func loadFindings(path string) []Finding {
	b, err := os.ReadFile(path)
	if err != nil {
		return nil
	}
	var f struct {
		Findings []Finding `json:"findings"`
	}
	if json.Unmarshal(b, &f) != nil {
		return nil
	}
	return f.Findings
}

// ---- finishing: output, evidence, exit code ----

var keySan = regexp.MustCompile(`[^A-Za-z0-9_.-]+`)

// Failing counts the obligations that are neither held nor covered by a known
// finding (no output, no files).
// FailingObligations lists the obligations that make the run fail (unresolved, or violated
// without a recorded known finding).
func (r *Run) FailingObligations(verifDir string) []*O {
	findings := loadFindings(filepath.Join(verifDir, "known_findings.json"))
	var out []*O
	for _, o := range r.Obl {
		switch o.Verdict {
		case Unresolved:
			out = append(out, o)
		case Violated:
			if knownFor(findings, r.Prop, o) == "" {
				out = append(out, o)
			}
		}
	}
	return out
}

func (r *Run) Failing(verifDir string) int {
	findings := loadFindings(filepath.Join(verifDir, "known_findings.json"))
	n := 0
	for _, o := range r.Obl {
		switch o.Verdict {
		case Held:
		case Unresolved:
			n++
		case Violated:
			if knownFor(findings, r.Prop, o) == "" {
				n++
			}
		}
	}
	return n
}

func knownFor(findings []Finding, prop string, o *O) string {
	msg := strings.Join(o.Msgs, "\n")
	for _, f := range findings {
		if f.Status != "known" || f.Property != prop {
			continue
		}
		ro, e1 := regexp.Compile(f.Obligation)
		rm, e2 := regexp.Compile(f.Match)
		if e1 != nil || e2 != nil {
			continue
		}
		all := true
		for _, m := range o.Msgs {
			if !rm.MatchString(m) {
				all = false
			}
		}
		if ro.MatchString(o.Key) && all && rm.MatchString(msg) {
			return f.WhatFails
		}
	}
	return ""
}

// Finish prints the report, writes evidence and replay files, returns the exit code.
func (r *Run) Finish(verifDir string, seed int64) int {
	findings := loadFindings(filepath.Join(verifDir, "known_findings.json"))
	sort.SliceStable(r.Obl, func(i, j int) bool { return r.Obl[i].Key < r.Obl[j].Key })
	held, viol, unres, known, nontrivial := 0, 0, 0, 0, 0
	distinct := map[string]bool{}
	exit := 0
	os.MkdirAll(filepath.Join(verifDir, "evidence", "replay"), 0o755)
	var knownLines []string
	for _, o := range r.Obl {
		if !distinct[o.Key] && o.Sites > 0 {
			nontrivial++
		}
		distinct[o.Key] = true
		switch o.Verdict {
		case Held:
			held++
			continue
		case Unresolved:
			unres++
		case Violated:
			o.Known = knownFor(findings, r.Prop, o)
			if o.Known != "" {
				known++
				knownLines = append(knownLines, fmt.Sprintf("KNOWN-FINDING: property=%s %s [%s]", r.Prop, o.Known, o.Key))
				continue
			}
			viol++
		}
		exit = 1
		replay := filepath.Join(verifDir, "evidence", "replay", keySan.ReplaceAllString(o.Key, "_")+".json")
		kind := "violation"
		if o.Verdict == Unresolved {
			kind = "unresolved"
		}
		rb, _ := json.MarshalIndent(map[string]any{
			"property": r.Prop, "kind": kind, "obligation": o.Key, "rule": o.Rule,
			"messages": o.Msgs, "where": o.Where, "tier": r.Tier,
			"replay_cmd": fmt.Sprintf("/verif/check %s %s -only '%s'", r.Prop, r.Tier, o.Key),
		}, "", " ")
		os.WriteFile(replay, rb, 0o644)
		fmt.Printf("%s %s\n  rule: %s\n", strings.ToUpper(kind), o.Key, o.Rule)
		for _, m := range o.Msgs {
			fmt.Printf("  %s\n", m)
		}
		fmt.Printf("VIOLATION property=%s replay=%s\n", r.Prop, replay)
	}
	for _, l := range knownLines {
		fmt.Println(l)
	}
	wall := time.Since(r.start).Seconds()
	fmt.Printf("%s %s: obligations=%d held=%d violated=%d unresolved=%d known=%d functions=%d wall=%.1fs\n",
		r.Prop, r.Tier, len(r.Obl), held, viol, unres, known, len(r.Funcs), wall)

	// evidence
	var samples []any
	for i, o := range r.Obl {
		if i%maxInt(1, len(r.Obl)/8) == 0 || o.Verdict != Held {
			samples = append(samples, map[string]any{"obligation": o.Key, "rule": o.Rule, "verdict": o.Verdict,
				"matched_sites": o.Sites, "where": o.Where, "messages": o.Msgs})
		}
	}
	var fns []string
	for f := range r.Funcs {
		fns = append(fns, f)
	}
	sort.Strings(fns)
	var all []any
	totalSites := 0
	for _, o := range r.Obl {
		totalSites += o.Sites
		all = append(all, map[string]any{"obligation": o.Key, "verdict": o.Verdict, "matched_sites": o.Sites})
	}
	cov := map[string]any{
		"explanation":         r.Explanation,
		"not_decided":         r.NotDecided,
		"obligations":         len(r.Obl),
		"discharged":          held,
		"evaluations":         len(r.Obl),
		"distinct_nontrivial": nontrivial,
		"rule": "one obligation = (rule kind, instance, construct) evaluated on the type-checked SSA of /repo's current source; " +
			"non-trivial = the rule matched at least one construct (a rule matching zero constructs is reported unresolved and fails)",
		"samples":            samples,
		"all_obligations":    all,
		"matched_sites":      totalSites,
		"functions_analysed": fns,
		"call_sites":         r.Calls,
		"packages":           len(r.P.Pkgs),
		"checker_cmd":        fmt.Sprintf("/verif/check %s %s", r.Prop, r.Tier),
		"trusted_base":       append([]string{"go/types, go/packages, golang.org/x/tools/go/ssa v0.29.0", "the frozen instance tables in /verif/checker/props (confirmed by reading)"}, r.Trusted...),
		"known_findings":     known,
		"unresolved":         unres,
		"exhaustive":         true,
	}
	for k, v := range r.Extra {
		cov[k] = v
	}
	ev := map[string]any{
		"property_id": r.Prop, "tier": r.Tier, "seed": seed, "level": "other",
		"coverage": cov, "wall_s": wall, "violations": viol + unres,
		"assumptions": []string{
			"structural necessary conditions only: a pass means no structural violation on any path of the analysed functions, not that the behaviour holds",
			"rules are intra-procedural with the explicit summaries named in each rule; no alias analysis beyond access paths",
		},
	}
	eb, _ := json.MarshalIndent(ev, "", " ")
	tmp := filepath.Join(verifDir, "evidence", r.Prop+".json.tmp")
	os.WriteFile(tmp, eb, 0o644)
	os.Rename(tmp, filepath.Join(verifDir, "evidence", r.Prop+".json"))
	return exit
}

func maxInt(a, b int) int {
	if a > b {
		return a
	}
	return b
}
