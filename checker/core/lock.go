package core

import (
	"fmt"
	"go/token"
	"go/types"
	"sort"
	"strings"

	"golang.org/x/tools/go/ssa"
)

// K4: lock-set analysis. Locks and guarded locations are identified by
// canonical access paths ("h.lock", "c.lruCache"); a path names the same
// location in a function and in the closures it creates (free variables keep
// the name of the captured variable) and for a value receiver spilled to a
// local. The analysis is a forward must-hold dataflow per function, with
//   - entry lock-sets for helpers all of whose static in-package call sites
//     hold the lock (mapped through the receiver/arguments), and for closures
//     that are deferred or passed directly to a synchronous call;
//   - one-level summaries of helpers that return with a lock acquired or
//     released on all paths.

// LockPath is the canonical access path of a value ("" when it has none).
func LockPath(v ssa.Value) string {
	return lockPath(v, 0)
}

func lockPath(v ssa.Value, d int) string {
	if d > 12 {
		return ""
	}
	switch x := v.(type) {
	case *ssa.Parameter:
		return x.Name()
	case *ssa.FreeVar:
		return x.Name()
	case *ssa.Global:
		return "global:" + x.Pkg.Pkg.Path() + "." + x.Name()
	case *ssa.Alloc:
		if x.Comment != "" && x.Comment != "complit" && !strings.HasPrefix(x.Comment, "new") {
			return x.Comment
		}
		return fmt.Sprintf("fresh@%d", x.Pos())
	case *ssa.FieldAddr:
		b := lockPath(x.X, d+1)
		if b == "" {
			return ""
		}
		return b + "." + fieldVar(x.X.Type(), x.Field).Name()
	case *ssa.Field:
		b := lockPath(x.X, d+1)
		if b == "" {
			return ""
		}
		return b + "." + fieldVar(x.X.Type(), x.Field).Name()
	case *ssa.UnOp:
		if x.Op == token.MUL {
			// a load of a single-assignment local that no closure captures (`r := vn.ring`, the cell a
			// split struct field became) names the object the assigned value names
			if al, ok := x.X.(*ssa.Alloc); ok {
				if st := soleStoreUncaptured(al); st != nil {
					if p := lockPath(st.Val, d+1); p != "" && !strings.HasPrefix(p, "fresh@") && !strings.HasPrefix(p, "call@") && !strings.HasPrefix(p, "phi@") {
						return p
					}
				}
			}
			return lockPath(x.X, d+1)
		}
	case *ssa.ChangeType:
		return lockPath(x.X, d+1)
	case *ssa.MakeInterface:
		return lockPath(x.X, d+1)
	case *ssa.ChangeInterface:
		return lockPath(x.X, d+1)
	case *ssa.IndexAddr:
		b := lockPath(x.X, d+1)
		if b != "" {
			return b + "[]"
		}
	case *ssa.Lookup:
		b := lockPath(x.X, d+1)
		if b != "" {
			return b + "[]"
		}
	case *ssa.Call:
		return fmt.Sprintf("call@%d", x.Pos())
	case *ssa.Extract:
		return lockPath(x.Tuple, d+1) + fmt.Sprintf("#%d", x.Index)
	case *ssa.Phi:
		return fmt.Sprintf("phi@%s", x.Comment)
	case *ssa.TypeAssert:
		return lockPath(x.X, d+1)
	}
	return ""
}

// soleStoreUncaptured returns the only store to a local whose address is used for nothing but
// that store and loads (not captured by a closure, not passed on), else nil.
func soleStoreUncaptured(al *ssa.Alloc) *ssa.Store {
	if al.Referrers() == nil {
		return nil
	}
	var st *ssa.Store
	for _, r := range *al.Referrers() {
		switch x := r.(type) {
		case *ssa.Store:
			if x.Addr != ssa.Value(al) || st != nil {
				return nil
			}
			st = x
		case *ssa.UnOp:
			if x.Op != token.MUL {
				return nil
			}
		case *ssa.DebugRef:
		default:
			return nil
		}
	}
	return st
}

// isFreshBase reports whether the root of an access path is an object
// allocated in the same function (constructor: not yet shared).
func isFreshBase(v ssa.Value) bool {
	for i := 0; i < 12; i++ {
		switch x := v.(type) {
		case *ssa.Alloc:
			// a spilled parameter is not fresh
			for _, r := range *x.Referrers() {
				if st, ok := r.(*ssa.Store); ok && st.Addr == x {
					if _, isP := st.Val.(*ssa.Parameter); isP {
						return false
					}
				}
			}
			return x.Comment == "complit" || strings.HasPrefix(x.Comment, "new") || x.Heap && x.Comment == ""
		case *ssa.FieldAddr:
			v = x.X
		case *ssa.Field:
			v = x.X
		case *ssa.UnOp:
			if x.Op != token.MUL {
				return false
			}
			// load of a local variable holding a fresh object
			if al, ok := x.X.(*ssa.Alloc); ok {
				var st *ssa.Store
				n := 0
				for _, r := range *al.Referrers() {
					if s, ok := r.(*ssa.Store); ok && s.Addr == al {
						st, n = s, n+1
					}
				}
				if n == 1 {
					v = st.Val
					continue
				}
				return false
			}
			v = x.X
		case *ssa.ChangeType:
			v = x.X
		case *ssa.MakeInterface:
			v = x.X
		default:
			return false
		}
	}
	return false
}

type lockKind byte

const (
	lockW lockKind = 'W'
	lockR lockKind = 'R'
)

// lockOp classifies a call as an operation on a lock.
func lockOp(c ssa.CallInstruction) (path string, kind lockKind, acquire, ok bool) {
	name := Short(CalleeName(c))
	var k lockKind
	var acq bool
	switch name {
	case "(*sync.Mutex).Lock", "(*sync.RWMutex).Lock", "(sync.Locker).Lock", "(*lib/syncx.SpinLock).Lock":
		k, acq = lockW, true
	case "(*sync.Mutex).Unlock", "(*sync.RWMutex).Unlock", "(sync.Locker).Unlock", "(*lib/syncx.SpinLock).Unlock":
		k, acq = lockW, false
	case "(*sync.RWMutex).RLock":
		k, acq = lockR, true
	case "(*sync.RWMutex).RUnlock":
		k, acq = lockR, false
	default:
		return "", 0, false, false
	}
	args := Args(c)
	if len(args) == 0 {
		return "", 0, false, false
	}
	return LockPath(args[0]), k, acq, true
}

// LockSet maps a lock path to the strongest kind held on all paths.
type LockSet map[string]lockKind

func (s LockSet) clone() LockSet {
	r := LockSet{}
	for k, v := range s {
		r[k] = v
	}
	return r
}

func (s LockSet) String() string {
	var ks []string
	for k, v := range s {
		ks = append(ks, k+":"+string(v))
	}
	sort.Strings(ks)
	return "{" + strings.Join(ks, ",") + "}"
}

func meet(a, b LockSet) LockSet {
	r := LockSet{}
	for k, v := range a {
		if w, ok := b[k]; ok {
			if v == lockR || w == lockR {
				r[k] = lockR
			} else {
				r[k] = lockW
			}
		}
	}
	return r
}

func sameSet(a, b LockSet) bool {
	if len(a) != len(b) {
		return false
	}
	for k, v := range a {
		if b[k] != v {
			return false
		}
	}
	return true
}

// fnSummary is the net lock effect of a helper on all its normal paths.
type fnSummary struct {
	acquired LockSet         // held at every return though not at entry
	released map[string]bool // unlocked although not acquired inside
}

// LockAnalysis holds per-package results.
type LockAnalysis struct {
	P     *Prog
	Funcs []*ssa.Function
	entry map[*ssa.Function]LockSet
	at    map[ssa.Instruction]LockSet // lock-set before each instruction of interest
	sum   map[*ssa.Function]*fnSummary
	// Imbalance records functions whose returns disagree on the lock-set.
	Imbalance map[*ssa.Function]string
	inPkg     map[*ssa.Function]bool
	// deferAt: lock-set holding when the deferred call d starts running at the
	// function exit rd (after the calls deferred later than d have run).
	deferAt map[deferKey]LockSet
	// dead: unexported functions with no caller at all (never executed; not checked)
	dead map[*ssa.Function]bool
}

type deferKey struct {
	rd *ssa.RunDefers
	d  *ssa.Defer
}

// NewLockAnalysis analyses the functions of the given packages together.
func NewLockAnalysis(p *Prog, rels ...string) *LockAnalysis {
	la := &LockAnalysis{P: p, entry: map[*ssa.Function]LockSet{}, at: map[ssa.Instruction]LockSet{},
		sum: map[*ssa.Function]*fnSummary{}, Imbalance: map[*ssa.Function]string{}, inPkg: map[*ssa.Function]bool{},
		deferAt: map[deferKey]LockSet{}, dead: map[*ssa.Function]bool{}}
	for _, rel := range rels {
		la.Funcs = append(la.Funcs, p.PkgFuncs(rel)...)
	}
	for _, f := range la.Funcs {
		la.inPkg[f] = true
		la.entry[f] = LockSet{}
	}
	for round := 0; round < 6; round++ {
		for _, f := range la.Funcs {
			la.analyse(f)
		}
		if !la.updateEntries() {
			break
		}
	}
	for _, f := range la.Funcs {
		la.analyse(f)
	}
	return la
}

// Held returns the lock-set holding before instruction in.
func (la *LockAnalysis) Held(in ssa.Instruction) LockSet { return la.at[in] }

// Entry returns the inferred entry lock-set of f.
func (la *LockAnalysis) Entry(f *ssa.Function) LockSet { return la.entry[f] }

func (la *LockAnalysis) analyse(f *ssa.Function) {
	if la.deferAt == nil {
		la.deferAt = map[deferKey]LockSet{}
	}
	in := map[*ssa.BasicBlock]LockSet{}
	in[f.Blocks[0]] = la.entry[f].clone()
	work := []*ssa.BasicBlock{f.Blocks[0]}
	out := map[*ssa.BasicBlock]LockSet{}
	released := map[string]bool{}
	var notes []string
	// apply is the transfer function of one (possibly deferred) call.
	apply := func(c ssa.CallInstruction, cur LockSet) {
		if path, k, acq, ok := lockOp(c); ok {
			if path == "" {
				return
			}
			if acq {
				cur[path] = k
			} else {
				if hk, held := cur[path]; !held {
					released[path] = true
				} else if hk != k {
					if n := fmt.Sprintf("%s held as %c is released as %c", path, hk, k); !strings.Contains(strings.Join(notes, ";"), n) {
						notes = append(notes, n)
					}
				}
				delete(cur, path)
			}
			return
		}
		// helper summaries (static callees, directly called or deferred closures)
		if callee := c.Common().StaticCallee(); callee != nil && la.inPkg[callee] {
			if s := la.sum[callee]; s != nil {
				m := argMap(callee, c)
				for p, k := range s.acquired {
					if q := mapPath(p, m); q != "" {
						cur[q] = k
					}
				}
				for p := range s.released {
					if q := mapPath(p, m); q != "" {
						if _, held := cur[q]; !held {
							released[q] = true
						}
						delete(cur, q)
					}
				}
			}
		}
	}
	for len(work) > 0 {
		b := work[0]
		work = work[1:]
		cur := in[b].clone()
		for _, ins := range b.Instrs {
			la.at[ins] = cur.clone()
			switch x := ins.(type) {
			case *ssa.Call:
				apply(x, cur)
			case *ssa.RunDefers:
				// Function exit: the deferred calls run here, last registered first.
				// (Before this, a `defer mu.Unlock()` was only discounted in the helper
				// summary, so `if x == nil { return }; mu.Lock(); defer mu.Unlock()`
				// was reported as unbalanced, and a deferred closure was given the
				// lock-set of the defer statement instead of the one at the exit.)
				for _, d := range pendingDefers(f, x) {
					la.deferAt[deferKey{x, d}] = cur.clone()
					apply(d, cur)
				}
			}
		}
		if old, ok := out[b]; ok && sameSet(old, cur) {
			continue
		}
		out[b] = cur
		for _, s := range b.Succs {
			if prev, ok := in[s]; ok {
				m := meet(prev, cur)
				if !sameSet(m, prev) {
					in[s] = m
					work = append(work, s)
				}
			} else {
				in[s] = cur.clone()
				work = append(work, s)
			}
		}
	}
	// summary + balance: lock-set at returns relative to entry
	var exit LockSet
	first := true
	delete(la.Imbalance, f)
	for _, b := range f.Blocks {
		if _, ok := b.Instrs[len(b.Instrs)-1].(*ssa.Return); !ok {
			continue
		}
		o, ok := out[b]
		if !ok {
			continue // unreachable
		}
		if first {
			exit, first = o.clone(), false
		} else {
			if !sameSet(exit, o) {
				la.Imbalance[f] = fmt.Sprintf("returns with %s on one path and %s on another", exit, o)
			}
			exit = meet(exit, o)
		}
	}
	// a lock held at entry (by every caller) and no longer at the returns has
	// been released by f — whether or not the analysis already knows that the
	// callers hold it (the summary must not change once the entry set is known).
	if !first {
		for k := range la.entry[f] {
			if _, still := exit[k]; !still {
				released[k] = true
			}
		}
	}
	if len(notes) > 0 {
		sort.Strings(notes)
		if m := la.Imbalance[f]; m != "" {
			notes = append([]string{m}, notes...)
		}
		la.Imbalance[f] = strings.Join(notes, "; ")
	}
	s := &fnSummary{acquired: LockSet{}, released: released}
	for k, v := range exit {
		if _, atEntry := la.entry[f][k]; !atEntry {
			s.acquired[k] = v // deferred unlocks have already run at RunDefers
		}
	}
	la.sum[f] = s
}

// NetEffect describes the locks f holds at its returns without having held
// them at entry, and the locks it releases without having acquired them
// ("" = balanced). Only helpers all of whose callers are analysed (their
// summary is applied at the call sites) may legitimately have an effect.
func (la *LockAnalysis) NetEffect(f *ssa.Function) string {
	s := la.sum[f]
	if s == nil {
		return ""
	}
	var parts []string
	for k, v := range s.acquired {
		parts = append(parts, fmt.Sprintf("returns with %s:%c still held", k, v))
	}
	for k := range s.released {
		parts = append(parts, fmt.Sprintf("releases %s which it did not acquire", k))
	}
	sort.Strings(parts)
	return strings.Join(parts, "; ")
}

// pendingDefers lists the defer statements of f that are executed on every
// path to the exit rd (they dominate it), in the order they run there (last
// registered first). A conditionally registered defer is ignored: the lock it
// would release is, by the must-hold meet, not held at rd on all paths anyway.
func pendingDefers(f *ssa.Function, rd *ssa.RunDefers) []*ssa.Defer {
	var out []*ssa.Defer
	for _, b := range f.Blocks {
		for _, in := range b.Instrs {
			if d, ok := in.(*ssa.Defer); ok && Dominates(d, rd) {
				out = append(out, d)
			}
		}
	}
	sort.SliceStable(out, func(i, j int) bool { return out[i] != out[j] && Dominates(out[j], out[i]) })
	return out
}

// closureEntry: the lock-set a closure starts with, in the closure's own name space. A literal
// names a captured variable as its parent does; a bound-method wrapper (x.m used as a value, the
// method's body inlined into it on a variant) calls its receiver "recv" (or the method's receiver
// name): paths rooted at the bound value are restated on the free variable.
func closureEntry(mc *ssa.MakeClosure, s LockSet) LockSet {
	fn, ok := mc.Fn.(*ssa.Function)
	if !ok {
		return s
	}
	out, cloned := s, false
	for j, fv := range fn.FreeVars {
		if j >= len(mc.Bindings) {
			break
		}
		bp := LockPath(mc.Bindings[j])
		if bp == "" || bp == fv.Name() || strings.HasPrefix(bp, "fresh@") || strings.HasPrefix(bp, "call@") || strings.HasPrefix(bp, "phi@") {
			continue
		}
		for p, k := range s {
			if p == bp || strings.HasPrefix(p, bp+".") || strings.HasPrefix(p, bp+"[") {
				if !cloned {
					out, cloned = s.clone(), true
				}
				out[fv.Name()+p[len(bp):]] = k
			}
		}
	}
	return out
}

// genericBody: a call to an instance of a generic function is a call of the generic body the
// package lists (entry lock-sets and liveness are kept per source function).
func genericBody(f *ssa.Function) *ssa.Function {
	if f != nil && f.Origin() != nil {
		return f.Origin()
	}
	return f
}

// argMap maps callee parameter names to caller argument paths.
func argMap(callee *ssa.Function, c ssa.CallInstruction) map[string]string {
	m := map[string]string{}
	args := c.Common().Args
	// a closure names a captured variable as its parent does
	for _, fv := range callee.FreeVars {
		m[fv.Name()] = fv.Name()
	}
	for i, p := range callee.Params {
		if i < len(args) {
			if ap := LockPath(args[i]); ap != "" {
				m[p.Name()] = ap
			}
		}
	}
	return m
}

// mapPath rewrites a callee path into the caller's name space.
func mapPath(p string, m map[string]string) string {
	if strings.HasPrefix(p, "global:") {
		return p
	}
	head, rest := p, ""
	if i := strings.IndexAny(p, ".["); i >= 0 {
		head, rest = p[:i], p[i:]
	}
	if a, ok := m[head]; ok {
		return a + rest
	}
	return ""
}

// invPath rewrites a caller path into the callee's name space.
func invPath(p string, m map[string]string) string {
	if strings.HasPrefix(p, "global:") {
		return p
	}
	best, bestLen := "", -1
	for param, arg := range m {
		if p == arg || strings.HasPrefix(p, arg+".") || strings.HasPrefix(p, arg+"[") {
			if len(arg) > bestLen {
				best, bestLen = param+p[len(arg):], len(arg)
			}
		}
	}
	return best
}

// updateEntries recomputes entry lock-sets of helpers and synchronous closures.
func (la *LockAnalysis) updateEntries() bool {
	type acc struct {
		set   LockSet
		sites int
		bad   bool
	}
	accs := map[*ssa.Function]*acc{}
	get := func(f *ssa.Function) *acc {
		a := accs[f]
		if a == nil {
			a = &acc{}
			accs[f] = a
		}
		return a
	}
	add := func(f *ssa.Function, s LockSet) {
		a := get(f)
		if a.sites == 0 {
			a.set = s
		} else {
			a.set = meet(a.set, s)
		}
		a.sites++
	}
	for _, f := range la.Funcs {
		for _, b := range f.Blocks {
			for _, in := range b.Instrs {
				held := la.at[in]
				if held == nil {
					held = LockSet{}
				}
				switch x := in.(type) {
				case *ssa.Call:
					if callee := genericBody(x.Call.StaticCallee()); callee != nil && la.inPkg[callee] && callee.Parent() == nil {
						m := argMap(callee, x)
						s := LockSet{}
						for p, k := range held {
							if q := invPath(p, m); q != "" {
								s[q] = k
							}
						}
						add(callee, s)
					}
					// closures passed directly as arguments run synchronously with the caller's lock-set,
					// plus the locks an in-package callee holds where it calls that parameter
					// (syncx.Guard(lock, fn): fn runs under the caller's lock expression)
					for i, a := range x.Call.Args {
						if mc, ok := a.(*ssa.MakeClosure); ok {
							s := held.clone()
							if callee := genericBody(x.Call.StaticCallee()); callee != nil && la.inPkg[callee] {
								for k, v := range la.heldAtParamCalls(callee, i, argMap(callee, x)) {
									s[k] = v
								}
							}
							add(mc.Fn.(*ssa.Function), closureEntry(mc, s))
						}
					}
					if mc, ok := x.Call.Value.(*ssa.MakeClosure); ok {
						add(mc.Fn.(*ssa.Function), closureEntry(mc, held.clone()))
					}
				case *ssa.Defer:
					if mc, ok := x.Call.Value.(*ssa.MakeClosure); ok {
						// a deferred closure starts with the lock-set of the exits it runs at
						n := 0
						for k, s := range la.deferAt {
							if k.d == x {
								add(mc.Fn.(*ssa.Function), closureEntry(mc, s.clone()))
								n++
							}
						}
						if n == 0 {
							add(mc.Fn.(*ssa.Function), LockSet{})
						}
					}
					if callee := genericBody(x.Call.StaticCallee()); callee != nil && la.inPkg[callee] && callee.Parent() == nil {
						// a deferred helper (`defer pe.unlockAndGuard()`) starts, like a deferred
						// closure, with the lock-set of the exits it runs at (in its own name space)
						n := 0
						m := argMap(callee, x)
						for k, s := range la.deferAt {
							if k.d == x {
								ms := LockSet{}
								for p, kk := range s {
									if q := invPath(p, m); q != "" {
										ms[q] = kk
									}
								}
								add(callee, ms)
								n++
							}
						}
						if n == 0 {
							get(callee).bad = true
						}
					}
				case *ssa.Go:
					if mc, ok := x.Call.Value.(*ssa.MakeClosure); ok {
						get(mc.Fn.(*ssa.Function)).bad = true
					}
					if callee := genericBody(x.Call.StaticCallee()); callee != nil && la.inPkg[callee] {
						get(callee).bad = true
					}
					for _, a := range x.Call.Args {
						if mc, ok := a.(*ssa.MakeClosure); ok {
							get(mc.Fn.(*ssa.Function)).bad = true
						}
					}
				}
				// a function used as a value (not called) may be invoked from anywhere
				for _, op := range in.Operands(nil) {
					if *op == nil {
						continue
					}
					fv, ok := (*op).(*ssa.Function)
					if mcIn, isMC := in.(*ssa.MakeClosure); isMC {
						ok = false
						// a bound-method value (x.m used as a function value) is a synthetic
						// wrapper around the method: the method may be invoked from anywhere
						if w, isF := mcIn.Fn.(*ssa.Function); isF && w.Synthetic != "" && w.Object() != nil {
							if tf, isTF := w.Object().(*types.Func); isTF {
								if target := w.Prog.FuncValue(tf); target != nil && la.inPkg[target] {
									get(target).bad = true
								}
							}
						}
					}
					// method expressions / thunks used as values
					if ok && !la.inPkg[fv] && fv.Synthetic != "" && fv.Object() != nil {
						if tf, isTF := fv.Object().(*types.Func); isTF {
							if target := fv.Prog.FuncValue(tf); target != nil && la.inPkg[target] {
								if c, isCall := in.(ssa.CallInstruction); !isCall || c.Common().Value != ssa.Value(fv) {
									get(target).bad = true
								}
							}
						}
					}
					if ok && la.inPkg[fv] {
						if c, isCall := in.(ssa.CallInstruction); isCall && c.Common().Value == fv {
							continue
						}
						get(fv).bad = true
					}
					if mc, ok := (*op).(*ssa.MakeClosure); ok {
						// closure stored or returned: unknown caller — unless it is the call/defer operand handled above
						switch y := in.(type) {
						case *ssa.Call:
							_ = y
						case *ssa.Defer:
						case *ssa.Go:
						default:
							get(mc.Fn.(*ssa.Function)).bad = true
						}
					}
				}
			}
		}
	}
	changed := false
	for _, f := range la.Funcs {
		a := accs[f]
		la.dead[f] = (a == nil || (a.sites == 0 && !a.bad)) && f.Parent() == nil && f.Object() != nil &&
			!f.Object().Exported() && !isInitFunc(f) && f.Name() != "main" && !mayBeInvoked(f)
		var ns LockSet
		switch {
		case a == nil || a.bad || a.sites == 0:
			ns = LockSet{}
		case f.Parent() == nil && f.Object() != nil && f.Object().Exported() && !isMethodOfUnexported(f):
			ns = LockSet{} // exported API can be called from outside the package
		default:
			ns = a.set
		}
		if !sameSet(ns, la.entry[f]) {
			la.entry[f] = ns
			changed = true
		}
	}
	return changed
}

// heldAtParamCalls returns the locks (renamed into the caller's name space
// through m) that callee holds at every place where it calls its i-th
// parameter; empty unless the parameter is used for nothing but such calls.
func (la *LockAnalysis) heldAtParamCalls(callee *ssa.Function, i int, m map[string]string) LockSet {
	if i >= len(callee.Params) || callee.Params[i].Referrers() == nil {
		return nil
	}
	var set LockSet
	for _, r := range *callee.Params[i].Referrers() {
		c, ok := r.(*ssa.Call)
		if !ok || c.Call.Value != ssa.Value(callee.Params[i]) {
			return nil // stored, passed on, deferred or started as a goroutine: unknown
		}
		h := la.at[c]
		if h == nil {
			return nil
		}
		if set == nil {
			set = h.clone()
		} else {
			set = meet(set, h)
		}
	}
	out := LockSet{}
	for p, k := range set {
		if q := mapPath(p, m); q != "" {
			out[q] = k
		}
	}
	return out
}

// mayBeInvoked: f is a method whose name occurs in some interface declared in
// its package (it may be called through that interface without a static call site).
func mayBeInvoked(f *ssa.Function) bool {
	if f.Signature.Recv() == nil || f.Pkg == nil {
		return false
	}
	scope := f.Pkg.Pkg.Scope()
	for _, n := range scope.Names() {
		tn, ok := scope.Lookup(n).(*types.TypeName)
		if !ok {
			continue
		}
		it, ok := tn.Type().Underlying().(*types.Interface)
		if !ok {
			continue
		}
		for i := 0; i < it.NumMethods(); i++ {
			// same name AND same signature (types.Identical ignores receivers): a new method that merely
			// shares its name with a method of an in-package interface cannot be invoked through it
			if m := it.Method(i); m.Name() == f.Name() && types.Identical(m.Type(), f.Signature) {
				return true
			}
		}
	}
	// struct fields / parameters of interface type declared inline are rare here; be conservative for exported names
	return f.Object() != nil && f.Object().Exported()
}

func isMethodOfUnexported(f *ssa.Function) bool {
	recv := f.Signature.Recv()
	if recv == nil {
		return false
	}
	t := recv.Type()
	if p, ok := t.(*types.Pointer); ok {
		t = p.Elem()
	}
	n, ok := t.(*types.Named)
	return ok && !n.Obj().Exported()
}

// Guard declares that field Type.Field may only be touched while the lock at
// sibling path Lock (relative to the same base object) is held. Lock may also
// be "global:<pkgpath>.<name>" for a package-level lock.
type Guard struct {
	Type, Field string
	Lock        string
	// WriteOnly: only mutations need the lock (reads are intentionally racy/atomic).
	WriteOnly bool
}

// GlobalGuard declares that the package-level variable Var is guarded by package-level lock Lock.
type GlobalGuard struct{ Pkg, Var, Lock string }

// Access is one guarded access found.
type Access struct {
	In    ssa.Instruction
	Fn    *ssa.Function
	What  string
	Write bool
	Need  string
	Held  LockSet
	OK    bool
}

// CheckGuards evaluates the guarded-by tables over all analysed functions.
// exempt lists functions (by FuncName) that are legitimately lock-free with a reason.
func (la *LockAnalysis) CheckGuards(guards []Guard, globals []GlobalGuard, exempt map[string]string) []Access {
	gm := map[string]Guard{}
	for _, g := range guards {
		gm[g.Type+"."+g.Field] = g
	}
	var out []Access
	for _, f := range la.Funcs {
		if _, ok := exempt[FuncName(f)]; ok {
			continue
		}
		if la.dead[f] {
			continue
		}
		for _, b := range f.Blocks {
			for _, in := range b.Instrs {
				var base ssa.Value
				var name string
				switch x := in.(type) {
				case *ssa.FieldAddr:
					base, name = x.X, FieldAddrName(x)
				case *ssa.Field:
					base, name = x.X, FieldAddrName(x)
				default:
					// package-level guarded variables
					for _, gg := range globals {
						for _, op := range in.Operands(nil) {
							if g, ok := (*op).(*ssa.Global); ok && g.Name() == gg.Var && g.Pkg.Pkg.Path() == Mod+"/"+gg.Pkg {
								need := "global:" + Mod + "/" + gg.Pkg + "." + gg.Lock
								held := la.at[in]
								_, ok := held[need]
								w := isGlobalWrite(in, g)
								if ok && w && held[need] == lockR {
									ok = false
								}
								out = append(out, Access{In: in, Fn: f, What: gg.Pkg + "." + gg.Var, Write: w, Need: need, Held: held, OK: ok || isInitFunc(f)})
							}
						}
					}
					continue
				}
				g, ok := gm[name]
				if !ok {
					continue
				}
				if isFreshBase(base) {
					continue
				}
				bp := LockPath(base)
				need := bp + "." + g.Lock
				if strings.HasPrefix(g.Lock, "global:") {
					need = g.Lock
				}
				write := isWriteAccess(in.(ssa.Value))
				if onlyAtomic(in.(ssa.Value)) {
					continue
				}
				if g.WriteOnly && !write {
					continue
				}
				held := la.at[in]
				k, has := held[need]
				okAcc := has && (!write || k == lockW)
				out = append(out, Access{In: in, Fn: f, What: name, Write: write, Need: need, Held: held, OK: okAcc})
			}
		}
	}
	return out
}

func isInitFunc(f *ssa.Function) bool {
	return f.Name() == "init" || strings.HasPrefix(f.Name(), "init#")
}

func isGlobalWrite(in ssa.Instruction, g *ssa.Global) bool {
	if st, ok := in.(*ssa.Store); ok && st.Addr == g {
		return true
	}
	if l, ok := in.(*ssa.UnOp); ok && l.X == g {
		return valueMutated(l)
	}
	return false
}

// isWriteAccess reports whether the location addressed by v (a FieldAddr) is
// written: stored to directly, or loaded as a map/slice that is then mutated.
func isWriteAccess(v ssa.Value) bool {
	refs := v.Referrers()
	if refs == nil {
		return false
	}
	for _, r := range *refs {
		switch x := r.(type) {
		case *ssa.Store:
			if x.Addr == v {
				return true
			}
		case *ssa.UnOp:
			if x.Op == token.MUL && valueMutated(x) {
				return true
			}
		case *ssa.FieldAddr:
			if isWriteAccess(x) {
				return true
			}
		case *ssa.IndexAddr:
			if isWriteAccess(x) {
				return true
			}
		}
	}
	return false
}

// valueMutated: a loaded map/pointer value that is updated in place.
func valueMutated(v ssa.Value) bool {
	refs := v.Referrers()
	if refs == nil {
		return false
	}
	for _, r := range *refs {
		switch x := r.(type) {
		case *ssa.MapUpdate:
			if x.Map == v {
				return true
			}
		case *ssa.Call:
			if b, ok := x.Call.Value.(*ssa.Builtin); ok && b.Name() == "delete" && len(x.Call.Args) > 0 && x.Call.Args[0] == v {
				return true
			}
		case *ssa.IndexAddr:
			if x.X == v && isWriteAccess(x) {
				return true
			}
		}
	}
	return false
}

// onlyAtomic: the field address is used only as an argument of sync/atomic calls.
func onlyAtomic(v ssa.Value) bool {
	refs := v.Referrers()
	if refs == nil || len(*refs) == 0 {
		return false
	}
	for _, r := range *refs {
		c, ok := r.(ssa.CallInstruction)
		if !ok {
			return false
		}
		n := CalleeName(c)
		if !strings.HasPrefix(n, "sync/atomic.") && !strings.HasPrefix(n, "(*sync/atomic.") {
			return false
		}
	}
	return true
}

// CallGuard declares that calls matched by Callee whose receiver path ends in
// ".RecvField" need the sibling lock.
type CallGuard struct {
	Callee    func(ssa.Instruction) bool
	RecvField string // e.g. "lruCache": receiver path must be <base>.lruCache
	Lock      string
}

// CheckCallGuards evaluates call guards.
func (la *LockAnalysis) CheckCallGuards(cgs []CallGuard, exempt map[string]string) []Access {
	var out []Access
	for _, f := range la.Funcs {
		if _, ok := exempt[FuncName(f)]; ok {
			continue
		}
		if la.dead[f] {
			continue
		}
		for _, b := range f.Blocks {
			for _, in := range b.Instrs {
				c := AsCall(in)
				if c == nil {
					continue
				}
				for _, cg := range cgs {
					if !cg.Callee(in) {
						continue
					}
					args := Args(c)
					if len(args) == 0 {
						continue
					}
					if isFreshBase(args[0]) {
						continue
					}
					rp := LockPath(args[0])
					base := rp
					if cg.RecvField != "" {
						if !strings.HasSuffix(rp, "."+cg.RecvField) {
							continue
						}
						base = strings.TrimSuffix(rp, "."+cg.RecvField)
					}
					need := base + "." + cg.Lock
					held := la.at[in]
					k, has := held[need]
					out = append(out, Access{In: in, Fn: f, What: "call " + Short(CalleeName(c)), Write: true, Need: need, Held: held, OK: has && k == lockW})
				}
			}
		}
	}
	return out
}

// ReportAccesses turns access results into obligation failures.
func ReportAccesses(o *O, p *Prog, acc []Access) {
	fnSet := map[string]bool{}
	for _, a := range acc {
		fnSet[FuncName(a.Fn)] = true
		if !a.OK {
			rw := "read"
			if a.Write {
				rw = "write"
			}
			o.Fail(p.InstrPos(a.In), "%s of %s in %s without %s held (held: %s)", rw, a.What, FuncName(a.Fn), a.Need, a.Held)
		}
	}
	var fs []string
	for f := range fnSet {
		fs = append(fs, f)
	}
	sort.Strings(fs)
	o.Site(len(acc), fs...)
	if o.run != nil {
		o.run.Fn(fs...)
	}
}
