// autorefactor applies a behaviour-preserving, type-directed source
// transformation to every non-test file of the main-module packages below a
// scratch copy of the repository. It is used to test the checks for false
// alarms: after any of these transformations every check must stay silent.
//
//	autorefactor -repo <scratch copy> -t rename|negate|reorder|temps [-pkgs lib/...,api/...]
package main

import (
	"flag"
	"fmt"
	"go/ast"
	"go/format"
	"go/token"
	"go/types"
	"os"
	"sort"
	"strings"

	"golang.org/x/tools/go/packages"
)

func main() {
	repo := flag.String("repo", "", "scratch copy of the repository (modified in place)")
	t := flag.String("t", "rename", "transformation: rename|negate|reorder")
	only := flag.String("pkgs", "", "comma-separated package path substrings to restrict to")
	flag.Parse()
	env := append(os.Environ(), "GOFLAGS=", "GOWORK=off", "GOPROXY=off", "GOSUMDB=off", "GOTOOLCHAIN=local")
	cfg := &packages.Config{Mode: packages.NeedName | packages.NeedFiles | packages.NeedCompiledGoFiles | packages.NeedSyntax |
		packages.NeedTypes | packages.NeedTypesInfo | packages.NeedImports, Dir: *repo, Env: env, BuildFlags: []string{"-mod=readonly", "-trimpath"}}
	pkgs, err := packages.Load(cfg, "./...")
	if err != nil {
		fmt.Println(err)
		os.Exit(2)
	}
	changed := 0
	for _, p := range pkgs {
		if len(p.Errors) > 0 {
			fmt.Println("type errors in", p.PkgPath, p.Errors[0])
			os.Exit(2)
		}
		if *only != "" {
			ok := false
			for _, s := range strings.Split(*only, ",") {
				if strings.Contains(p.PkgPath, s) {
					ok = true
				}
			}
			if !ok {
				continue
			}
		}
		for i, f := range p.Syntax {
			name := p.CompiledGoFiles[i]
			if strings.HasSuffix(name, "_test.go") {
				continue
			}
			n := 0
			switch *t {
			case "rename":
				n = rename(p, f)
			case "negate":
				n = negate(f)
			case "reorder":
				n = reorder(f)
			}
			if n == 0 {
				continue
			}
			out, err := os.Create(name)
			if err != nil {
				fmt.Println(err)
				os.Exit(2)
			}
			if err := format.Node(out, p.Fset, f); err != nil {
				fmt.Println(name, err)
				os.Exit(2)
			}
			out.Close()
			changed += n
		}
	}
	fmt.Printf("autorefactor %s: %d edits\n", *t, changed)
}

// rename gives every local variable, parameter, result and receiver a new name.
func rename(p *packages.Package, f *ast.File) int {
	n := 0
	taken := map[string]bool{}
	ast.Inspect(f, func(nd ast.Node) bool {
		if id, ok := nd.(*ast.Ident); ok {
			taken[id.Name] = true
		}
		return true
	})
	// the symbol of `switch x := y.(type)` has no object of its own (one implicit object per clause)
	tsw := map[*ast.Ident]bool{}
	ast.Inspect(f, func(nd ast.Node) bool {
		if ts, ok := nd.(*ast.TypeSwitchStmt); ok {
			if as, ok := ts.Assign.(*ast.AssignStmt); ok && len(as.Lhs) == 1 {
				if id, ok := as.Lhs[0].(*ast.Ident); ok {
					tsw[id] = true
				}
			}
		}
		return true
	})
	ast.Inspect(f, func(nd ast.Node) bool {
		id, ok := nd.(*ast.Ident)
		if !ok || id.Name == "_" {
			return true
		}
		if tsw[id] {
			if !taken[id.Name+"Rn"] {
				id.Name += "Rn"
				n++
			}
			return true
		}
		obj := p.TypesInfo.ObjectOf(id)
		v, ok := obj.(*types.Var)
		if !ok || v.IsField() || v.Pkg() != p.Types || v.Parent() == nil || v.Parent() == p.Types.Scope() {
			return true
		}
		nn := id.Name + "Rn"
		if taken[nn] {
			return true
		}
		id.Name = nn
		n++
		return true
	})
	return n
}

// negate rewrites `if c { A } else { B }` (no init, plain else block) into `if !(c) { B } else { A }`.
func negate(f *ast.File) int {
	n := 0
	ast.Inspect(f, func(nd ast.Node) bool {
		is, ok := nd.(*ast.IfStmt)
		if !ok || is.Else == nil {
			return true
		}
		eb, ok := is.Else.(*ast.BlockStmt)
		if !ok {
			return true
		}
		is.Cond = &ast.UnaryExpr{Op: token.NOT, X: &ast.ParenExpr{X: is.Cond}}
		is.Body, is.Else = eb, is.Body
		n++
		return true
	})
	return n
}

// reorder reverses the order of the function declarations of a file (comments are dropped from
// the moved declarations' positions by go/format's association rules; they do not matter here).
func reorder(f *ast.File) int {
	var idx []int
	for i, d := range f.Decls {
		if _, ok := d.(*ast.FuncDecl); ok {
			idx = append(idx, i)
		}
	}
	if len(idx) < 2 {
		return 0
	}
	f.Comments = nil
	funcs := make([]ast.Decl, len(idx))
	for k, i := range idx {
		funcs[k] = f.Decls[i]
	}
	sort.SliceStable(funcs, func(a, b int) bool { return funcs[a].(*ast.FuncDecl).Name.Name > funcs[b].(*ast.FuncDecl).Name.Name })
	for k, i := range idx {
		f.Decls[i] = funcs[k]
	}
	return len(idx)
}
