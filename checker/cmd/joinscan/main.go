// joinscan: exploratory cross-reference (not a registered check). Lists every place of the main
// module where a function blocks on a join (WaitGroup.Wait, RoutineGroup.Wait, a channel receive
// outside select) on a path on which it may hold a mutex it locked itself. Each hit is a
// candidate for "the joined goroutine needs that mutex" and is triaged by reading.
package main

import (
	"fmt"
	"os"
	"sort"
	"strings"

	"godcheck/core"

	"golang.org/x/tools/go/ssa"
)

func main() {
	repo := "/repo"
	if len(os.Args) > 1 {
		repo = os.Args[1]
	}
	p, err := core.Load(repo, false)
	if err != nil {
		fmt.Println(err)
		os.Exit(2)
	}
	mutexOf := func(in ssa.Instruction, method string) string {
		c, ok := in.(*ssa.Call)
		if !ok {
			return ""
		}
		n := core.CalleeName(c)
		if n != "(*sync.Mutex)."+method && n != "(*sync.RWMutex)."+method {
			return ""
		}
		a := core.Args(c)[0]
		if s := core.FieldAddrName(a); s != "" {
			return s
		}
		return core.Describe(a)
	}
	var out []string
	var rels []string
	for rel := range p.SSAPkgs {
		rels = append(rels, rel)
	}
	sort.Strings(rels)
	for _, full := range rels {
		rel := core.Short(full)
		for _, f := range p.PkgFuncs(rel) {
			joins := core.Instrs(f, func(in ssa.Instruction) bool {
				if c, ok := in.(*ssa.Call); ok {
					n := core.Short(core.CalleeName(c))
					return n == "(*sync.WaitGroup).Wait" || n == "(*lib/threading.RoutineGroup).Wait" || n == "(*lib/threading.WorkerGroup).Wait" || strings.HasSuffix(n, ").Wait") && !strings.Contains(n, "sync.Cond")
				}
				if u, ok := in.(*ssa.UnOp); ok && u.Op.String() == "<-" {
					return true
				}
				return false
			})
			if len(joins) == 0 {
				continue
			}
			locks := map[string][]core.At{}
			for _, in := range core.Instrs(f, func(in ssa.Instruction) bool { return mutexOf(in, "Lock") != "" || mutexOf(in, "RLock") != "" }) {
				m := mutexOf(in, "Lock")
				if m == "" {
					m = mutexOf(in, "RLock")
				}
				locks[m] = append(locks[m], core.After(in))
			}
			for m, from := range locks {
				unlock := func(in ssa.Instruction) bool { return mutexOf(in, "Unlock") == m || mutexOf(in, "RUnlock") == m }
				for _, j := range joins {
					if _, ok := core.Reach(core.Q{From: from, Target: core.Is(j), Blocked: unlock}); ok {
						out = append(out, fmt.Sprintf("%s: %s blocks on %s while it may hold %s", p.InstrPos(j), core.FuncName(f), j.String(), m))
					}
				}
			}
		}
	}
	sort.Strings(out)
	for _, l := range out {
		fmt.Println(l)
	}
	fmt.Printf("%d candidate sites\n", len(out))
}
