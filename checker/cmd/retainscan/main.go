// retainscan: exploratory cross-reference (not a registered check). Lists Write([]byte) methods of the
// main module that send, store (outside locals) or hand to a goroutine the caller's slice itself.
package main

import (
	"fmt"
	"os"
	"sort"

	"godcheck/core"

	"golang.org/x/tools/go/ssa"
)

func main() {
	repo := "/repo"
	if len(os.Args) > 1 {
		repo = os.Args[1]
	}
	p, err := core.Load(repo, false)
	if err != nil {
		fmt.Println(err)
		os.Exit(2)
	}
	var rels []string
	for rel := range p.SSAPkgs {
		rels = append(rels, rel)
	}
	sort.Strings(rels)
	n := 0
	for _, full := range rels {
		for _, f := range p.PkgFuncs(core.Short(full)) {
			if f.Parent() != nil || f.Name() != "Write" || f.Signature.Recv() == nil || len(f.Params) != 2 || f.Params[1].Type().String() != "[]byte" {
				continue
			}
			n++
			isArg := func(v ssa.Value) bool {
				for i := 0; i < 8; i++ {
					v = core.Forward(v)
					switch x := v.(type) {
					case *ssa.Slice:
						v = x.X
						continue
					case *ssa.ChangeType:
						v = x.X
						continue
					}
					break
				}
				prm, ok := v.(*ssa.Parameter)
				return ok && prm == f.Params[1]
			}
			for _, g := range core.WithAnon(f) {
				for _, b := range g.Blocks {
					for _, in := range b.Instrs {
						switch x := in.(type) {
						case *ssa.Send:
							if isArg(x.X) {
								fmt.Printf("%s: %s sends its argument to a channel\n", p.InstrPos(in), core.FuncName(f))
							}
						case *ssa.Select:
							for _, st := range x.States {
								if st.Send != nil && isArg(st.Send) {
									fmt.Printf("%s: %s sends its argument to a channel (select)\n", p.InstrPos(in), core.FuncName(f))
								}
							}
						case *ssa.Go:
							for _, a := range x.Call.Args {
								if isArg(a) {
									fmt.Printf("%s: %s passes its argument to a goroutine\n", p.InstrPos(in), core.FuncName(f))
								}
							}
						case *ssa.MakeClosure:
							for _, a := range x.Bindings {
								if isArg(a) {
									fmt.Printf("%s: %s captures its argument in a closure\n", p.InstrPos(in), core.FuncName(f))
								}
							}
						}
					}
				}
			}
		}
	}
	fmt.Printf("%d Write([]byte) methods examined\n", n)
}
