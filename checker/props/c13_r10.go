package props

import (
	"fmt"
	"go/token"
	"go/types"
	"sort"
	"strings"

	"godcheck/core"

	"golang.org/x/tools/go/ssa"
)

// Round 10 (seeded change C13-vm2): Get holds only the read lock of its ring, so lookups of one
// ring run concurrently – and every ring and bloom filter of the process shares the one default
// hash function. "Returns the same node every time while membership is unchanged" therefore needs
// the position of a key to be a function of the key alone: the default hash function, and the key
// representations that are fed to it, must not keep state between calls in memory that every call
// sees (a package-level hasher that is Reset/Written/Summed, a scratch buffer, a memo of the last
// result, a cache map). Sequentially such state is invisible (bit-identical results, the whole
// suite passes); two lookups at the same moment interleave on it and a key is hashed to another
// position.
//
// The rule follows the module code only (dependencies have no bodies in the quick tier): a write
// to package-level memory, or handing an object that lives there to code that may change it, is
// reported unless it is made under a package-level write lock, on a sync / sync/atomic object, or
// inside a sync.Once body.

// c13State is one walk over the code a hash computation runs.
type c13State struct {
	p       *core.Prog
	la      *core.LockAnalysis
	seen    map[string]bool
	fails   map[string]string // position -> message
	sites   int
	funcs   map[*ssa.Function]bool
	tooDeep bool
}

func c13RefLike(t types.Type) bool {
	switch t.Underlying().(type) {
	case *types.Pointer, *types.Interface, *types.Map, *types.Slice, *types.Chan, *types.Signature:
		return true
	}
	return false
}

func c13InModule(f *ssa.Function) bool {
	if f == nil || len(f.Blocks) == 0 {
		return false
	}
	g := f
	for g.Parent() != nil {
		g = g.Parent()
	}
	if g.Origin() != nil {
		g = g.Origin()
	}
	return g.Pkg != nil && strings.HasPrefix(g.Pkg.Pkg.Path(), core.Mod)
}

// c13SharedRoot: v is (an address inside / a reference to) memory that outlives the call and is seen
// by every caller: a package-level variable, what a reference loaded from one points to, or what a
// parameter marked shared by the caller points to. Values that are copied out (a number, a struct
// value, an array) are not shared.
func (s *c13State) sharedRoot(v ssa.Value, shared map[*ssa.Parameter]string, depth int) (string, bool) {
	for i := 0; i < 24; i++ {
		switch x := v.(type) {
		case *ssa.Global:
			return "the package-level variable " + x.Name(), true
		case *ssa.Parameter:
			w, ok := shared[x]
			return w, ok
		case *ssa.FieldAddr:
			v = x.X
		case *ssa.IndexAddr:
			v = x.X
		case *ssa.Slice:
			v = x.X
		case *ssa.ChangeType:
			v = x.X
		case *ssa.ChangeInterface:
			v = x.X
		case *ssa.MakeInterface:
			v = x.X
		case *ssa.TypeAssert:
			v = x.X
		case *ssa.Convert:
			v = x.X
		case *ssa.Lookup:
			if !c13RefLike(x.Type()) {
				return "", false
			}
			v = x.X
		case *ssa.Field, *ssa.Index:
			if !c13RefLike(x.Type()) {
				return "", false
			}
			if f, ok := x.(*ssa.Field); ok {
				v = f.X
			} else {
				v = x.(*ssa.Index).X
			}
		case *ssa.UnOp:
			if x.Op != token.MUL {
				return "", false
			}
			if _, local := x.X.(*ssa.Alloc); local {
				f := core.Forward(x)
				if f == ssa.Value(x) {
					return "", false
				}
				v = f
				continue
			}
			if !c13RefLike(x.Type()) {
				return "", false // a copy of the stored value
			}
			v = x.X
		case *ssa.Phi:
			if depth > 4 {
				return "", false
			}
			for _, e := range x.Edges {
				if e == ssa.Value(x) {
					continue
				}
				if w, ok := s.sharedRoot(e, shared, depth+1); ok {
					return w, true
				}
			}
			return "", false
		case *ssa.Extract:
			c, ok := x.Tuple.(*ssa.Call)
			if !ok {
				return "", false
			}
			return s.sharedResult(c, x.Index, shared, depth)
		case *ssa.Call:
			return s.sharedResult(x, 0, shared, depth)
		default:
			return "", false
		}
	}
	return "", false
}

// sharedResult: the idx-th result of a call of a module function is a shared reference (an accessor
// of a package-level object: `func sharedHasher() hash.Hash64 { return hasher }`).
func (s *c13State) sharedResult(c *ssa.Call, idx int, shared map[*ssa.Parameter]string, depth int) (string, bool) {
	callee := c.Call.StaticCallee()
	if depth > 3 || !c13InModule(callee) {
		return "", false
	}
	if callee.Signature.Results().Len() <= idx || !c13RefLike(callee.Signature.Results().At(idx).Type()) {
		return "", false
	}
	inner := s.calleeShared(callee, c, shared, depth)
	for _, ret := range core.Returns(callee) {
		if w, ok := s.sharedRoot(core.Result(ret, idx), inner, depth+1); ok {
			return w, true
		}
	}
	return "", false
}

// calleeShared maps the shared arguments of a call onto the callee's parameters.
func (s *c13State) calleeShared(callee *ssa.Function, c ssa.CallInstruction, shared map[*ssa.Parameter]string, depth int) map[*ssa.Parameter]string {
	out := map[*ssa.Parameter]string{}
	args := c.Common().Args
	for i, a := range args {
		if i >= len(callee.Params) {
			break
		}
		if !c13RefLike(a.Type()) {
			continue
		}
		if w, ok := s.sharedRoot(a, shared, depth+1); ok {
			out[callee.Params[i]] = w
		}
	}
	return out
}

func c13SyncType(t types.Type) bool {
	for i := 0; i < 3; i++ {
		if p, ok := t.(*types.Pointer); ok {
			t = p.Elem()
			continue
		}
		if p, ok := t.Underlying().(*types.Pointer); ok {
			t = p.Elem()
			continue
		}
		break
	}
	n, ok := t.(*types.Named)
	if !ok || n.Obj().Pkg() == nil {
		return false
	}
	path := n.Obj().Pkg().Path()
	return path == "sync" || path == "sync/atomic"
}

// c13StatefulObject: a pointer to a struct or an interface with methods – an object with behaviour, as
// opposed to a table of numbers (*crc64.Table is a pointer to an array).
func c13StatefulObject(v ssa.Value) bool {
	t := core.Strip(v).Type()
	switch u := t.Underlying().(type) {
	case *types.Pointer:
		_, isStruct := u.Elem().Underlying().(*types.Struct)
		return isStruct
	case *types.Interface:
		return u.NumMethods() > 0
	}
	return false
}

// underWriteLock: a package-level lock is held for writing at in (the state is then shared, but the
// calls are serialised: same results as without the state).
func (s *c13State) underWriteLock(in ssa.Instruction) bool {
	if s.la == nil {
		return false
	}
	for _, part := range strings.Split(strings.Trim(s.la.Held(in).String(), "{}"), ",") {
		if strings.HasPrefix(part, "global:") && strings.HasSuffix(part, ":W") {
			return true
		}
	}
	return false
}

func (s *c13State) fail(in ssa.Instruction, f *ssa.Function, format string, a ...any) {
	pos := s.p.InstrPos(in)
	if _, dup := s.fails[pos]; !dup {
		s.fails[pos] = core.FuncName(f) + " " + fmt.Sprintf(format, a...)
	}
}

// visit inspects f (and its function literals) with the given parameters pointing to shared memory.
func (s *c13State) visit(root *ssa.Function, shared map[*ssa.Parameter]string, depth int) {
	if !c13InModule(root) {
		return
	}
	var ks []string
	for p, w := range shared {
		ks = append(ks, p.Name()+"="+w)
	}
	sort.Strings(ks)
	key := fmt.Sprintf("%p|%s", root, strings.Join(ks, ","))
	if s.seen[key] {
		return
	}
	s.seen[key] = true
	if depth > 6 {
		s.tooDeep = true
		return
	}
	fns := core.WithAnon(root)
	// bodies handed to sync.Once.Do run once, before any other caller passes the Once
	once := map[*ssa.Function]bool{}
	for _, f := range fns {
		for _, c := range core.Calls(f, core.CallTo("(*sync.Once).Do")) {
			for _, a := range core.Args(c) {
				switch x := core.Strip(a).(type) {
				case *ssa.MakeClosure:
					if g, ok := x.Fn.(*ssa.Function); ok {
						once[g] = true
					}
				case *ssa.Function:
					once[x] = true
				}
			}
		}
	}
	for _, f := range fns {
		if once[f] || len(f.Blocks) == 0 {
			continue
		}
		s.funcs[f] = true
		for _, b := range f.Blocks {
			for _, in := range b.Instrs {
				s.instr(f, in, shared, depth)
			}
		}
	}
}

func (s *c13State) instr(f *ssa.Function, in ssa.Instruction, shared map[*ssa.Parameter]string, depth int) {
	const why = ": the state is shared by all lookups, which hold only the read lock of their ring and run concurrently (and by every ring and bloom filter of the process); two calls at the same moment interleave on it, a key is hashed to another ring position and Get returns a different node although membership did not change"
	switch x := in.(type) {
	case *ssa.Store:
		s.sites++
		if w, ok := s.sharedRoot(x.Addr, shared, 0); ok && !s.underWriteLock(in) {
			s.fail(in, f, "writes %s while computing a ring position%s", w, why)
		}
		return
	case *ssa.MapUpdate:
		s.sites++
		if w, ok := s.sharedRoot(x.Map, shared, 0); ok && !s.underWriteLock(in) {
			s.fail(in, f, "updates a map held in %s while computing a ring position%s", w, why)
		}
		return
	}
	c := core.AsCall(in)
	if c == nil {
		return
	}
	s.sites++
	com := c.Common()
	name := core.Short(core.CalleeName(c))
	if bi, ok := com.Value.(*ssa.Builtin); ok {
		switch bi.Name() {
		case "delete", "copy", "append", "clear":
			if len(com.Args) > 0 {
				if w, ok := s.sharedRoot(com.Args[0], shared, 0); ok && !s.underWriteLock(in) {
					s.fail(in, f, "%ss into memory held in %s while computing a ring position%s", bi.Name(), w, why)
				}
			}
		}
		return
	}
	callee := com.StaticCallee()
	inMod := c13InModule(callee)
	locked := s.underWriteLock(in)
	// the receiver
	var recv ssa.Value
	if com.IsInvoke() {
		recv = com.Value
	} else if callee != nil && callee.Signature.Recv() != nil && len(com.Args) > 0 {
		recv = com.Args[0]
	}
	if recv != nil && c13RefLike(recv.Type()) && !locked && !c13SyncType(recv.Type()) {
		if w, ok := s.sharedRoot(recv, shared, 0); ok && !inMod {
			s.fail(in, f, "calls %s on the object held in %s while computing a ring position%s", name, w, why)
		}
	}
	// other arguments handed to code outside the module
	if !inMod && !locked && !strings.HasPrefix(name, "sync/atomic.") && !strings.HasPrefix(name, "(*sync.") && !strings.HasPrefix(name, "(*sync/atomic.") {
		for _, a := range com.Args {
			if a == recv || !c13StatefulObject(a) || c13SyncType(core.Strip(a).Type()) {
				continue
			}
			if w, ok := s.sharedRoot(a, shared, 0); ok {
				s.fail(in, f, "hands the object held in %s to %s while computing a ring position%s", w, name, why)
			}
		}
	}
	if inMod && !locked {
		s.visit(callee, s.calleeShared(callee, c, shared, 0), depth+1)
	}
}

// c13HashRoots: the functions the module installs as a ring's hash function – every function value
// that reaches a store to ConsistentHash.hashFunc, through φ-nodes, parameters (resolved at the
// module's own call sites: NewConsistentHash hands Hash to NewCustomConsistentHash), package-level
// function variables and conversions. A caller-supplied function outside the module is the caller's.
func c13HashRoots(p *core.Prog, pkg string) (roots []*ssa.Function, unresolved []string, stores int) {
	seenF := map[*ssa.Function]bool{}
	seenV := map[ssa.Value]bool{}
	var allFuncs []*ssa.Function
	var rels []string
	for path := range p.SSAPkgs {
		rels = append(rels, strings.TrimPrefix(strings.TrimPrefix(path, core.Mod), "/"))
	}
	sort.Strings(rels)
	for _, rel := range rels {
		allFuncs = append(allFuncs, p.PkgFuncs(rel)...)
	}
	var resolve func(v ssa.Value, in *ssa.Function, depth int)
	resolve = func(v ssa.Value, in *ssa.Function, depth int) {
		for _, leaf := range gxPhiLeaves(core.Strip(core.Forward(v))) {
			leaf = core.Strip(core.Forward(leaf))
			if seenV[leaf] {
				continue
			}
			seenV[leaf] = true
			switch x := leaf.(type) {
			case *ssa.Function:
				if !seenF[x] {
					seenF[x] = true
					roots = append(roots, x)
				}
			case *ssa.MakeClosure:
				if g, ok := x.Fn.(*ssa.Function); ok && !seenF[g] {
					seenF[g] = true
					roots = append(roots, g)
				}
			case *ssa.Const: // nil: replaced by the default on another leaf
			case *ssa.Parameter:
				if depth > 3 {
					unresolved = append(unresolved, core.FuncName(in)+": parameter "+x.Name())
					continue
				}
				idx := -1
				for i, q := range x.Parent().Params {
					if q == x {
						idx = i
					}
				}
				for _, g := range allFuncs {
					for _, c := range core.Calls(g, func(i ssa.Instruction) bool {
						cc := core.AsCall(i)
						return cc != nil && cc.Common().StaticCallee() == x.Parent()
					}) {
						if a := c.Common().Args; idx >= 0 && idx < len(a) {
							resolve(a[idx], g, depth+1)
						}
					}
				}
			case *ssa.UnOp:
				g, ok := x.X.(*ssa.Global)
				if !ok || x.Op != token.MUL || depth > 3 {
					unresolved = append(unresolved, core.FuncName(in)+": "+core.Describe(leaf))
					continue
				}
				n := 0
				fs := allFuncs
				if g.Pkg != nil {
					if ini := g.Pkg.Func("init"); ini != nil {
						fs = append(append([]*ssa.Function{}, fs...), ini)
					}
				}
				for _, h := range fs {
					for _, b := range h.Blocks {
						for _, i := range b.Instrs {
							if st, ok := i.(*ssa.Store); ok && st.Addr == ssa.Value(g) {
								n++
								resolve(st.Val, h, depth+1)
							}
						}
					}
				}
				if n == 0 {
					unresolved = append(unresolved, core.FuncName(in)+": the function variable "+g.Name()+" is never assigned")
				}
			default:
				unresolved = append(unresolved, core.FuncName(in)+": "+core.Describe(leaf))
			}
		}
	}
	for _, f := range p.PkgFuncs(pkg) {
		for _, st := range core.StoresToField(f, "ConsistentHash.hashFunc") {
			stores++
			resolve(st.Val, f, 0)
		}
	}
	return
}

// c13HashInputs: the module functions whose result is part of what a ring function hands to the hash
// function (repr, innerRepr) – found by data dependence of the argument of a call of h.hashFunc.
func c13HashInputs(p *core.Prog, pkg string) []*ssa.Function {
	isHashCall := core.CallOfValue(core.FieldLoad("ConsistentHash.hashFunc"))
	var out []*ssa.Function
	seenF := map[*ssa.Function]bool{}
	for _, f := range p.PkgFuncs(pkg) {
		for _, c := range core.Calls(f, isHashCall) {
			seen := map[ssa.Value]bool{}
			var walk func(v ssa.Value, d int)
			walk = func(v ssa.Value, d int) {
				if v == nil || seen[v] || d > 12 {
					return
				}
				seen[v] = true
				v = core.Forward(v)
				if call, ok := v.(*ssa.Call); ok {
					if g := call.Call.StaticCallee(); c13InModule(g) && !seenF[g] {
						seenF[g] = true
						out = append(out, g)
					}
				}
				in, ok := v.(ssa.Instruction)
				if !ok {
					return
				}
				for _, op := range in.Operands(nil) {
					if *op != nil {
						walk(*op, d+1)
					}
				}
			}
			for _, a := range c.Common().Args {
				walk(a, 0)
			}
		}
	}
	return out
}

func c13R10(r *core.Run, pkg string) {
	p := r.P
	r.Explanation += " The default hash function (every module function that reaches ConsistentHash.hashFunc) and the module functions that build its input keep no state in package-level memory between calls, except under a package-level write lock, in sync / sync/atomic objects or inside a sync.Once body."
	r.NotDecided += "; what code outside the module (murmur3, fmt, reflect) keeps between calls; whether state a hash function writes without a lock influences its result (an unsynchronised statistics counter is reported as well: it is a data race either way); package-level state reached through a closure's captured variable, through a plain (non-struct-pointer, non-interface) argument of a library call, or used after it was returned to a sync.Pool; package-level values the hash function only reads but some other function rewrites."
	r.Check("D4/K5/hash-function-keeps-no-shared-state", "the ring position of a key is a function of the key alone: the functions the module installs as ConsistentHash.hashFunc (the default hash function) and the module functions that build its input (repr, innerRepr), with the module functions they call, never write package-level memory, mutate a map or buffer held there, or call a method on / hand out an object held there – except under a package-level write lock, on sync and sync/atomic objects, or inside a sync.Once body [clause 'returns the same node every time while membership is unchanged': Get holds only the read lock, so lookups run concurrently, and all rings share the default hash function; state kept between calls is interleaved by two lookups at the same moment and a key is hashed to another position]", func(o *core.O) {
		roots, unresolved, stores := c13HashRoots(p, pkg)
		if stores == 0 {
			o.Unres("no store to ConsistentHash.hashFunc found in %s", pkg)
			return
		}
		for _, u := range unresolved {
			o.Unres("the hash function stored to ConsistentHash.hashFunc is not resolved to a function: %s", u)
		}
		nroots := 0
		for _, f := range roots {
			if c13InModule(f) {
				nroots++
			}
		}
		if nroots == 0 {
			o.Unres("no module function reaches ConsistentHash.hashFunc: the default hash function was not found")
			return
		}
		inputs := c13HashInputs(p, pkg)
		// lock analysis over the packages the walk can enter (found by a first walk without it)
		st := &c13State{p: p, seen: map[string]bool{}, fails: map[string]string{}, funcs: map[*ssa.Function]bool{}}
		for _, f := range append(append([]*ssa.Function{}, roots...), inputs...) {
			st.visit(f, nil, 0)
		}
		relSet := map[string]bool{}
		for f := range st.funcs {
			g := f
			for g.Parent() != nil {
				g = g.Parent()
			}
			if g.Origin() != nil {
				g = g.Origin()
			}
			if g.Pkg != nil {
				relSet[strings.TrimPrefix(strings.TrimPrefix(g.Pkg.Pkg.Path(), core.Mod), "/")] = true
			}
		}
		var rels []string
		for rel := range relSet {
			rels = append(rels, rel)
		}
		sort.Strings(rels)
		if len(st.fails) > 0 {
			// only then is the lock-set needed: state used under a package-level write lock is serialised
			st = &c13State{p: p, la: core.NewLockAnalysis(p, rels...), seen: map[string]bool{}, fails: map[string]string{}, funcs: map[*ssa.Function]bool{}}
			for _, f := range append(append([]*ssa.Function{}, roots...), inputs...) {
				st.visit(f, nil, 0)
			}
		}
		for f := range st.funcs {
			r.Fn(core.FuncName(f))
		}
		o.Site(nroots+len(inputs)+st.sites, pkg+": hash functions, their inputs and what they run")
		if st.tooDeep {
			o.Unres("the call chain below the hash function is deeper than the rule follows")
		}
		var poss []string
		for pos := range st.fails {
			poss = append(poss, pos)
		}
		sort.Strings(poss)
		for _, pos := range poss {
			o.Fail(pos, "%s", st.fails[pos])
		}
	})
}
