package props

import (
	"go/token"
	"go/types"

	"godcheck/core"

	"golang.org/x/tools/go/ssa"
)

// Round 9 (defect 59536ee): Remove walks all h.replicas replica names of the node, also the
// ones the node never owned (it was added with fewer replicas / a smaller weight). Names are
// built by concatenation, so such a phantom name can be a real virtual node of another node
// ("node1"+"10" == "node11"+"0"). The ring slot is filtered by node, keys is not: deleting
// keys[index] whenever the search found the hash takes another node's position out of keys.
// D6/K2 is therefore two-sided: a position leaves keys only where the node's own entry left the
// ring, and it does leave keys there.

// c13IsRingWrite: a map update or delete on ConsistentHash.ring.
func c13IsRingWrite(in ssa.Instruction) bool {
	switch x := in.(type) {
	case *ssa.MapUpdate:
		return core.FieldAddrNameOfLoad(x.Map) == "ConsistentHash.ring"
	case *ssa.Call:
		if b, ok := x.Call.Value.(*ssa.Builtin); ok && b.Name() == "delete" {
			return core.FieldAddrNameOfLoad(x.Call.Args[0]) == "ConsistentHash.ring"
		}
	}
	return false
}

// c13RingFilterCalls lists, by role, the calls in rem of in-package functions that rewrite a
// ring slot (removeRingNode): static callees of the hash package that update/delete h.ring.
func c13RingFilterCalls(rem *ssa.Function) []*ssa.Call {
	var out []*ssa.Call
	for _, c := range core.Calls(rem, func(in ssa.Instruction) bool { return core.AsCall(in) != nil }) {
		call, ok := c.(*ssa.Call)
		if !ok {
			continue
		}
		g := call.Call.StaticCallee()
		if !c13InHashPkg(g) || g == rem {
			continue
		}
		if len(core.Instrs(g, c13IsRingWrite)) > 0 {
			out = append(out, call)
		}
	}
	return out
}

// c13ReadOnlyCell resolves a load of a local cell that is assigned once and that closures only
// read (`hash := …` used by the search predicate) to the value assigned. core.Forward gives up on
// a captured cell when the load is not in a straight line after the store (inside an inner loop).
func c13ReadOnlyCell(v ssa.Value) ssa.Value {
	u, ok := v.(*ssa.UnOp)
	if !ok || u.Op != token.MUL {
		return v
	}
	al, ok := u.X.(*ssa.Alloc)
	if !ok || al.Referrers() == nil {
		return v
	}
	var st *ssa.Store
	n := 0
	for _, ref := range *al.Referrers() {
		switch x := ref.(type) {
		case *ssa.Store:
			if x.Addr != ssa.Value(al) {
				return v
			}
			st, n = x, n+1
		case *ssa.UnOp:
			if x.Op != token.MUL {
				return v
			}
		case *ssa.DebugRef:
		case *ssa.MakeClosure:
			fn, ok := x.Fn.(*ssa.Function)
			if !ok {
				return v
			}
			for k, b := range x.Bindings {
				if b != ssa.Value(al) {
					continue
				}
				if k >= len(fn.FreeVars) || fn.FreeVars[k].Referrers() == nil {
					return v
				}
				for _, fr := range *fn.FreeVars[k].Referrers() {
					if l, isLoad := fr.(*ssa.UnOp); isLoad && l.Op == token.MUL {
						continue
					}
					if _, isDbg := fr.(*ssa.DebugRef); isDbg {
						continue
					}
					return v // written or handed on by the closure
				}
			}
		default:
			return v
		}
	}
	if n != 1 {
		return v
	}
	return core.Forward(st.Val)
}

func c13ZeroConst(c *ssa.Const) bool {
	if c.Value == nil {
		return true // nil / zero value
	}
	if k, ok := core.ConstInt(c); ok {
		return k == 0
	}
	return c.Value.String() == "false"
}

// c13NonzeroOnlyBehind decides that result #idx of g is nonzero (true) only on executions that
// passed one of the guard edges: every definition the result may have is the zero constant, a
// nonzero constant chosen behind a guard edge, or an increment by a positive constant executed
// behind a guard edge. problems: definitions that break this; unknown: definitions it cannot read.
func c13NonzeroOnlyBehind(p *core.Prog, g *ssa.Function, idx int, guard []core.Edge) (problems, unknown []string) {
	cut := core.CutSet(guard)
	behind := func(in ssa.Instruction) bool {
		_, ok := core.Reach(core.Q{From: []core.At{core.Entry(g)}, Target: core.Is(in), Cut: cut})
		return !ok
	}
	seen := map[ssa.Value]bool{}
	var walk func(v ssa.Value, via *core.Edge, at ssa.Instruction, depth int)
	walk = func(v ssa.Value, via *core.Edge, at ssa.Instruction, depth int) {
		if depth > 12 {
			unknown = append(unknown, "value merged too deeply")
			return
		}
		v = core.Forward(v)
		switch x := v.(type) {
		case *ssa.Const:
			if c13ZeroConst(x) {
				return
			}
			if via != nil {
				if gxEdgeReachable(g, *via, guard) {
					problems = append(problems, p.InstrPos(gxLast(via.From))+": the result becomes "+core.Describe(x)+" on a path that dropped no entry of the node")
				}
			} else if !behind(at) {
				problems = append(problems, p.InstrPos(at)+": returns "+core.Describe(x)+" on a path that dropped no entry of the node")
			}
		case *ssa.Phi:
			if seen[x] {
				return
			}
			seen[x] = true
			for i, e := range x.Edges {
				ed := core.Edge{From: x.Block().Preds[i], To: x.Block()}
				walk(e, &ed, at, depth+1)
			}
		case *ssa.Convert:
			walk(x.X, via, at, depth+1)
		case *ssa.ChangeType:
			walk(x.X, via, at, depth+1)
		case *ssa.BinOp:
			var rest ssa.Value
			if x.Op == token.ADD {
				if k, ok := core.ConstInt(x.Y); ok && k > 0 {
					rest = x.X
				} else if k, ok := core.ConstInt(x.X); ok && k > 0 {
					rest = x.Y
				}
			}
			if rest == nil {
				unknown = append(unknown, p.InstrPos(x)+": "+core.Describe(x))
				return
			}
			if !behind(x) {
				problems = append(problems, p.InstrPos(x)+": the count is incremented on a path that dropped no entry of the node")
			}
			walk(rest, via, at, depth+1)
		default:
			unknown = append(unknown, core.Describe(v))
		}
	}
	for _, ret := range core.Returns(g) {
		if idx >= len(ret.Results) {
			unknown = append(unknown, "return without result")
			continue
		}
		walk(core.Result(ret, idx), nil, ret, 0)
	}
	return
}

// c13EvAtoms: for an integer count or a boolean flag x that is never negative, the atoms
// "x is nonzero / true is established" and "x is zero / false is established", in any spelling
// of a comparison with a constant (x > 0, x >= 1, 0 < x, x != 0, !(x == 0), x, !x, …).
func c13EvAtoms(isX func(ssa.Value) bool) (nonzero, zero core.Atom) {
	norm := func(v ssa.Value) (op token.Token, c int64, ok bool) {
		b, isB := v.(*ssa.BinOp)
		if !isB {
			return
		}
		op = b.Op
		switch {
		case isX(b.X):
			c, ok = core.ConstInt(b.Y)
		case isX(b.Y):
			c, ok = core.ConstInt(b.X)
			op = flipOp13(op)
		}
		return
	}
	nonzero = func(v ssa.Value) (bool, bool) {
		if isX(v) {
			if bt, ok := v.Type().Underlying().(*types.Basic); ok && bt.Info()&types.IsBoolean != 0 {
				return true, true
			}
		}
		op, c, ok := norm(v)
		if !ok {
			return false, false
		}
		switch op {
		case token.GTR:
			return c >= 0, true
		case token.GEQ:
			return c >= 1, true
		case token.LSS:
			return c >= 1, false
		case token.LEQ:
			return c >= 0, false
		case token.EQL:
			return true, c != 0
		case token.NEQ:
			return c == 0, true
		}
		return false, false
	}
	zero = func(v ssa.Value) (bool, bool) {
		if isX(v) {
			if bt, ok := v.Type().Underlying().(*types.Basic); ok && bt.Info()&types.IsBoolean != 0 {
				return true, false
			}
		}
		op, c, ok := norm(v)
		if !ok {
			return false, false
		}
		switch op {
		case token.GTR:
			return c <= 0, false
		case token.GEQ:
			return c <= 1, false
		case token.LSS:
			return c <= 1, true
		case token.LEQ:
			return c <= 0, true
		case token.EQL:
			return c == 0, true
		case token.NEQ:
			return c == 0, false
		}
		return false, false
	}
	return
}

func flipOp13(op token.Token) token.Token {
	switch op {
	case token.LSS:
		return token.GTR
	case token.GTR:
		return token.LSS
	case token.LEQ:
		return token.GEQ
	case token.GEQ:
		return token.LEQ
	}
	return op
}

// c13RemoveDropsKey is the body of D6/K2/remove-drops-key-exactly.
func c13RemoveDropsKey(r *core.Run, o *core.O, rem *ssa.Function, isHashCall func(ssa.Instruction) bool) {
	p := r.P
	isSearch := c13IsSearch
	lenKeys := core.IsLenOf(core.FieldLoad("ConsistentHash.keys"))
	inside := core.AnyOf(core.Cmp(token.LSS, isSearch, lenKeys), core.Cmp(token.NEQ, isSearch, lenKeys))
	isHashVal := func(v ssa.Value) bool {
		v = c13ReadOnlyCell(core.Forward(v))
		c, ok := v.(*ssa.Call)
		return ok && isHashCall(c)
	}
	found := core.Cmp(token.EQL, func(v ssa.Value) bool {
		u, ok := v.(*ssa.UnOp)
		if !ok || u.Op != token.MUL {
			return false
		}
		ia, ok := u.X.(*ssa.IndexAddr)
		return ok && core.IsFieldLoad(ia.X, "ConsistentHash.keys") && isSearch(ia.Index)
	}, isHashVal)
	isStore := core.IsStoreToField("ConsistentHash.keys")
	stores := core.Instrs(rem, isStore)
	o.Site(len(stores), core.FuncName(rem))
	if len(stores) == 0 {
		o.Fail(p.Pos(rem.Pos()), "Remove never deletes from keys")
		return
	}
	// The tests `index < len(keys)` and `keys[index] == hash` around the delete were what kept the old
	// code from deleting a neighbour's key for a never-owned replica name. With (a) below they are
	// defensive: where the node's entry was in the ring its position is in keys, so the search finds
	// it. They are accepted as the only ways round the delete in (b), not required.

	// (a) only where the node's own ring entry went: the delete is reachable only on the outcome
	// "the slot filter dropped an entry of this node" of a call for the same position.
	calls := c13RingFilterCalls(rem)
	if len(calls) == 0 {
		o.Unres("%s: no call of a function that filters a ring slot (removeRingNode) found in Remove", p.Pos(rem.Pos()))
		return
	}
	o.Site(len(calls), core.FuncName(rem))
	evCall := map[*ssa.Call]int{} // call → index of the result that is evidence of a dropped entry
	for _, call := range calls {
		g := call.Call.StaticCallee()
		r.Fn(core.FuncName(g))
		hashed := false
		for _, a := range call.Call.Args {
			if isHashVal(a) {
				hashed = true
			}
		}
		if !hashed {
			o.Fail(p.InstrPos(call), "%s is not called with the virtual node's hash: the ring entry is dropped at another position than the key", core.FuncName(g))
			continue
		}
		res := g.Signature.Results()
		if res.Len() == 0 {
			o.Fail(p.InstrPos(call), "%s does not tell Remove whether it dropped an entry of the node at that position, and Remove tries all h.replicas replica names: for a node added with fewer replicas a never-owned name (\"node1\"+\"10\") can be another node's virtual node (\"node11\"+\"0\"), whose position is then deleted from keys while the ring still holds it – keys of other nodes move, Get can divide by len(keys) == 0", core.FuncName(g))
			continue
		}
		// the slot entries are compared with the node representation g was given
		isRepr := func(v ssa.Value) bool { return core.IsResult(v, 0, core.CallTo("lib/hash.repr", "lib/lang.Repr")) }
		isParam := func(v ssa.Value) bool { return core.ParamIndexName(v) != "" }
		same, _ := core.EdgesOf(g, core.Cmp(token.EQL, isRepr, isParam))
		if len(same) == 0 {
			o.Unres("%s: %s does not compare slot entries with the removed node's representation", p.Pos(g.Pos()), core.FuncName(g))
			continue
		}
		var firstProblem, firstUnknown string
		got := false
		for i := 0; i < res.Len(); i++ {
			bt, ok := res.At(i).Type().Underlying().(*types.Basic)
			if !ok || bt.Info()&(types.IsInteger|types.IsBoolean) == 0 {
				continue
			}
			problems, unknown := c13NonzeroOnlyBehind(p, g, i, same)
			switch {
			case len(problems) > 0:
				if firstProblem == "" {
					firstProblem = problems[0]
				}
			case len(unknown) > 0:
				if firstUnknown == "" {
					firstUnknown = unknown[0]
				}
			default:
				evCall[call], got = i, true
			}
			if got {
				break
			}
		}
		if !got {
			switch {
			case firstProblem != "":
				o.Fail(p.InstrPos(call), "%s reports a dropped entry although none of the node's was dropped (%s): Remove then deletes another node's position from keys", core.FuncName(g), firstProblem)
			case firstUnknown != "":
				o.Unres("%s: cannot establish that the result of %s is nonzero only when an entry of the node was dropped (%s)", p.InstrPos(call), core.FuncName(g), firstUnknown)
			default:
				o.Fail(p.InstrPos(call), "%s has no count/flag result that tells Remove whether it dropped an entry of the node", core.FuncName(g))
			}
		}
	}
	if len(evCall) != len(calls) {
		return
	}
	var isEv func(v ssa.Value) bool
	var isEvD func(v ssa.Value, depth int) bool
	isEvD = func(v ssa.Value, depth int) bool {
		v = core.Forward(v)
		if c, i := core.ResultOf(v); c != nil {
			if want, ok := evCall[c]; ok && want == i {
				return true
			}
		}
		ph, ok := v.(*ssa.Phi)
		if !ok || depth > 3 {
			return false
		}
		// a countdown from the count: φ(count, φ−k)
		any := false
		for _, e := range ph.Edges {
			e = core.Forward(e)
			if e == ssa.Value(ph) {
				continue
			}
			if b, ok := e.(*ssa.BinOp); ok && b.Op == token.SUB && core.Forward(b.X) == ssa.Value(ph) {
				if k, ok := core.ConstInt(b.Y); ok && k > 0 {
					continue
				}
			}
			if !isEvD(e, depth+1) {
				return false
			}
			any = true
		}
		return any
	}
	isEv = func(v ssa.Value) bool { return isEvD(v, 0) }
	nonzero, zero := c13EvAtoms(isEv)
	if w := core.Requires(rem, isStore, nonzero); w != nil {
		o.Fail(p.InstrPos(w), "a position is deleted from keys on a path that did not establish that the node's own entry was dropped from the ring there: a replica name the node never owned can be another node's virtual node, whose keys then move (Get can divide by len(keys) == 0)")
	}
	// (b) and it does go: after the filter dropped an entry, the next virtual node / the return is
	// not reached without the delete, unless the search did not find the hash.
	zh, _ := core.EdgesOf(rem, zero)
	_, ff := core.EdgesOf(rem, found)
	_, inf := core.EdgesOf(rem, inside)
	cut := core.CutSet(zh, ff, inf)
	isCall := func(in ssa.Instruction) bool {
		c, ok := in.(*ssa.Call)
		if !ok {
			return false
		}
		_, is := evCall[c]
		return is
	}
	for _, call := range calls {
		// first arrival: from the call, past every test that does not establish "nothing dropped"
		if w, ok := core.Reach(core.Q{From: []core.At{core.After(call)}, Target: core.Or(core.IsReturn, isHashCall, isCall), Blocked: isStore, Cut: cut}); ok {
			o.Fail(p.InstrPos(call), "after the node's entry was dropped from the ring at a position, %s is reached without deleting that position from keys: a key without ring entry stays, and Get reports absence for every key that lands on it", p.InstrPos(w))
		}
	}
	// every round of a countdown: once "an entry was dropped" is established, the next look at the
	// count (or the next virtual node) is not reached without the delete
	nh, _ := core.EdgesOf(rem, nonzero)
	isCountTest := func(in ssa.Instruction) bool {
		if _, ok := in.(*ssa.If); !ok {
			return false
		}
		for _, e := range nh {
			if gxLast(e.From) == in {
				return true
			}
		}
		return false
	}
	var from []core.At
	for _, e := range nh {
		if isCountTest(gxLast(e.To)) && len(core.Instrs(rem, func(in ssa.Instruction) bool { return in.Block() == e.To && isStore(in) })) == 0 {
			continue // a chained test of the count: the edge it establishes the outcome on is in nh too
		}
		from = append(from, core.Head(e.To))
	}
	skip := core.CutSet(ff, inf)
	if w, ok := core.Reach(core.Q{From: from, Target: core.Or(core.IsReturn, isHashCall, isCall, isCountTest), Blocked: isStore, Cut: skip}); ok {
		o.Fail(p.InstrPos(w), "reached after the node's entry was dropped from the ring at a position, without deleting that position from keys: a key without ring entry stays, and Get reports absence for every key that lands on it")
	}
}
