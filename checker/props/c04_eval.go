package props

// Concrete evaluation of a function's control flow for chosen values of a few
// leaves (C04-D4/K7): nothing is executed; the SSA is interpreted on numbers
// for the arithmetic/boolean subset, every other condition is left open (both
// successors are followed).

import (
	"go/constant"
	"go/token"
	"go/types"
	"math"

	"godcheck/core"

	"golang.org/x/tools/go/ssa"
)

type c04Num struct {
	f      float64
	b      bool
	isBool bool
}

type c04Eval struct {
	// leaf gives the value of designated leaves (ok=false: not a leaf)
	leaf func(v ssa.Value) (float64, bool)
	// relevant reports values that derive from a leaf: a condition that depends on one
	// but cannot be evaluated makes the verdict unresolved instead of wrong
	relevant func(v ssa.Value) bool
	// Undecided is set when such a condition was met
	Undecided ssa.Instruction
	steps     int
}

func c04IsIntType(t types.Type) bool {
	b, ok := t.Underlying().(*types.Basic)
	return ok && b.Info()&types.IsInteger != 0
}

func (e *c04Eval) arith(op token.Token, x, y c04Num, integer bool) (c04Num, bool) {
	switch op {
	case token.ADD:
		return c04Num{f: x.f + y.f}, true
	case token.SUB:
		return c04Num{f: x.f - y.f}, true
	case token.MUL:
		return c04Num{f: x.f * y.f}, true
	case token.QUO:
		if y.f == 0 {
			return c04Num{}, false
		}
		q := x.f / y.f
		if integer {
			q = math.Trunc(q)
		}
		return c04Num{f: q}, true
	case token.LSS:
		return c04Num{b: x.f < y.f, isBool: true}, true
	case token.LEQ:
		return c04Num{b: x.f <= y.f, isBool: true}, true
	case token.GTR:
		return c04Num{b: x.f > y.f, isBool: true}, true
	case token.GEQ:
		return c04Num{b: x.f >= y.f, isBool: true}, true
	case token.EQL:
		if x.isBool != y.isBool {
			return c04Num{}, false
		}
		if x.isBool {
			return c04Num{b: x.b == y.b, isBool: true}, true
		}
		return c04Num{b: x.f == y.f, isBool: true}, true
	case token.NEQ:
		if x.isBool != y.isBool {
			return c04Num{}, false
		}
		if x.isBool {
			return c04Num{b: x.b != y.b, isBool: true}, true
		}
		return c04Num{b: x.f != y.f, isBool: true}, true
	}
	return c04Num{}, false
}

// value evaluates v given the φ values fixed along the current path and, inside an
// interpreted callee, its argument values.
func (e *c04Eval) value(v ssa.Value, phis map[*ssa.Phi]c04Num, args map[*ssa.Parameter]c04Num, depth int) (c04Num, bool) {
	if depth > 40 {
		return c04Num{}, false
	}
	if args != nil {
		if pa, ok := v.(*ssa.Parameter); ok {
			n, ok := args[pa]
			return n, ok
		}
	}
	if e.leaf != nil {
		if f, ok := e.leaf(v); ok {
			return c04Num{f: f}, true
		}
	}
	switch x := v.(type) {
	case *ssa.Const:
		if x.Value == nil {
			return c04Num{}, false
		}
		switch x.Value.Kind() {
		case constant.Bool:
			return c04Num{b: constant.BoolVal(x.Value), isBool: true}, true
		case constant.Int, constant.Float:
			f, _ := constant.Float64Val(constant.ToFloat(x.Value))
			return c04Num{f: f}, true
		}
	case *ssa.Phi:
		n, ok := phis[x]
		return n, ok
	case *ssa.BinOp:
		l, ok1 := e.value(x.X, phis, args, depth+1)
		r, ok2 := e.value(x.Y, phis, args, depth+1)
		if !ok1 || !ok2 {
			return c04Num{}, false
		}
		if l.isBool != r.isBool {
			return c04Num{}, false
		}
		if l.isBool && x.Op != token.EQL && x.Op != token.NEQ {
			switch x.Op {
			case token.AND, token.LAND:
				return c04Num{b: l.b && r.b, isBool: true}, true
			case token.OR, token.LOR:
				return c04Num{b: l.b || r.b, isBool: true}, true
			}
			return c04Num{}, false
		}
		return e.arith(x.Op, l, r, c04IsIntType(x.X.Type()))
	case *ssa.UnOp:
		switch x.Op {
		case token.NOT:
			n, ok := e.value(x.X, phis, args, depth+1)
			if !ok || !n.isBool {
				return c04Num{}, false
			}
			return c04Num{b: !n.b, isBool: true}, true
		case token.SUB:
			n, ok := e.value(x.X, phis, args, depth+1)
			if !ok || n.isBool {
				return c04Num{}, false
			}
			return c04Num{f: -n.f}, true
		case token.MUL:
			if fv := core.Forward(x); fv != ssa.Value(x) {
				return e.value(fv, phis, args, depth+1)
			}
		}
	case *ssa.Convert:
		n, ok := e.value(x.X, phis, args, depth+1)
		if !ok || n.isBool {
			return c04Num{}, false
		}
		if c04IsIntType(x.Type()) {
			n.f = math.Trunc(n.f)
		}
		return n, true
	case *ssa.ChangeType:
		return e.value(x.X, phis, args, depth+1)
	case *ssa.Call:
		name := core.CalleeName(x)
		as := core.Args(x)
		switch name {
		case "(time.Duration).Seconds":
			n, ok := e.value(as[0], phis, args, depth+1)
			return c04Num{f: n.f / 1e9}, ok && !n.isBool
		case "(time.Duration).Milliseconds":
			n, ok := e.value(as[0], phis, args, depth+1)
			return c04Num{f: math.Trunc(n.f / 1e6)}, ok && !n.isBool
		case "(time.Duration).Nanoseconds":
			return e.value(as[0], phis, args, depth+1)
		case "math.Abs":
			n, ok := e.value(as[0], phis, args, depth+1)
			return c04Num{f: math.Abs(n.f)}, ok && !n.isBool
		case "builtin:min", "builtin:max", "math.Min", "math.Max":
			var acc c04Num
			for i, a := range as {
				n, ok := e.value(a, phis, args, depth+1)
				if !ok || n.isBool {
					return c04Num{}, false
				}
				if i == 0 || (name[len(name)-2:] == "in" && n.f < acc.f) || (name[len(name)-2:] == "ax" && n.f > acc.f) {
					acc = n
				}
			}
			return acc, len(as) > 0
		}
		if h := x.Call.StaticCallee(); h != nil && h.Blocks != nil && !x.Call.IsInvoke() && h.Signature.Results().Len() == 1 {
			na := map[*ssa.Parameter]c04Num{}
			for i, pa := range h.Params {
				if i >= len(as) {
					return c04Num{}, false
				}
				n, ok := e.value(as[i], phis, args, depth+1)
				if !ok {
					return c04Num{}, false
				}
				na[pa] = n
			}
			return e.interpret(h, na, depth+1)
		}
	}
	return c04Num{}, false
}

// interpret runs a pure single-result helper on concrete arguments.
func (e *c04Eval) interpret(h *ssa.Function, args map[*ssa.Parameter]c04Num, depth int) (c04Num, bool) {
	phis := map[*ssa.Phi]c04Num{}
	var prev *ssa.BasicBlock
	b := h.Blocks[0]
	for steps := 0; steps < 2000; steps++ {
		// φs first, all with the values before the block
		newPhis := map[*ssa.Phi]c04Num{}
		for _, in := range b.Instrs {
			ph, ok := in.(*ssa.Phi)
			if !ok {
				break
			}
			idx := -1
			for i, p := range b.Preds {
				if p == prev {
					idx = i
				}
			}
			if idx < 0 {
				return c04Num{}, false
			}
			if n, ok := e.value(ph.Edges[idx], phis, args, depth+1); ok {
				newPhis[ph] = n
			}
		}
		for k, v := range newPhis {
			phis[k] = v
		}
		var next *ssa.BasicBlock
		for _, in := range b.Instrs {
			switch x := in.(type) {
			case *ssa.Phi, *ssa.DebugRef, *ssa.BinOp, *ssa.UnOp, *ssa.Convert, *ssa.ChangeType:
			case *ssa.Call:
				// only calls the evaluator understands may matter; others make dependants unknown
			case *ssa.If:
				c, ok := e.value(x.Cond, phis, args, depth+1)
				if !ok || !c.isBool {
					return c04Num{}, false
				}
				if c.b {
					next = b.Succs[0]
				} else {
					next = b.Succs[1]
				}
			case *ssa.Jump:
				next = b.Succs[0]
			case *ssa.Return:
				if len(x.Results) != 1 {
					return c04Num{}, false
				}
				return e.value(x.Results[0], phis, args, depth+1)
			default:
				return c04Num{}, false // side effects or memory: not a pure helper
			}
		}
		if next == nil {
			return c04Num{}, false
		}
		prev, b = b, next
	}
	return c04Num{}, false
}

// reach explores the paths of fn from its entry: conditions the evaluator can
// decide are followed on their feasible side only; it reports a target instruction
// reached.
func (e *c04Eval) reach(fn *ssa.Function, target func(ssa.Instruction) bool) ssa.Instruction {
	type frame struct {
		b, prev *ssa.BasicBlock
		phis    map[*ssa.Phi]c04Num
	}
	work := []frame{{fn.Blocks[0], nil, map[*ssa.Phi]c04Num{}}}
	for len(work) > 0 {
		e.steps++
		if e.steps > 200000 {
			return nil
		}
		fr := work[len(work)-1]
		work = work[:len(work)-1]
		phis := map[*ssa.Phi]c04Num{}
		for k, v := range fr.phis {
			phis[k] = v
		}
		for _, in := range fr.b.Instrs {
			ph, ok := in.(*ssa.Phi)
			if !ok {
				break
			}
			delete(phis, ph)
			for i, p := range fr.b.Preds {
				if p == fr.prev {
					if n, ok := e.value(ph.Edges[i], fr.phis, nil, 0); ok {
						phis[ph] = n
					}
				}
			}
		}
		for _, in := range fr.b.Instrs {
			if target(in) {
				return in
			}
		}
		switch t := fr.b.Instrs[len(fr.b.Instrs)-1].(type) {
		case *ssa.If:
			c, ok := e.value(t.Cond, phis, nil, 0)
			if ok && c.isBool {
				s := fr.b.Succs[1]
				if c.b {
					s = fr.b.Succs[0]
				}
				work = append(work, frame{s, fr.b, phis})
				continue
			}
			if e.relevant != nil && e.relevant(t.Cond) && e.Undecided == nil {
				e.Undecided = t
			}
			for _, s := range fr.b.Succs {
				work = append(work, frame{s, fr.b, phis})
			}
		default:
			for _, s := range fr.b.Succs {
				work = append(work, frame{s, fr.b, phis})
			}
		}
	}
	return nil
}
