package props

import (
	"go/token"
	"go/types"

	"godcheck/core"

	"golang.org/x/tools/go/ssa"
)

// Round 9 (missed seeded change C09-vm3): the threshold the shedder compares the CPU reading with
// is the CONFIGURED one.
//
// The property says the shedder "never rejects a request while CPU usage is below the threshold
// and no overload was observed during the last second". D3/K2/overload-test pins the comparison
// (CpuUsage ≥ shedder.cpuThreshold); nothing pinned that shedder.cpuThreshold IS the threshold the
// caller configured. A constructor that clamps, scales or replaces it (C09-vm3: every threshold
// above 900 silently becomes 900) makes a shedder built WithCpuThreshold(950) treat the readings
// 900..949 as overload and reject below its threshold.
//
// Decided as a value-flow identity, not as a spelling:
//   (a) the value stored into <shedder>.cpuThreshold of a freshly built shedder is a plain read of
//       one field F of the options struct the functional options were applied to (through
//       temporaries and whole-struct copies of that struct taken after the options ran) — no
//       arithmetic, no φ, no constant;
//   (b) nothing in the constructor writes F (field store, whole-struct store, a callee handed the
//       struct that writes F) once an option may have run, and F is read after the last option;
//   (c) every function of the package that writes F through a pointer parameter (an option body)
//       writes, on every path, the unmodified argument of the option's constructor;
//   (d) <shedder>.cpuThreshold is written nowhere but into a fresh shedder.
// The options struct and F are found by role (the struct handed to the dynamically called option
// functions; the field that flows into the shedder's threshold), never by name.

type c09optApps struct {
	apps  []ssa.Instruction
	cells map[ssa.Value]bool // the options structs (their allocation) handed to the options
}

// c09OptionApps lists the functional-option applications of fn: dynamic calls (no static callee, no
// interface method, no builtin) of a func(*S) value, S a struct, that return nothing.
func c09OptionApps(fn *ssa.Function) c09optApps {
	out := c09optApps{cells: map[ssa.Value]bool{}}
	for _, b := range fn.Blocks {
		for _, in := range b.Instrs {
			cl, ok := in.(*ssa.Call)
			if !ok || cl.Call.IsInvoke() || cl.Call.StaticCallee() != nil || len(cl.Call.Args) != 1 {
				continue
			}
			if _, isBuiltin := cl.Call.Value.(*ssa.Builtin); isBuiltin {
				continue
			}
			if cl.Call.Signature().Results().Len() != 0 {
				continue
			}
			a := cl.Call.Args[0]
			pt, isPtr := a.Type().Underlying().(*types.Pointer)
			if !isPtr {
				continue
			}
			if _, isStruct := pt.Elem().Underlying().(*types.Struct); !isStruct {
				continue
			}
			out.apps = append(out.apps, in)
			out.cells[core.Forward(a)] = true
		}
	}
	return out
}

// c09Flow is the verdict of following one value back to the options struct.
type c09Flow struct {
	tf     string          // "T.f": the options field reached ("" when not reached)
	fail   string          // a violation (with its position)
	failAt ssa.Instruction //
	unres  string          // the flow could not be followed
}

// c09WritesField reports whether g (or a closure created in it) stores into a field called tf.
func c09WritesField(g *ssa.Function, tf string) bool {
	if g == nil {
		return false
	}
	for _, h := range core.WithAnon(g) {
		if len(core.StoresToField(h, tf)) > 0 {
			return true
		}
	}
	return false
}

// c09AsConfigured follows v — the value stored into the shedder's threshold — back to the options
// struct of fn and decides (a) and (b).
func c09AsConfigured(fn *ssa.Function, v ssa.Value, oa c09optApps) c09Flow {
	v = core.Forward(v)
	var cell ssa.Value
	var idx int
	var point ssa.Instruction
	switch x := v.(type) {
	case *ssa.UnOp:
		fa, ok := x.X.(*ssa.FieldAddr)
		if x.Op != token.MUL || !ok {
			return c09Flow{fail: "is " + core.Describe(v) + ", not the threshold the options configured"}
		}
		cell, idx, point = core.Forward(fa.X), fa.Field, x
	case *ssa.Field:
		ld, ok := x.X.(*ssa.UnOp) // the whole-struct load itself (Forward would skip to an earlier copy)
		if !ok || ld.Op != token.MUL {
			return c09Flow{unres: "cannot follow the struct value " + core.Describe(x.X)}
		}
		cell, idx, point = core.Forward(ld.X), x.Field, ld
	default:
		return c09Flow{fail: "is " + core.Describe(v) + ", not the threshold the options configured (a clamped, scaled or constant threshold makes the shedder see an overload at CPU readings below the configured threshold, or none above it)"}
	}
	return c09CellField(fn, cell, idx, point, oa, 0)
}

func c09CellField(fn *ssa.Function, cell ssa.Value, idx int, point ssa.Instruction, oa c09optApps, depth int) c09Flow {
	al, ok := cell.(*ssa.Alloc)
	if !ok || depth > 4 {
		return c09Flow{unres: "the struct the threshold is read from (" + core.Describe(cell) + ") is not a local of " + core.FuncName(fn)}
	}
	fv := c09FieldVar(al.Type(), idx)
	if fv == nil {
		return c09Flow{unres: "field not found"}
	}
	tf := c09TypeBase(al.Type()) + "." + fv.Name()
	isApp := core.Is(oa.apps...)
	// writers of cell.f in fn
	var fieldStores, wholeStores []*ssa.Store
	var callWriters []ssa.Instruction
	for _, b := range fn.Blocks {
		for _, in := range b.Instrs {
			switch x := in.(type) {
			case *ssa.Store:
				if fa, ok := x.Addr.(*ssa.FieldAddr); ok && fa.Field == idx && core.Forward(fa.X) == cell {
					fieldStores = append(fieldStores, x)
				} else if x.Addr == cell || core.Forward(x.Addr) == cell {
					wholeStores = append(wholeStores, x)
				}
			case ssa.CallInstruction:
				if isApp(in) {
					continue
				}
				for _, a := range x.Common().Args {
					if core.Forward(a) != cell {
						continue
					}
					callee := x.Common().StaticCallee()
					if callee == nil || callee.Blocks == nil || c09WritesField(callee, tf) {
						callWriters = append(callWriters, in)
					}
				}
			case *ssa.MakeClosure:
				for _, a := range x.Bindings {
					if core.Forward(a) == cell || a == cell {
						if g, _ := x.Fn.(*ssa.Function); c09WritesField(g, tf) {
							callWriters = append(callWriters, in)
						}
					}
				}
			}
		}
	}
	if oa.cells[cell] {
		// the struct the options are applied to
		if _, again := core.Reach(core.Q{From: []core.At{core.After(point)}, Target: isApp}); again {
			return c09Flow{tf: tf, failAt: point, fail: "is read from " + tf + " while an option can still run: a threshold configured by a later option is ignored"}
		}
		var from []core.At
		for _, a := range oa.apps {
			from = append(from, core.After(a))
		}
		var ws []ssa.Instruction
		for _, s := range fieldStores {
			ws = append(ws, s)
		}
		for _, s := range wholeStores {
			ws = append(ws, s)
		}
		ws = append(ws, callWriters...)
		if len(ws) > 0 {
			if w, hit := core.Reach(core.Q{From: from, Target: core.Is(ws...)}); hit {
				return c09Flow{tf: tf, failAt: w, fail: "is not the configured one: " + tf + " is overwritten after an option may have set it (a clamp or a reset of the configured threshold: the shedder sees an overload at CPU readings below the threshold the caller configured, or none above it)"}
			}
		}
		return c09Flow{tf: tf}
	}
	// a copy of the options struct: exactly one whole-struct store, from a load of another local
	// struct, and nothing else writes the field
	if len(fieldStores) > 0 {
		return c09Flow{failAt: fieldStores[0], fail: "is not the configured one: " + tf + " of the copy of the options the shedder is built from is overwritten (a clamp or a reset of the configured threshold)"}
	}
	if len(callWriters) > 0 {
		return c09Flow{failAt: callWriters[0], fail: "is not the configured one: the copy of the options the shedder is built from is handed to a function that writes " + tf}
	}
	if len(wholeStores) != 1 {
		return c09Flow{unres: "the struct the threshold is read from is not a single copy of the options"}
	}
	src, ok := wholeStores[0].Val.(*ssa.UnOp) // the whole-struct load itself: what the source holds at that moment
	if !ok || src.Op != token.MUL {
		return c09Flow{unres: "the struct the threshold is read from is initialised from " + core.Describe(wholeStores[0].Val) + ", which is not followed"}
	}
	return c09CellField(fn, core.Forward(src.X), idx, src, oa, depth+1)
}

func c09FieldVar(t types.Type, i int) *types.Var {
	if p, ok := t.Underlying().(*types.Pointer); ok {
		t = p.Elem()
	}
	st, ok := t.Underlying().(*types.Struct)
	if !ok || i >= st.NumFields() {
		return nil
	}
	return st.Field(i)
}

func c09TypeBase(t types.Type) string {
	if p, ok := t.Underlying().(*types.Pointer); ok {
		t = p.Elem()
	}
	if n, ok := t.(*types.Named); ok {
		return n.Obj().Name()
	}
	return t.String()
}

// c09SameValue follows v through single-assignment temporaries and through conversions between
// types of identical underlying type (ssa.ChangeType: `int64(c)` of a `type c int64`), which keep
// the value bit for bit. Numeric conversions (ssa.Convert) may truncate or round and are NOT
// looked through.
func c09SameValue(v ssa.Value) ssa.Value {
	for i := 0; i < 8; i++ {
		v = core.Forward(v)
		ct, ok := v.(*ssa.ChangeType)
		if !ok {
			return v
		}
		v = ct.X
	}
	return v
}

// c09UnmodifiedArgument decides whether v, inside the option body g, is the argument of the function
// that created g (a parameter captured by the closure and assigned nowhere), or a parameter of g.
func c09UnmodifiedArgument(p *core.Prog, g *ssa.Function, v ssa.Value) (ok bool, why string) {
	v = c09SameValue(v)
	if u, isLoad := v.(*ssa.UnOp); isLoad && u.Op == token.MUL {
		if _, isFV := u.X.(*ssa.FreeVar); isFV {
			v = u.X
		}
	}
	fv, isFV := v.(*ssa.FreeVar)
	if !isFV {
		return false, core.Describe(v)
	}
	idx := -1
	for i, x := range g.FreeVars {
		if x == fv {
			idx = i
		}
	}
	if idx < 0 {
		return false, "a variable of another closure"
	}
	// no write to the captured variable inside the option body
	for _, b := range g.Blocks {
		for _, in := range b.Instrs {
			if st, isSt := in.(*ssa.Store); isSt && st.Addr == ssa.Value(fv) {
				return false, "a captured variable the option body assigns"
			}
		}
	}
	sites := 0
	for _, f := range p.PkgFuncs(loadPkg) {
		for _, b := range f.Blocks {
			for _, in := range b.Instrs {
				mc, isMC := in.(*ssa.MakeClosure)
				if !isMC || mc.Fn != ssa.Value(g) || idx >= len(mc.Bindings) {
					continue
				}
				sites++
				switch bd := c09SameValue(mc.Bindings[idx]).(type) {
				case *ssa.Parameter:
				case *ssa.Alloc:
					nst := 0
					for _, ref := range *bd.Referrers() {
						switch x := ref.(type) {
						case *ssa.Store:
							if x.Addr != ssa.Value(bd) {
								continue
							}
							nst++
							if _, isPar := c09SameValue(x.Val).(*ssa.Parameter); !isPar {
								return false, "a captured variable assigned " + core.Describe(x.Val) + " before the option is returned"
							}
						case *ssa.MakeClosure:
							// another closure sharing the variable must not assign it
							h, _ := x.Fn.(*ssa.Function)
							for k, bb := range x.Bindings {
								if bb != ssa.Value(bd) || h == nil || k >= len(h.FreeVars) {
									continue
								}
								for _, hb := range h.Blocks {
									for _, hin := range hb.Instrs {
										if st, isSt := hin.(*ssa.Store); isSt && st.Addr == ssa.Value(h.FreeVars[k]) {
											return false, "a captured variable assigned by a closure"
										}
									}
								}
							}
						}
					}
					if nst != 1 {
						return false, "a captured variable that is assigned again before the option is returned (it is no longer the argument)"
					}
				default:
					return false, "a captured " + core.Describe(mc.Bindings[idx])
				}
			}
		}
	}
	if sites == 0 {
		return false, "a captured variable whose closure is created nowhere in the package"
	}
	return true, ""
}

func c09r9(r *core.Run, c *c09ctx, need func(o *core.O, fs ...*ssa.Function) bool) {
	p := r.P
	r.Explanation += " The threshold the overload test compares with is the configured one: what a constructor stores into the shedder's cpuThreshold is a plain read, after the last option, of the options field the options write (also through a by-value copy of the options), that field is written by nothing in the constructor once an option may have run, the option body stores the unmodified argument of its constructor on every path, and the shedder's threshold is written nowhere else."
	r.NotDecided += "; the default threshold and how callers derive the threshold they configure (the API engine's (threshold+1000)>>1 for priority routes); a default written into a fresh options struct by a helper is not followed into the constructor."
	r.Check("D3/K8/threshold-as-configured", "the threshold the overload test compares the CPU reading with is the configured one: the value a constructor stores into the shedder's cpuThreshold is a plain read of one field of the options struct the functional options were applied to, read after the last option, that field being written by nothing in the constructor once an option may have run (no clamp, no reset, no arithmetic on the way, also through a copy of the options); every option body writing that field writes, on every path, the unmodified argument of its option constructor; the shedder's cpuThreshold is written nowhere else [clause 'never rejects a request while CPU usage is below the threshold': a shedder whose effective threshold is lower than the configured one — 950 clamped to 900 — treats readings between the two as overload and rejects below its threshold; a higher one never sheds]", func(o *core.O) {
		if !need(o) {
			return
		}
		shedF := c.field("cpuThreshold")
		nStores := 0
		optFields := map[string]bool{}
		handled := map[ssa.Value]bool{} // option structs of constructors: their stores are judged by (b)
		for _, f := range p.PkgFuncs(loadPkg) {
			sts := core.StoresToField(f, shedF)
			if len(sts) == 0 {
				continue
			}
			oa := c09OptionApps(f)
			for cell := range oa.cells {
				handled[cell] = true
			}
			for _, st := range sts {
				nStores++
				r.Fn(core.FuncName(f))
				fa, _ := st.Addr.(*ssa.FieldAddr)
				var base ssa.Value
				if fa != nil {
					base = core.Strip(core.Forward(fa.X))
				}
				switch base.(type) {
				case *ssa.Alloc:
				case *ssa.Parameter, *ssa.FreeVar:
					o.Fail(p.InstrPos(st), "%s rewrites the threshold of an existing shedder: from then on the overload test no longer compares with the configured threshold", core.FuncName(f))
					continue
				default:
					o.Unres("%s: %s writes the threshold of a shedder that is not built there (%s); the configured threshold cannot be followed", p.InstrPos(st), core.FuncName(f), core.Describe(fa.X))
					continue
				}
				if len(oa.apps) == 0 {
					o.Unres("%s: %s builds the shedder but applies no functional option; the configured threshold cannot be followed into it", p.InstrPos(st), core.FuncName(f))
					continue
				}
				fl := c09AsConfigured(f, st.Val, oa)
				if fl.tf != "" {
					optFields[fl.tf] = true
				}
				switch {
				case fl.fail != "":
					at := ssa.Instruction(st)
					if fl.failAt != nil {
						at = fl.failAt
					}
					o.Fail(p.InstrPos(at), "%s: the threshold of the shedder %s", core.FuncName(f), fl.fail)
				case fl.unres != "":
					o.Unres("%s: %s: %s", p.InstrPos(st), core.FuncName(f), fl.unres)
				}
			}
		}
		o.Site(nStores, loadPkg+": stores to "+shedF)
		if nStores == 0 {
			o.Unres("no store to %s found in %s", shedF, loadPkg)
			return
		}
		// (c) the option bodies
		nOpt := 0
		for tf := range optFields {
			for _, g := range p.PkgFuncs(loadPkg) {
				sts := core.StoresToField(g, tf)
				var mine []ssa.Instruction
				for _, st := range sts {
					fa := st.Addr.(*ssa.FieldAddr)
					base := core.Strip(core.Forward(fa.X))
					if handled[base] {
						continue // judged by (b)
					}
					if _, fresh := base.(*ssa.Alloc); fresh {
						continue // a default written into a fresh struct (how it reaches the constructor is not followed)
					}
					par, isPar := base.(*ssa.Parameter)
					if !isPar || par.Parent() != g {
						o.Unres("%s: %s writes %s of a struct that is neither its parameter nor a local", p.InstrPos(st), core.FuncName(g), tf)
						continue
					}
					nOpt++
					mine = append(mine, st)
					r.Fn(core.FuncName(g))
					if g.Parent() == nil {
						if _, own := c09SameValue(st.Val).(*ssa.Parameter); own {
							o.Unres("%s: %s sets %s from its own parameter; its callers are not followed", p.InstrPos(st), core.FuncName(g), tf)
							continue
						}
					}
					if ok, why := c09UnmodifiedArgument(p, g, st.Val); !ok {
						o.Fail(p.InstrPos(st), "the option %s sets %s to %s, not to the unmodified argument of its constructor: the shedder is built with another threshold than the configured one", core.FuncName(g), tf, why)
					}
				}
				if len(mine) > 0 {
					if w := core.MustPass(core.Entry(g), core.Is(mine...), core.IsReturn); w != nil {
						o.Fail(p.InstrPos(w), "the option %s can return without setting %s: for some arguments the configured threshold is ignored", core.FuncName(g), tf)
					}
				}
			}
		}
		o.Site(nOpt, loadPkg+": option bodies writing the threshold")
		if len(optFields) > 0 && nOpt == 0 {
			o.Unres("no option body writing the configured threshold found in %s", loadPkg)
		}
	})
}
