package props

import (
	"fmt"
	"go/token"
	"go/types"
	"strings"

	"godcheck/core"

	"golang.org/x/tools/go/ssa"
)

func init() { register("C10", c10) }

const f10CollPkg = "lib/collection"

// twRoles resolves the timing wheel's functions by role.
type twRoles struct {
	g        *pkgGraph
	run      *ssa.Function // the goroutine started on a fresh wheel
	ctor     *ssa.Function // the function that starts it
	sel      *ssa.Select   // run's select
	arm      map[string]int
	handler  map[string]*ssa.Function // channel field ("setChannel", …, "tick") -> handler called on that arm
	owned    map[*ssa.Function]bool
	scan     *ssa.Function // the function under the tick handler that walks a slot's entries
	place    *ssa.Function // computes (pos, circle) for a delay
	setIndex *ssa.Function // records (pos, entry) in the timers index
}

func isTW(t types.Type) bool {
	if p, ok := t.(*types.Pointer); ok {
		t = p.Elem()
	}
	n, ok := t.(*types.Named)
	return ok && n.Obj().Name() == "TimingWheel" && n.Obj().Pkg() != nil && n.Obj().Pkg().Path() == core.Mod+"/"+f10CollPkg
}

func f10SelectIndex(sel *ssa.Select) func(ssa.Value) bool {
	return func(v ssa.Value) bool {
		e, ok := v.(*ssa.Extract)
		return ok && e.Tuple == sel && e.Index == 0
	}
}

func f10SelectArm(fn *ssa.Function, sel *ssa.Select, k int) []core.Edge {
	h, _ := core.EdgesOf(fn, core.Cmp(token.EQL, f10SelectIndex(sel), core.IsConstInt(int64(k))))
	return h
}

func f10Heads(es []core.Edge) []core.At {
	var out []core.At
	for _, e := range es {
		out = append(out, core.Head(e.To))
	}
	return out
}

func isSelect(in ssa.Instruction) bool { _, ok := in.(*ssa.Select); return ok }

func chanField(v ssa.Value) string {
	v = core.Forward(v)
	// a conversion between channel types (`chan T` → `chan<- T` when the channel is handed to a
	// helper's directional parameter) denotes the same channel
	for i := 0; i < 4; i++ {
		ct, ok := v.(*ssa.ChangeType)
		if !ok {
			break
		}
		_, from := ct.X.Type().Underlying().(*types.Chan)
		_, to := ct.Type().Underlying().(*types.Chan)
		if !from || !to {
			break
		}
		v = core.Forward(ct.X)
	}
	n := core.FieldAddrNameOfLoad(v)
	if strings.HasPrefix(n, "TimingWheel.") {
		return strings.TrimPrefix(n, "TimingWheel.")
	}
	return ""
}

func resolveTW(p *core.Prog) (*twRoles, string) {
	t := &twRoles{g: newPkgGraph(p, f10CollPkg), arm: map[string]int{}, handler: map[string]*ssa.Function{}}
	// run: the method started with `go` on a timing wheel whose body is the owner loop
	// (a select receiving from the wheel's channels); other goroutines started on the wheel
	// (e.g. the one executing due tasks) are ordinary asynchronous functions.
	for _, f := range t.g.funcs {
		for _, in := range core.Instrs(f, func(in ssa.Instruction) bool { _, ok := in.(*ssa.Go); return ok }) {
			callee := in.(*ssa.Go).Call.StaticCallee()
			if callee == nil || callee.Signature.Recv() == nil || !isTW(callee.Signature.Recv().Type()) {
				continue
			}
			isLoop := false
			for _, s := range core.Instrs(callee, isSelect) {
				n := 0
				for _, st := range s.(*ssa.Select).States {
					if st.Dir == types.RecvOnly && chanField(st.Chan) != "" {
						n++
					}
				}
				if n >= 2 {
					isLoop = true
				}
			}
			if !isLoop {
				continue
			}
			if t.run != nil && t.run != callee {
				return nil, "more than one owner loop is started on a TimingWheel"
			}
			t.run, t.ctor = callee, f
		}
	}
	if t.run == nil {
		return nil, "no `go w.<method>()` running a select over the wheel's channels found"
	}
	sels := core.Instrs(t.run, isSelect)
	if len(sels) != 1 {
		return nil, fmt.Sprintf("%s has %d select statements, expected 1", core.FuncName(t.run), len(sels))
	}
	t.sel = sels[0].(*ssa.Select)
	for k, st := range t.sel.States {
		if st.Dir != types.RecvOnly {
			continue
		}
		name := chanField(st.Chan)
		if name == "" {
			if c, ok := st.Chan.(*ssa.Call); ok && c.Call.IsInvoke() && c.Call.Method.Name() == "Chan" {
				name = "tick"
			}
		}
		if name == "" {
			continue
		}
		t.arm[name] = k
		var cands []*ssa.Function
		core.Reach(core.Q{From: f10Heads(f10SelectArm(t.run, t.sel, k)), Blocked: isSelect, Target: func(in ssa.Instruction) bool {
			if c, ok := in.(*ssa.Call); ok {
				if callee := c.Call.StaticCallee(); callee != nil && t.g.inPkg[callee] {
					cands = append(cands, callee)
				}
			}
			return false
		}})
		if len(cands) == 1 {
			t.handler[name] = cands[0]
		}
	}
	ctorPhase := func(e cgEdge) bool {
		c, ok := e.site.(*ssa.Call)
		if !ok || len(c.Call.Args) == 0 || !isTW(c.Call.Args[0].Type()) || !freshRoot(c.Call.Args[0]) {
			return false
		}
		// before the owner goroutine is started
		for _, g := range core.Instrs(e.from, func(in ssa.Instruction) bool { _, ok := in.(*ssa.Go); return ok }) {
			if _, after := core.Reach(core.Q{From: []core.At{core.After(g)}, Target: core.Is(c)}); after {
				return false
			}
		}
		return true
	}
	t.owned = t.g.ownedBy(t.run, ctorPhase)
	if h := t.handler["tick"]; h != nil {
		for _, f := range t.g.reachableSync(h) {
			n := len(core.Instrs(f, func(in ssa.Instruction) bool {
				ta, ok := in.(*ssa.TypeAssert)
				return ok && strings.HasSuffix(ta.AssertedType.String(), ".timingEntry")
			}))
			if n > 0 && t.scan == nil {
				t.scan = f
			} else if n > 0 {
				return nil, "more than one function under the tick handler walks timing entries"
			}
		}
	}
	if h := t.handler["setChannel"]; h != nil {
		for _, c := range core.Calls(h, func(in ssa.Instruction) bool { _, ok := in.(*ssa.Call); return ok }) {
			callee := c.Common().StaticCallee()
			if callee == nil || !t.g.inPkg[callee] {
				continue
			}
			res := callee.Signature.Results()
			if res.Len() == 2 && isIntType(res.At(0).Type()) && isIntType(res.At(1).Type()) {
				t.place = callee
			}
		}
	}
	for _, f := range t.g.funcs {
		if len(core.StoresToField(f, "positionEntry.pos")) > 0 && f.Signature.Recv() != nil && isTW(f.Signature.Recv().Type()) {
			for _, st := range core.StoresToField(f, "positionEntry.pos") {
				if _, isP := core.Forward(st.Val).(*ssa.Parameter); isP && !freshRoot(st.Addr) {
					t.setIndex = f
				}
			}
		}
	}
	return t, ""
}

// listMutators are the container/list operations that change a list.
var listMutators = map[string]bool{"PushBack": true, "PushFront": true, "Remove": true, "Init": true, "InsertBefore": true,
	"InsertAfter": true, "MoveToFront": true, "MoveToBack": true, "MoveBefore": true, "MoveAfter": true, "PushBackList": true, "PushFrontList": true}

func outermost(f *ssa.Function) *ssa.Function {
	for f.Parent() != nil {
		f = f.Parent()
	}
	return f
}

func onTW(f *ssa.Function) bool {
	f = outermost(f)
	return f.Signature.Recv() != nil && isTW(f.Signature.Recv().Type())
}

var wheelTypes = map[string]bool{"TimingWheel": true, "timingEntry": true, "positionEntry": true, "baseEntry": true}

// entryFieldChain: addr is a field address inside a TimingWheel / timingEntry / positionEntry (incl. the embedded baseEntry).
func wheelFieldAddr(addr ssa.Value) (string, bool) {
	fa, ok := addr.(*ssa.FieldAddr)
	if !ok {
		return "", false
	}
	name := core.FieldAddrName(fa)
	typ := name[:strings.Index(name, ".")]
	if !wheelTypes[typ] {
		return "", false
	}
	if typ == "baseEntry" {
		// only when embedded in a timing entry
		inner, ok := fa.X.(*ssa.FieldAddr)
		if !ok || !strings.HasPrefix(core.FieldAddrName(inner), "timingEntry.") {
			return "", false
		}
	}
	return name, true
}

// wheelStateSites lists the instructions of f that write wheel state, and the
// accesses (read or write) of the owner-private fields slots/timers/tickedPos.
func wheelStateSites(f *ssa.Function) (sites []ssa.Instruction, what []string) {
	add := func(in ssa.Instruction, w string) { sites, what = append(sites, in), append(what, w) }
	for _, b := range f.Blocks {
		for _, in := range b.Instrs {
			switch x := in.(type) {
			case *ssa.Store:
				if name, ok := wheelFieldAddr(x.Addr); ok && !freshRoot(x.Addr) {
					add(in, "store to "+name)
				}
				if ia, ok := x.Addr.(*ssa.IndexAddr); ok && core.IsFieldLoad(ia.X, "TimingWheel.slots") && !freshRoot(x.Addr) {
					add(in, "store to an element of TimingWheel.slots")
				}
			case *ssa.FieldAddr:
				switch n := core.FieldAddrName(x); n {
				case "TimingWheel.slots", "TimingWheel.timers", "TimingWheel.tickedPos":
					if !freshRoot(x) {
						add(in, "access to "+n)
					}
				}
			case ssa.CallInstruction:
				name := core.Short(core.CalleeName(x))
				args := core.Args(x)
				if strings.HasPrefix(name, "(*container/list.List).") && listMutators[strings.TrimPrefix(name, "(*container/list.List).")] {
					if onTW(f) || core.DependsOn(args[0], core.FieldLoad("TimingWheel.slots")) {
						add(in, "slot list "+strings.TrimPrefix(name, "(*container/list.List)."))
					}
				}
				if (name == "(*lib/collection.SafeMap).Put" || name == "(*lib/collection.SafeMap).Del") && core.IsFieldLoad(args[0], "TimingWheel.timers") {
					add(in, "timers index "+strings.TrimPrefix(name, "(*lib/collection.SafeMap)."))
				}
			}
		}
	}
	return
}

func isErrGlobal(name string) func(ssa.Value) bool { return core.IsGlobal(f10CollPkg, name) }

func paramIs(pa *ssa.Parameter) func(ssa.Value) bool {
	return func(v ssa.Value) bool {
		return pa != nil && core.Strip(core.Forward(core.Strip(v))) == ssa.Value(pa)
	}
}

func c10(r *core.Run) {
	defer c10Extra(r)
	p := r.P
	r.Explanation = "Decides on every path: SetTimer/MoveTimer/RemoveTimer reach their channel send only with delay > 0 and key != nil and otherwise return ErrArgument touching nothing; every operation returns ErrClosed exactly on its stopChannel arm and nil on its send arm, carries its arguments in the right fields, Stop closes stopChannel and the owner loop leaves on it; wheel state (slots, tickedPos, timers, entries) is accessed only by functions that run solely on behalf of the single owner goroutine started once in the constructor; an entry fires only if not removed, circle ≤ 0 and diff ≤ 0 and is then unlinked from slot and index; remove sets the tombstone and drops the index entry; drain unlinks every entry and hands over only live ones; placement formula pos=(tickedPos+d/I) mod N, circle=(d/I−1)/N, tick advances tickedPos mod N before scanning that slot, the timers index always records the slot an entry was linked into, circle counts down by one; every value stored to timingEntry.diff lies in [0, N−1] for symbolic N; the runner of lib/threading that the drain handler hands the drain function's calls to gives its concurrency slot back through a deferred call registered before the task runs (a panicking drain function does not use the slots up and block the owner loop)."
	r.NotDecided = "the tick at which a moved or re-set task fires as such (needs the arithmetic of three runtime positions); histories; the SafeMap and container/list implementations; non-negativity of the dividends of `% numSlots`; a concurrency bound of the drain runner that is not a blocking send/receive on a channel kept in a struct field (e.g. a select, a semaphore type) is not recognised and nothing is claimed for it."

	t, why := resolveTW(p)
	need := func(o *core.O) bool {
		if t == nil {
			o.Unres("timing wheel roles not resolved: %s", why)
			return false
		}
		return true
	}

	var g0 *pkgGraph
	graphOf := func() *pkgGraph {
		if t != nil {
			return t.g
		}
		if g0 == nil {
			g0 = newPkgGraph(p, f10CollPkg)
		}
		return g0
	}

	// ---------------- D1 API guards ----------------
	type api struct {
		name, ch        string
		hasKey, hasDely bool
	}
	apis := []api{{"SetTimer", "setChannel", true, true}, {"MoveTimer", "moveChannel", true, true}, {"RemoveTimer", "removeChannel", true, false}, {"Drain", "drainChannel", false, false}}
	for _, a := range apis {
		a := a
		f := p.Func(f10CollPkg, "TimingWheel", a.name)
		var sel *ssa.Select
		if f != nil {
			if ss := core.Instrs(f, isSelect); len(ss) == 1 {
				sel = ss[0].(*ssa.Select)
			}
		}
		var keyP, delayP *ssa.Parameter
		if f != nil {
			for i, pa := range f.Params {
				if i == 1 && a.hasKey {
					keyP = pa
				}
				if a.hasDely && pa.Type().String() == "time.Duration" {
					delayP = pa
				}
			}
		}
		if a.hasKey {
			r.Check("D1/K2/arg-guard/"+a.name, "the channel send is reachable only with key != nil (and delay > 0); the rejecting arms return ErrArgument and touch nothing", func(o *core.O) {
				if !o.Need(f != nil && sel != nil && keyP != nil && (!a.hasDely || delayP != nil), "TimingWheel."+a.name+" with one select") {
					return
				}
				r.Fn(core.FuncName(f))
				g := graphOf()
				kind := func(v ssa.Value) int {
					switch {
					case paramIs(keyP)(v):
						return 1
					case delayP != nil && paramIs(delayP)(v):
						return 2
					}
					return 0
				}
				tru, fal := true, false
				effect := func(in ssa.Instruction) bool {
					switch x := in.(type) {
					case *ssa.Select, *ssa.Send, *ssa.Go:
						return true
					case *ssa.Store:
						return !freshRoot(x.Addr)
					case *ssa.Call:
						c := x.Call.StaticCallee()
						return c != nil && g.inPkg[c] && g.hasEffects(c)
					}
					return false
				}
				type cas struct {
					facts argFacts
					txt   string
				}
				bad := []cas{{argFacts{kind: kind, keyNil: &tru}, "key == nil"}}
				if a.hasDely {
					bad = append(bad, cas{argFacts{kind: kind, delayNonPos: &tru}, "delay <= 0"})
				}
				for _, b := range bad {
					o.Site(1, core.FuncName(f)+": "+b.txt)
					nret := 0
					g.reachUnder(f, b.facts, func(in ssa.Instruction) bool {
						if effect(in) {
							if in == ssa.Instruction(sel) {
								o.Fail(p.InstrPos(in), "the send on %s is reachable with %s", a.ch, b.txt)
							} else {
								o.Fail(p.InstrPos(in), "with %s the operation still has an effect (send/store/call) instead of only returning ErrArgument", b.txt)
							}
							return true
						}
						if ret, ok := in.(*ssa.Return); ok {
							nret++
							if !isErrGlobal("ErrArgument")(core.Result(ret, 0)) {
								o.Fail(p.InstrPos(in), "with %s %s returns %s, not ErrArgument", b.txt, a.name, core.Describe(core.Result(ret, 0)))
							}
						}
						return false
					})
					if nret == 0 {
						o.Fail(p.Pos(f.Pos()), "no return found for %s", b.txt)
					}
				}
				// not vacuous: valid arguments reach the send
				good := argFacts{kind: kind, keyNil: &fal, delayNonPos: &fal}
				reached := false
				g.reachUnder(f, good, func(in ssa.Instruction) bool {
					if in == ssa.Instruction(sel) {
						reached = true
					}
					return false
				})
				if !reached {
					o.Fail(p.InstrPos(sel), "valid arguments never reach the send on %s", a.ch)
				}
			})
		}
		r.Check("D1/K1/closed-arm/"+a.name, "one blocking select: send on the operation's channel (→ nil) or receive from stopChannel (→ ErrClosed)", func(o *core.O) {
			if !o.Need(f != nil && sel != nil, "TimingWheel."+a.name+" with one select") {
				return
			}
			r.Fn(core.FuncName(f))
			o.Site(1, core.FuncName(f))
			if !sel.Blocking {
				o.Fail(p.InstrPos(sel), "the select has a default arm: the operation can be dropped while the owner is busy")
			}
			sendArm, stopArm := -1, -1
			for k, st := range sel.States {
				switch {
				case st.Dir == types.SendOnly && chanField(st.Chan) == a.ch:
					sendArm = k
				case st.Dir == types.RecvOnly && chanField(st.Chan) == "stopChannel":
					stopArm = k
				default:
					o.Fail(p.InstrPos(sel), "unexpected select case #%d on %s", k, core.Describe(st.Chan))
				}
			}
			if sendArm < 0 {
				o.Fail(p.InstrPos(sel), "%s does not send on TimingWheel.%s", a.name, a.ch)
			}
			if stopArm < 0 {
				o.Fail(p.InstrPos(sel), "%s does not watch stopChannel", a.name)
			}
			chk := func(arm int, want func(ssa.Value) bool, wantTxt string) {
				if arm < 0 {
					return
				}
				n := 0
				core.Reach(core.Q{From: f10Heads(f10SelectArm(f, sel, arm)), Blocked: isSelect, Target: func(in ssa.Instruction) bool {
					if ret, ok := in.(*ssa.Return); ok {
						n++
						if !want(core.Result(ret, 0)) {
							o.Fail(p.InstrPos(in), "%s returns %s on this arm, expected %s", a.name, core.Describe(core.Result(ret, 0)), wantTxt)
						}
					}
					return false
				}})
				o.Site(n)
				if n == 0 {
					o.Fail(p.InstrPos(sel), "no return found on the arm expected to return %s", wantTxt)
				}
			}
			chk(sendArm, core.IsNil, "nil")
			chk(stopArm, isErrGlobal("ErrClosed"), "ErrClosed")
		})
		r.Check("D1/K8/payload/"+a.name, "the value sent carries the operation's arguments in the matching fields", func(o *core.O) {
			if !o.Need(f != nil && sel != nil, "TimingWheel."+a.name+" with one select") {
				return
			}
			var sent ssa.Value
			for _, st := range sel.States {
				if st.Dir == types.SendOnly {
					sent = st.Send
				}
			}
			if !o.Need(sent != nil, "send case") {
				return
			}
			o.Site(1, core.FuncName(f))
			if !a.hasKey || (a.name == "RemoveTimer") {
				// the parameter itself is sent
				if !paramIs(f.Params[1])(sent) {
					o.Fail(p.InstrPos(sel), "%s sends %s, not its argument", a.name, core.Describe(sent))
				}
				return
			}
			want := map[string]*ssa.Parameter{"baseEntry.key": keyP, "baseEntry.delay": delayP}
			if a.name == "SetTimer" && len(f.Params) > 2 {
				want["timingEntry.value"] = f.Params[2]
			}
			for tf, pa := range want {
				sts := core.StoresToField(f, tf)
				o.Site(len(sts))
				if len(sts) == 0 {
					o.Fail(p.InstrPos(sel), "%s never sets %s of the entry it sends", a.name, tf)
				}
				for _, st := range sts {
					if !paramIs(pa)(st.Val) {
						o.Fail(p.InstrPos(st), "%s is set from %s, expected parameter %s", tf, core.Describe(st.Val), pa.Name())
					}
					if !freshRoot(st.Addr) {
						o.Fail(p.InstrPos(st), "%s writes %s of a shared entry", a.name, tf)
					}
				}
			}
			for _, pa := range want {
				if !core.DependsOn(sent, paramIs(pa)) {
					o.Fail(p.InstrPos(sel), "the value sent does not carry parameter %s", pa.Name())
				}
			}
		})
	}
	r.Check("D1/K1/stop", "Stop closes stopChannel; the owner loop returns on its stopChannel arm without serving another operation", func(o *core.O) {
		if !need(o) {
			return
		}
		stop := p.Func(f10CollPkg, "TimingWheel", "Stop")
		if !o.Need(stop != nil, "TimingWheel.Stop") {
			return
		}
		r.Fn(core.FuncName(stop), core.FuncName(t.run))
		// the close sits in Stop itself, in a function literal Stop creates (the argument of
		// sync.Once.Do since fix da574fa), or in a function of the package that Stop calls or
		// hands to sync.Once.Do as a method value; that it runs at most once is D1/K10.
		stopCode := map[*ssa.Function]bool{}
		for _, g := range c06Union(core.WithAnon(stop), newC06Env(stop).fns) {
			stopCode[g] = true
			for _, c := range core.Calls(g, func(in ssa.Instruction) bool { return core.AsCall(in) != nil }) {
				if c.Common().IsInvoke() {
					continue
				}
				if h := c.Common().StaticCallee(); h != nil && h.Pkg == stop.Pkg {
					stopCode[h] = true
				}
				for _, a := range c.Common().Args {
					if h := fnOfValue(a); h != nil && h.Pkg == stop.Pkg {
						stopCode[h] = true
					}
				}
			}
		}
		ok := false
		ncl := 0
		for g := range stopCode {
			for _, c := range core.Calls(g, core.CallTo("builtin:close")) {
				ncl++
				if chanField(core.Args(c)[0]) == "stopChannel" {
					ok = true
				}
			}
		}
		o.Site(ncl, core.FuncName(stop))
		if !ok {
			o.Fail(p.Pos(stop.Pos()), "Stop does not close stopChannel")
		}
		k, has := t.arm["stopChannel"]
		if !has {
			o.Fail(p.InstrPos(t.sel), "the owner loop does not watch stopChannel")
			return
		}
		arm := f10SelectArm(t.run, t.sel, k)
		o.Site(len(arm), core.FuncName(t.run))
		if w, again := core.Reach(core.Q{From: f10Heads(arm), Target: isSelect}); again || len(arm) == 0 {
			o.Fail(p.InstrPos(w), "after stopChannel fired the owner loop selects again (operations may still succeed after Stop)")
		}
	})

	// ---------------- D2 single owner ----------------
	r.Check("D2/K5/single-owner", "wheel state (fields of TimingWheel/timingEntry/positionEntry, slot lists, the timers index) is written — and slots/timers/tickedPos accessed — only in functions that run solely on behalf of the owner goroutine, or on a wheel still under construction", func(o *core.O) {
		if !need(o) {
			return
		}
		n := 0
		for _, f := range t.g.funcs {
			sites, what := wheelStateSites(f)
			if len(sites) == 0 {
				continue
			}
			n += len(sites)
			r.Fn(core.FuncName(f))
			o.Site(len(sites), core.FuncName(f))
			if t.owned[f] {
				continue
			}
			for i, in := range sites {
				// a field that is consistently guarded by a lock is not owner state: it follows the
				// other discipline (the "stopped" flag of a Stop that closes the stop channel once, D1/K10 form c)
				if st, isStore := in.(*ssa.Store); isStore {
					if name, ok := wheelFieldAddr(st.Addr); ok && c10LockGuardedField(p, f10CollPkg, name) {
						continue
					}
				}
				o.Fail(p.InstrPos(in), "%s in %s, which does not run only on the owner goroutine: %s", what[i], core.FuncName(f), t.g.whyNotOwned(f, t.owned))
			}
		}
		if n < 8 {
			o.Unres("only %d wheel-state sites found (expected ≥ 8): anchors moved", n)
		}
	})
	r.Check("D2/K1/owner-started-once", "the owner goroutine is started only by `go` on a wheel under construction, once", func(o *core.O) {
		if !need(o) {
			return
		}
		r.Fn(core.FuncName(t.ctor))
		es := t.g.in[t.run]
		o.Site(len(es), core.FuncName(t.ctor))
		for _, e := range es {
			g, isGo := e.site.(*ssa.Go)
			if !isGo {
				o.Fail(p.InstrPos(e.site), "%s is called synchronously from %s: a second owner of the wheel state", core.FuncName(t.run), core.FuncName(e.from))
				continue
			}
			if len(g.Call.Args) == 0 || !freshRoot(g.Call.Args[0]) {
				o.Fail(p.InstrPos(e.site), "a second owner goroutine is started on an existing wheel in %s", core.FuncName(e.from))
			}
			if w := core.AtMostOnce(e.from, func(in ssa.Instruction) bool {
				gg, ok := in.(*ssa.Go)
				return ok && gg.Call.StaticCallee() == t.run
			}); w != nil {
				o.Fail(p.InstrPos(w), "the owner goroutine can be started twice")
			}
		}
		if why, esc := t.g.escaped[t.run]; esc {
			o.Fail(p.Pos(t.run.Pos()), "%s is %s", core.FuncName(t.run), why)
		}
	})

	// ---------------- D3 removal / firing ----------------
	removedSet := core.BoolVal(core.FieldLoad("timingEntry.removed"))
	nonPos := func(tf string) core.Atom {
		ld := core.FieldLoad(tf)
		return core.AnyOf(core.Cmp(token.LEQ, ld, core.IsConstInt(0)), core.Cmp(token.EQL, ld, core.IsConstInt(0)), core.Cmp(token.LSS, ld, core.IsConstInt(1)))
	}
	isListRemove := core.CallTo("(*container/list.List).Remove")
	isTimersDel := func(in ssa.Instruction) bool {
		c := core.AsCall(in)
		return c != nil && core.Short(core.CalleeName(c)) == "(*lib/collection.SafeMap).Del" && core.IsFieldLoad(core.Args(c)[0], "TimingWheel.timers")
	}
	r.Check("D3/K2/fire-guard", "in the slot scan an entry is collected for execution only if !removed, circle ≤ 0 and diff ≤ 0, and is then unlinked from its slot list and from the timers index before the scan ends", func(o *core.O) {
		if !need(o) || !o.Need(t.scan != nil, "the slot-scan function under the tick handler") {
			return
		}
		f := t.scan
		r.Fn(core.FuncName(f))
		isFire := core.Or(core.IsStoreToField("timingTask.key"), core.CallOfValue(core.FieldLoad("TimingWheel.execute")))
		fires := core.Instrs(f, isFire)
		o.Site(len(fires), core.FuncName(f))
		if len(fires) == 0 {
			o.Fail(p.Pos(f.Pos()), "no site collecting an entry for execution found in %s", core.FuncName(f))
			return
		}
		if w := core.Requires(f, isFire, core.Not(removedSet)); w != nil {
			o.Fail(p.InstrPos(w), "an entry is collected for execution without its removed flag having been found false: a removed task can fire")
		}
		if w := core.Requires(f, isFire, nonPos("timingEntry.circle")); w != nil {
			o.Fail(p.InstrPos(w), "an entry is collected for execution without circle ≤ 0 having been established: it can fire whole revolutions early")
		}
		if w := core.Requires(f, isFire, nonPos("timingEntry.diff")); w != nil {
			o.Fail(p.InstrPos(w), "an entry is collected for execution without diff ≤ 0 having been established: a moved task fires before its relocation")
		}
		for _, s := range fires {
			if w, ok := core.Reach(core.Q{From: []core.At{core.After(s)}, Target: core.IsReturn, Blocked: isListRemove}); ok {
				o.Fail(p.InstrPos(w), "a fired entry can stay linked in its slot (fires again next revolution)")
			}
			if w, ok := core.Reach(core.Q{From: []core.At{core.After(s)}, Target: core.IsReturn, Blocked: isTimersDel}); ok {
				o.Fail(p.InstrPos(w), "a fired entry can stay in the timers index (a later SetTimer of the key would move a dead entry)")
			}
		}
	})
	r.Check("D3/K1/remove-tombstone", "the remove handler, when the key is indexed, sets the entry's removed flag and deletes the key from the timers index on every path", func(o *core.O) {
		if !need(o) || !o.Need(t.handler["removeChannel"] != nil, "handler of removeChannel") {
			return
		}
		f := t.handler["removeChannel"]
		r.Fn(core.FuncName(f))
		isGet := func(in ssa.Instruction) bool {
			c, ok := in.(*ssa.Call)
			return ok && core.Short(core.CalleeName(c)) == "(*lib/collection.SafeMap).Get" && core.IsFieldLoad(core.Args(c)[0], "TimingWheel.timers")
		}
		found := core.BoolVal(func(v ssa.Value) bool { return core.IsResult(v, 1, isGet) })
		_, missing := core.EdgesOf(f, found)
		tomb := func(in ssa.Instruction) bool {
			st, ok := in.(*ssa.Store)
			return ok && core.FieldAddrName(st.Addr) == "timingEntry.removed" && core.Describe(st.Val) == "const:true"
		}
		o.Site(len(core.Instrs(f, tomb))+len(core.Instrs(f, isTimersDel)), core.FuncName(f))
		if w, ok := core.Reach(core.Q{From: []core.At{core.Entry(f)}, Target: core.IsReturn, Blocked: tomb, Cut: core.CutSet(missing)}); ok {
			o.Fail(p.InstrPos(w), "the handler can return for an indexed key without setting removed=true: the removed task still fires")
		}
		if w, ok := core.Reach(core.Q{From: []core.At{core.Entry(f)}, Target: core.IsReturn, Blocked: isTimersDel, Cut: core.CutSet(missing)}); ok {
			o.Fail(p.InstrPos(w), "the handler can return for an indexed key without deleting it from the timers index: a later SetTimer moves the dead entry instead of creating one")
		}
		for _, d := range core.Instrs(f, isTimersDel) {
			if !paramIs(f.Params[1])(core.Args(d.(ssa.CallInstruction))[1]) {
				o.Fail(p.InstrPos(d), "the index entry deleted is not the key being removed")
			}
		}
		for _, st := range core.StoresToField(f, "timingEntry.removed") {
			if core.Describe(st.Val) != "const:true" {
				o.Fail(p.InstrPos(st), "removed is set to %s", core.Describe(st.Val))
			}
		}
	})
	r.Check("D3/K8/drain-visits-every-slot", "the drain handler scans every slot: each slot list it takes from TimingWheel.slots is indexed by an induction variable that runs from 0 in steps of 1 up to, excluding, len(slots) or numSlots (a `range` over the slots or the equivalent counted loop, possibly rotated by a constant offset modulo the bound); a slot left out keeps its tasks, which fire after Drain", func(o *core.O) {
		if !need(o) || !o.Need(t.handler["drainChannel"] != nil, "handler of drainChannel") {
			return
		}
		f := t.handler["drainChannel"]
		r.Fn(core.FuncName(f))
		isBound := func(v ssa.Value) bool {
			v = core.Forward(v)
			if core.FieldAddrNameOfLoad(v) == "TimingWheel.numSlots" {
				return true
			}
			if c, ok := v.(*ssa.Call); ok {
				if b, isB := c.Call.Value.(*ssa.Builtin); isB && b.Name() == "len" && len(c.Call.Args) == 1 {
					return core.FieldAddrNameOfLoad(core.Forward(c.Call.Args[0])) == "TimingWheel.slots"
				}
			}
			return false
		}
		n := 0
		for _, in := range core.Instrs(f, func(in ssa.Instruction) bool {
			switch x := in.(type) {
			case *ssa.IndexAddr:
				return core.FieldAddrNameOfLoad(core.Forward(x.X)) == "TimingWheel.slots"
			case *ssa.Index:
				return core.FieldAddrNameOfLoad(core.Forward(x.X)) == "TimingWheel.slots"
			}
			return false
		}) {
			n++
			var idx ssa.Value
			switch x := in.(type) {
			case *ssa.IndexAddr:
				idx = x.Index
			case *ssa.Index:
				idx = x.Index
			}
			if why := c10FullRange(idx, isBound); why != "" {
				o.Fail(p.InstrPos(in), "the drain handler takes slots[%s], and %s: the slots left out are never drained and their tasks fire later", core.Describe(idx), why)
			}
		}
		o.Site(n, core.FuncName(f)+": slot accesses")
		if n == 0 {
			o.Unres("%s: no indexing of TimingWheel.slots found", core.FuncName(f))
		}
	})

	r.Check("D3/K2/drain", "the drain handler hands an entry to the drain function only if !removed, and unlinks every entry it visits", func(o *core.O) {
		if !need(o) || !o.Need(t.handler["drainChannel"] != nil, "handler of drainChannel") {
			return
		}
		f := t.handler["drainChannel"]
		r.Fn(core.FuncName(f))
		fnName := f.Params[1].Name()
		callsFn := core.CallOfValue(func(v ssa.Value) bool { return core.IsParam(fnName)(v) || core.IsFreeVar(fnName)(v) })
		isHand := func(in ssa.Instruction) bool {
			if callsFn(in) {
				return true
			}
			mc, ok := in.(*ssa.MakeClosure)
			if !ok {
				return false
			}
			for _, a := range core.WithAnon(mc.Fn.(*ssa.Function)) {
				if len(core.Instrs(a, callsFn)) > 0 {
					return true
				}
			}
			return false
		}
		hs := core.Instrs(f, isHand)
		o.Site(len(hs), core.FuncName(f))
		if len(hs) == 0 {
			o.Fail(p.Pos(f.Pos()), "the drain handler never hands an entry to the drain function")
			return
		}
		if w := core.Requires(f, isHand, core.Not(removedSet)); w != nil {
			o.Fail(p.InstrPos(w), "an entry is handed to the drain function without its removed flag having been found false")
		}
		rems := core.Instrs(f, isListRemove)
		for _, h := range hs {
			dom := false
			for _, rm := range rems {
				if core.Dominates(rm, h) {
					dom = true
				}
			}
			if dom {
				continue
			}
			if w, ok := core.Reach(core.Q{From: []core.At{core.After(h)}, Target: core.Or(core.IsReturn, core.Is(h)), Blocked: isListRemove}); ok {
				o.Fail(p.InstrPos(w), "a drained entry can stay linked in its slot and fire later")
			}
		}
	})

	r.Check("D3/K1/move-reinsert", "when the move handler links a replacement entry it tombstones the old one on the same path (else the task fires twice) and the replacement carries the old value and the new (key, delay); a re-set of a pending key first copies the new value into the pending entry and then moves it", func(o *core.O) {
		if !need(o) || !o.Need(t.handler["moveChannel"] != nil && t.handler["setChannel"] != nil, "handlers of moveChannel and setChannel") {
			return
		}
		mv, st := t.handler["moveChannel"], t.handler["setChannel"]
		r.Fn(core.FuncName(mv), core.FuncName(st))
		isPush := core.CallTo("(*container/list.List).PushBack", "(*container/list.List).PushFront")
		tomb := func(in ssa.Instruction) bool {
			s, ok := in.(*ssa.Store)
			return ok && core.FieldAddrName(s.Addr) == "timingEntry.removed" && core.Describe(s.Val) == "const:true" && !freshRoot(s.Addr)
		}
		pushes := core.Instrs(mv, isPush)
		o.Site(len(pushes), core.FuncName(mv))
		for _, pu := range pushes {
			_, before := core.Reach(core.Q{From: []core.At{core.Entry(mv)}, Target: core.Is(pu), Blocked: tomb})
			_, after := core.Reach(core.Q{From: []core.At{core.After(pu)}, Target: core.IsReturn, Blocked: tomb})
			if before && after {
				o.Fail(p.InstrPos(pu), "a replacement entry is linked without the old entry being marked removed: the task fires twice")
			}
		}
		for _, s := range core.StoresToField(mv, "timingEntry.value") {
			if freshRoot(s.Addr) && core.FieldAddrNameOfLoad(core.Forward(s.Val)) != "timingEntry.value" {
				o.Fail(p.InstrPos(s), "the replacement entry's value is %s, not the pending entry's value", core.Describe(core.Forward(s.Val)))
			}
		}
		for _, s := range core.StoresToField(mv, "timingEntry.baseEntry") {
			if freshRoot(s.Addr) && !paramIs(mv.Params[1])(s.Val) {
				o.Fail(p.InstrPos(s), "the replacement entry does not carry the moved (key, delay)")
			}
		}
		// re-set of a pending key
		isGet := func(in ssa.Instruction) bool {
			c, ok := in.(*ssa.Call)
			return ok && core.Short(core.CalleeName(c)) == "(*lib/collection.SafeMap).Get" && core.IsFieldLoad(core.Args(c)[0], "TimingWheel.timers")
		}
		pending, _ := core.EdgesOf(st, core.BoolVal(func(v ssa.Value) bool { return core.IsResult(v, 1, isGet) }))
		isMove := func(in ssa.Instruction) bool {
			c, ok := in.(*ssa.Call)
			return ok && c.Call.StaticCallee() == mv
		}
		copies := func(in ssa.Instruction) bool {
			s, ok := in.(*ssa.Store)
			if !ok || core.FieldAddrName(s.Addr) != "timingEntry.value" || freshRoot(s.Addr) {
				return false
			}
			ld, ok := core.Forward(s.Val).(*ssa.UnOp)
			if !ok || ld.Op != token.MUL {
				return false
			}
			fa, ok := ld.X.(*ssa.FieldAddr)
			return ok && core.FieldAddrName(fa) == "timingEntry.value" && paramIs(st.Params[1])(fa.X)
		}
		o.Site(len(pending)+len(core.Instrs(st, copies)), core.FuncName(st))
		if len(pending) == 0 {
			o.Fail(p.Pos(st.Pos()), "the set handler never tests whether the key is pending")
			return
		}
		if w, ok := core.Reach(core.Q{From: f10Heads(pending), Target: core.IsReturn, Blocked: copies}); ok {
			o.Fail(p.InstrPos(w), "re-setting a pending key does not copy the new value into the pending entry: the task fires with a stale value")
		}
		if w, ok := core.Reach(core.Q{From: f10Heads(pending), Target: core.IsReturn, Blocked: isMove}); ok {
			o.Fail(p.InstrPos(w), "re-setting a pending key does not re-schedule it")
		}
		// The new value must reach the entry that will fire. Either it is copied
		// before the move (the move's replacement then copies it on), or the move
		// handler updates the key's position record in place (so that a copy made
		// afterwards through that record lands in the replacement). A copy made after
		// a move that registers a fresh position record is lost.
		copyBeforeMove := true
		for _, mvCall := range core.Instrs(st, isMove) {
			if _, ok := core.Reach(core.Q{From: f10Heads(pending), Target: core.Is(mvCall), Blocked: copies}); ok {
				copyBeforeMove = false
			}
		}
		freshRecord := core.Instrs(mv, func(in ssa.Instruction) bool {
			c, ok := in.(*ssa.Call)
			return ok && core.Short(core.CalleeName(c)) == "(*lib/collection.SafeMap).Put" && core.IsFieldLoad(core.Args(c)[0], "TimingWheel.timers")
		})
		if !copyBeforeMove && len(freshRecord) > 0 {
			o.Fail(p.InstrPos(freshRecord[0]), "a re-set copies the new value into the pending entry only after the move, and the move registers a fresh position record: the value lands in the tombstoned entry and the task fires with a stale value")
		}
	})

	r.Check("D3/K3/next-read-before-unlink", "while scanning a slot list, an element's successor is read before the element is unlinked (list.Remove clears the links; reading Next afterwards ends the scan and strands the rest of the slot)", func(o *core.O) {
		isRemove := core.CallTo("(*container/list.List).Remove")
		n := 0
		for _, f := range c10Funcs(p, f10CollPkg) {
			rms := core.Calls(f, isRemove)
			if len(rms) == 0 {
				continue
			}
			// a slot scan: a method/closure of the wheel, or a helper that walks timing entries
			// (asserts list values to timingEntry) — the role the tick handler's scan is found by
			walksEntries := len(core.Instrs(f, func(in ssa.Instruction) bool {
				ta, ok := in.(*ssa.TypeAssert)
				return ok && strings.HasSuffix(ta.AssertedType.String(), ".timingEntry")
			})) > 0
			if !strings.Contains(core.FuncName(f), "TimingWheel") && !walksEntries {
				continue
			}
			r.Fn(core.FuncName(f))
			for _, rm := range rms {
				n++
				elem := core.Strip(core.Args(rm)[1])
				isNextOfElem := func(in ssa.Instruction) bool {
					c, ok := in.(*ssa.Call)
					if !ok || core.Short(core.CalleeName(c)) != "(*container/list.Element).Next" {
						return false
					}
					return core.Strip(core.Args(c)[0]) == elem
				}
				// stop at the loop header's φ re-definition: a use of the same SSA value after the
				// removal is a use of the removed element (φ values are per iteration only through the back edge,
				// where `elem` is re-bound; the receiver then is the φ itself, i.e. the next iteration's element —
				// so only uses before the back edge count)
				blocked := func(in ssa.Instruction) bool { return false }
				if phi, ok := elem.(*ssa.Phi); ok {
					hdr := phi.Block()
					blocked = func(in ssa.Instruction) bool { return in.Block() == hdr && in == hdr.Instrs[0] }
				}
				if w, ok := core.Reach(core.Q{From: []core.At{core.After(rm)}, Target: isNextOfElem, Blocked: blocked}); ok {
					o.Fail(p.InstrPos(w), "%s reads Next() of an element after unlinking it (%s): the scan stops and the remaining tasks of the slot wait a whole revolution", core.FuncName(f), p.InstrPos(rm))
				}
			}
		}
		o.Site(n)
	})

	// ---------------- D4 placement ----------------
	names := func(v ssa.Value) string {
		switch core.FieldAddrNameOfLoad(v) {
		case "TimingWheel.tickedPos":
			return "tp"
		case "TimingWheel.numSlots":
			return "N"
		case "TimingWheel.interval":
			return "I"
		case "timingEntry.circle":
			return "circle"
		case "timingEntry.diff":
			return "diff"
		}
		if pa, ok := v.(*ssa.Parameter); ok && pa.Type().String() == "time.Duration" {
			return "d"
		}
		return ""
	}
	// the same, for code that computes the placement in line from the entry's own delay
	namesInline := func(v ssa.Value) string {
		if core.FieldAddrNameOfLoad(v) == "baseEntry.delay" {
			return "d"
		}
		return names(v)
	}
	r.Check("D4/K7/move-steps-formula", "the move handler re-schedules by the same whole number of ticks as the placement function: with steps = d/I (integer division of the two durations) and ahead = (pos − tickedPos + N − 1) mod N + 1, the values it stores are circle = (steps − ahead)/N and diff = (steps − ahead) mod N", func(o *core.O) {
		if !need(o) {
			return
		}
		h := t.handler["moveChannel"]
		if !o.Need(h != nil, "handler of moveChannel") {
			return
		}
		r.Fn(core.FuncName(h))
		nm := func(v ssa.Value) string {
			switch core.FieldAddrNameOfLoad(v) {
			case "positionEntry.pos":
				return "p"
			case "baseEntry.delay":
				return "d"
			}
			return names(v)
		}
		a := &core.Alg{Name: nm}
		wantCircle := core.ParsePoly("idiv(idiv(d, I) - mod(p - tp + N - 1, N) - 1, N)")
		wantDiff := core.ParsePoly("mod(idiv(d, I) - mod(p - tp + N - 1, N) - 1, N)")
		n := 0
		// out of scope: the circle/diff a freshly built replacement entry starts with (D4/K8/replacement-starts-unscheduled);
		// equivalent spelling: the constant 0 stored where steps − ahead == 0 is established (0/N = 0 mod N = 0)
		restZero := c10EqPoly(a, core.ParsePoly("idiv(d, I) - mod(p - tp + N - 1, N) - 1"))
		zeroAtRestZero := func(st *ssa.Store) bool {
			return core.Describe(st.Val) == "const:0" && core.EdgeCount(h, restZero) > 0 && core.Requires(h, core.Is(st), restZero) == nil
		}
		for _, st := range core.StoresToField(h, "timingEntry.circle") {
			if freshRoot(st.Addr) {
				continue
			}
			n++
			if zeroAtRestZero(st) {
				continue
			}
			if got := a.Norm(st.Val); !got.Equal(wantCircle) {
				o.Fail(p.InstrPos(st), "the move handler stores circle = %s, expected %s (steps = d/I as in the placement function, ahead = ticks until the entry's slot is scanned next)", got, wantCircle)
			}
		}
		m := 0
		for _, st := range core.StoresToField(h, "timingEntry.diff") {
			if freshRoot(st.Addr) {
				continue
			}
			m++
			if zeroAtRestZero(st) {
				continue
			}
			if got := a.Norm(st.Val); !got.Equal(wantDiff) {
				o.Fail(p.InstrPos(st), "the move handler stores diff = %s, expected %s", got, wantDiff)
			}
		}
		o.Site(n+m, core.FuncName(h))
		if n == 0 || m == 0 {
			o.Unres("%s: no store to timingEntry.circle/diff found (the stay-in-slot re-scheduling is not recognised)", core.FuncName(h))
		}
	})

	r.Check("D4/K7/placement-formula", "the placement function returns pos = (tickedPos + d/I) mod N and circle = (d/I − 1)/N", func(o *core.O) {
		if !need(o) {
			return
		}
		wantPos, wantCircle := core.ParsePoly("mod(tp + idiv(d, I), N)"), core.ParsePoly("idiv(idiv(d, I) - 1, N)")
		if t.place == nil {
			// no placement helper: the set handler computes slot and circle in line
			h := t.handler["setChannel"]
			if !o.Need(h != nil && t.setIndex != nil, "the placement function, or a set handler placing the entry in line") {
				return
			}
			r.Fn(core.FuncName(h))
			a := &core.Alg{Name: namesInline}
			n := 0
			for _, c := range core.Calls(h, func(in ssa.Instruction) bool {
				c, ok := in.(*ssa.Call)
				return ok && c.Call.StaticCallee() == t.setIndex
			}) {
				n++
				if got := a.Norm(core.Args(c)[1]); !got.Equal(wantPos) {
					o.Fail(p.InstrPos(c), "pos = %s, expected %s", got, wantPos)
				}
			}
			m := 0
			for _, st := range core.StoresToField(h, "timingEntry.circle") {
				m++
				if got := a.Norm(st.Val); !got.Equal(wantCircle) {
					o.Fail(p.InstrPos(st), "circle = %s, expected %s", got, wantCircle)
				}
			}
			o.Site(n+m, core.FuncName(h))
			if n == 0 || m == 0 {
				o.Unres("neither a placement function nor an in-line placement (index call and circle store) found in %s", core.FuncName(h))
			}
			return
		}
		f := t.place
		r.Fn(core.FuncName(f))
		a := &core.Alg{Name: names}
		rets := core.Returns(f)
		o.Site(len(rets), core.FuncName(f))
		for _, ret := range rets {
			if got := a.Norm(core.Result(ret, 0)); !got.Equal(wantPos) {
				o.Fail(p.InstrPos(ret), "pos = %s, expected %s", got, wantPos)
			}
			if got := a.Norm(core.Result(ret, 1)); !got.Equal(wantCircle) {
				o.Fail(p.InstrPos(ret), "circle = %s, expected %s", got, wantCircle)
			}
		}
	})
	r.Check("D4/K7/tick-advance", "the tick handler stores (tickedPos + 1) mod N to tickedPos and then scans slots[tickedPos]; the scan decrements circle by one and relocates by (tickedPos + diff) mod N, clearing diff", func(o *core.O) {
		if !need(o) || !o.Need(t.handler["tick"] != nil && t.scan != nil, "tick handler and slot scan") {
			return
		}
		// the function that advances the position: the caller of the slot scan (the tick handler, or the
		// owner loop itself), or the scan function itself when it is not a separate function
		f := t.handler["tick"]
		merged := len(core.StoresToField(t.scan, "TimingWheel.tickedPos")) > 0
		if merged {
			f = t.scan
		} else {
			for _, e := range t.g.in[t.scan] {
				if _, plain := e.site.(*ssa.Call); plain && e.from != t.scan {
					f = e.from
				}
			}
		}
		r.Fn(core.FuncName(f), core.FuncName(t.scan))
		a := &core.Alg{Name: names}
		sts := core.StoresToField(f, "TimingWheel.tickedPos")
		o.Site(len(sts), core.FuncName(f))
		if len(sts) != 1 {
			o.Fail(p.Pos(f.Pos()), "expected exactly one store to tickedPos in the tick handler, found %d", len(sts))
			return
		}
		if got, want := a.Norm(sts[0].Val), core.ParsePoly("mod(tp + 1, N)"); !got.Equal(want) {
			o.Fail(p.InstrPos(sts[0]), "tickedPos := %s, expected %s", got, want)
		}
		// lst is slots[i] with i the advanced position (the value stored, or tickedPos read after the store)
		advancedSlot := func(lst ssa.Value) bool {
			ld, isLd := core.Forward(lst).(*ssa.UnOp)
			if !isLd || ld.Op != token.MUL {
				return false
			}
			ia, isIA := ld.X.(*ssa.IndexAddr)
			if !isIA || !core.IsFieldLoad(ia.X, "TimingWheel.slots") {
				return false
			}
			idx := core.Forward(ia.Index)
			if idx == sts[0].Val {
				return true
			}
			il, isL := idx.(*ssa.UnOp)
			return isL && core.IsFieldLoad(il, "TimingWheel.tickedPos") && core.Dominates(sts[0], il)
		}
		if merged {
			// the walk happens in f itself: the list(s) whose elements are the entries visited
			walks, ok := c10WalkedLists(f)
			o.Site(len(walks))
			if !ok || len(walks) == 0 {
				o.Fail(p.Pos(f.Pos()), "the tick handler does not scan a slot (the list whose elements it visits cannot be determined)")
			}
			for _, wk := range walks {
				if !core.Dominates(sts[0], wk.at) {
					o.Fail(p.InstrPos(wk.at), "the slot is scanned before tickedPos advanced")
				}
				if !advancedSlot(wk.list) {
					o.Fail(p.InstrPos(wk.at), "the list scanned is not slots[tickedPos] of the advanced position")
				}
			}
		} else {
			scans := core.Calls(f, func(in ssa.Instruction) bool {
				c, ok := in.(*ssa.Call)
				return ok && c.Call.StaticCallee() == t.scan
			})
			o.Site(len(scans))
			if len(scans) == 0 {
				o.Fail(p.Pos(f.Pos()), "the tick handler does not scan a slot")
			}
			for _, c := range scans {
				if !core.Dominates(sts[0], c) {
					o.Fail(p.InstrPos(c), "the slot is scanned before tickedPos advanced")
				}
				var lst ssa.Value
				for _, arg := range core.Args(c)[1:] {
					if strings.HasSuffix(arg.Type().String(), "list.List") {
						lst = arg
					}
				}
				if lst == nil || !advancedSlot(lst) {
					o.Fail(p.InstrPos(c), "the list scanned is not slots[tickedPos] of the advanced position")
				}
			}
		}
		// scan arithmetic
		circlePos := core.AnyOf(core.Cmp(token.GTR, core.FieldLoad("timingEntry.circle"), core.IsConstInt(0)), core.Cmp(token.GEQ, core.FieldLoad("timingEntry.circle"), core.IsConstInt(1)), core.Cmp(token.NEQ, core.FieldLoad("timingEntry.circle"), core.IsConstInt(0)))
		g := t.scan
		cs := core.StoresToField(g, "timingEntry.circle")
		o.Site(len(cs), core.FuncName(g))
		if len(cs) == 0 {
			o.Fail(p.Pos(g.Pos()), "the scan never counts circle down")
		}
		for _, st := range cs {
			if got, want := a.Norm(st.Val), core.ParsePoly("circle - 1"); !got.Equal(want) {
				o.Fail(p.InstrPos(st), "circle := %s, expected %s", got, want)
			}
			if w := core.Requires(g, core.Is(st), circlePos); w != nil {
				o.Fail(p.InstrPos(st), "circle is decremented without circle > 0")
			}
		}
		pos, _ := core.EdgesOf(g, circlePos)
		if w, ok := core.Reach(core.Q{From: f10Heads(pos), Target: core.Or(core.IsReturn, func(in ssa.Instruction) bool {
			ta, ok := in.(*ssa.TypeAssert)
			return ok && strings.HasSuffix(ta.AssertedType.String(), ".timingEntry")
		}), Blocked: core.IsStoreToField("timingEntry.circle")}); ok || len(pos) == 0 {
			o.Fail(p.InstrPos(w), "an entry with circle > 0 can be passed over without counting the revolution")
		}
		for _, c := range core.Calls(g, func(in ssa.Instruction) bool {
			c, ok := in.(*ssa.Call)
			return ok && t.setIndex != nil && c.Call.StaticCallee() == t.setIndex
		}) {
			o.Site(1)
			if got, want := a.Norm(core.Args(c)[1]), core.ParsePoly("mod(tp + diff, N)"); !got.Equal(want) {
				o.Fail(p.InstrPos(c), "relocation target = %s, expected %s", got, want)
			}
			if w, ok := core.Reach(core.Q{From: []core.At{core.After(c)}, Target: core.Or(core.IsReturn, func(in ssa.Instruction) bool {
				ta, ok := in.(*ssa.TypeAssert)
				return ok && strings.HasSuffix(ta.AssertedType.String(), ".timingEntry")
			}), Blocked: func(in ssa.Instruction) bool {
				st, ok := in.(*ssa.Store)
				return ok && core.FieldAddrName(st.Addr) == "timingEntry.diff" && core.Describe(st.Val) == "const:0"
			}}); ok {
				_ = w
				// diff may also be cleared before the relocation call
				cleared := false
				for _, st := range core.StoresToField(g, "timingEntry.diff") {
					if core.Describe(st.Val) == "const:0" && core.Dominates(st, c) {
						cleared = true
					}
				}
				if !cleared {
					o.Fail(p.InstrPos(c), "a relocated entry keeps its diff and is relocated again at the next visit")
				}
			}
		}
	})
	r.Check("D4/K8/index-agrees-with-slot", "every (pos, entry) recorded in the timers index is the slot list the same entry was just pushed onto; the index setter stores exactly its arguments; a fresh entry takes pos/circle from the placement function in this order", func(o *core.O) {
		if !need(o) || !o.Need(t.setIndex != nil, "index setter") {
			return
		}
		si := t.setIndex
		r.Fn(core.FuncName(si))
		for _, tf := range []string{"positionEntry.pos", "positionEntry.item"} {
			for _, st := range core.StoresToField(si, tf) {
				o.Site(1)
				want := si.Params[1]
				if tf == "positionEntry.item" {
					want = si.Params[2]
				}
				if !paramIs(want)(st.Val) {
					o.Fail(p.InstrPos(st), "%s := %s, expected parameter %s", tf, core.Describe(st.Val), want.Name())
				}
			}
		}
		isPush := core.CallTo("(*container/list.List).PushBack", "(*container/list.List).PushFront")
		for _, e := range t.g.in[si] {
			c, ok := e.site.(*ssa.Call)
			if !ok {
				o.Fail(p.InstrPos(e.site), "the index setter is not called synchronously")
				continue
			}
			f := e.from
			r.Fn(core.FuncName(f))
			o.Site(1, core.FuncName(f))
			posArg, entArg := core.Forward(c.Call.Args[1]), core.Forward(c.Call.Args[2])
			matched := false
			for _, pc := range core.Calls(f, isPush) {
				pi := pc.(ssa.Instruction)
				if !(core.Dominates(pi, c) || core.Dominates(c, pi)) {
					continue
				}
				args := core.Args(pc)
				ld, isLd := args[0].(*ssa.UnOp)
				if !isLd {
					continue
				}
				ia, isIA := ld.X.(*ssa.IndexAddr)
				if !isIA || !core.IsFieldLoad(ia.X, "TimingWheel.slots") {
					continue
				}
				if core.Forward(ia.Index) == posArg && core.Forward(core.Strip(args[1])) == entArg {
					matched = true
				}
			}
			if !matched {
				o.Fail(p.InstrPos(c), "the index records slot %s for the entry, but the entry is not pushed onto slots[%s] here", core.Describe(posArg), core.Describe(posArg))
			}
		}
		// converse: every push of an entry onto slots[pos] is accompanied (on every path to the end of the
		// function or the next push) by the index update for the same (pos, entry); otherwise the index keeps the
		// old slot and a later move/re-set of the key is scheduled relative to a slot the entry has left
		isSet := func(in ssa.Instruction) bool {
			c, ok := in.(*ssa.Call)
			return ok && c.Call.StaticCallee() == si
		}
		for _, f := range t.g.funcs {
			for _, pc := range core.Calls(f, isPush) {
				args := core.Args(pc)
				ld, isLd := args[0].(*ssa.UnOp)
				if !isLd {
					continue
				}
				ia, isIA := ld.X.(*ssa.IndexAddr)
				if !isIA || !core.IsFieldLoad(ia.X, "TimingWheel.slots") {
					continue
				}
				o.Site(1, core.FuncName(f))
				pi := pc.(ssa.Instruction)
				ent := core.Forward(core.Strip(args[1]))
				paired := func(in ssa.Instruction) bool {
					c, ok := in.(*ssa.Call)
					if !ok || !isSet(in) {
						return false
					}
					return core.Forward(c.Call.Args[1]) == core.Forward(ia.Index) && core.Forward(core.Strip(c.Call.Args[2])) == ent
				}
				// already indexed just before the push (dominating call), or on every path after it
				before := false
				for _, sc := range core.Instrs(f, paired) {
					if core.Dominates(sc, pi) {
						before = true
					}
				}
				if before {
					continue
				}
				if w, ok := core.Reach(core.Q{From: []core.At{core.After(pi)}, Target: core.Or(core.IsReturn, core.Is(pi)), Blocked: paired}); ok {
					o.Fail(p.InstrPos(pi), "%s pushes an entry onto slots[%s] without recording that slot in the timers index on a path to %s: the index keeps the old slot", core.FuncName(f), core.Describe(ia.Index), p.InstrPos(w))
				}
			}
		}
		// fresh placement: pos = result 0, circle = result 1
		isPlace := func(in ssa.Instruction) bool {
			c, ok := in.(*ssa.Call)
			return ok && t.place != nil && c.Call.StaticCallee() == t.place
		}
		for _, f := range t.g.funcs {
			pcs := core.Instrs(f, isPlace)
			if len(pcs) == 0 {
				continue
			}
			o.Site(len(pcs), core.FuncName(f))
			for _, st := range core.StoresToField(f, "timingEntry.circle") {
				v := core.Forward(st.Val)
				if c, i := core.ResultOf(v); c != nil && isPlace(c) && i != 1 {
					o.Fail(p.InstrPos(st), "circle is set from the placement function's slot result")
				}
			}
			for _, c := range core.Calls(f, func(in ssa.Instruction) bool {
				c, ok := in.(*ssa.Call)
				return ok && c.Call.StaticCallee() == si
			}) {
				if pc, i := core.ResultOf(core.Forward(core.Args(c)[1])); pc != nil && isPlace(pc) && i != 0 {
					o.Fail(p.InstrPos(c), "the slot is taken from the placement function's circle result")
				}
			}
			if f == t.handler["setChannel"] {
				n := 0
				for _, st := range core.StoresToField(f, "timingEntry.circle") {
					if c, i := core.ResultOf(core.Forward(st.Val)); c != nil && isPlace(c) && i == 1 {
						n++
					}
				}
				if n == 0 {
					o.Fail(p.Pos(f.Pos()), "a freshly set entry does not take its circle from the placement function")
				}
			}
		}
	})

	// ---------------- D5 diff stays inside one revolution ----------------
	r.Check("D5/K7/diff-within-revolution", "every value stored to timingEntry.diff lies in [0, N−1] (N = numSlots, symbolic): slot values (x % numSlots, positionEntry.pos) range over [0, N−1]; dominating comparisons give linear facts; the bound is certified for all N ≥ 1 or refuted by a concrete assignment", func(o *core.O) {
		if !need(o) {
			return
		}
		s := &slotAlg{g: t.g, names: map[string]string{}, descr: map[string]string{}, loads: map[string][]ssa.Instruction{}, memField: map[string]string{}}
		// side conditions: numSlots is immutable; positionEntry.pos only receives slot values
		for _, f := range t.g.funcs {
			for _, st := range core.StoresToField(f, "TimingWheel.numSlots") {
				if !freshRoot(st.Addr) {
					o.Fail(p.InstrPos(st), "numSlots is rewritten on a live wheel")
				}
			}
		}
		s.posOK = true
		nPos := 0
		for _, f := range t.g.funcs {
			for _, st := range core.StoresToField(f, "positionEntry.pos") {
				nPos++
				if !s.isSlotValue(st.Val) {
					s.posOK = false
					o.Fail(p.InstrPos(st), "positionEntry.pos receives %s, which is not known to be a slot number (x %% numSlots)", core.Describe(core.Forward(st.Val)))
				}
			}
		}
		if nPos == 0 {
			s.posOK = false
		}
		n := 0
		for _, f := range t.g.funcs {
			for _, st := range core.StoresToField(f, "timingEntry.diff") {
				n++
				r.Fn(core.FuncName(f))
				o.Site(1, core.FuncName(f))
				type cas struct {
					v  ssa.Value
					at ssa.Instruction
				}
				cases := []cas{{st.Val, st}}
				if phi, ok := core.Forward(st.Val).(*ssa.Phi); ok {
					cases = nil
					for i, e := range phi.Edges {
						pred := phi.Block().Preds[i]
						cases = append(cases, cas{e, pred.Instrs[len(pred.Instrs)-1]})
					}
				}
				for _, c := range cases {
					val, ok := s.norm(c.v)
					if !ok {
						o.Unres("%s: value stored to diff is not linear in slot values: %s", p.InstrPos(st), s.alg().Norm(c.v))
						continue
					}
					facts, _, _ := s.factsAt(f, c.at)
					ranged := s.ranged()
					// usable facts: all atoms ranged and not rewritten between test and store
					var use []linForm
					atoms := map[string]bool{}
					for a := range val.c {
						atoms[a] = true
					}
					for _, g := range facts {
						okf := true
						fa := map[string]bool{}
						for a := range g.c {
							fa[a] = true
							if !ranged[a] {
								okf = false
							}
						}
						if _, stable := s.memStable(f, fa, c.at); !stable {
							okf = false
						}
						if okf {
							use = append(use, g)
						}
					}
					if why, stable := s.memStable(f, atoms, c.at); !stable {
						o.Unres("%s: %s", p.InstrPos(st), why)
						continue
					}
					upper := linForm{c0: val.c0 + 1, cN: val.cN - 1, c: val.c} // val − (N − 1)
					lower := val.neg()
					if proveLE0(upper, use, ranged) && proveLE0(lower, use, ranged) {
						continue
					}
					if w, found := findWitness(val, use, ranged, 6); found {
						var ds []string
						for a := range val.c {
							ds = append(ds, a+" = "+s.descr[a])
						}
						o.Fail(p.InstrPos(st), "diff := %s can leave [0, numSlots−1]: %s [%s]; a relocation by numSlots re-appends the entry to the list being scanned and fires it a whole revolution early", val, w, strings.Join(ds, "; "))
						continue
					}
					o.Unres("%s: cannot bound diff := %s within [0, numSlots−1] (facts: %v)", p.InstrPos(st), val, use)
				}
			}
		}
		if n == 0 {
			o.Unres("no store to timingEntry.diff found")
		}
	})

	r.Check("D3/K2/tombstone-first", "while scanning a slot a removed entry is neither kept for another revolution nor relocated: the circle decrement and the relocation push require !removed (a relocated tombstone re-registers its key in the index and hijacks a later set/remove)", func(o *core.O) {
		if !need(o) || !o.Need(t.scan != nil, "the slot-scan function") {
			return
		}
		f := t.scan
		r.Fn(core.FuncName(f))
		notRemoved := core.Not(core.BoolVal(func(v ssa.Value) bool { return core.IsFieldLoad(v, "timingEntry.removed") }))
		isCircleStore := core.IsStoreToField("timingEntry.circle")
		isPush := core.CallTo("(*container/list.List).PushBack", "(*container/list.List).PushFront")
		n := 0
		for _, g := range core.WithAnon(f) {
			sites := core.Instrs(g, core.Or(isCircleStore, isPush))
			n += len(sites)
			if len(sites) == 0 {
				continue
			}
			if core.EdgeCount(g, notRemoved) == 0 {
				o.Fail(p.Pos(g.Pos()), "%s never tests the removed flag", core.FuncName(g))
				continue
			}
			if w := core.Requires(g, core.Or(isCircleStore, isPush), notRemoved); w != nil {
				o.Fail(p.InstrPos(w), "%s keeps or relocates an entry without having found it not removed", core.FuncName(g))
			}
		}
		o.Site(n, core.FuncName(f))
	})

}
