package props

// Path enumeration of one function on partly concrete arguments (C04-D2/K1).
//
// Nothing is executed: the SSA of the function is interpreted on symbolic
// values. Chosen parameters are constants, everything the function cannot
// know (results of calls, loads from the heap) is an opaque value, locals —
// including local structs and arrays, copied as wholes or accessed
// field by field / element by element — are tracked exactly until their
// address escapes. A branch on constants follows its feasible side only (so a
// loop over a fixed-size array of candidates unrolls by itself); a branch on
// opaque values forks, and the decision is remembered so that the same test
// is decided the same way later on the path. Designated calls are recorded as
// events with their evaluated arguments. The result is the set of paths to a
// return, each with its events, its decisions and its evaluated results: a rule
// states its condition on those, however the function spells its control flow
// (nested ifs, early returns, a loop over an ordered pair, locals held in a
// struct).

import (
	"fmt"
	"go/constant"
	"go/token"
	"go/types"

	"godcheck/core"

	"golang.org/x/tools/go/ssa"
)

type c04SV interface{}

type (
	// c04Opaque is a value the function cannot know; identity is the pointer.
	c04Opaque struct {
		id   int
		what string
	}
	c04NilV struct{}
	// c04Agg is a struct or array value (immutable: writes copy).
	c04Agg struct{ elems []c04SV }
	// c04Ptr is the address of (a component of) a local.
	c04Ptr struct {
		al   *ssa.Alloc
		path string // component path "/i/j"
	}
	// c04SliceV is a slice of a whole local array.
	c04SliceV struct {
		ptr c04Ptr
		n   int
	}
	c04Tuple []c04SV
	// c04Cond is an undecided boolean: a test on opaque values.
	c04Cond struct {
		key string
		neg bool
	}
)

type c04Event struct {
	Call ssa.CallInstruction
	Args []c04SV
	Res  c04Tuple
}

type c04PathState struct {
	env     map[ssa.Value]c04SV
	mem     map[*ssa.Alloc]c04SV
	escaped map[*ssa.Alloc]bool
	facts   map[string]bool
	derived map[string]*c04Opaque
	events  []c04Event
	steps   int
	b, prev *ssa.BasicBlock
}

// c04End is one explored path to an exit.
type c04End struct {
	Ret     *ssa.Return // nil: the path ends in a panic
	Results []c04SV
	Events  []c04Event
	Facts   map[string]bool
}

type c04Exec struct {
	Fn       *ssa.Function
	Params   map[*ssa.Parameter]c04SV
	IsEvent  func(ssa.CallInstruction) bool
	MaxPaths int
	MaxSteps int

	Ends       []c04End
	Incomplete string // non-empty: the exploration gave up
	nextID     int
}

func (e *c04Exec) fresh(what string) *c04Opaque {
	e.nextID++
	return &c04Opaque{e.nextID, what}
}

func c04Key(v c04SV) string {
	switch x := v.(type) {
	case *c04Opaque:
		return fmt.Sprintf("#%d", x.id)
	case constant.Value:
		return x.ExactString()
	case c04NilV:
		return "nil"
	case c04Ptr:
		return fmt.Sprintf("&%p%s", x.al, x.path)
	}
	return fmt.Sprintf("?%p", &v)
}

// c04NilKey is the key of the fact "opaque value o is nil".
func c04NilKey(o *c04Opaque) string { return fmt.Sprintf("nil(#%d)", o.id) }

func (s *c04PathState) clone() *c04PathState {
	n := &c04PathState{
		env: make(map[ssa.Value]c04SV, len(s.env)), mem: make(map[*ssa.Alloc]c04SV, len(s.mem)),
		escaped: make(map[*ssa.Alloc]bool, len(s.escaped)), facts: make(map[string]bool, len(s.facts)),
		derived: make(map[string]*c04Opaque, len(s.derived)),
		events:  append([]c04Event(nil), s.events...), steps: s.steps, b: s.b, prev: s.prev,
	}
	for k, v := range s.env {
		n.env[k] = v
	}
	for k, v := range s.mem {
		n.mem[k] = v
	}
	for k, v := range s.escaped {
		n.escaped[k] = v
	}
	for k, v := range s.facts {
		n.facts[k] = v
	}
	for k, v := range s.derived {
		n.derived[k] = v
	}
	return n
}

func (e *c04Exec) zero(t types.Type, depth int) c04SV {
	switch u := t.Underlying().(type) {
	case *types.Basic:
		switch {
		case u.Info()&types.IsString != 0:
			return constant.MakeString("")
		case u.Info()&types.IsBoolean != 0:
			return constant.MakeBool(false)
		case u.Info()&types.IsInteger != 0:
			return constant.MakeInt64(0)
		case u.Info()&types.IsFloat != 0:
			return constant.MakeFloat64(0)
		}
		return e.fresh("zero")
	case *types.Struct:
		if depth > 4 {
			return e.fresh("zero")
		}
		a := &c04Agg{}
		for i := 0; i < u.NumFields(); i++ {
			a.elems = append(a.elems, e.zero(u.Field(i).Type(), depth+1))
		}
		return a
	case *types.Array:
		if depth > 4 || u.Len() > 64 {
			return e.fresh("zero")
		}
		a := &c04Agg{}
		for i := int64(0); i < u.Len(); i++ {
			a.elems = append(a.elems, e.zero(u.Elem(), depth+1))
		}
		return a
	}
	return c04NilV{}
}

func c04PathIdx(path string) []int {
	var out []int
	n, in := 0, false
	for _, c := range path {
		if c == '/' {
			if in {
				out = append(out, n)
			}
			n, in = 0, true
			continue
		}
		n = n*10 + int(c-'0')
	}
	if in {
		out = append(out, n)
	}
	return out
}

func c04Get(v c04SV, idx []int) (c04SV, bool) {
	for _, i := range idx {
		a, ok := v.(*c04Agg)
		if !ok || i < 0 || i >= len(a.elems) {
			return nil, false
		}
		v = a.elems[i]
	}
	return v, true
}

func c04Set(v c04SV, idx []int, nv c04SV) (c04SV, bool) {
	if len(idx) == 0 {
		return nv, true
	}
	a, ok := v.(*c04Agg)
	if !ok || idx[0] < 0 || idx[0] >= len(a.elems) {
		return nil, false
	}
	sub, ok := c04Set(a.elems[idx[0]], idx[1:], nv)
	if !ok {
		return nil, false
	}
	c := &c04Agg{elems: append([]c04SV(nil), a.elems...)}
	c.elems[idx[0]] = sub
	return c, true
}

// escape marks the locals whose address is contained in v as no longer tracked.
func (s *c04PathState) escape(v c04SV, depth int) {
	if depth > 6 {
		return
	}
	switch x := v.(type) {
	case c04Ptr:
		s.escapeAlloc(x.al, depth)
	case c04SliceV:
		s.escapeAlloc(x.ptr.al, depth)
	case *c04Agg:
		for _, e := range x.elems {
			s.escape(e, depth+1)
		}
	case c04Tuple:
		for _, e := range x {
			s.escape(e, depth+1)
		}
	}
}

func (s *c04PathState) escapeAlloc(al *ssa.Alloc, depth int) {
	if s.escaped[al] {
		return
	}
	s.escaped[al] = true
	s.escape(s.mem[al], depth+1) // pointers held in the escaping local escape with it
}

func (e *c04Exec) val(s *c04PathState, v ssa.Value) c04SV {
	switch x := v.(type) {
	case *ssa.Const:
		if x.Value == nil {
			switch x.Type().Underlying().(type) {
			case *types.Struct, *types.Array:
				return e.zero(x.Type(), 0)
			}
			return c04NilV{}
		}
		return x.Value
	case *ssa.Parameter:
		if r, ok := s.env[x]; ok {
			return r
		}
		if r, ok := e.Params[x]; ok {
			return r
		}
	}
	if r, ok := s.env[v]; ok {
		return r
	}
	r := e.fresh(core.Describe(v))
	s.env[v] = r
	return r
}

func (e *c04Exec) opaqueOfType(t types.Type, what string) c04SV {
	if tt, ok := t.(*types.Tuple); ok {
		var out c04Tuple
		for i := 0; i < tt.Len(); i++ {
			out = append(out, e.fresh(fmt.Sprintf("%s#%d", what, i)))
		}
		return out
	}
	return e.fresh(what)
}

func c04AsCond(v c04SV) (c04Cond, bool) {
	switch x := v.(type) {
	case c04Cond:
		return x, true
	case *c04Opaque:
		return c04Cond{key: fmt.Sprintf("#%d", x.id)}, true
	}
	return c04Cond{}, false
}

func (e *c04Exec) binop(s *c04PathState, x *ssa.BinOp) (res c04SV) {
	a, b := e.val(s, x.X), e.val(s, x.Y)
	defer func() {
		if r := recover(); r != nil {
			res = e.fresh("binop")
		}
	}()
	ca, aok := a.(constant.Value)
	cb, bok := b.(constant.Value)
	isCmp := false
	switch x.Op {
	case token.EQL, token.NEQ, token.LSS, token.LEQ, token.GTR, token.GEQ:
		isCmp = true
	}
	if aok && bok {
		switch {
		case isCmp:
			return constant.MakeBool(constant.Compare(ca, x.Op, cb))
		case x.Op == token.SHL || x.Op == token.SHR:
			n, ok := constant.Uint64Val(cb)
			if !ok || n > 63 {
				return e.fresh("shift")
			}
			return constant.Shift(ca, x.Op, uint(n))
		case x.Op == token.QUO && ca.Kind() == constant.Int:
			if constant.Sign(cb) == 0 {
				return e.fresh("div0")
			}
			return constant.BinaryOp(ca, token.QUO_ASSIGN, cb)
		case x.Op == token.REM && constant.Sign(cb) == 0:
			return e.fresh("div0")
		}
		return constant.BinaryOp(ca, x.Op, cb)
	}
	if !isCmp {
		return e.fresh("binop")
	}
	if x.Op == token.EQL || x.Op == token.NEQ {
		eq := x.Op == token.EQL
		_, an := a.(c04NilV)
		_, bn := b.(c04NilV)
		switch {
		case an && bn:
			return constant.MakeBool(eq)
		case an || bn:
			other := a
			if an {
				other = b
			}
			switch o := other.(type) {
			case *c04Opaque:
				return c04Cond{key: c04NilKey(o), neg: !eq}
			case c04Ptr, c04SliceV, *c04Agg, constant.Value:
				return constant.MakeBool(!eq) // the address of a local / a value is not nil
			}
			return e.fresh("cmp")
		}
		if oa, ok := a.(*c04Opaque); ok {
			if ob, ok := b.(*c04Opaque); ok && oa == ob {
				return constant.MakeBool(eq)
			}
		}
	}
	// a test on opaque values: an undecided condition with a canonical key
	op, neg := x.Op, false
	switch x.Op {
	case token.NEQ:
		op, neg = token.EQL, true
	case token.GEQ:
		op, neg = token.LSS, true
	case token.GTR:
		op, neg = token.LEQ, true
	}
	ka, kb := c04Key(a), c04Key(b)
	if kb < ka {
		// one key for a test and its mirrored spelling: a < b ≡ !(b <= a), a <= b ≡ !(b < a)
		ka, kb = kb, ka
		switch op {
		case token.LSS:
			op, neg = token.LEQ, !neg
		case token.LEQ:
			op, neg = token.LSS, !neg
		}
	}
	return c04Cond{key: ka + " " + op.String() + " " + kb, neg: neg}
}

func (e *c04Exec) instr(s *c04PathState, in ssa.Instruction) {
	switch x := in.(type) {
	case *ssa.DebugRef, *ssa.Phi:
	case *ssa.Alloc:
		s.mem[x] = e.zero(x.Type().(*types.Pointer).Elem(), 0)
		delete(s.escaped, x)
		s.env[x] = c04Ptr{al: x}
	case *ssa.FieldAddr:
		if p, ok := e.val(s, x.X).(c04Ptr); ok {
			s.env[x] = c04Ptr{p.al, fmt.Sprintf("%s/%d", p.path, x.Field)}
		} else {
			s.env[x] = e.fresh("addr")
		}
	case *ssa.IndexAddr:
		base := e.val(s, x.X)
		if sl, ok := base.(c04SliceV); ok {
			base = sl.ptr
		}
		p, ok := base.(c04Ptr)
		i, iok := e.val(s, x.Index).(constant.Value)
		if ok && iok && i.Kind() == constant.Int {
			n, _ := constant.Int64Val(i)
			s.env[x] = c04Ptr{p.al, fmt.Sprintf("%s/%d", p.path, n)}
		} else {
			if ok {
				s.escapeAlloc(p.al, 0) // an element we cannot name may be written through this address
			}
			s.env[x] = e.fresh("addr")
		}
	case *ssa.Field:
		if a, ok := e.val(s, x.X).(*c04Agg); ok && x.Field < len(a.elems) {
			s.env[x] = a.elems[x.Field]
		} else {
			s.env[x] = e.fresh("field")
		}
	case *ssa.Index:
		a, ok := e.val(s, x.X).(*c04Agg)
		i, iok := e.val(s, x.Index).(constant.Value)
		if ok && iok && i.Kind() == constant.Int {
			if n, _ := constant.Int64Val(i); n >= 0 && int(n) < len(a.elems) {
				s.env[x] = a.elems[n]
				return
			}
		}
		s.env[x] = e.fresh("index")
	case *ssa.Slice:
		if p, ok := e.val(s, x.X).(c04Ptr); ok && x.Low == nil && x.High == nil && x.Max == nil {
			if cur, ok := c04Get(s.mem[p.al], c04PathIdx(p.path)); ok && !s.escaped[p.al] {
				if a, ok := cur.(*c04Agg); ok {
					s.env[x] = c04SliceV{p, len(a.elems)}
					return
				}
			}
		}
		s.escape(e.val(s, x.X), 0)
		s.env[x] = e.fresh("slice")
	case *ssa.UnOp:
		switch x.Op {
		case token.MUL:
			if p, ok := e.val(s, x.X).(c04Ptr); ok && !s.escaped[p.al] {
				if cur, ok := c04Get(s.mem[p.al], c04PathIdx(p.path)); ok {
					s.env[x] = cur
					return
				}
			}
			s.env[x] = e.fresh("load " + core.Describe(x.X))
		case token.NOT:
			switch c := e.val(s, x.X).(type) {
			case constant.Value:
				if c.Kind() == constant.Bool {
					s.env[x] = constant.MakeBool(!constant.BoolVal(c))
					return
				}
			case c04Cond:
				s.env[x] = c04Cond{c.key, !c.neg}
				return
			case *c04Opaque:
				s.env[x] = c04Cond{fmt.Sprintf("#%d", c.id), true}
				return
			}
			s.env[x] = e.fresh("not")
		case token.SUB:
			if c, ok := e.val(s, x.X).(constant.Value); ok && (c.Kind() == constant.Int || c.Kind() == constant.Float) {
				s.env[x] = constant.UnaryOp(token.SUB, c, 0)
				return
			}
			s.env[x] = e.fresh("neg")
		default:
			s.env[x] = e.opaqueOfType(x.Type(), "unop")
		}
	case *ssa.BinOp:
		s.env[x] = e.binop(s, x)
	case *ssa.Store:
		nv := e.val(s, x.Val)
		if p, ok := e.val(s, x.Addr).(c04Ptr); ok {
			if !s.escaped[p.al] {
				if upd, ok := c04Set(s.mem[p.al], c04PathIdx(p.path), nv); ok {
					s.mem[p.al] = upd
				} else {
					s.escapeAlloc(p.al, 0)
				}
			} else {
				s.escape(nv, 0)
			}
			return
		}
		s.escape(nv, 0) // stored somewhere on the heap
	case *ssa.ChangeType:
		s.env[x] = e.val(s, x.X)
	case *ssa.MakeInterface:
		s.env[x] = e.val(s, x.X)
	case *ssa.ChangeInterface:
		s.env[x] = e.val(s, x.X)
	case *ssa.Convert:
		v := e.val(s, x.X)
		if c, ok := v.(constant.Value); ok {
			from, fok := x.X.Type().Underlying().(*types.Basic)
			to, tok := x.Type().Underlying().(*types.Basic)
			if fok && tok && ((from.Info()&types.IsString != 0 && to.Info()&types.IsString != 0) ||
				(from.Info()&types.IsInteger != 0 && to.Info()&types.IsInteger != 0 && c.Kind() == constant.Int)) {
				s.env[x] = c
				return
			}
		}
		s.env[x] = e.fresh("convert")
	case *ssa.Extract:
		if t, ok := e.val(s, x.Tuple).(c04Tuple); ok && x.Index < len(t) {
			s.env[x] = t[x.Index]
		} else {
			s.env[x] = e.fresh("extract")
		}
	case *ssa.MakeClosure:
		for _, b := range x.Bindings {
			s.escape(e.val(s, b), 0)
		}
		s.env[x] = e.fresh("closure")
	case ssa.CallInstruction:
		cc := x.Common()
		var args []c04SV
		for _, a := range core.Args(x) {
			args = append(args, e.val(s, a))
		}
		var res c04SV
		call, isCall := in.(*ssa.Call)
		if bi, ok := cc.Value.(*ssa.Builtin); ok && isCall && bi.Name() == "len" && len(args) == 1 {
			switch a := args[0].(type) {
			case constant.Value:
				if a.Kind() == constant.String {
					res = constant.MakeInt64(int64(len(constant.StringVal(a))))
				}
			case *c04Agg:
				res = constant.MakeInt64(int64(len(a.elems)))
			case c04SliceV:
				res = constant.MakeInt64(int64(a.n))
			case c04NilV:
				res = constant.MakeInt64(0)
			case *c04Opaque:
				k := fmt.Sprintf("len(#%d)", a.id)
				if s.derived[k] == nil {
					s.derived[k] = e.fresh(k)
				}
				res = s.derived[k]
			}
			if res != nil {
				s.env[call] = res
				return
			}
		}
		for _, a := range args {
			s.escape(a, 0)
		}
		if isCall {
			res = e.opaqueOfType(call.Type(), "call "+core.Short(core.CalleeName(x)))
			s.env[call] = res
		}
		if _, isDefer := in.(*ssa.Defer); !isDefer && e.IsEvent != nil && e.IsEvent(x) {
			t, _ := res.(c04Tuple)
			if t == nil && res != nil {
				t = c04Tuple{res}
			}
			s.events = append(s.events, c04Event{x, args, t})
		}
	case *ssa.MapUpdate:
		s.escape(e.val(s, x.Value), 0)
	case *ssa.Send:
		s.escape(e.val(s, x.X), 0)
	case *ssa.RunDefers:
	case ssa.Value:
		for _, op := range in.Operands(nil) {
			if *op != nil {
				s.escape(e.val(s, *op), 0)
			}
		}
		s.env[x] = e.opaqueOfType(x.Type(), fmt.Sprintf("%T", in))
	}
}

// Run explores the paths of e.Fn from its entry.
func (e *c04Exec) Run() {
	if e.MaxPaths == 0 {
		e.MaxPaths = 512
	}
	if e.MaxSteps == 0 {
		e.MaxSteps = 400
	}
	if e.Fn == nil || len(e.Fn.Blocks) == 0 {
		e.Incomplete = "no body"
		return
	}
	start := &c04PathState{env: map[ssa.Value]c04SV{}, mem: map[*ssa.Alloc]c04SV{}, escaped: map[*ssa.Alloc]bool{},
		facts: map[string]bool{}, derived: map[string]*c04Opaque{}, b: e.Fn.Blocks[0]}
	work := []*c04PathState{start}
	for len(work) > 0 {
		s := work[len(work)-1]
		work = work[:len(work)-1]
	path:
		for {
			s.steps++
			if s.steps > e.MaxSteps {
				e.Incomplete = fmt.Sprintf("a path visits more than %d blocks (a loop whose bound cannot be evaluated)", e.MaxSteps)
				return
			}
			// φ-nodes read their operands simultaneously on the incoming edge
			newPhi := map[*ssa.Phi]c04SV{}
			for _, in := range s.b.Instrs {
				ph, ok := in.(*ssa.Phi)
				if !ok {
					break
				}
				for i, pr := range s.b.Preds {
					if pr == s.prev {
						newPhi[ph] = e.val(s, ph.Edges[i])
					}
				}
			}
			for ph, v := range newPhi {
				s.env[ph] = v
			}
			for _, in := range s.b.Instrs {
				switch x := in.(type) {
				case *ssa.Return:
					end := c04End{Ret: x, Events: s.events, Facts: s.facts}
					for _, r := range x.Results {
						end.Results = append(end.Results, e.val(s, r))
					}
					e.Ends = append(e.Ends, end)
					break path
				case *ssa.Panic:
					e.Ends = append(e.Ends, c04End{Events: s.events, Facts: s.facts})
					break path
				case *ssa.Jump:
					s.prev, s.b = s.b, s.b.Succs[0]
				case *ssa.If:
					c := e.val(s, x.Cond)
					if k, ok := c.(constant.Value); ok && k.Kind() == constant.Bool {
						if constant.BoolVal(k) {
							s.prev, s.b = s.b, s.b.Succs[0]
						} else {
							s.prev, s.b = s.b, s.b.Succs[1]
						}
						continue
					}
					cd, ok := c04AsCond(c)
					if !ok {
						e.Incomplete = "a branch condition has no boolean value: " + core.Describe(x.Cond)
						return
					}
					if known, ok := s.facts[cd.key]; ok {
						if known != cd.neg {
							s.prev, s.b = s.b, s.b.Succs[0]
						} else {
							s.prev, s.b = s.b, s.b.Succs[1]
						}
						continue
					}
					if len(e.Ends)+len(work) >= e.MaxPaths {
						e.Incomplete = fmt.Sprintf("more than %d paths", e.MaxPaths)
						return
					}
					other := s.clone()
					// this path: the condition is true
					s.facts[cd.key] = !cd.neg
					other.facts[cd.key] = cd.neg
					other.prev, other.b = s.b, s.b.Succs[1]
					work = append(work, other)
					s.prev, s.b = s.b, s.b.Succs[0]
				default:
					e.instr(s, in)
				}
			}
		}
	}
}

// c04Show renders a symbolic value for a message.
func c04Show(v c04SV) string {
	switch x := v.(type) {
	case constant.Value:
		return x.ExactString()
	case *c04Opaque:
		return x.what
	case c04NilV:
		return "nil"
	case c04Cond:
		return "a condition"
	}
	return "a composite value"
}
