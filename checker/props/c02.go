package props

import (
	"fmt"
	"go/token"
	"go/types"
	"strings"

	"godcheck/core"

	"golang.org/x/tools/go/ssa"
)

func init() { register("C02", c02) }

const (
	c02Hdl   = "api/handler"
	c02RpcSI = "rpc/internal/serverinterceptors"
)

var c02TwGuarded = []string{"timedOut", "wroteHeader", "code", "wbuf"}

func c02(r *core.Run) {
	defer c02Extra(r)
	r.Explanation = "Decides on every control-flow path: the buffered timeoutWriter state is touched only under its mutex and nothing is buffered once timedOut is set; " +
		"the real ResponseWriter is used only in the finished/deadline arms of timeoutHandler.ServeHTTP under that mutex and never reaches the handler goroutine; the finished arm copies headers, " +
		"then writes the buffered status (or 200) and the buffered body; the deadline arm answers 499 iff context.Canceled else 503 and marks the writer timed out; " +
		"panic hand-over (deferred recover -> buffered channel -> re-panic) in the REST and RPC timeout runners, RecoverHandler's 500, presence/order/configuration of the guards in engine.bindRoute; " +
		"MaxConns borrow/return pairing incl. the panic path and its shared latch of capacity n; MaxBytes' 413 guard; the RPC timeout interceptor's status mapping, discarded result and lock discipline on the captured result variables; " +
		"the crash interceptor's codes.Internal conversion and its position before user interceptors; pass-through of WithCodeResponseWriter; " +
		"round 9: every panic guard (RecoverHandler, both timeout runners, the crash interceptor) recognises a panic by a completion flag that is false while the protected call runs, not by the value of recover(); " +
		"an informational 1xx WriteHeader is not committed as the buffered status (evaluated on sample codes); the MaxConns latch is one object per server (created once per MaxConns(n), built where the engine is created, taken by every route from that engine field); " +
		"http.Server.WriteTimeout is at least the default handler deadline (recorded known finding: 0.9 x Timeout)."
	r.NotDecided = "which of handler completion and deadline wins a race (schedules), \"exactly one complete response\" as observed on the wire, the concurrency bound as a runtime quantity, net/http and grpc internals, a user-supplied chain (WithChain) or a global httpx error handler replacing the timeout body; a handler goroutine that outlives its timed-out request while its MaxConns slot is already returned; a write deadline shorter than a route timeout raised with WithTimeout; panic detection assumes the module's go directive < 1.21 (recover() == nil for panic(nil)); a handler ending its goroutine with runtime.Goexit is taken for a panic."
	r.Trusted = append(r.Trusted,
		"semantics of net/http (headers frozen at WriteHeader/Write), context, sync.Mutex, channel close/receive ordering, grpc interceptor chaining in list order",
		"numeric values of grpc codes (Canceled=1, DeadlineExceeded=4, Internal=13) and of the HTTP statuses 200/413/499/500/503")
	c02IndexClosures(r.P, c02Hdl, c02RpcSI, "api", "rpc", "rpc/internal", "api/internal/response")
	c02RestTimeout(r)
	c02RestGuards(r)
	c02Rpc(r)

	p := r.P
	r.Check("D5/K5/chain-built-per-route", "the function that builds the default guard chain for a route writes no engine state: every route gets its own TimeoutHandler/MaxBytesHandler with its own limits (a chain stored back into the engine is reused by every later route)", func(o *core.O) {
		n := 0
		for _, f := range p.PkgFuncs("api") {
			builds := false
			for _, c := range core.Calls(f, core.CallTo("api/chain.New")) {
				for _, a := range c.Common().Args {
					if core.DependsOn(a, func(v ssa.Value) bool {
						cc, ok := v.(*ssa.Call)
						return ok && strings.HasSuffix(core.Short(core.CalleeName(cc)), "api/handler.TimeoutHandler")
					}) {
						builds = true
					}
				}
			}
			if !builds {
				continue
			}
			n++
			r.Fn(core.FuncName(f))
			for _, g := range core.WithAnon(f) {
				for _, in := range core.Instrs(g, func(in ssa.Instruction) bool {
					st, ok := in.(*ssa.Store)
					return ok && strings.HasPrefix(core.FieldAddrName(st.Addr), "engine.")
				}) {
					o.Fail(p.InstrPos(in), "%s stores into %s while binding a route: the next route inherits this route's guards", core.FuncName(f), core.FieldAddrName(in.(*ssa.Store).Addr))
				}
			}
		}
		o.Site(n)
	})

}

// ---------------------------------------------------------------- REST timeout handler

func c02RestTimeout(r *core.Run) {
	p := r.P
	isHTTPHandlerCall := core.CallTo("(net/http.Handler).ServeHTTP")

	// role: the runner is the function of api/handler that starts a goroutine and waits for it in a select
	var serve *ssa.Function
	nServe := 0
	for _, f := range p.PkgFuncs(c02Hdl) {
		hasGo := len(core.Instrs(f, func(in ssa.Instruction) bool { _, ok := in.(*ssa.Go); return ok })) > 0
		hasSel := len(core.Instrs(f, func(in ssa.Instruction) bool { s, ok := in.(*ssa.Select); return ok && s.Blocking })) > 0
		if hasGo && hasSel {
			serve = f
			nServe++
		}
	}
	isTwType := func(t types.Type, depth int) bool {
		for i := 0; i < depth; i++ {
			pt, ok := t.(*types.Pointer)
			if !ok {
				return false
			}
			t = pt.Elem()
		}
		n, ok := t.(*types.Named)
		return ok && n.Obj().Name() == "timeoutWriter" && n.Obj().Pkg() != nil && strings.HasSuffix(n.Obj().Pkg().Path(), c02Hdl)
	}
	var run *c02Runner
	var wpar *ssa.Parameter
	var twVar *ssa.Alloc // the local variable holding the *timeoutWriter (the literal itself when it is never captured)
	problem := ""
	switch {
	case nServe != 1:
		problem = "expected exactly one function of api/handler that starts a goroutine and selects on it"
	default:
		run = c02NewRunner(serve, isHTTPHandlerCall)
		problem = run.problem
		for _, pa := range serve.Params {
			if isRWType(pa.Type()) {
				wpar = pa
			}
		}
		// the variable holding the buffering writer: a local of type *timeoutWriter, else the literal itself
		var vars, lits []*ssa.Alloc
		for _, in := range core.Instrs(serve, func(in ssa.Instruction) bool { _, ok := in.(*ssa.Alloc); return ok }) {
			al := in.(*ssa.Alloc)
			switch {
			case isTwType(al.Type(), 2):
				vars = append(vars, al)
			case isTwType(al.Type(), 1):
				lits = append(lits, al)
			}
		}
		switch {
		case len(vars) == 1:
			twVar = vars[0]
		case len(vars) == 0 && len(lits) == 1:
			twVar = lits[0]
		}
		if problem == "" && wpar == nil {
			problem = "runner has no http.ResponseWriter parameter"
		}
		if problem == "" && twVar == nil {
			problem = "runner does not hold exactly one timeoutWriter"
		}
		if problem == "" && (run.ctxArm == nil || run.doneArm == nil) {
			problem = "the select has no completion arm or no ctx.Done() arm"
		}
	}
	need := func(o *core.O) bool {
		if problem != "" {
			o.Unres("timeout runner: %s", problem)
			return false
		}
		r.Fn(core.FuncName(serve))
		return true
	}

	var la *core.LockAnalysis
	lock := func() *core.LockAnalysis {
		if la == nil {
			la = core.NewLockAnalysis(p, c02Hdl)
		}
		return la
	}
	isTwField := func(v ssa.Value, names ...string) bool {
		n := core.FieldAddrName(v)
		for _, x := range names {
			if n == "timeoutWriter."+x {
				return true
			}
		}
		return false
	}

	r.Check("D1/K4/timeoutWriter-guarded", "timeoutWriter.{timedOut,wroteHeader,code,wbuf} are accessed only with timeoutWriter.mu held (helpers: at every call site); in the runner every access after the goroutine was started holds it too", func(o *core.O) {
		if !need(o) {
			return
		}
		var gs []core.Guard
		for _, f := range c02TwGuarded {
			gs = append(gs, core.Guard{Type: "timeoutWriter", Field: f, Lock: "mu"})
		}
		acc := lock().CheckGuards(gs, nil, nil)
		core.ReportAccesses(o, p, acc)
		// the constructor function: accesses after `go` (the writer is shared from then on)
		n := 0
		for _, in := range core.Instrs(serve, func(in ssa.Instruction) bool {
			fa, ok := in.(*ssa.FieldAddr)
			return ok && isTwField(fa, c02TwGuarded...)
		}) {
			if _, after := core.Reach(core.Q{From: []core.At{core.After(run.gos[0])}, Target: core.Is(in)}); !after {
				continue
			}
			n++
			fa := in.(*ssa.FieldAddr)
			want := core.LockPath(fa.X) + ".mu"
			if _, ok := lock().Held(in)[want]; !ok {
				o.Fail(p.InstrPos(in), "%s accessed in %s after the handler goroutine was started without %s held (held: %s)", core.FieldAddrName(fa), core.FuncName(serve), want, lock().Held(in))
			}
		}
		o.Site(n, core.FuncName(serve))
	})

	r.Check("D1/K1/mu-released", "every Lock of timeoutWriter.mu is followed on every path (incl. panics) by an Unlock or a deferred Unlock of the same mutex", func(o *core.O) {
		if !need(o) {
			return
		}
		n := 0
		for _, f := range p.PkgFuncs(c02Hdl) {
			for _, in := range core.Instrs(f, core.PlainCallTo("(*sync.Mutex).Lock")) {
				c := in.(*ssa.Call)
				if !isTwField(c.Call.Args[0], "mu") {
					continue
				}
				n++
				r.Fn(core.FuncName(f))
				path := core.LockPath(c.Call.Args[0])
				isUnlock := func(x ssa.Instruction) bool {
					if !core.CallTo("(*sync.Mutex).Unlock")(x) {
						return false
					}
					return core.LockPath(core.AsCall(x).Common().Args[0]) == path
				}
				// a deferred unlock registered before this Lock (temporary release idiom) also covers it
				covered := false
				for _, d := range core.Instrs(f, func(x ssa.Instruction) bool { _, ok := x.(*ssa.Defer); return ok && isUnlock(x) }) {
					if core.Dominates(d, in) {
						covered = true
					}
				}
				if w := core.MustPass(core.After(in), isUnlock, core.IsExit); w != nil && !covered {
					o.Fail(p.InstrPos(in), "%s: %s locked but an exit is reachable without unlocking it (every later Write of the handler blocks)", core.FuncName(f), path)
				}
			}
		}
		o.Site(n)
	})

	notTimedOut := core.Not(core.BoolVal(core.FieldLoad("timeoutWriter.timedOut")))
	// the methods a handler can reach through the http.ResponseWriter it is given:
	// the exported methods of timeoutWriter and, transitively, the methods they call
	handlerFacing := func() []*ssa.Function {
		all := p.Methods(c02Hdl, "timeoutWriter")
		isM := map[*ssa.Function]bool{}
		for _, f := range all {
			isM[f] = true
		}
		in := map[*ssa.Function]bool{}
		var add func(f *ssa.Function)
		add = func(f *ssa.Function) {
			if in[f] {
				return
			}
			in[f] = true
			for _, c := range core.Calls(f, func(x ssa.Instruction) bool { return core.AsCall(x) != nil }) {
				if cal := c.Common().StaticCallee(); cal != nil && isM[cal] {
					add(cal)
				}
			}
		}
		for _, f := range all {
			if f.Object() != nil && f.Object().Exported() {
				add(f)
			}
		}
		var out []*ssa.Function
		for _, f := range all {
			if in[f] {
				out = append(out, f)
			}
		}
		return out
	}
	r.Check("D2/K2/no-body-buffered-after-timeout", "in the handler-facing methods of timeoutWriter (exported methods and the methods they call), writes into wbuf are reachable only through a failed test of timedOut", func(o *core.O) {
		n := 0
		for _, f := range handlerFacing() {
			isBufWrite := func(in ssa.Instruction) bool {
				c := core.AsCall(in)
				if c == nil {
					return false
				}
				nm := core.Short(core.CalleeName(c))
				if !strings.HasPrefix(nm, "(*bytes.Buffer).Write") && nm != "(*bytes.Buffer).ReadFrom" {
					return false
				}
				return isTwField(core.Args(c)[0], "wbuf")
			}
			ws := core.Instrs(f, isBufWrite)
			if len(ws) == 0 {
				continue
			}
			n += len(ws)
			r.Fn(core.FuncName(f))
			o.Site(len(ws), core.FuncName(f))
			if w := core.Requires(f, isBufWrite, notTimedOut); w != nil {
				o.Fail(p.InstrPos(w), "%s buffers body bytes although the request may already have timed out", core.FuncName(f))
			}
		}
		if n == 0 {
			o.Fail("api/handler", "no method of timeoutWriter writes into wbuf (anchor vanished)")
		}
	})
	r.Check("D2/K2/no-status-buffered-after-timeout", "in the handler-facing methods of timeoutWriter (exported methods and the methods they call), stores to code/wroteHeader are reachable only through a failed test of timedOut", func(o *core.O) {
		n := 0
		for _, f := range handlerFacing() {
			isSt := core.Or(core.IsStoreToField("timeoutWriter.code"), core.IsStoreToField("timeoutWriter.wroteHeader"))
			ss := core.Instrs(f, isSt)
			if len(ss) == 0 {
				continue
			}
			n += len(ss)
			r.Fn(core.FuncName(f))
			o.Site(len(ss), core.FuncName(f))
			if w := core.Requires(f, isSt, notTimedOut); w != nil {
				o.Fail(p.InstrPos(w), "%s records a status although the request may already have timed out", core.FuncName(f))
			}
		}
		if n == 0 {
			o.Fail("api/handler", "no method of timeoutWriter records the status (anchor vanished)")
		}
	})

	r.Check("D2/K8/status-recorded", "the status buffered by the handler-facing methods is WriteHeader's own argument (200 for the implicit header of Write), and wroteHeader is only ever set to true", func(o *core.O) {
		facing := handlerFacing()
		n := 0
		isFacing := map[*ssa.Function]bool{}
		for _, f := range facing {
			isFacing[f] = true
		}
		var okArg func(f *ssa.Function, v ssa.Value, d int) string
		okArg = func(f *ssa.Function, v ssa.Value, d int) string {
			if c, ok := core.ConstInt(v); ok {
				if c == 200 && f.Name() == "Write" {
					return ""
				}
				return core.Describe(v) + " in " + core.FuncName(f)
			}
			pa, ok := c02Var(v).(*ssa.Parameter)
			if !ok || pa.Parent() != f || d > 3 {
				return core.Describe(v) + " in " + core.FuncName(f)
			}
			if f.Name() == "WriteHeader" {
				return ""
			}
			// helper: every handler-facing call site must pass an acceptable value
			idx := -1
			for i, q := range f.Params {
				if q == pa {
					idx = i
				}
			}
			sites := 0
			for _, g := range facing {
				for _, c := range core.Calls(g, func(x ssa.Instruction) bool { return core.AsCall(x) != nil }) {
					if c.Common().StaticCallee() != f {
						continue
					}
					sites++
					if bad := okArg(g, c.Common().Args[idx], d+1); bad != "" {
						return bad
					}
				}
			}
			if sites == 0 {
				return "a parameter of " + core.FuncName(f) + ", which no handler-facing method calls"
			}
			return ""
		}
		reachesStore := false
		for _, f := range facing {
			for _, st := range core.StoresToField(f, "timeoutWriter.code") {
				n++
				r.Fn(core.FuncName(f))
				if bad := okArg(f, st.Val, 0); bad != "" {
					o.Fail(p.InstrPos(st), "the buffered status is %s, not the status the handler passed to WriteHeader", bad)
				}
				reachesStore = true
			}
			for _, st := range core.StoresToField(f, "timeoutWriter.wroteHeader") {
				n++
				if core.Describe(st.Val) != "const:true" {
					o.Fail(p.InstrPos(st), "wroteHeader is assigned %s", core.Describe(st.Val))
				}
			}
		}
		o.Site(n)
		if !reachesStore {
			o.Fail("api/handler", "no handler-facing method of timeoutWriter records the status")
		}
	})

	r.Check("D3/K8/goroutine-gets-buffer-only", "the handler goroutine captures no http.ResponseWriter and calls the handler with the *timeoutWriter the select arms flush", func(o *core.O) {
		if !need(o) {
			return
		}
		for _, f := range run.bodys {
			r.Fn(core.FuncName(f))
			for _, fv := range f.FreeVars {
				// a captured cell that nothing in the goroutine reads or writes is harmless (a struct of
				// per-request state split into its fields binds every field into every closure)
				if isRWType(fv.Type()) && c02FreeVarUsed(fv, 0) {
					o.Fail(p.Pos(f.Pos()), "%s captures the real ResponseWriter %s: handler output bypasses the buffer and races with the timeout response", core.FuncName(f), fv.Name())
				}
			}
		}
		for _, a := range run.gos[0].Call.Args {
			if isRWType(a.Type()) {
				o.Fail(p.InstrPos(run.gos[0]), "the goroutine is started with the real ResponseWriter as an argument")
			}
		}
		o.Site(len(run.handlerCalls), core.FuncName(run.body))
		if len(run.handlerCalls) == 0 {
			o.Fail(p.Pos(run.body.Pos()), "the goroutine never calls the wrapped handler")
		}
		for _, h := range run.handlerCalls {
			as := core.Args(core.AsCall(h))
			mi, ok := as[1].(*ssa.MakeInterface)
			if !ok || c02Var(mi.X) != ssa.Value(twVar) {
				o.Fail(p.InstrPos(h), "the handler is called with %s instead of the buffering timeoutWriter", core.Describe(as[1]))
			}
		}
	})

	// ---- arm helpers: non-handler-facing in-package functions called only from the flushing arms of the runner
	callSites := func(f *ssa.Function) []ssa.Instruction {
		var out []ssa.Instruction
		for _, g := range p.PkgFuncs(c02Hdl) {
			for _, in := range core.Instrs(g, func(in ssa.Instruction) bool { return core.AsCall(in) != nil }) {
				if core.AsCall(in).Common().StaticCallee() == f {
					out = append(out, in)
				}
			}
		}
		return out
	}
	// inArms: instruction of the runner reachable after `go` only through one of the given select arms
	inArms := func(in ssa.Instruction, arms ...*selArm) bool {
		if in.Parent() != serve {
			return false
		}
		var es []core.Edge
		for _, a := range arms {
			es = append(es, a.Edge)
		}
		g := run.gos[0]
		if _, ok := core.Reach(core.Q{From: []core.At{core.After(g)}, Target: core.Is(in)}); !ok {
			return false
		}
		_, out := core.Reach(core.Q{From: []core.At{core.After(g)}, Target: core.Is(in), Cut: core.CutSet(es)})
		return !out
	}
	facingSet := func() map[*ssa.Function]bool {
		m := map[*ssa.Function]bool{}
		for _, f := range handlerFacing() {
			m[f] = true
		}
		return m
	}
	// armHelper: f (or the function it is a closure of) is an in-package function, not reachable by the
	// handler through the writer's method set, every static use of which is a plain call inside the given arms
	outermost := func(f *ssa.Function) *ssa.Function {
		for i := 0; i < 8; i++ {
			if m := c02MakerOf(f); m != nil && f.Parent() != nil {
				if m.Parent() != nil && m.Parent() != f {
					f = m.Parent()
					continue
				}
			}
			break
		}
		return f
	}
	armHelper := func(f *ssa.Function, arms ...*selArm) bool {
		f = outermost(f)
		if f == serve {
			return false
		}
		if f.Parent() != nil || f.Blocks == nil || f.Pkg != serve.Pkg || facingSet()[f] || (f.Object() != nil && f.Object().Exported()) {
			return false
		}
		cs := callSites(f)
		if len(cs) == 0 {
			return false
		}
		for _, c := range cs {
			if _, plain := c.(*ssa.Call); !plain || !inArms(c, arms...) {
				return false
			}
		}
		return true
	}
	bothArms := func() []*selArm { return []*selArm{run.doneArm, run.ctxArm} }
	// isRealW: v denotes the request's real ResponseWriter: the runner's parameter, the timeoutWriter.w
	// field (checked below to be initialised from that parameter only), or a writer parameter of an arm helper
	var isRealW func(v ssa.Value) bool
	isRealW = func(v ssa.Value) bool {
		if core.IsFieldLoad(v, "timeoutWriter.w") {
			return true
		}
		cv := c02Var(v)
		if cv == ssa.Value(wpar) {
			return true
		}
		if pa, ok := cv.(*ssa.Parameter); ok && isRWType(pa.Type()) && pa.Parent() != serve && armHelper(pa.Parent(), bothArms()...) {
			idx := -1
			for i, q := range pa.Parent().Params {
				if q == pa {
					idx = i
				}
			}
			for _, c := range callSites(pa.Parent()) {
				as := core.AsCall(c).Common().Args
				if idx < 0 || idx >= len(as) {
					return false
				}
				if core.IsFieldLoad(as[idx], "timeoutWriter.w") || c02Var(as[idx]) == ssa.Value(wpar) {
					continue
				}
				return false
			}
			return true
		}
		return false
	}
	isInvokeOnW := func(name string) func(ssa.Instruction) bool {
		return func(in ssa.Instruction) bool {
			c := core.AsCall(in)
			if c == nil || !c.Common().IsInvoke() || c.Common().Method.Name() != name {
				return false
			}
			return isRealW(c.Common().Value)
		}
	}

	// uses of the real writer inside function f: instructions consuming the runner's writer parameter
	// (f == runner) or a value loaded from timeoutWriter.w
	usesIn := func(f *ssa.Function) []ssa.Instruction {
		var out []ssa.Instruction
		seen := map[ssa.Value]bool{}
		var walk func(v ssa.Value)
		walk = func(v ssa.Value) {
			if seen[v] || v.Referrers() == nil {
				return
			}
			seen[v] = true
			for _, ref := range *v.Referrers() {
				switch x := ref.(type) {
				case *ssa.DebugRef:
				case *ssa.Store:
					if x.Val != v {
						continue
					}
					if isTwField(x.Addr, "w") {
						continue
					}
					if al, ok := x.Addr.(*ssa.Alloc); ok {
						for _, r2 := range *al.Referrers() {
							switch y := r2.(type) {
							case *ssa.UnOp:
								walk(y)
							case *ssa.MakeClosure:
								out = append(out, y)
							}
						}
						continue
					}
					out = append(out, x)
				case *ssa.ChangeInterface:
					walk(x)
				case *ssa.MakeInterface:
					walk(x)
				case *ssa.ChangeType:
					walk(x)
				case *ssa.Phi:
					walk(x)
				case *ssa.TypeAssert:
					if x.AssertedType.String() == "net/http.Pusher" {
						continue // probing for server push does not write the response
					}
					walk(x)
				case *ssa.Extract:
					walk(x)
				default:
					out = append(out, ref)
				}
			}
		}
		if f == serve {
			walk(wpar)
		}
		for _, in := range core.Instrs(f, func(in ssa.Instruction) bool {
			u, ok := in.(*ssa.UnOp)
			return ok && u.Op == token.MUL && isTwField(u.X, "w")
		}) {
			walk(in.(*ssa.UnOp))
		}
		return out
	}
	collectUses := func() []ssa.Instruction { return usesIn(serve) }
	// respondsOnW: an instruction of the runner that (certainly) uses the real writer: a direct use, or a
	// call of an arm helper every path of which uses it
	respondsOnW := func() func(ssa.Instruction) bool {
		direct := core.Is(collectUses()...)
		return func(in ssa.Instruction) bool {
			if direct(in) {
				return true
			}
			c, ok := in.(*ssa.Call)
			if !ok || in.Parent() != serve {
				return false
			}
			cal := c.Call.StaticCallee()
			if cal == nil || !armHelper(cal, bothArms()...) {
				return false
			}
			us := usesIn(cal)
			for _, pa := range cal.Params {
				if isRWType(pa.Type()) && isRealW(pa) && pa.Referrers() != nil {
					for _, ref := range *pa.Referrers() {
						if _, dbg := ref.(*ssa.DebugRef); !dbg {
							us = append(us, ref)
						}
					}
				}
			}
			if len(us) == 0 {
				return false
			}
			return core.MustPass(core.Entry(cal), core.Is(us...), core.IsExit) == nil
		}
	}
	r.Check("D3/K2/unbuffered-bypass-only-for-websocket", "the pass-through path of the timeout handler (the real ResponseWriter handed on without goroutine, buffer or deadline) is taken only for a websocket upgrade: it is reachable only through the true edge of Header.Get(\"Upgrade\") == \"websocket\" (or strings.EqualFold of the two); any other request gets the buffered writer, so nothing a late handler writes reaches the client", func(o *core.O) {
		if !need(o) {
			return
		}
		g := run.gos[0]
		isUpgradeGet := func(v ssa.Value) bool {
			c, ok := core.Forward(v).(*ssa.Call)
			if !ok || c.Call.IsInvoke() || core.CalleeName(c) != "(net/http.Header).Get" || len(c.Call.Args) != 2 {
				return false
			}
			k, ok := core.ConstString(c.Call.Args[1])
			return ok && strings.EqualFold(k, "Upgrade")
		}
		isWS := func(v ssa.Value) bool {
			k, ok := core.ConstString(core.Forward(v))
			return ok && k == "websocket"
		}
		ws := core.AnyOf(core.Cmp(token.EQL, isUpgradeGet, isWS), core.BoolVal(func(v ssa.Value) bool {
			c, ok := v.(*ssa.Call)
			if !ok || c.Call.IsInvoke() || core.CalleeName(c) != "strings.EqualFold" || len(c.Call.Args) != 2 {
				return false
			}
			return (isUpgradeGet(c.Call.Args[0]) && isWS(c.Call.Args[1])) || (isUpgradeGet(c.Call.Args[1]) && isWS(c.Call.Args[0]))
		}))
		n := 0
		for _, in := range collectUses() {
			if mc, ok := in.(*ssa.MakeClosure); ok && g.Call.Value == ssa.Value(mc) {
				continue
			}
			_, a := core.Reach(core.Q{From: []core.At{core.After(g)}, Target: core.Is(in)})
			_, b := core.Reach(core.Q{From: []core.At{core.After(in)}, Target: core.Is(g)})
			if a || b {
				continue // buffering path: real-writer-only-in-flush-arms
			}
			n++
			if w := core.Requires(serve, core.Is(in), ws); w != nil {
				o.Fail(p.InstrPos(in), "%s hands the real ResponseWriter on without buffer and deadline on a path that did not establish Header.Get(\"Upgrade\") == \"websocket\": for such a request a handler slower than the timeout delivers its own late status and body instead of the timeout response", core.FuncName(serve))
			}
		}
		o.Site(n, core.FuncName(serve)+": pass-through uses of the real writer")
	})

	r.Check("D3/K5/real-writer-only-in-flush-arms", "once the handler goroutine is started, the real ResponseWriter (the runner's parameter, or timeoutWriter.w which is only ever initialised from it) is used only inside the completion arm and the ctx.Done() arm of the select, directly or in helpers called only there; the handler-facing methods of timeoutWriter never write through timeoutWriter.w", func(o *core.O) {
		if !need(o) {
			return
		}
		uses := collectUses()
		o.Site(len(uses), core.FuncName(serve))
		g := run.gos[0]
		arms := core.CutSet([]core.Edge{run.doneArm.Edge, run.ctxArm.Edge})
		for _, in := range uses {
			if mc, ok := in.(*ssa.MakeClosure); ok && g.Call.Value == ssa.Value(mc) {
				continue // the goroutine capturing the writer is reported by goroutine-gets-buffer-only
			}
			// handing the writer to the constructor of the buffering writer is not a use
			if c, ok := in.(*ssa.Call); ok {
				if cal := c.Call.StaticCallee(); cal != nil && cal.Pkg == serve.Pkg && cal.Blocks != nil && cal.Signature.Results().Len() == 1 && isTwType(cal.Signature.Results().At(0).Type(), 1) {
					continue // checked below: the constructor only stores it into timeoutWriter.w
				}
			}
			_, a := core.Reach(core.Q{From: []core.At{core.After(g)}, Target: core.Is(in)})
			_, b := core.Reach(core.Q{From: []core.At{core.After(in)}, Target: core.Is(g)})
			if !a && !b {
				continue // pass-through path: no goroutine, no buffer
			}
			if b {
				o.Fail(p.InstrPos(in), "the real ResponseWriter is used before the handler goroutine is started on the buffering path: the client gets output outside the single flushed response")
				continue
			}
			if _, ok := core.Reach(core.Q{From: []core.At{core.After(g)}, Target: core.Is(in), Cut: arms}); ok {
				o.Fail(p.InstrPos(in), "the real ResponseWriter is used in %s outside the completion and deadline arms while the handler goroutine may be running", core.FuncName(serve))
			}
		}
		facing := facingSet()
		for _, f := range p.PkgFuncs(c02Hdl) {
			if f == serve {
				continue
			}
			// timeoutWriter.w is initialised only from the runner's writer
			for _, st := range core.StoresToField(f, "timeoutWriter.w") {
				o.Site(1, core.FuncName(f))
				pa, ok := c02Var(st.Val).(*ssa.Parameter)
				okInit := false
				if ok && pa.Parent() == f && f.Parent() == nil && !facing[f] {
					idx := -1
					for i, q := range f.Params {
						if q == pa {
							idx = i
						}
					}
					cs := callSites(f)
					okInit = len(cs) > 0
					for _, c := range cs {
						as := core.AsCall(c).Common().Args
						if c.Parent() != serve || idx >= len(as) || c02Var(as[idx]) != ssa.Value(wpar) {
							okInit = false
						}
					}
					// the constructor uses the writer for nothing else
					for _, ref := range *pa.Referrers() {
						switch x := ref.(type) {
						case *ssa.DebugRef:
						case *ssa.Store:
							if x != st && !isTwField(x.Addr, "w") {
								okInit = false
							}
						default:
							okInit = false
						}
					}
				}
				if !okInit {
					o.Fail(p.InstrPos(st), "timeoutWriter.w is set to %s in %s: not (only) the runner's own ResponseWriter", core.Describe(st.Val), core.FuncName(f))
				}
			}
			us := usesIn(f)
			if len(us) == 0 {
				continue
			}
			o.Site(len(us), core.FuncName(f))
			if armHelper(f, bothArms()...) {
				r.Fn(core.FuncName(f))
				continue // runs only inside the flushing arms
			}
			for _, u := range us {
				o.Fail(p.InstrPos(u), "%s reaches through timeoutWriter.w to the real ResponseWriter outside the flushing arms (output would bypass the buffer)", core.FuncName(f))
			}
		}
		for _, st := range core.StoresToField(serve, "timeoutWriter.w") {
			if c02Var(st.Val) != ssa.Value(wpar) {
				o.Fail(p.InstrPos(st), "timeoutWriter.w is set to %s, not the runner's own ResponseWriter", core.Describe(st.Val))
			}
		}
	})

	isStoreTimedOut := core.IsStoreToField("timeoutWriter.timedOut")
	r.Check("D3/K1/deadline-arm-marks-and-responds", "the ctx.Done() arm answers on the real writer and stores timedOut=true on every path; timedOut is stored nowhere else and only to true", func(o *core.O) {
		if !need(o) {
			return
		}
		from := []core.At{armHead(run.ctxArm)}
		isTrue := func(in ssa.Instruction) bool {
			st, ok := in.(*ssa.Store)
			return ok && isStoreTimedOut(in) && core.Describe(st.Val) == "const:true"
		}
		// marks: stores timedOut=true, directly or by calling a deadline-arm helper that does so on every path
		marks := func(in ssa.Instruction) bool {
			if isTrue(in) {
				return true
			}
			c, ok := in.(*ssa.Call)
			if !ok {
				return false
			}
			cal := c.Call.StaticCallee()
			if cal == nil || !armHelper(cal, run.ctxArm) || len(core.Instrs(cal, isTrue)) == 0 {
				return false
			}
			return core.MustPass(core.Entry(cal), isTrue, core.IsExit) == nil
		}
		if w, ok := core.Reach(core.Q{From: from, Target: core.IsExit, Blocked: marks}); ok {
			o.Fail(p.InstrPos(w), "the deadline arm can end without setting timedOut: later handler writes are still buffered and Write reports success")
		}
		if w, ok := core.Reach(core.Q{From: from, Target: core.IsExit, Blocked: respondsOnW()}); ok {
			o.Fail(p.InstrPos(w), "the deadline arm can end without writing the timeout response to the client")
		}
		n := 0
		for _, f := range p.PkgFuncs(c02Hdl) {
			for _, in := range core.Instrs(f, isStoreTimedOut) {
				n++
				if !isTrue(in) {
					o.Fail(p.InstrPos(in), "timedOut is assigned %s", core.Describe(in.(*ssa.Store).Val))
				}
				if f != serve {
					if armHelper(f, run.ctxArm) {
						r.Fn(core.FuncName(f))
						continue // a helper called only inside the ctx.Done() arm
					}
					o.Fail(p.InstrPos(in), "timedOut is stored in %s, outside the deadline arm", core.FuncName(f))
					continue
				}
				cut := core.CutSet([]core.Edge{run.ctxArm.Edge})
				if _, ok := core.Reach(core.Q{From: []core.At{core.Entry(f)}, Target: core.Is(in), Cut: cut}); ok {
					o.Fail(p.InstrPos(in), "timedOut is set on a path that did not take the ctx.Done() arm")
				}
			}
		}
		o.Site(n, core.FuncName(serve))
	})

	r.Check("D3/K8/deadline-armed", "the select waits on Done() of a context derived with context.WithTimeout(request context, timeoutHandler.dt), and TimeoutHandler stores its duration argument into dt", func(o *core.O) {
		if !need(o) {
			return
		}
		c, _ := core.ResultOf(core.Forward(run.ctxArm.Chan))
		recv := core.Forward(core.Args(c)[0])
		// r.Context() of a request re-bound with r.WithContext(ctx) is ctx
		if rc, _ := core.ResultOf(recv); rc != nil && core.Short(core.CalleeName(rc)) == "(*net/http.Request).Context" {
			if wc, _ := core.ResultOf(core.Forward(rc.Call.Args[0])); wc != nil && core.Short(core.CalleeName(wc)) == "(*net/http.Request).WithContext" {
				recv = core.Forward(wc.Call.Args[1])
			}
		}
		wt, idx := core.ResultOf(recv)
		o.Site(1, core.FuncName(serve))
		if wt == nil || idx != 0 || core.Short(core.CalleeName(wt)) != "context.WithTimeout" {
			o.Fail(p.InstrPos(c), "Done() is taken from %s, not from a context.WithTimeout of this request", core.Describe(recv))
			return
		}
		if !core.IsFieldLoad(wt.Call.Args[1], "timeoutHandler.dt") {
			o.Fail(p.InstrPos(wt), "deadline is %s, not the configured timeoutHandler.dt", core.Describe(wt.Call.Args[1]))
		}
		if !core.DependsOn(wt.Call.Args[0], func(v ssa.Value) bool {
			cc, ok := v.(*ssa.Call)
			return ok && core.Short(core.CalleeName(cc)) == "(*net/http.Request).Context"
		}) {
			o.Fail(p.InstrPos(wt), "the deadline context is not derived from the request context (client cancellation is lost)")
		}
		ctor := p.Func(c02Hdl, "", "TimeoutHandler")
		if !o.Need(ctor != nil, "handler.TimeoutHandler") {
			return
		}
		n := 0
		for _, f := range core.WithAnon(ctor) {
			for _, st := range core.StoresToField(f, "timeoutHandler.dt") {
				n++
				if c02Var(st.Val) != ssa.Value(ctor.Params[0]) {
					o.Fail(p.InstrPos(st), "timeoutHandler.dt is set to %s, not the duration argument", core.Describe(st.Val))
				}
			}
		}
		o.Site(n, core.FuncName(ctor))
		if n == 0 {
			o.Fail(p.Pos(ctor.Pos()), "TimeoutHandler never sets timeoutHandler.dt")
		}
	})

	r.Check("D3/K3/done-arm-flush", "the completion arm copies the buffered headers, then calls WriteHeader with the buffered status (200 when the handler wrote none), then writes the buffered body, in that order on the real writer", func(o *core.O) {
		if !need(o) {
			return
		}
		// flush context: the runner's completion arm, or the one helper of that arm that writes the status
		fn, from := serve, []core.At{armHead(run.doneArm)}
		inRegion := func(pred func(ssa.Instruction) bool) []ssa.Instruction {
			var out []ssa.Instruction
			for _, in := range core.Instrs(fn, pred) {
				if _, ok := core.Reach(core.Q{From: from, Target: core.Is(in)}); ok {
					out = append(out, in)
				}
			}
			return out
		}
		if len(inRegion(isInvokeOnW("WriteHeader"))) == 0 {
			var cands []*ssa.Function
			for _, in := range inRegion(func(in ssa.Instruction) bool { _, ok := in.(*ssa.Call); return ok }) {
				cal := in.(*ssa.Call).Call.StaticCallee()
				if cal != nil && armHelper(cal, run.doneArm) && len(core.Instrs(cal, isInvokeOnW("WriteHeader"))) > 0 {
					cands = append(cands, cal)
				}
			}
			if len(cands) == 1 {
				fn = cands[0]
				from = []core.At{core.Entry(fn)}
				r.Fn(core.FuncName(fn))
			}
		}
		isWH := isInvokeOnW("WriteHeader")
		isWr := isInvokeOnW("Write")
		isHdrMap := func(v ssa.Value) bool {
			c, _ := core.ResultOf(core.Forward(v))
			return c != nil && isInvokeOnW("Header")(c)
		}
		fromTwH := func(v ssa.Value) bool {
			return core.DependsOn(v, func(x ssa.Value) bool { return core.FieldAddrNameOfLoad(x) == "timeoutWriter.h" })
		}
		isHdrCopy := func(in ssa.Instruction) bool {
			switch x := in.(type) {
			case *ssa.MapUpdate:
				return isHdrMap(x.Map)
			case *ssa.Call:
				if core.Short(core.CalleeName(x)) == "maps.Copy" {
					return isHdrMap(x.Call.Args[0])
				}
			}
			return false
		}
		isHdrSource := func(in ssa.Instruction) bool {
			switch x := in.(type) {
			case *ssa.Range:
				return core.IsFieldLoad(x.X, "timeoutWriter.h")
			case *ssa.Call:
				return core.Short(core.CalleeName(x)) == "maps.Copy" && isHdrMap(x.Call.Args[0]) && core.IsFieldLoad(x.Call.Args[1], "timeoutWriter.h")
			}
			return false
		}
		whs, wrs, hcs := inRegion(isWH), inRegion(isWr), inRegion(isHdrCopy)
		o.Site(len(whs)+len(wrs)+len(hcs), core.FuncName(fn))
		if len(whs) == 0 || len(wrs) == 0 || len(hcs) == 0 {
			o.Fail(p.Pos(fn.Pos()), "completion arm: %d WriteHeader, %d Write, %d header-copy sites on the real writer (each must exist)", len(whs), len(wrs), len(hcs))
			return
		}
		// status on every path, after the headers were copied
		if w, ok := core.Reach(core.Q{From: from, Target: core.IsExit, Blocked: isWH}); ok {
			o.Fail(p.InstrPos(w), "the completion arm can end without sending the handler's status")
		}
		if w, ok := core.Reach(core.Q{From: from, Target: isWH, Blocked: isHdrSource}); ok {
			o.Fail(p.InstrPos(w), "status is sent without first copying the buffered headers (headers set by the handler are lost)")
		}
		for _, hc := range hcs {
			switch x := hc.(type) {
			case *ssa.MapUpdate:
				if !fromTwH(x.Value) || !fromTwH(x.Key) {
					o.Fail(p.InstrPos(hc), "header copy does not take key and values from the buffered header map")
				}
			}
		}
		for _, wh := range whs {
			if w, ok := core.Reach(core.Q{From: []core.At{core.After(wh)}, Target: isHdrCopy}); ok {
				o.Fail(p.InstrPos(w), "headers are copied after WriteHeader: net/http ignores them")
			}
		}
		if w, ok := core.Reach(core.Q{From: from, Target: isWr, Blocked: isWH}); ok {
			o.Fail(p.InstrPos(w), "body is written before the buffered status: the client sees an implicit 200")
		}
		for _, wr := range wrs {
			if w, ok := core.Reach(core.Q{From: []core.At{core.After(wr)}, Target: isWH}); ok {
				o.Fail(p.InstrPos(w), "WriteHeader after the body was written")
			}
			arg := core.Args(core.AsCall(wr))[1]
			bc, _ := core.ResultOf(core.Forward(arg))
			if bc == nil || core.Short(core.CalleeName(bc)) != "(*bytes.Buffer).Bytes" || !isTwField(bc.Call.Args[0], "wbuf") {
				o.Fail(p.InstrPos(wr), "body written is %s, not the buffered bytes", core.Describe(arg))
			}
		}
		// the status: buffered code, 200 when none was written
		wroteHeader := core.BoolVal(core.FieldLoad("timeoutWriter.wroteHeader"))
		wrote, notWrote := core.EdgesOf(fn, wroteHeader)
		if len(notWrote) == 0 {
			o.Fail(p.Pos(fn.Pos()), "completion arm never tests wroteHeader: a handler that wrote no status would send status 0")
			return
		}
		for _, wh := range whs {
			arg := core.Args(core.AsCall(wh))[1]
			if phi, ok := arg.(*ssa.Phi); ok {
				var starts []*ssa.BasicBlock
				for _, a := range from {
					starts = append(starts, a.B)
				}
				for i, e := range phi.Edges {
					edge := core.Edge{From: phi.Block().Preds[i], To: phi.Block()}
					switch {
					case core.IsConstInt(200)(e):
						if edgeReachable(starts, core.CutSet(notWrote), edge) || core.CutSet(wrote)(edge) {
							o.Fail(p.InstrPos(wh), "status 200 can replace the status the handler wrote")
						}
					case core.IsFieldLoad(e, "timeoutWriter.code"):
						if edgeReachable(starts, core.CutSet(wrote), edge) || core.CutSet(notWrote)(edge) {
							o.Fail(p.InstrPos(wh), "the buffered code is sent although the handler wrote no status (status 0)")
						}
					default:
						o.Fail(p.InstrPos(wh), "status may be %s", core.Describe(e))
					}
				}
				continue
			}
			if !core.IsFieldLoad(arg, "timeoutWriter.code") {
				o.Fail(p.InstrPos(wh), "status sent is %s, not the buffered code", core.Describe(arg))
				continue
			}
			isDflt := func(in ssa.Instruction) bool {
				st, ok := in.(*ssa.Store)
				return ok && core.IsStoreToField("timeoutWriter.code")(in) && core.IsConstInt(200)(st.Val)
			}
			for _, st := range inRegion(core.IsStoreToField("timeoutWriter.code")) {
				if !isDflt(st) {
					o.Fail(p.InstrPos(st), "completion arm overwrites the buffered status with %s", core.Describe(st.(*ssa.Store).Val))
				}
				if _, ok := core.Reach(core.Q{From: from, Target: core.Is(st), Cut: core.CutSet(notWrote)}); ok {
					o.Fail(p.InstrPos(st), "the handler's status can be overwritten (store not guarded by !wroteHeader)")
				}
			}
			if w, ok := core.Reach(core.Q{From: c02Heads(notWrote), Target: core.Is(wh), Blocked: isDflt}); ok {
				o.Fail(p.InstrPos(w), "no status written by the handler and no default: WriteHeader(0)")
			}
		}
	})

	r.Check("D4/K6/timeout-status", "the deadline arm's status is 499 exactly when the context error is context.Canceled and 503 otherwise, the error tested being Err() of the deadline context", func(o *core.O) {
		if !need(o) {
			return
		}
		isCanceledGlobal := core.IsGlobal("context", "Canceled")
		canceled := core.AnyOf(
			core.BoolVal(func(v ssa.Value) bool {
				c, ok := v.(*ssa.Call)
				return ok && core.Short(core.CalleeName(c)) == "errors.Is" && isCanceledGlobal(c.Call.Args[1])
			}),
			core.Cmp(token.EQL, func(v ssa.Value) bool { return v.Type().String() == "error" && !isCanceledGlobal(v) }, isCanceledGlobal),
		)
		found := 0
		// the runner, the closures it creates, and the helpers of the ctx.Done() arm with their closures
		cands := c02WithClosures(serve)
		for _, in := range core.Instrs(serve, func(in ssa.Instruction) bool { _, ok := in.(*ssa.Call); return ok }) {
			if cal := in.(*ssa.Call).Call.StaticCallee(); cal != nil && armHelper(cal, run.ctxArm) {
				cands = append(cands, c02WithClosures(cal)...)
			}
		}
		for _, f := range cands {
			if run.inBody(f) || core.EdgeCount(f, canceled) == 0 {
				continue
			}
			found++
			r.Fn(core.FuncName(f))
			isWH := func(in ssa.Instruction) bool {
				c := core.AsCall(in)
				return c != nil && c.Common().IsInvoke() && c.Common().Method.Name() == "WriteHeader" && isRWType(c.Common().Value.Type())
			}
			whs := core.Instrs(f, isWH)
			if f == serve { // only the deadline arm's own writes
				var in []ssa.Instruction
				for _, wh := range whs {
					if _, ok := core.Reach(core.Q{From: []core.At{armHead(run.ctxArm)}, Target: core.Is(wh)}); ok {
						in = append(in, wh)
					}
				}
				whs = in
			}
			o.Site(len(whs), core.FuncName(f))
			n499, n503 := 0, 0
			for _, wh := range whs {
				code, ok := constArg(core.AsCall(wh), 1)
				switch {
				case ok && code == 499:
					n499++
					if w := core.Requires(f, core.Is(wh), canceled); w != nil {
						o.Fail(p.InstrPos(wh), "499 (client closed request) is sent although the context error is not context.Canceled")
					}
				case ok && code == 503:
					n503++
					if w := core.Requires(f, core.Is(wh), core.Not(canceled)); w != nil {
						o.Fail(p.InstrPos(wh), "503 is sent although the client cancelled (must be 499)")
					}
				default:
					o.Fail(p.InstrPos(wh), "timeout response status %s is neither 499 nor 503", core.Describe(core.Args(core.AsCall(wh))[1]))
				}
			}
			if n499 == 0 || n503 == 0 {
				o.Fail(p.Pos(f.Pos()), "%s: %d sites send 499 and %d send 503 (both required)", core.FuncName(f), n499, n503)
			}
			if w := core.MustPass(core.Entry(f), isWH, core.IsReturn); w != nil && f != serve {
				o.Fail(p.InstrPos(w), "%s can return without sending a timeout status", core.FuncName(f))
			}
			// provenance of the tested error
			for _, b := range f.Blocks {
				iff, ok := b.Instrs[len(b.Instrs)-1].(*ssa.If)
				if !ok {
					continue
				}
				cond := iff.Cond
				for {
					u, ok := cond.(*ssa.UnOp)
					if !ok || u.Op != token.NOT {
						break
					}
					cond = u.X
				}
				if m, _ := canceled(cond); !m {
					continue
				}
				var tested ssa.Value
				switch x := cond.(type) {
				case *ssa.Call:
					tested = x.Call.Args[0]
				case *ssa.BinOp:
					tested = x.X
					if isCanceledGlobal(x.X) {
						tested = x.Y
					}
				}
				tested = c02Var(tested)
				if pa, ok := tested.(*ssa.Parameter); ok && pa.Parent() == f && f != serve {
					// the closure is handed to a call in the deadline arm together with the error
					okProv := false
					for _, in := range core.Instrs(serve, func(in ssa.Instruction) bool { _, ok := in.(*ssa.Call); return ok }) {
						for _, a := range in.(*ssa.Call).Call.Args {
							if c02IsCtxErr(a, run) {
								okProv = true
							}
						}
					}
					if !okProv {
						o.Fail(p.InstrPos(iff), "the error tested is parameter %s, but no call in the runner passes Err() of the deadline context", pa.Name())
					}
				} else if !c02IsCtxErr(tested, run) {
					o.Fail(p.InstrPos(iff), "the error tested (%s) is not Err() of the deadline context", core.Describe(tested))
				}
			}
		}
		if found == 0 {
			o.Fail(p.Pos(serve.Pos()), "the deadline arm never distinguishes client cancellation (context.Canceled)")
		}
		// the mapping may be spelled so that no branch names context.Canceled (a lookup in a never-written
		// table of (error, status) pairs, a helper): decide it by evaluating the status writer on
		// context.Canceled, context.DeadlineExceeded and an outsider (c02_eval.go)
		if o.Verdict == core.Violated {
			if n, _ := c02EvalRestStatus(p, run, serve, cands); n > 0 {
				o.Verdict, o.Msgs = core.Held, nil
				o.Site(n, "evaluated")
			}
		}
	})

	c02HandOver(r, "D5", "rest", runOr(run, serve, problem))
}

// runOr returns a runner carrying the problem when construction failed early.
func runOr(run *c02Runner, fn *ssa.Function, problem string) *c02Runner {
	if run != nil && problem == "" {
		return run
	}
	if run == nil {
		run = &c02Runner{fn: fn}
	}
	if run.problem == "" {
		run.problem = problem
	}
	return run
}

// c02IsCtxErr: v is the result of Err() invoked on the context whose Done() the select waits on.
func c02IsCtxErr(v ssa.Value, run *c02Runner) bool {
	c, _ := core.ResultOf(core.Forward(v))
	if c == nil || core.Short(core.CalleeName(c)) != "(context.Context).Err" {
		return false
	}
	dc, _ := core.ResultOf(core.Forward(run.ctxArm.Chan))
	if dc == nil {
		return false
	}
	a, b := core.Args(c)[0], core.Args(dc)[0]
	return core.Forward(a) == core.Forward(b) || (c02Var(a) == c02Var(b) && c02Var(a) != nil)
}

// ---------------------------------------------------------------- REST guards around the handler

// c02DeferredAlways lists the defers of f whose deferred function (or the
// deferred call itself) satisfies pred on every path.
func c02DeferredCalls(f *ssa.Function, isCall func(ssa.Instruction) bool) []ssa.Instruction {
	return core.Instrs(f, func(in ssa.Instruction) bool {
		d, ok := in.(*ssa.Defer)
		if !ok {
			return false
		}
		if isCall(in) {
			return true
		}
		df := c02DeferredFn(d)
		if df == nil || df.Blocks == nil {
			return false
		}
		plain := func(x ssa.Instruction) bool { _, ok := x.(*ssa.Call); return ok && isCall(x) }
		if len(core.Instrs(df, plain)) == 0 {
			return false
		}
		return core.MustPass(core.Entry(df), plain, core.IsExit) == nil
	})
}

func c02RestGuards(r *core.Run) {
	p := r.P
	isNext := core.CallTo("(net/http.Handler).ServeHTTP")
	isWHCode := func(w ssa.Value, code int64) func(ssa.Instruction) bool {
		return func(in ssa.Instruction) bool {
			if !isInvokeOn(w, "WriteHeader")(in) {
				return false
			}
			c, ok := constArg(core.AsCall(in), 1)
			return ok && c == code
		}
	}
	// answers: WriteHeader(code) on w, directly or through an in-package helper that is handed w and
	// calls WriteHeader(code) on it on every path
	answers := func(w ssa.Value, code int64) func(ssa.Instruction) bool {
		direct := isWHCode(w, code)
		return func(in ssa.Instruction) bool {
			if direct(in) {
				return true
			}
			c, ok := in.(*ssa.Call)
			if !ok {
				return false
			}
			cal := c.Call.StaticCallee()
			if cal == nil || cal.Blocks == nil || cal.Pkg != in.Parent().Pkg {
				return false
			}
			for i, a := range c.Call.Args {
				if c02Var(a) == w && i < len(cal.Params) {
					h := isWHCode(cal.Params[i], code)
					if len(core.Instrs(cal, h)) > 0 && core.MustPass(core.Entry(cal), h, core.IsExit) == nil {
						return true
					}
				}
			}
			return false
		}
	}
	// perRequest finds the functions serving a request for an exported middleware constructor: the
	// closures below it that invoke next.ServeHTTP, and the ServeHTTP methods of handler types it instantiates
	perRequest := func(ctor *ssa.Function) []*ssa.Function {
		var out []*ssa.Function
		seen := map[*ssa.Function]bool{}
		for _, f := range c02WithClosures(ctor) {
			if len(core.Instrs(f, isNext)) > 0 && !seen[f] {
				seen[f] = true
				out = append(out, f)
			}
			for _, in := range core.Instrs(f, func(in ssa.Instruction) bool { _, ok := in.(*ssa.Alloc); return ok }) {
				nt, ok := in.(*ssa.Alloc).Type().(*types.Pointer).Elem().(*types.Named)
				if !ok || nt.Obj().Pkg() == nil || nt.Obj().Pkg() != ctor.Pkg.Pkg {
					continue
				}
				if m := p.Func(c02Hdl, nt.Obj().Name(), "ServeHTTP"); m != nil && m.Blocks != nil && !seen[m] && len(core.Instrs(m, isNext)) > 0 {
					seen[m] = true
					out = append(out, m)
				}
			}
		}
		return out
	}
	// latchKey identifies the latch a Limit method is called on: the variable, or the struct field it is kept in
	latchKey := func(v ssa.Value) string {
		if n := core.FieldAddrNameOfLoad(core.Strip(v)); n != "" {
			return "field:" + n
		}
		cv := c02Var(v)
		if n := core.FieldAddrNameOfLoad(core.Strip(cv)); n != "" {
			return "field:" + n
		}
		return fmt.Sprintf("var:%p", cv)
	}
	rwParam := func(f *ssa.Function) *ssa.Parameter {
		for _, pa := range f.Params {
			if isRWType(pa.Type()) {
				return pa
			}
		}
		return nil
	}
	var passesThroughW func(o *core.O, f *ssa.Function, w *ssa.Parameter)
	passesThrough := func(o *core.O, f *ssa.Function) { passesThroughW(o, f, rwParam(f)) }
	passesThroughW = func(o *core.O, f *ssa.Function, w *ssa.Parameter) {
		for _, in := range core.Instrs(f, isNext) {
			as := core.Args(core.AsCall(in))
			if w == nil || c02Var(as[1]) != ssa.Value(w) {
				o.Fail(p.InstrPos(in), "%s hands %s to the next handler instead of its own ResponseWriter", core.FuncName(f), core.Describe(as[1]))
			}
		}
	}

	r.Check("D5/K10/recover-handler-500", "RecoverHandler defers, before calling next, a function that calls recover() and on a recovered panic always writes status 500 to the request's writer", func(o *core.O) {
		ctor := p.Func(c02Hdl, "", "RecoverHandler")
		if !o.Need(ctor != nil, "handler.RecoverHandler") {
			return
		}
		fs := perRequest(ctor)
		if !o.Need(len(fs) > 0, "the function of RecoverHandler calling next.ServeHTTP") {
			return
		}
		for _, f := range fs {
			r.Fn(core.FuncName(f))
			w := rwParam(f)
			if !o.Need(w != nil, "ResponseWriter parameter of "+core.FuncName(f)) {
				return
			}
			passesThrough(o, f)
			var recs []ssa.Instruction
			for _, in := range core.Instrs(f, func(in ssa.Instruction) bool { _, ok := in.(*ssa.Defer); return ok }) {
				df := c02DeferredFn(in.(*ssa.Defer))
				if df != nil && df.Blocks != nil && len(recoverCalls(df)) > 0 {
					recs = append(recs, in)
				}
			}
			o.Site(len(recs), core.FuncName(f))
			if len(recs) == 0 {
				o.Fail(p.Pos(f.Pos()), "no deferred recover(): a panicking handler aborts the connection without a 500")
				continue
			}
			if x := core.Precedes(f, core.Is(recs...), isNext); x != nil {
				o.Fail(p.InstrPos(x), "next.ServeHTTP can run before the recover is deferred")
			}
			for _, d := range recs {
				df := c02DeferredFn(d.(*ssa.Defer))
				r.Fn(core.FuncName(df))
				// the panic arm: `!finished` (completion flag) and/or `recover() != nil`; that the test cannot
				// miss a panic is the matter of D5/K10/recover-handler-panic-detection-value-independent
				pt := c02PanicTestOf(d.(*ssa.Defer))
				arm := pt.arm()
				if len(arm) == 0 {
					o.Fail(p.Pos(df.Pos()), "whether next.ServeHTTP panicked is never tested")
					continue
				}
				// the request's writer inside the deferred function: captured, or handed over as an argument
				var w ssa.Value = w
				if df.Parent() == nil {
					w = nil
					for i, a := range d.(*ssa.Defer).Call.Args {
						if c02Var(a) == ssa.Value(rwParam(f)) && i < len(df.Params) {
							w = df.Params[i]
						}
					}
					if w == nil {
						o.Fail(p.InstrPos(d), "%s is deferred without the request's writer: it cannot answer 500", core.FuncName(df))
						continue
					}
				}
				if x, ok := core.Reach(core.Q{From: c02Heads(arm), Target: core.IsExit, Blocked: answers(w, 500)}); ok {
					o.Fail(p.InstrPos(x), "a recovered panic can leave %s without WriteHeader(500) on the request's writer", core.FuncName(df))
				}
				if x := pt.missed(answers(w, 500)); x != nil {
					o.Fail(p.InstrPos(x), "%s can end with the completion flag unset and no WriteHeader(500): a panic whose value recover() reports as nil is answered with an implicit 200", core.FuncName(df))
				}
				if x := core.Requires(df, isInvokeOn(w, "WriteHeader"), pt.panicked); x != nil {
					o.Fail(p.InstrPos(x), "a status is written although nothing was recovered")
				}
			}
		}
	})
	r.Check("D5/K10/recover-handler-panic-detection-value-independent", "RecoverHandler's deferred function decides whether next.ServeHTTP panicked by a completion flag - a bool local that is false while next runs and set only after it returned - and not by the value recover() returns (under this module's go directive recover() is nil for panic(nil), e.g. panic(err) with a nil err: the panic would be stopped and the client get an implicit 200 instead of 500); recover() is called on every path of the panic arm", func(o *core.O) {
		ctor := p.Func(c02Hdl, "", "RecoverHandler")
		if !o.Need(ctor != nil, "handler.RecoverHandler") {
			return
		}
		fs := perRequest(ctor)
		if !o.Need(len(fs) > 0, "the function of RecoverHandler calling next.ServeHTTP") {
			return
		}
		for _, f := range fs {
			r.Fn(core.FuncName(f))
			n := 0
			for _, in := range core.Instrs(f, func(in ssa.Instruction) bool { _, ok := in.(*ssa.Defer); return ok }) {
				df := c02DeferredFn(in.(*ssa.Defer))
				if df == nil || df.Blocks == nil || len(recoverCalls(df)) == 0 {
					continue
				}
				n++
				r.Fn(core.FuncName(df))
				c02CheckCompletionFlag(o, p, c02PanicTestOf(in.(*ssa.Defer)), core.Instrs(f, isNext), "next.ServeHTTP")
			}
			o.Site(n, core.FuncName(f))
			if n == 0 {
				o.Fail(p.Pos(f.Pos()), "no deferred recover()")
			}
		}
	})

	r.Check("D5/K6/chain-order", "engine.bindRoute's default chain contains MaxConns, TimeoutHandler, RecoverHandler and MaxBytesHandler, with TimeoutHandler outside (before) RecoverHandler", func(o *core.O) {
		elems, _ := c02Chain(r, o)
		if elems == nil {
			return
		}
		idx := map[string]int{}
		for i, e := range elems {
			n := c02ChainElemName(p, e) // a middleware kept in an engine field is named by the constructor it is built with
			if _, dup := idx[n]; dup && n != "" {
				o.Fail("api/engine.go", "%s appears twice in the default chain", n)
			}
			idx[n] = i
		}
		o.Site(len(elems), "api.(*engine).bindRoute")
		for _, want := range []string{"api/handler.MaxConns", "api/handler.TimeoutHandler", "api/handler.RecoverHandler", "api/handler.MaxBytesHandler"} {
			if _, ok := idx[want]; !ok {
				o.Fail("api/engine.go", "%s is missing from the default chain", want)
			}
		}
		ti, ok1 := idx["api/handler.TimeoutHandler"]
		ri, ok2 := idx["api/handler.RecoverHandler"]
		if ok1 && ok2 && ti > ri {
			o.Fail("api/engine.go", "RecoverHandler (#%d) wraps TimeoutHandler (#%d): the recover no longer runs in the handler goroutine, a handler that wrote and then panicked loses its buffered response", ri, ti)
		}
	})

	r.Check("D5/K8/chain-config", "MaxConns gets config.MaxConns; MaxBytesHandler and TimeoutHandler get the per-route value when positive, else config.MaxBytes / config.Timeout milliseconds", func(o *core.O) {
		elems, bind := c02Chain(r, o)
		if elems == nil {
			return
		}
		cfgField := func(v ssa.Value, name string) bool {
			d := core.Describe(v)
			return strings.HasSuffix(d, ".config."+name) && core.FieldAddrNameOfLoad(core.Forward(v)) == "Config."+name
		}
		// helper: f(route value) returns the route value when > 0, otherwise the config default
		checkFallback := func(call *ssa.Call, routeField, cfgName string, scale string) {
			cal := call.Call.StaticCallee()
			if cal == nil || cal.Blocks == nil || cal.Pkg != bind.Pkg {
				o.Fail(p.InstrPos(call), "argument is computed by %s (expected an in-package fallback helper)", core.Short(core.CalleeName(call)))
				return
			}
			r.Fn(core.FuncName(cal))
			args := call.Call.Args
			last := args[len(args)-1]
			if !strings.HasSuffix(core.Describe(last), "."+routeField) {
				o.Fail(p.InstrPos(call), "%s is called with %s, not the route's %s", core.FuncName(cal), core.Describe(last), routeField)
			}
			par := cal.Params[len(cal.Params)-1]
			isPar := func(v ssa.Value) bool { return v == ssa.Value(par) }
			positive := core.Cmp(token.GTR, isPar, core.IsConstInt(0))
			nCfg := 0
			for _, ret := range core.Returns(cal) {
				v := core.Result(ret, 0)
				if isPar(v) {
					if w := core.Requires(cal, core.Is(ret), positive); w != nil {
						o.Fail(p.InstrPos(ret), "%s returns the route value although it is not positive", core.FuncName(cal))
					}
					continue
				}
				a := &core.Alg{Name: func(x ssa.Value) string {
					if cfgField(x, cfgName) {
						return "C"
					}
					return ""
				}}
				got := a.Norm(v)
				if !got.Equal(core.ParsePoly(scale)) {
					o.Fail(p.InstrPos(ret), "%s falls back to %s, expected %s with C = config.%s", core.FuncName(cal), got, scale, cfgName)
					continue
				}
				nCfg++
				if w := core.Requires(cal, core.Is(ret), core.Not(positive)); w != nil {
					o.Fail(p.InstrPos(ret), "%s returns the config default although the route sets a positive value", core.FuncName(cal))
				}
			}
			if nCfg == 0 {
				o.Fail(p.Pos(cal.Pos()), "%s never falls back to config.%s", core.FuncName(cal), cfgName)
			}
		}
		n := 0
		for _, e := range elems {
			c, ok := core.Strip(e).(*ssa.Call)
			if !ok {
				// the server-wide MaxConns middleware is built once, by the function that creates the engine,
				// and kept in an engine field (D6/K5/maxconns-one-latch-per-server): its argument is the
				// MaxConns of the Config that function stores into engine.config
				if c02ChainElemName(p, e) == "api/handler.MaxConns" {
					for _, st := range c02FieldStores(p, "api", c02EngineFieldOf(e)) {
						n++
						mc := core.Forward(st.Val).(*ssa.Call)
						r.Fn(core.FuncName(st.Parent()))
						if !c02IsEngineConfigField(st, mc.Call.Args[0], "MaxConns") {
							o.Fail(p.InstrPos(mc), "MaxConns is configured with %s, not config.MaxConns", core.Describe(mc.Call.Args[0]))
						}
					}
				}
				continue
			}
			switch staticCalleeName(e) {
			case "api/handler.MaxConns":
				n++
				if !cfgField(c.Call.Args[0], "MaxConns") {
					o.Fail(p.InstrPos(c), "MaxConns is configured with %s, not config.MaxConns", core.Describe(c.Call.Args[0]))
				}
			case "api/handler.MaxBytesHandler":
				n++
				if ac, ok := c.Call.Args[0].(*ssa.Call); ok {
					checkFallback(ac, "maxBytes", "MaxBytes", "C")
				} else {
					o.Fail(p.InstrPos(c), "MaxBytesHandler is configured with %s", core.Describe(c.Call.Args[0]))
				}
			case "api/handler.TimeoutHandler":
				n++
				if ac, ok := c.Call.Args[0].(*ssa.Call); ok {
					checkFallback(ac, "timeout", "Timeout", "1000000*C")
				} else {
					o.Fail(p.InstrPos(c), "TimeoutHandler is configured with %s", core.Describe(c.Call.Args[0]))
				}
			}
		}
		o.Site(n, core.FuncName(bind))
	})

	// ---- MaxConns
	mcCtor := p.Func(c02Hdl, "", "MaxConns")
	isTry := core.CallTo("(lib/syncx.Limit).TryBorrow")
	isRet := core.CallTo("(lib/syncx.Limit).Return")
	var mcReq []*ssa.Function
	// mcSite: one per-request function and the function that borrows for it: itself, or one in-package
	// helper the borrow is routed through (`admitted := withPermit(latch, func() { next.ServeHTTP(w, r) })`):
	// the helper is handed the function that runs next as a parameter
	type mcSite struct {
		per   *ssa.Function  // serves the request (has the ResponseWriter)
		h     *ssa.Function  // calls TryBorrow; == per unless the borrow lives in a helper
		call  *ssa.Call      // the call of h in per (helper form)
		fnPar *ssa.Parameter // parameter of h through which the handler is run (helper form)
		body  *ssa.Function  // the closure handed to h that calls next (helper form)
		mc    *ssa.MakeClosure
	}
	var mcSites []mcSite
	mcProblem := ""
	hostOf := map[*ssa.Function]*ssa.Parameter{} // helper -> its handler-running parameter
	if mcCtor != nil {
		// role: the functions of the package that borrow from a syncx.Limit (closure of MaxConns or a handler type's method)
		for _, f := range p.PkgFuncs(c02Hdl) {
			if len(core.Instrs(f, isTry)) == 0 {
				continue
			}
			mcReq = append(mcReq, f)
			if rwParam(f) != nil {
				mcSites = append(mcSites, mcSite{per: f, h: f})
				continue
			}
			n := 0
			if f.Parent() == nil {
				for _, g := range p.PkgFuncs(c02Hdl) {
					for _, in := range core.Instrs(g, func(in ssa.Instruction) bool {
						c, ok := in.(*ssa.Call)
						return ok && c.Call.StaticCallee() == f
					}) {
						c := in.(*ssa.Call)
						for i, a := range c.Call.Args {
							mc, ok := a.(*ssa.MakeClosure)
							if !ok || i >= len(f.Params) {
								continue
							}
							runsNext := false
							for _, cf := range c02WithClosures(mc.Fn.(*ssa.Function)) {
								if len(core.Instrs(cf, isNext)) > 0 {
									runsNext = true
								}
							}
							if runsNext && rwParam(g) != nil {
								n++
								mcSites = append(mcSites, mcSite{per: g, h: f, call: c, fnPar: f.Params[i], body: mc.Fn.(*ssa.Function), mc: mc})
								hostOf[f] = f.Params[i]
							}
						}
					}
				}
			}
			if n == 0 {
				mcProblem = "ResponseWriter parameter of " + core.FuncName(f) + " (and no per-request caller handing it the function that runs next)"
			}
		}
	}
	borrowed := core.BoolVal(func(v ssa.Value) bool {
		c, ok := v.(*ssa.Call)
		return ok && isTry(c)
	})
	mcNeed := func(o *core.O) bool {
		return o.Need(mcCtor != nil, "handler.MaxConns") && o.Need(len(mcReq) > 0, "the function of MaxConns calling Limit.TryBorrow") && o.Need(mcProblem == "", mcProblem)
	}
	// runsHandler: next.ServeHTTP, or (in a borrow helper) the call of the parameter through which the handler is run
	runsHandler := func(f *ssa.Function) func(ssa.Instruction) bool {
		pa := hostOf[f]
		if pa == nil {
			return isNext
		}
		return core.Or(isNext, core.Is(c02CallsOfParam(f, pa)...))
	}
	r.Check("D6/K2/maxconns-borrow-guard", "in MaxConns next.ServeHTTP is reachable only after TryBorrow() returned true; the refused arm always answers 503 and hands the request's own writer on", func(o *core.O) {
		if !mcNeed(o) {
			return
		}
		for _, s := range mcSites {
			f := s.per
			r.Fn(core.FuncName(f))
			w := rwParam(f)
			if !o.Need(w != nil, "ResponseWriter parameter of "+core.FuncName(f)) {
				return
			}
			if s.h != f {
				// the borrow lives in helper s.h, which runs the closure s.body under the slot and reports whether it did
				h := s.h
				r.Fn(core.FuncName(h), core.FuncName(s.body))
				var ns []ssa.Instruction
				for _, cf := range c02WithClosures(s.body) {
					ns = append(ns, core.Instrs(cf, isNext)...)
					passesThroughW(o, cf, w)
				}
				o.Site(len(ns), core.FuncName(f), core.FuncName(h))
				// next runs nowhere else: the closure is only handed to the helper, the per-request function itself does not call next
				for _, ref := range *s.mc.Referrers() {
					if _, dbg := ref.(*ssa.DebugRef); !dbg && ref != ssa.Instruction(s.call) {
						o.Fail(p.InstrPos(ref), "the function that runs next.ServeHTTP is also used outside %s: it can run without a borrowed slot", core.FuncName(h))
					}
				}
				if x := core.Instrs(f, isNext); len(x) > 0 {
					o.Fail(p.InstrPos(x[0]), "next.ServeHTTP is reachable without a successful TryBorrow: the concurrency bound is not enforced")
				}
				runs := c02CallsOfParam(h, s.fnPar)
				if len(runs) == 0 {
					o.Fail(p.Pos(h.Pos()), "%s never runs the handler it is given", core.FuncName(h))
				}
				for _, c := range runs {
					if _, plain := c.(*ssa.Call); !plain {
						o.Fail(p.InstrPos(c), "%s defers/spawns the handler: it runs after the slot was returned", core.FuncName(h))
					}
				}
				if x := core.Requires(h, core.Is(runs...), borrowed); x != nil {
					o.Fail(p.InstrPos(x), "next.ServeHTTP is reachable without a successful TryBorrow: the concurrency bound is not enforced")
				}
				// the helper's result says whether a slot was borrowed
				for _, ret := range core.Returns(h) {
					if len(ret.Results) != 1 {
						o.Fail(p.InstrPos(ret), "%s does not report whether a slot was borrowed", core.FuncName(h))
						continue
					}
					v := core.Result(ret, 0)
					switch {
					case core.Describe(v) == "const:true":
						if x := core.Requires(h, core.Is(ret), borrowed); x != nil {
							o.Fail(p.InstrPos(ret), "%s reports a borrowed slot although TryBorrow failed: the refused request gets no 503", core.FuncName(h))
						}
					case core.Describe(v) == "const:false":
						if x := core.Requires(h, core.Is(ret), core.Not(borrowed)); x != nil {
							o.Fail(p.InstrPos(ret), "%s reports a refusal although the handler ran: a 503 is appended to a served request", core.FuncName(h))
						}
					default:
						if c, ok := v.(*ssa.Call); !ok || !isTry(c) {
							o.Fail(p.InstrPos(ret), "%s returns %s, which does not tell whether a slot was borrowed", core.FuncName(h), core.Describe(v))
						}
					}
				}
				admitted := core.BoolVal(func(v ssa.Value) bool {
					c, ok := v.(*ssa.Call)
					return ok && c.Call.StaticCallee() == h
				})
				_, refused := core.EdgesOf(f, admitted)
				if len(refused) == 0 {
					o.Fail(p.Pos(f.Pos()), "TryBorrow's result is never tested")
					continue
				}
				if x, ok := core.Reach(core.Q{From: c02Heads(refused), Target: core.IsExit, Blocked: answers(w, 503)}); ok {
					o.Fail(p.InstrPos(x), "a refused request can end without status 503")
				}
				continue
			}
			ns := core.Instrs(f, isNext)
			o.Site(len(ns), core.FuncName(f))
			if len(ns) == 0 {
				o.Fail(p.Pos(f.Pos()), "%s never calls next.ServeHTTP", core.FuncName(f))
			}
			passesThrough(o, f)
			if x := core.Requires(f, isNext, borrowed); x != nil {
				o.Fail(p.InstrPos(x), "next.ServeHTTP is reachable without a successful TryBorrow: the concurrency bound is not enforced")
			}
			_, refused := core.EdgesOf(f, borrowed)
			if len(refused) == 0 {
				o.Fail(p.Pos(f.Pos()), "TryBorrow's result is never tested")
				continue
			}
			if x, ok := core.Reach(core.Q{From: c02Heads(refused), Target: core.IsExit, Blocked: answers(w, 503)}); ok {
				o.Fail(p.InstrPos(x), "a refused request can end without status 503")
			}
		}
	})
	r.Check("D6/K1/maxconns-return-paired", "every successful TryBorrow is paired with exactly one deferred Return on the same latch, deferred before next.ServeHTTP (so it also runs when the handler panics); nothing is returned when nothing was borrowed", func(o *core.O) {
		if !mcNeed(o) {
			return
		}
		for _, f := range mcReq {
			r.Fn(core.FuncName(f))
			defs := c02DeferredCalls(f, isRet)
			direct := core.Instrs(f, func(in ssa.Instruction) bool { _, ok := in.(*ssa.Call); return ok && isRet(in) })
			o.Site(len(defs)+len(direct), core.FuncName(f))
			isDef := core.Is(defs...)
			anyRet := core.Or(isDef, core.Is(direct...))
			if len(defs) == 0 {
				o.Fail(p.Pos(f.Pos()), "no deferred latch.Return(): the slot leaks (at least when the handler panics) and the server eventually refuses every request")
				continue
			}
			if x := core.Precedes(f, isDef, runsHandler(f)); x != nil {
				o.Fail(p.InstrPos(x), "next.ServeHTTP can run before Return is deferred")
			}
			holds, _ := core.EdgesOf(f, borrowed)
			if x, ok := core.Reach(core.Q{From: c02Heads(holds), Target: core.IsExit, Blocked: isDef}); ok {
				o.Fail(p.InstrPos(x), "a path that borrowed a slot ends without a deferred Return")
			}
			if x := core.Requires(f, anyRet, borrowed); x != nil {
				o.Fail(p.InstrPos(x), "Return is reachable although TryBorrow failed: the latch's capacity grows")
			}
			if x := core.AtMostOnce(f, anyRet); x != nil {
				o.Fail(p.InstrPos(x), "a borrowed slot can be returned twice")
			}
			// same latch
			tryRecv := ""
			for _, t := range core.Instrs(f, isTry) {
				tryRecv = latchKey(core.Args(core.AsCall(t))[0])
			}
			for _, d := range defs {
				fs := []*ssa.Function{f}
				if df := c02DeferredFn(d.(*ssa.Defer)); df != nil && df.Blocks != nil {
					fs = append(fs, df)
				}
				for _, g := range fs {
					for _, rc := range core.Instrs(g, isRet) {
						if latchKey(core.Args(core.AsCall(rc))[0]) != tryRecv {
							o.Fail(p.InstrPos(rc), "Return is called on a different latch than TryBorrow")
						}
					}
				}
			}
		}
		// a per-request function that borrows through a helper returns nothing itself
		for _, s := range mcSites {
			if s.h == s.per {
				continue
			}
			for _, g := range c02WithClosures(s.per) {
				for _, rc := range core.Instrs(g, isRet) {
					o.Fail(p.InstrPos(rc), "Return is called outside %s, which borrowed and returns the slot itself: the latch's capacity grows", core.FuncName(s.h))
				}
			}
		}
	})
	r.Check("D6/K8/maxconns-latch-shared", "the latch is created once per middleware instance (outside the per-request function) with capacity n", func(o *core.O) {
		if !mcNeed(o) {
			return
		}
		isNew := core.CallTo("lib/syncx.NewLimit")
		n := 0
		for _, f := range p.PkgFuncs(c02Hdl) {
			for _, in := range core.Instrs(f, isNew) {
				n++
				r.Fn(core.FuncName(f))
				var pers []*ssa.Function
				for _, s := range mcSites {
					pers = append(pers, s.per)
				}
				for _, q := range pers {
					for g, i := f, 0; g != nil && i < 8; i++ {
						up := g.Parent()
						if m := c02MakerOf(g); m != nil && up != nil {
							up = m.Parent()
						}
						if g == q {
							o.Fail(p.InstrPos(in), "the latch is created per request: every request gets a fresh limit and the bound is never reached")
						}
						g = up
					}
				}
				if c02Var(core.AsCall(in).Common().Args[0]) != ssa.Value(mcCtor.Params[0]) {
					o.Fail(p.InstrPos(in), "latch capacity is %s, not MaxConns' argument", core.Describe(core.AsCall(in).Common().Args[0]))
				}
				// the latch borrowed from is this one
				for _, s := range mcSites {
					q := s.h
					for _, t := range core.Instrs(q, isTry) {
						recv := core.Args(core.AsCall(t))[0]
						// borrowed in a helper from its parameter: the latch is what the per-request function hands it
						if pa, isPar := c02Var(recv).(*ssa.Parameter); isPar && s.call != nil && pa.Parent() == q {
							for i, qp := range q.Params {
								if qp == pa && i < len(s.call.Call.Args) {
									recv = s.call.Call.Args[i]
								}
							}
						}
						home, ok := c02Var(recv).(*ssa.Alloc)
						okStore := false
						if ok {
							for _, ref := range *home.Referrers() {
								if st, isSt := ref.(*ssa.Store); isSt && st.Addr == ssa.Value(home) && st.Val == in.(ssa.Value) {
									okStore = true
								}
							}
						}
						// or: kept in the struct field the per-request method borrows from
						if key := latchKey(recv); strings.HasPrefix(key, "field:") {
							for _, ref := range *in.(ssa.Value).Referrers() {
								if st, isSt := ref.(*ssa.Store); isSt && st.Val == in.(ssa.Value) && "field:"+core.FieldAddrName(st.Addr) == key {
									okStore = true
								}
							}
							// or the field is filled from the variable that holds the latch (created once, outside
							// the function that wraps one handler, and handed to every handler value)
							fst := c02FieldStores(p, c02Hdl, strings.TrimPrefix(key, "field:"))
							viaVar := len(fst) > 0
							for _, st := range fst {
								home, isAl := c02Var(st.Val).(*ssa.Alloc)
								holds := false
								if isAl {
									for _, ref := range *home.Referrers() {
										if hs, isSt := ref.(*ssa.Store); isSt && hs.Addr == ssa.Value(home) {
											if hs.Val != in.(ssa.Value) {
												holds = false
												break
											}
											holds = true
										}
									}
								}
								if !holds {
									viaVar = false
								}
							}
							if viaVar {
								okStore = true
							}
						}
						if !okStore {
							o.Fail(p.InstrPos(t), "TryBorrow is not called on the latch created by NewLimit(n)")
						}
					}
				}
			}
		}
		o.Site(n, core.FuncName(mcCtor))
		if n == 0 {
			o.Fail(p.Pos(mcCtor.Pos()), "MaxConns creates no syncx.Limit")
		}
	})

	r.Check("D6/K5/maxconns-one-latch-per-server", "Config.MaxConns bounds the server, so every route's chain borrows from one and the same latch: (a) in handler.MaxConns the latch is created once per MaxConns(n) call - not in (or on behalf of) the function that wraps one next handler, which runs once per route; (b) the engine calls handler.MaxConns only where it creates the engine object, keeps the middleware in a field of that object that is written nowhere else, and the per-route chain takes the element from that field of its own engine (a latch per route lets R routes run R*MaxConns handlers at once and the excess request gets no 503)", func(o *core.O) {
		if !mcNeed(o) {
			return
		}
		isHandlerT := func(t types.Type) bool { return t.String() == "net/http.Handler" }
		// perWrap: f runs once per wrapped handler: it, or a function it is nested in, receives the next handler
		var perWrap func(f *ssa.Function, depth int) *ssa.Function
		perWrap = func(f *ssa.Function, depth int) *ssa.Function {
			top := f
			for g, i := f, 0; g != nil && i < 8; i++ {
				for _, pa := range g.Params {
					if isHandlerT(pa.Type()) {
						return g
					}
				}
				for _, fv := range g.FreeVars {
					if isHandlerT(fv.Type()) {
						return g
					}
					if pt, ok := fv.Type().(*types.Pointer); ok && isHandlerT(pt.Elem()) {
						return g
					}
				}
				top = g
				up := g.Parent()
				if m := c02MakerOf(g); m != nil && up != nil {
					up = m.Parent()
				}
				g = up
			}
			// a helper: where it is called from decides
			if top != mcCtor && top.Parent() == nil && depth < 3 && (top.Object() == nil || !top.Object().Exported()) {
				for _, g := range p.PkgFuncs(c02Hdl) {
					for _, in := range core.Instrs(g, func(in ssa.Instruction) bool {
						c := core.AsCall(in)
						return c != nil && c.Common().StaticCallee() == top
					}) {
						_ = in
						if w := perWrap(g, depth+1); w != nil {
							return w
						}
					}
				}
			}
			return nil
		}
		isNew := core.CallTo("lib/syncx.NewLimit")
		n := 0
		for _, f := range p.PkgFuncs(c02Hdl) {
			for _, in := range core.Instrs(f, isNew) {
				n++
				r.Fn(core.FuncName(f))
				if w := perWrap(f, 0); w != nil {
					o.Fail(p.InstrPos(in), "the latch is created in %s, once per wrapped handler: every route wrapped by the same MaxConns(n) middleware gets n slots of its own", core.FuncName(w))
				}
			}
		}
		o.Site(n, core.FuncName(mcCtor))
		if n == 0 {
			o.Fail(p.Pos(mcCtor.Pos()), "MaxConns creates no syncx.Limit")
		}
		// (b) the engine
		elems, bind := c02Chain(r, o)
		if elems == nil {
			return
		}
		var elem ssa.Value
		for _, e := range elems {
			if c02ChainElemName(p, e) == "api/handler.MaxConns" {
				elem = e
			}
		}
		if elem == nil {
			o.Fail(p.Pos(bind.Pos()), "the default chain has no MaxConns element built by handler.MaxConns")
			return
		}
		o.Site(1, core.FuncName(bind))
		tf := c02EngineFieldOf(elem)
		if tf == "" {
			o.Fail(c02ValPos(p, elem), "%s builds the MaxConns middleware while binding a route: every route gets a latch of its own, so R routes admit R*MaxConns concurrent handlers and the excess request gets no 503", core.FuncName(bind))
			return
		}
		if base := c02EngineFieldBase(elem); base == nil || len(bind.Params) == 0 || c02Var(base) != ssa.Value(bind.Params[0]) {
			o.Fail(c02ValPos(p, elem), "the MaxConns element is not taken from the engine the route is bound on")
		}
		stores := c02FieldStores(p, "api", tf)
		o.Site(len(stores), tf)
		for _, st := range stores {
			r.Fn(core.FuncName(st.Parent()))
			if al, fresh := st.Addr.(*ssa.FieldAddr).X.(*ssa.Alloc); !fresh || al.Parent() != st.Parent() {
				o.Fail(p.InstrPos(st), "%s is (re)assigned in %s, outside the creation of the engine: routes bound before and after borrow from different latches", tf, core.FuncName(st.Parent()))
			}
		}
		// no other MaxConns middleware is built in the package
		for _, f := range p.PkgFuncs("api") {
			for _, c := range core.Calls(f, core.CallTo("api/handler.MaxConns")) {
				kept := false
				for _, st := range stores {
					if core.Forward(st.Val) == c.(ssa.Value) {
						kept = true
					}
				}
				if !kept {
					o.Fail(p.InstrPos(c), "%s builds a second MaxConns middleware (a second latch)", core.FuncName(f))
				}
			}
		}
	})

	// ---- MaxBytes
	r.Check("D6/K2/maxbytes-413", "in MaxBytesHandler next.ServeHTTP is unreachable when r.ContentLength > n, and that arm always answers 413", func(o *core.O) {
		ctor := p.Func(c02Hdl, "", "MaxBytesHandler")
		if !o.Need(ctor != nil, "handler.MaxBytesHandler") {
			return
		}
		isN := func(v ssa.Value) bool { return c02Var(v) == ssa.Value(ctor.Params[0]) }
		tooBig := core.Cmp(token.GTR, core.FieldLoad("Request.ContentLength"), isN)
		found := 0
		for _, f := range perRequest(ctor) {
			if rwParam(f) == nil {
				continue // the pass-through constructor for n <= 0
			}
			found++
			r.Fn(core.FuncName(f))
			w := rwParam(f)
			holds, _ := core.EdgesOf(f, tooBig)
			o.Site(len(holds), core.FuncName(f))
			passesThrough(o, f)
			if len(holds) == 0 {
				o.Fail(p.Pos(f.Pos()), "%s never tests r.ContentLength > n (exact threshold)", core.FuncName(f))
				continue
			}
			if x := core.Requires(f, isNext, core.Not(tooBig)); x != nil {
				o.Fail(p.InstrPos(x), "next.ServeHTTP is reachable although the declared Content-Length exceeds the limit")
			}
			if x, ok := core.Reach(core.Q{From: c02Heads(holds), Target: core.IsExit, Blocked: answers(w, 413)}); ok {
				o.Fail(p.InstrPos(x), "an oversized request can end without status 413")
			}
			if x := core.Requires(f, answers(w, 413), tooBig); x != nil {
				o.Fail(p.InstrPos(x), "413 is sent to a request within the limit")
			}
		}
		if found == 0 {
			o.Fail(p.Pos(ctor.Pos()), "no per-request function found in MaxBytesHandler")
		}
	})

	r.Check("D7/K3/headers-before-status", "in api/...: no function mutates w.Header() of a ResponseWriter on a path on which it already called w.WriteHeader or w.Write on the same writer (net/http silently drops such headers)", func(o *core.O) {
		n := 0
		for rel := range p.SSAPkgs {
			rel = strings.TrimPrefix(rel, core.Mod+"/")
			if rel != "api" && !strings.HasPrefix(rel, "api/") {
				continue
			}
			for _, f := range p.PkgFuncs(rel) {
				// writers used in f, by home
				commits := map[ssa.Value][]ssa.Instruction{}
				muts := map[ssa.Value][]ssa.Instruction{}
				for _, in := range core.Instrs(f, func(in ssa.Instruction) bool { return true }) {
					switch x := in.(type) {
					case *ssa.Call:
						cc := x.Common()
						if cc.IsInvoke() && isRWType(cc.Value.Type()) && (cc.Method.Name() == "WriteHeader" || cc.Method.Name() == "Write") {
							w := c02Var(cc.Value)
							commits[w] = append(commits[w], in)
							continue
						}
						nm := core.Short(core.CalleeName(x))
						if nm == "(net/http.Header).Set" || nm == "(net/http.Header).Add" || nm == "(net/http.Header).Del" {
							if hc, _ := core.ResultOf(core.Forward(cc.Args[0])); hc != nil && hc.Call.IsInvoke() && hc.Call.Method.Name() == "Header" && isRWType(hc.Call.Value.Type()) {
								w := c02Var(hc.Call.Value)
								muts[w] = append(muts[w], in)
							}
						}
					case *ssa.MapUpdate:
						if hc, _ := core.ResultOf(core.Forward(x.Map)); hc != nil && hc.Call.IsInvoke() && hc.Call.Method.Name() == "Header" && isRWType(hc.Call.Value.Type()) {
							w := c02Var(hc.Call.Value)
							muts[w] = append(muts[w], in)
						}
					}
				}
				for w, ms := range muts {
					cs := commits[w]
					if len(cs) == 0 {
						continue
					}
					n++
					r.Fn(core.FuncName(f))
					o.Site(1, core.FuncName(f))
					var from []core.At
					for _, c := range cs {
						from = append(from, core.After(c))
					}
					if x, ok := core.Reach(core.Q{From: from, Target: core.Is(ms...)}); ok {
						o.Fail(p.InstrPos(x), "%s sets a response header after the status/body was written on the same writer: the header never reaches the client", core.FuncName(f))
					}
				}
			}
		}
		if n == 0 {
			o.Fail("api/...", "no function both sets headers and writes a status (anchor vanished)")
		}
	})

	// ---- pass-through wrapper used by the guards between the timeout buffer and the handler
	r.Check("D9/K8/withcode-writer-forwards", "WithCodeResponseWriter.{Header,Write,WriteHeader} forward, on every path, to the same method of the wrapped Writer with their own arguments and return its results", func(o *core.O) {
		const rel = "api/internal/response"
		for _, m := range []string{"Header", "Write", "WriteHeader"} {
			f := p.Func(rel, "WithCodeResponseWriter", m)
			if !o.Need(f != nil, "WithCodeResponseWriter."+m) {
				return
			}
			r.Fn(core.FuncName(f))
			isFwd := func(in ssa.Instruction) bool {
				c, ok := in.(*ssa.Call)
				if !ok || !c.Call.IsInvoke() || c.Call.Method.Name() != m {
					return false
				}
				return core.IsFieldLoad(c.Call.Value, "WithCodeResponseWriter.Writer")
			}
			fw := core.Instrs(f, isFwd)
			o.Site(len(fw), core.FuncName(f))
			if len(fw) == 0 {
				o.Fail(p.Pos(f.Pos()), "%s does not forward to Writer.%s: the handler's output never reaches the client", core.FuncName(f), m)
				continue
			}
			if x := core.MustPass(core.Entry(f), isFwd, core.IsReturn); x != nil {
				o.Fail(p.InstrPos(x), "%s can return without forwarding to Writer.%s", core.FuncName(f), m)
			}
			if x := core.AtMostOnce(f, isFwd); x != nil {
				o.Fail(p.InstrPos(x), "%s forwards twice", core.FuncName(f))
			}
			for _, in := range fw {
				c := in.(*ssa.Call)
				for i, a := range c.Call.Args {
					if i+1 >= len(f.Params) || c02Var(a) != ssa.Value(f.Params[i+1]) {
						o.Fail(p.InstrPos(in), "%s forwards %s instead of its own argument", core.FuncName(f), core.Describe(a))
					}
				}
			}
			for _, ret := range core.Returns(f) {
				for i := range ret.Results {
					v := core.Result(ret, i)
					c, idx := core.ResultOf(v)
					if c == nil || !isFwd(c) || idx != i {
						o.Fail(p.InstrPos(ret), "%s returns %s instead of the wrapped writer's result", core.FuncName(f), core.Describe(v))
					}
				}
			}
		}
	})
}

// c02Chain returns the elements of the default middleware chain built by
// engine.bindRoute (the variadic arguments of chain.New), in order.
func c02Chain(r *core.Run, o *core.O) ([]ssa.Value, *ssa.Function) {
	p := r.P
	bind := p.Func("api", "engine", "bindRoute")
	if !o.Need(bind != nil, "api.(*engine).bindRoute") {
		return nil, nil
	}
	r.Fn(core.FuncName(bind))
	news := core.Calls(bind, core.PlainCallTo("api/chain.New"))
	if len(news) != 1 {
		o.Unres("bindRoute: expected one call of chain.New, found %d", len(news))
		return nil, nil
	}
	elems, ok := sliceLiteralElems(news[0].Common().Args[0])
	if !ok {
		o.Unres("bindRoute: the arguments of chain.New are not a literal list")
		return nil, nil
	}
	// the chain built here is the one the route handler is wrapped with
	return elems, bind
}

// ---------------------------------------------------------------- RPC interceptors

func c02Rpc(r *core.Run) {
	p := r.P
	isUnaryHandlerCall := core.CallOfValue(func(v ssa.Value) bool {
		return strings.HasSuffix(v.Type().String(), "grpc.UnaryHandler")
	})
	ctor := p.Func(c02RpcSI, "", "UnaryTimeoutInterceptor")
	var fn *ssa.Function
	problem := ""
	if ctor == nil {
		problem = "serverinterceptors.UnaryTimeoutInterceptor not found"
	} else {
		n := 0
		for _, f := range core.WithAnon(ctor) {
			if len(core.Instrs(f, func(in ssa.Instruction) bool { _, ok := in.(*ssa.Go); return ok })) > 0 {
				fn = f
				n++
			}
		}
		if n != 1 {
			problem = "expected exactly one function below UnaryTimeoutInterceptor starting a goroutine"
		}
	}
	var run *c02Runner
	if problem == "" {
		run = c02NewRunner(fn, isUnaryHandlerCall)
		problem = run.problem
		if problem == "" && (run.ctxArm == nil || run.doneArm == nil) {
			problem = "the select has no completion arm or no ctx.Done() arm"
		}
	}
	need := func(o *core.O) bool {
		if problem != "" {
			o.Unres("rpc timeout runner: %s", problem)
			return false
		}
		r.Fn(core.FuncName(fn))
		return true
	}
	reachableFrom := func(from []core.At, pred func(ssa.Instruction) bool) []ssa.Instruction {
		var out []ssa.Instruction
		for _, in := range core.Instrs(fn, pred) {
			if _, ok := core.Reach(core.Q{From: from, Target: core.Is(in)}); ok {
				out = append(out, in)
			}
		}
		return out
	}

	r.Check("D8/K8/rpc-deadline-armed", "the RPC select waits on Done() of context.WithTimeout(ctx, timeout) with the interceptor's timeout argument", func(o *core.O) {
		if !need(o) {
			return
		}
		c, _ := core.ResultOf(core.Forward(run.ctxArm.Chan))
		recv := core.Forward(core.Args(c)[0])
		wt, idx := core.ResultOf(recv)
		o.Site(1, core.FuncName(fn))
		if wt == nil || idx != 0 || core.Short(core.CalleeName(wt)) != "context.WithTimeout" {
			o.Fail(p.InstrPos(c), "Done() is taken from %s, not from a context.WithTimeout of this call", core.Describe(recv))
			return
		}
		if c02Var(wt.Call.Args[1]) != ssa.Value(ctor.Params[0]) {
			o.Fail(p.InstrPos(wt), "deadline is %s, not the interceptor's timeout argument", core.Describe(wt.Call.Args[1]))
		}
		if _, ok := c02Var(wt.Call.Args[0]).(*ssa.Parameter); !ok && !core.DependsOn(wt.Call.Args[0], func(v ssa.Value) bool { _, ok := c02Var(v).(*ssa.Parameter); return ok }) {
			// the incoming ctx parameter is re-assigned, so its home is an Alloc with two stores
			al, isAl := c02Var(wt.Call.Args[0]).(*ssa.Alloc)
			fromParam := false
			if isAl {
				for _, ref := range *al.Referrers() {
					if st, ok := ref.(*ssa.Store); ok && st.Addr == ssa.Value(al) {
						if _, ok := st.Val.(*ssa.Parameter); ok {
							fromParam = true
						}
					}
				}
			}
			if !fromParam {
				o.Fail(p.InstrPos(wt), "the deadline context is not derived from the incoming context")
			}
		}
	})

	r.Check("D8/K6/rpc-timeout-status", "the ctx.Done() arm returns a nil response and a non-nil error: status Canceled exactly for context.Canceled, DeadlineExceeded exactly for context.DeadlineExceeded, else ctx.Err() itself", func(o *core.O) {
		if !need(o) {
			return
		}
		from := []core.At{armHead(run.ctxArm)}
		isCtxErr := func(v ssa.Value) bool { return c02IsCtxErr(v, run) }
		mk := func(name string) core.Atom {
			g := core.IsGlobal("context", name)
			return core.AnyOf(
				core.Cmp(token.EQL, isCtxErr, g),
				core.BoolVal(func(v ssa.Value) bool {
					c, ok := v.(*ssa.Call)
					return ok && core.Short(core.CalleeName(c)) == "errors.Is" && isCtxErr(c.Call.Args[0]) && g(c.Call.Args[1])
				}))
		}
		canceled, deadline := mk("Canceled"), mk("DeadlineExceeded")
		isStatus := core.CallTo("google.golang.org/grpc/status.Error", "google.golang.org/grpc/status.Errorf")
		sts := reachableFrom(from, isStatus)
		rets := reachableFrom(from, core.IsReturn)
		o.Site(len(sts)+len(rets), core.FuncName(fn))
		seen := map[int64]int{}
		for _, s := range sts {
			code, ok := constArg(core.AsCall(s), 0)
			if !ok {
				o.Fail(p.InstrPos(s), "status code is not a constant")
				continue
			}
			seen[code]++
			switch code {
			case 1: // codes.Canceled
				if w := core.Requires(fn, core.Is(s), canceled); w != nil {
					o.Fail(p.InstrPos(s), "codes.Canceled is produced although ctx.Err() is not context.Canceled")
				}
			case 4: // codes.DeadlineExceeded
				if w := core.Requires(fn, core.Is(s), deadline); w != nil {
					o.Fail(p.InstrPos(s), "codes.DeadlineExceeded is produced although ctx.Err() is not context.DeadlineExceeded")
				}
			default:
				o.Fail(p.InstrPos(s), "the deadline arm produces status code %d (expected Canceled=1 or DeadlineExceeded=4)", code)
			}
		}
		if seen[1] == 0 || seen[4] == 0 {
			o.Fail(p.Pos(fn.Pos()), "deadline arm: %d Canceled and %d DeadlineExceeded status sites (both required)", seen[1], seen[4])
		}
		if len(rets) == 0 {
			o.Fail(p.Pos(fn.Pos()), "the deadline arm never returns")
		}
		hc, hd := core.EdgesOf(fn, canceled)
		_ = hd
		dc, _ := core.EdgesOf(fn, deadline)
		for _, ret := range rets {
			rt := ret.(*ssa.Return)
			if len(rt.Results) != 2 {
				continue
			}
			if !core.IsNil(core.Result(rt, 0)) {
				o.Fail(p.InstrPos(ret), "the deadline arm returns %s as response: the handler's result is not discarded", core.Describe(core.Result(rt, 0)))
			}
			// leaves of the returned error
			var leaves func(v ssa.Value, d int) bool
			leaves = func(v ssa.Value, d int) bool {
				if d > 6 {
					return false
				}
				if phi, ok := v.(*ssa.Phi); ok {
					for _, e := range phi.Edges {
						if !leaves(e, d+1) {
							return false
						}
					}
					return true
				}
				if c, _ := core.ResultOf(v); c != nil && isStatus(c) {
					return true
				}
				return isCtxErr(v)
			}
			if !leaves(core.Result(rt, 1), 0) {
				o.Fail(p.InstrPos(ret), "the deadline arm may return %s as error (must be the status error or ctx.Err())", core.Describe(core.Result(rt, 1)))
			}
		}
		// on the Canceled / DeadlineExceeded edges the mapped status must be produced before returning
		isCode := func(code int64) func(ssa.Instruction) bool {
			return func(in ssa.Instruction) bool {
				if !isStatus(in) {
					return false
				}
				c, ok := constArg(core.AsCall(in), 0)
				return ok && c == code
			}
		}
		if w, ok := core.Reach(core.Q{From: c02Heads(hc), Target: core.IsReturn, Blocked: isCode(1)}); ok && len(hc) > 0 {
			o.Fail(p.InstrPos(w), "context.Canceled can be returned without being mapped to codes.Canceled")
		}
		if w, ok := core.Reach(core.Q{From: c02Heads(dc), Target: core.IsReturn, Blocked: isCode(4)}); ok && len(dc) > 0 {
			o.Fail(p.InstrPos(w), "context.DeadlineExceeded can be returned without being mapped to codes.DeadlineExceeded")
		}
		// the mapping may be spelled without a branch per error (lookup in a never-written table, helper):
		// decide it by evaluating the arm on context.Canceled, context.DeadlineExceeded and an outsider
		if o.Verdict == core.Violated && c02EvalRpcArm(p, run, fn) {
			o.Verdict, o.Msgs = core.Held, nil
		}
	})

	r.Check("D8/K1/rpc-done-arm-returns-handler-result", "the completion arm returns exactly the (resp, err) pair the goroutine stored from the handler call", func(o *core.O) {
		if !need(o) {
			return
		}
		// variables written by the goroutine: home -> handler result index
		slot := map[ssa.Value]int{}
		for _, f := range run.bodys {
			for _, in := range core.Instrs(f, func(in ssa.Instruction) bool { _, ok := in.(*ssa.Store); return ok }) {
				st := in.(*ssa.Store)
				if _, ok := st.Addr.(*ssa.FreeVar); !ok {
					continue
				}
				c, idx := core.ResultOf(st.Val)
				if c != nil && isUnaryHandlerCall(c) {
					slot[c02Home(st.Addr)] = idx
				}
			}
		}
		rets := reachableFrom([]core.At{armHead(run.doneArm)}, core.IsReturn)
		o.Site(len(rets), core.FuncName(fn))
		if len(slot) != 2 {
			o.Fail(p.Pos(run.body.Pos()), "the goroutine stores %d of the handler's 2 results into captured variables", len(slot))
		}
		if len(rets) == 0 {
			o.Fail(p.Pos(fn.Pos()), "the completion arm never returns")
		}
		for _, ret := range rets {
			rt := ret.(*ssa.Return)
			for i := range rt.Results {
				v := core.Result(rt, i)
				idx, ok := slot[c02Var(v)]
				if !ok {
					// copied out under the lock by a closure run on the spot: `withLock(&lock, func() { result, resultErr = resp, err })`
					if src := c02ThroughSync(fn, v); src != nil {
						idx, ok = slot[src]
					}
				}
				if !ok || idx != i {
					o.Fail(p.InstrPos(ret), "result #%d of the completion arm is %s, not the handler's result #%d", i, core.Describe(v), i)
				}
			}
		}
	})

	r.Check("D8/K4/rpc-result-published", "the runner touches the variables the handler goroutine writes (resp, err) only in the completion arm - ordered after the goroutine's stores by close(done) - or with a captured mutex held that the goroutine holds at every such store", func(o *core.O) {
		if !need(o) {
			return
		}
		la := core.NewLockAnalysis(p, c02RpcSI)
		shared := map[ssa.Value]bool{}
		var common map[string]bool
		var stores []ssa.Instruction
		for _, f := range run.bodys {
			for _, in := range core.Instrs(f, func(in ssa.Instruction) bool { _, ok := in.(*ssa.Store); return ok }) {
				st := in.(*ssa.Store)
				fv, ok := st.Addr.(*ssa.FreeVar)
				if !ok {
					continue
				}
				home, ok := c02Home(fv).(*ssa.Alloc)
				if !ok || home.Parent() != fn {
					continue
				}
				stores = append(stores, in)
				shared[home] = true
				held := map[string]bool{}
				for l := range la.Held(in) {
					// the lock must itself be a variable of the runner captured under the same name
					for _, lf := range f.FreeVars {
						if lf.Name() == l {
							if lh, ok := c02Home(lf).(*ssa.Alloc); ok && lh.Parent() == fn && core.LockPath(lh) == l {
								held[l] = true
							}
						}
					}
				}
				if common == nil {
					common = held
				} else {
					for l := range common {
						if !held[l] {
							delete(common, l)
						}
					}
				}
			}
		}
		n := len(stores)
		if n == 0 {
			o.Fail(p.Pos(run.body.Pos()), "the goroutine stores nothing into captured variables")
			return
		}
		// publication through the completion channel: every store precedes close(done)
		doneHome := c02Var(run.doneArm.Chan)
		isCloseDone := func(in ssa.Instruction) bool {
			return c02IsBuiltinCall(in, "close") && c02Var(core.AsCall(in).Common().Args[0]) == doneHome
		}
		published := true
		for _, st := range stores {
			if st.Parent() != run.body {
				published = false
			}
		}
		for _, cl := range core.Instrs(run.body, isCloseDone) {
			if _, ok := core.Reach(core.Q{From: []core.At{core.After(cl)}, Target: core.Is(stores...)}); ok {
				published = false
				o.Fail(p.InstrPos(cl), "the completion channel is closed before the handler's result is stored: the completion arm may return a stale result")
			}
		}
		onlyDone := core.CutSet([]core.Edge{run.doneArm.Edge})
		for _, in := range core.Instrs(fn, func(in ssa.Instruction) bool {
			switch x := in.(type) {
			case *ssa.UnOp:
				return x.Op == token.MUL && shared[x.X]
			case *ssa.Store:
				return shared[x.Addr]
			}
			return false
		}) {
			if _, after := core.Reach(core.Q{From: []core.At{core.After(run.gos[0])}, Target: core.Is(in)}); !after {
				continue
			}
			n++
			if _, outside := core.Reach(core.Q{From: []core.At{core.After(run.gos[0])}, Target: core.Is(in), Cut: onlyDone}); !outside && published {
				continue
			}
			ok := false
			for l := range common {
				if _, h := la.Held(in)[l]; h {
					ok = true
				}
			}
			if !ok {
				o.Fail(p.InstrPos(in), "the runner accesses a result variable shared with the handler goroutine outside the completion arm and without the goroutine's mutex (held: %s): data race / half-written result", la.Held(in))
			}
		}
		o.Site(n, core.FuncName(fn), core.FuncName(run.body))
	})

	c02HandOver(r, "D8", "rpc", runOr(run, fn, problem))

	r.Check("D8/K10/crash-interceptor-internal", "UnaryCrashInterceptor defers, before calling the handler, a recover() whose non-nil result is always converted into a codes.Internal status stored to the returned error", func(o *core.O) {
		uc := p.Func(c02RpcSI, "", "UnaryCrashInterceptor")
		if !o.Need(uc != nil, "serverinterceptors.UnaryCrashInterceptor") {
			return
		}
		r.Fn(core.FuncName(uc))
		hs := core.Instrs(uc, isUnaryHandlerCall)
		if len(hs) == 0 {
			o.Fail(p.Pos(uc.Pos()), "UnaryCrashInterceptor never calls the handler")
			return
		}
		// error result slot
		var errSlot ssa.Value
		for _, ret := range core.Returns(uc) {
			if u, ok := ret.Results[len(ret.Results)-1].(*ssa.UnOp); ok && u.Op == token.MUL {
				errSlot = u.X
			}
		}
		if errSlot == nil {
			o.Fail(p.Pos(uc.Pos()), "the error result is not a named result a deferred function could set")
			return
		}
		var isInternal func(v ssa.Value, d int) bool
		isInternal = func(v ssa.Value, d int) bool {
			c, idx := core.ResultOf(core.Forward(v))
			if c == nil || idx != 0 || d > 3 {
				return false
			}
			switch core.Short(core.CalleeName(c)) {
			case "google.golang.org/grpc/status.Error", "google.golang.org/grpc/status.Errorf":
				code, ok := constArg(c, 0)
				return ok && code == 13 // codes.Internal
			}
			cal := c.Call.StaticCallee()
			if cal == nil || cal.Blocks == nil || cal.Pkg != uc.Pkg {
				return false
			}
			r.Fn(core.FuncName(cal))
			rets := core.Returns(cal)
			for _, ret := range rets {
				if !isInternal(core.Result(ret, 0), d+1) {
					return false
				}
			}
			return len(rets) > 0
		}
		converts := func(f *ssa.Function) func(ssa.Instruction) bool {
			return func(in ssa.Instruction) bool {
				st, ok := in.(*ssa.Store)
				if !ok || c02Home(st.Addr) != errSlot {
					return false
				}
				return isInternal(st.Val, 0)
			}
		}
		n := 0
		var recs []ssa.Instruction
		for _, in := range core.Instrs(uc, func(in ssa.Instruction) bool { _, ok := in.(*ssa.Defer); return ok }) {
			d := in.(*ssa.Defer)
			df := c02DeferredFn(d)
			if df == nil || df.Blocks == nil || len(recoverCalls(df)) == 0 {
				continue
			}
			recs = append(recs, in)
			n++
			r.Fn(core.FuncName(df))
			pt := c02PanicTestOf(d)
			arm := pt.arm()
			if len(arm) == 0 {
				o.Fail(p.Pos(df.Pos()), "%s never tests whether the handler panicked", core.FuncName(df))
				continue
			}
			// conversion directly in df, or through the function-typed parameter it is handed
			done := converts(df)
			if len(core.Instrs(df, done)) == 0 {
				var cb *ssa.Function
				cbIdx := -1
				for i, a := range d.Call.Args {
					if mc, ok := a.(*ssa.MakeClosure); ok {
						cb, cbIdx = mc.Fn.(*ssa.Function), i
					}
				}
				if cb == nil {
					o.Fail(p.InstrPos(in), "the recovered panic is not converted into a codes.Internal error stored to the result")
					continue
				}
				r.Fn(core.FuncName(cb))
				if w := core.MustPass(core.Entry(cb), converts(cb), core.IsExit); w != nil {
					o.Fail(p.InstrPos(w), "%s can finish without storing a codes.Internal status into the returned error (the client would see a nil error / Unknown)", core.FuncName(cb))
				}
				par := df.Params[cbIdx]
				done = core.CallOfValue(func(v ssa.Value) bool { return v == ssa.Value(par) })
			}
			if w, ok := core.Reach(core.Q{From: c02Heads(arm), Target: core.IsExit, Blocked: done}); ok {
				o.Fail(p.InstrPos(w), "a recovered panic can leave %s without being converted", core.FuncName(df))
			}
			if w := pt.missed(done); w != nil {
				o.Fail(p.InstrPos(w), "%s can end with the completion flag unset and nothing converted: a panic whose value recover() reports as nil returns (nil, nil)", core.FuncName(df))
			}
		}
		o.Site(n, core.FuncName(uc))
		if n == 0 {
			o.Fail(p.Pos(uc.Pos()), "UnaryCrashInterceptor has no deferred recover(): a panicking RPC handler kills the server")
			return
		}
		if w := core.Precedes(uc, core.Is(recs...), isUnaryHandlerCall); w != nil {
			o.Fail(p.InstrPos(w), "the handler can run before the recover is deferred")
		}
	})
	r.Check("D8/K10/crash-interceptor-panic-detection-value-independent", "UnaryCrashInterceptor's deferred function decides whether the handler panicked by a completion flag - a bool local that is false while the handler runs and set only after it returned - and not by the value recover() returns (under this module's go directive recover() is nil for panic(nil), e.g. panic(err) with a nil err: the call would return (nil, nil) instead of codes.Internal); recover() is called on every path of the panic arm", func(o *core.O) {
		uc := p.Func(c02RpcSI, "", "UnaryCrashInterceptor")
		if !o.Need(uc != nil, "serverinterceptors.UnaryCrashInterceptor") {
			return
		}
		r.Fn(core.FuncName(uc))
		hs := core.Instrs(uc, isUnaryHandlerCall)
		n := 0
		for _, in := range core.Instrs(uc, func(in ssa.Instruction) bool { _, ok := in.(*ssa.Defer); return ok }) {
			d := in.(*ssa.Defer)
			df := c02DeferredFn(d)
			if df == nil || df.Blocks == nil || len(recoverCalls(df)) == 0 {
				continue
			}
			n++
			r.Fn(core.FuncName(df))
			c02CheckCompletionFlag(o, p, c02PanicTestOf(d), hs, "the handler")
		}
		o.Site(n, core.FuncName(uc))
		if n == 0 {
			o.Fail(p.Pos(uc.Pos()), "UnaryCrashInterceptor has no deferred recover()")
		}
	})

	r.Check("D8/K6/rpc-builtin-before-user", "server.Start chains the built-in unary interceptors (containing UnaryCrashInterceptor) before the user-added ones (which contain the timeout interceptor), so a re-panicked handler panic becomes codes.Internal", func(o *core.O) {
		start := p.Func("rpc/internal", "server", "Start")
		if !o.Need(start != nil, "rpc/internal.(*server).Start") {
			return
		}
		r.Fn(core.FuncName(start))
		n := 0
		var chained ssa.Value
		for _, in := range core.Instrs(start, func(in ssa.Instruction) bool { return c02IsBuiltinCall(in, "append") }) {
			c, ok := in.(*ssa.Call)
			if !ok || !core.IsFieldLoad(c.Call.Args[1], "baseServer.unaryInterceptors") {
				continue
			}
			n++
			chained = c
			elems, ok := sliceLiteralElems(core.Forward(c.Call.Args[0]))
			if !ok {
				o.Fail(p.InstrPos(in), "user interceptors are appended to %s, not to the literal built-in list", core.Describe(c.Call.Args[0]))
				continue
			}
			has := false
			for _, e := range elems {
				if staticCalleeName(e) == c02RpcSI+".UnaryCrashInterceptor" {
					has = true
				}
			}
			if !has {
				o.Fail(p.InstrPos(in), "the built-in unary interceptor list does not contain UnaryCrashInterceptor")
			}
		}
		o.Site(n, core.FuncName(start))
		if n == 0 {
			// the user list might be placed first
			for _, in := range core.Instrs(start, func(in ssa.Instruction) bool { return c02IsBuiltinCall(in, "append") }) {
				if c, ok := in.(*ssa.Call); ok && core.IsFieldLoad(c.Call.Args[0], "baseServer.unaryInterceptors") {
					o.Fail(p.InstrPos(in), "user-added interceptors (incl. the timeout interceptor) are chained before the built-in crash interceptor")
				}
			}
			o.Fail(p.Pos(start.Pos()), "server.Start never appends baseServer.unaryInterceptors to the built-in list")
			return
		}
		used := false
		for _, c := range core.Calls(start, core.CallTo("rpc/internal.WithUnaryServerInterceptors", "google.golang.org/grpc.ChainUnaryInterceptor")) {
			if core.Forward(c.Common().Args[0]) == chained {
				used = true
			}
		}
		if !used {
			o.Fail(p.Pos(start.Pos()), "the combined interceptor list is not the one handed to the gRPC server")
		}
	})

	r.Check("D8/K5/rpc-timeout-installed", "rpc server setup adds UnaryTimeoutInterceptor(Timeout ms) through AddUnaryInterceptors whenever Timeout > 0", func(o *core.O) {
		isCtor := core.CallTo(c02RpcSI + ".UnaryTimeoutInterceptor")
		n := 0
		for _, f := range p.PkgFuncs("rpc") {
			for _, c := range core.Calls(f, isCtor) {
				n++
				r.Fn(core.FuncName(f))
				a := &core.Alg{Name: func(v ssa.Value) string {
					if strings.HasSuffix(core.FieldAddrNameOfLoad(v), "ServerConfig.Timeout") {
						return "T"
					}
					return ""
				}}
				if got := a.Norm(c.Common().Args[0]); !got.Equal(core.ParsePoly("1000000*T")) {
					o.Fail(p.InstrPos(c), "timeout passed is %s, expected Timeout milliseconds (1000000*T ns)", got)
				}
				added := false
				for _, ad := range core.Calls(f, core.CallMethod("", "AddUnaryInterceptors")) {
					for _, x := range ad.Common().Args {
						if core.DependsOn(x, func(v ssa.Value) bool { return v == c.(ssa.Value) }) {
							added = true
						}
					}
				}
				if !added {
					o.Fail(p.InstrPos(c), "the timeout interceptor is built but not added to the server")
				}
				positive := core.Cmp(token.GTR, core.FieldLoad("ServerConfig.Timeout"), core.IsConstInt(0))
				hold, fails := core.EdgesOf(f, positive)
				if len(hold) > 0 {
					if w, ok := core.Reach(core.Q{From: c02Heads(hold), Target: core.IsReturn, Blocked: core.Is(c)}); ok {
						o.Fail(p.InstrPos(w), "Timeout > 0 but a path skips installing the timeout interceptor")
					}
				}
				// installation must not depend on anything but Timeout > 0: from the entry, with the
				// Timeout <= 0 edges removed, every nil-error return passes the installation
				okRet := func(in ssa.Instruction) bool {
					ret, isRet := in.(*ssa.Return)
					if !isRet {
						return false
					}
					for i := range ret.Results {
						if ret.Results[i].Type().String() == "error" && !core.IsNil(core.Result(ret, i)) {
							return false
						}
					}
					return true
				}
				if w, ok := core.Reach(core.Q{From: []core.At{core.Entry(f)}, Target: okRet, Blocked: core.Is(c), Cut: core.CutSet(fails)}); ok {
					o.Fail(p.InstrPos(w), "a configuration with Timeout > 0 reaches a successful return without the timeout interceptor (its installation is nested under an unrelated condition)")
				}
			}
		}
		o.Site(n, "rpc")
		if n == 0 {
			o.Fail("rpc/server.go", "no function of package rpc installs UnaryTimeoutInterceptor")
		}
	})
	r.Check("D8/K4/rpc-deadline-arm-lock-free", "the deadline arm does not take a mutex that the handler goroutine holds across the handler call (it would wait for the handler, however long it hangs, instead of answering at the deadline)", func(o *core.O) {
		if !need(o) {
			return
		}
		mutexCall := func(in ssa.Instruction, method string) ssa.Value {
			c, ok := in.(*ssa.Call)
			if !ok {
				return nil
			}
			if n := core.CalleeName(c); n != "(*sync.Mutex)."+method && n != "(*sync.RWMutex)."+method {
				return nil
			}
			return c02Var(core.Args(c)[0])
		}
		// mutexes locked in the goroutine and still held when the handler is called
		held := map[ssa.Value]bool{}
		n := 0
		for _, f := range run.bodys {
			for _, lk := range core.Instrs(f, func(in ssa.Instruction) bool { return mutexCall(in, "Lock") != nil }) {
				m := mutexCall(lk, "Lock")
				unlock := func(in ssa.Instruction) bool { return mutexCall(in, "Unlock") == m }
				for _, h := range run.handlerCalls {
					if h.Parent() != f {
						continue
					}
					if _, ok := core.Reach(core.Q{From: []core.At{core.After(lk)}, Target: core.Is(h), Blocked: unlock}); ok {
						held[m] = true
					}
				}
			}
		}
		for _, in := range core.Instrs(fn, func(in ssa.Instruction) bool { return mutexCall(in, "Lock") != nil }) {
			if _, ok := core.Reach(core.Q{From: []core.At{armHead(run.ctxArm)}, Target: core.Is(in)}); !ok {
				continue
			}
			n++
			if held[mutexCall(in, "Lock")] {
				o.Fail(p.InstrPos(in), "the deadline arm locks the mutex the handler goroutine holds while the handler runs: the DeadlineExceeded/Canceled reply is delayed until the handler returns")
			}
		}
		o.Site(n+len(held), core.FuncName(fn))
		if n+len(held) == 0 {
			o.ZeroOK()
		}
	})
}
