package props

import (
	"go/token"
	"go/types"
	"strings"

	"godcheck/core"

	"golang.org/x/tools/go/ssa"
)

func init() { register("C03", c03) }

const (
	searchPkg = "lib/search"
	routerPkg = "api/router"
)

var c03Methods = []string{"DELETE", "GET", "HEAD", "OPTIONS", "PATCH", "POST", "PUT"}

// c03TouchesChildren reports whether f mentions the field node.children.
func c03TouchesChildren(f *ssa.Function) []ssa.Instruction {
	return core.Instrs(f, func(in ssa.Instruction) bool {
		v, ok := in.(ssa.Value)
		return ok && core.FieldAddrName(v) == "node.children"
	})
}

func c03(r *core.Run) {
	defer c03Extra(r)
	p := r.P
	r.Explanation = "Decides on every path: patRouter.Handle reaches Tree.Add only for one of the seven HTTP methods (the validator is evaluated on each constant) and a path starting with '/', registers a fresh tree under the method it was asked for; Tree.Add reaches the recursive insert only for a rooted route and a non-nil item; every store to node.item outside the constructor is guarded by item == nil of that very node and the other arm returns an error; the child selector returns slot 1 exactly for ':'-prefixed segments, only selector/iterator/constructor touch node.children, the iterator visits slot 0 before slot 1 and stops at the first hit; match treats exactly the ':'-prefixed keys as parameters (key = pat[1:], value = token) and literal keys by equality; the readers bind parameters only on named hits and hand out an item only from a matching, non-empty node; recursion continues behind the separator; both sides use path.Clean; ServeHTTP runs the found handler only on a Search hit in the tree of the request's method with the path variables attached, answers 404 exactly when methodsAllowed found nothing and otherwise sets Allow (to the computed list) before WriteHeader(405); methodsAllowed skips the request's own method and lists exactly the methods whose tree matches; engine.bindRoute passes (Method, Path, handler) in that order; pathvar.Vars reads the key WithVars writes."
	r.NotDecided = "soundness/completeness of the matcher over all route tables × paths (back-tracking, parameter binding across levels): equivalences over unbounded tables; not decided."

	handle := p.Func(routerPkg, "patRouter", "Handle")
	serve := p.Func(routerPkg, "patRouter", "ServeHTTP")
	treeAdd := p.Func(searchPkg, "Tree", "Add")
	isTreeAdd := core.CallMethod("search.Tree", "Add")
	isTreeSearch := core.CallMethod("search.Tree", "Search")
	isClean := core.CallTo("path.Clean")
	colonAtom := func(s func(ssa.Value) bool) core.Atom {
		return core.Cmp(token.EQL, b2Index0(s), core.IsConstInt(':'))
	}

	// ---- D1: registration guards ----
	r.Check("D1/K2/handle-guards", "patRouter.Handle reaches Tree.Add only after the method validator accepted the method parameter and reqPath is non-empty and starts with '/'", func(o *core.O) {
		if !o.Need(handle != nil && len(handle.Params) == 4, "patRouter.Handle(method, reqPath, handler)") {
			return
		}
		r.Fn(core.FuncName(handle))
		adds := core.Instrs(handle, isTreeAdd)
		o.Site(len(adds), core.FuncName(handle))
		if len(adds) == 0 {
			o.Fail(p.Pos(handle.Pos()), "Handle never calls Tree.Add")
			return
		}
		isValid := c03ValidatorCall(handle)
		if core.EdgeCount(handle, core.BoolVal(isValid)) == 0 {
			o.Unres("no boolean in-package validator applied to the method parameter guards Handle")
			return
		}
		if w := core.Requires(handle, isTreeAdd, core.BoolVal(isValid)); w != nil {
			o.Fail(p.InstrPos(w), "Tree.Add reachable although the method validator rejected (or was not asked about) the method: an unsupported method gets registered")
		}
		if w := core.Requires(handle, isTreeAdd, c03Rooted(b2Param(handle, 2))); w != nil {
			o.Fail(p.InstrPos(w), "Tree.Add reachable for a path that does not start with '/'")
		}
		if w := core.Requires(handle, isTreeAdd, c03NonEmpty(b2Param(handle, 2))); w != nil {
			o.Fail(p.InstrPos(w), "Tree.Add (or reqPath[0]) reachable for an empty path")
		}
	})

	r.Check("D1/K6/valid-methods", "the method validator used by Handle accepts exactly DELETE, GET, HEAD, OPTIONS, PATCH, POST, PUT (evaluated on every constant it mentions and on a fresh string)", func(o *core.O) {
		if !o.Need(handle != nil, "patRouter.Handle") {
			return
		}
		var vf *ssa.Function
		for _, c := range core.Calls(handle, func(in ssa.Instruction) bool { v, ok := in.(ssa.Value); return ok && c03ValidatorCall(handle)(v) }) {
			vf = c.Common().StaticCallee()
		}
		if !o.Need(vf != nil, "method validator called by Handle") {
			return
		}
		r.Fn(core.FuncName(vf))
		want := map[string]bool{}
		cands := map[string]bool{"\x00other": true, "": true, "get": true, "CONNECT": true, "TRACE": true}
		for _, m := range c03Methods {
			want[m] = true
			cands[m] = true
		}
		for _, c := range b2StrConstsCompared(vf, b2Param(vf, 0)) {
			cands[c] = true
		}
		for _, c := range b2ConstMapKeysLookedUp(vf, b2Param(vf, 0)) { // members of a constant set the method is looked up in
			cands[c] = true
		}
		o.Site(len(cands), core.FuncName(vf))
		for s := range cands {
			got, err := c03EvalValidator(p, vf, s)
			if err != nil {
				o.Unres("%s cannot be evaluated: %v", core.FuncName(vf), err)
				return
			}
			if got != want[s] {
				o.Fail(p.Pos(vf.Pos()), "%s(%q) = %v, expected %v", core.FuncName(vf), s, got, want[s])
			}
		}
	})

	r.Check("D1/K8/handle-registers-under-method", "Handle looks the tree up and stores a fresh tree under the method parameter, adds to that very tree, and passes the cleaned path and the handler", func(o *core.O) {
		if !o.Need(handle != nil && len(handle.Params) == 4, "patRouter.Handle") {
			return
		}
		isMethod, isHandler := b2Param(handle, 1), b2Param(handle, 3)
		isTreesUpd := core.IsMapUpdateOn("patRouter.trees")
		n := 0
		for _, in := range core.Instrs(handle, func(in ssa.Instruction) bool { _, ok := in.(*ssa.Lookup); return ok }) {
			lk := in.(*ssa.Lookup)
			if !core.IsFieldLoad(lk.X, "patRouter.trees") {
				continue
			}
			n++
			if !isMethod(lk.Index) {
				o.Fail(p.InstrPos(in), "trees looked up under %s, not under the method parameter", core.Describe(lk.Index))
			}
		}
		for _, in := range core.Instrs(handle, isTreesUpd) {
			n++
			if !isMethod(in.(*ssa.MapUpdate).Key) {
				o.Fail(p.InstrPos(in), "tree stored under %s, not under the method parameter", core.Describe(in.(*ssa.MapUpdate).Key))
			}
		}
		for _, c := range core.Calls(handle, isTreeAdd) {
			n++
			a := core.Args(c)
			var srcs []ssa.Value
			if ph, ok := core.Forward(a[0]).(*ssa.Phi); ok {
				for _, e := range ph.Edges {
					srcs = append(srcs, core.Forward(e))
				}
			} else {
				srcs = append(srcs, core.Forward(a[0]))
			}
			for _, recv := range srcs {
				recv := recv
				if lc, i := c03LookupResult(recv); lc != nil {
					if i != 0 || !core.IsFieldLoad(lc.X, "patRouter.trees") {
						o.Fail(p.InstrPos(c), "Add on a tree that is not trees[method]")
					}
				} else if call, _ := core.ResultOf(recv); call != nil {
					// fresh tree: must be stored into trees on every path from its creation to a return
					isStoreOfIt := func(in ssa.Instruction) bool {
						mu, ok := in.(*ssa.MapUpdate)
						return ok && isTreesUpd(in) && core.Forward(mu.Value) == recv
					}
					if w := core.MustPass(core.After(call), isStoreOfIt, core.IsReturn); w != nil {
						o.Fail(p.InstrPos(w), "a new tree receives the route but is never stored into pr.trees: the route is lost")
					}
				} else {
					o.Fail(p.InstrPos(c), "Add on %s: neither trees[method] nor a fresh tree", core.Describe(recv))
				}
			}
			if !core.IsResult(a[1], 0, isClean) {
				o.Fail(p.InstrPos(c), "the route passed to Tree.Add is not path.Clean(reqPath)")
			} else if cc, _ := core.ResultOf(core.Forward(a[1])); !b2Param(handle, 2)(core.Args(cc)[0]) {
				o.Fail(p.InstrPos(c), "path.Clean is not applied to the reqPath parameter")
			}
			if !isHandler(a[2]) {
				o.Fail(p.InstrPos(c), "the item passed to Tree.Add is not the handler parameter")
			}
		}
		o.Site(n, core.FuncName(handle))
	})

	r.Check("D1/K2/tree-add-guards", "Tree.Add reaches the recursive insert only for a non-empty route starting with '/' and a non-nil item, and inserts below the root with that item", func(o *core.O) {
		if !o.Need(treeAdd != nil && len(treeAdd.Params) == 3, "search.Tree.Add(route, item)") {
			return
		}
		r.Fn(core.FuncName(treeAdd))
		isIns := func(in ssa.Instruction) bool {
			c, ok := in.(*ssa.Call)
			return ok && b2CalleeIn(c, searchPkg) && len(c.Call.Args) >= 2 && core.IsFieldLoad(c.Call.Args[0], "Tree.root")
		}
		ins := core.Calls(treeAdd, isIns)
		o.Site(len(ins), core.FuncName(treeAdd))
		if len(ins) == 0 {
			o.Fail(p.Pos(treeAdd.Pos()), "Tree.Add does not insert below t.root")
			return
		}
		if w := core.Requires(treeAdd, isIns, c03Rooted(b2Param(treeAdd, 1))); w != nil {
			o.Fail(p.InstrPos(w), "insert reachable for a route that does not start with '/'")
		}
		if w := core.Requires(treeAdd, isIns, c03NonEmpty(b2Param(treeAdd, 1))); w != nil {
			o.Fail(p.InstrPos(w), "insert reachable for an empty route")
		}
		if w := core.Requires(treeAdd, isIns, core.Cmp(token.NEQ, b2Param(treeAdd, 2), core.IsNil)); w != nil {
			o.Fail(p.InstrPos(w), "insert reachable with a nil item (a nil item is indistinguishable from 'no route')")
		}
		for _, c := range ins {
			if a := core.Args(c); len(a) == 3 && !b2Param(treeAdd, 2)(a[2]) {
				o.Fail(p.InstrPos(c), "the inserted item is not Tree.Add's item parameter")
			}
		}
		// a failed insert is reported: every return yields the insert's error, or a non-nil error
		for _, ret := range core.Returns(treeAdd) {
			v := core.Result(ret, 0)
			if c, _ := core.ResultOf(v); c != nil && isIns(c) {
				continue
			}
			if b2MayBeNil(v) {
				o.Fail(p.InstrPos(ret), "Tree.Add may return nil without returning the insert's result")
			}
		}
	})

	// ---- D2: duplicates ----
	r.Check("D2/K2/item-written-once", "every store to node.item outside the constructor is guarded by item == nil of the same node, and the item != nil arm returns an error", func(o *core.O) {
		n := 0
		for _, f := range b2PkgFuncs(p, searchPkg) {
			for _, st := range core.StoresToField(f, "node.item") {
				fa := st.Addr.(*ssa.FieldAddr)
				n++
				r.Fn(core.FuncName(f))
				if _, fresh := fa.X.(*ssa.Alloc); fresh {
					continue
				}
				empty := core.Cmp(token.EQL, b2LoadOfField("node.item", core.Describe(fa.X)), core.IsNil)
				if w := core.Requires(f, core.Is(st), empty); w != nil {
					o.Fail(p.InstrPos(st), "%s overwrites node.item without testing that the node has no item yet (duplicate route replaces the first handler)", core.FuncName(f))
					continue
				}
				_, dup := core.EdgesOf(f, empty)
				if w, ok := core.Reach(core.Q{From: b2Heads(dup), Target: func(in ssa.Instruction) bool {
					ret, ok := in.(*ssa.Return)
					return ok && len(ret.Results) == 1 && b2MayBeNil(ret.Results[0])
				}}); ok {
					o.Fail(p.InstrPos(w), "%s: the occupied-node arm can return nil (duplicate route silently accepted)", core.FuncName(f))
				}
			}
		}
		o.Site(n, "stores to node.item in "+searchPkg)
	})

	// ---- D3: literal-first priority ----
	var selectors, iterators, matchers, readers []*ssa.Function
	for _, f := range b2PkgFuncs(p, searchPkg) {
		sig := f.Signature
		if sig.Results().Len() == 1 {
			if _, isMap := sig.Results().At(0).Type().Underlying().(*types.Map); isMap && len(c03TouchesChildren(f)) > 0 {
				selectors = append(selectors, f)
			}
			if strings.HasSuffix(sig.Results().At(0).Type().String(), "search.innerResult") {
				matchers = append(matchers, f)
			}
		}
		for _, pa := range f.Params {
			if ps, ok := pa.Type().Underlying().(*types.Signature); ok && ps.Params().Len() == 2 && len(c03TouchesChildren(f)) > 0 {
				pa := pa
				if len(core.Instrs(f, core.CallOfValue(b2IsValue(pa)))) > 0 {
					iterators = append(iterators, f)
				}
			}
		}
	}
	isMatch := func(in ssa.Instruction) bool {
		c := core.AsCall(in)
		if c == nil {
			return false
		}
		for _, m := range matchers {
			if c.Common().StaticCallee() == m {
				return true
			}
		}
		return false
	}
	for _, f := range b2PkgFuncs(p, searchPkg) {
		if len(core.Instrs(f, isMatch)) > 0 {
			readers = append(readers, f)
		}
	}

	r.Check("D3/K6/selector", "the child selector returns children[1] only for a ':'-prefixed segment and children[0] never for one", func(o *core.O) {
		if !o.Need(len(selectors) > 0, "function of lib/search returning one of node.children (getChildren)") {
			return
		}
		for _, f := range selectors {
			r.Fn(core.FuncName(f))
			var seg func(ssa.Value) bool
			for i, pa := range f.Params {
				if b, ok := pa.Type().Underlying().(*types.Basic); ok && b.Kind() == types.String {
					seg = b2Param(f, i)
				}
			}
			if !o.Need(seg != nil, "segment parameter of "+core.FuncName(f)) {
				return
			}
			// outcomes (c03_selector.go): a return of n.children[c], or of n.children[k] / of a map m where k / m is
			// a φ — then every constant (every load) flowing into the φ is one outcome, entered through its φ-edge
			var outs []c03Outcome
			for _, ret := range core.Returns(f) {
				outs = append(outs, c03SelectorOutcomes(ret)...)
			}
			n0, n1 := 0, 0
			for _, oc := range outs {
				switch {
				case !oc.ok:
					o.Unres("%s returns %s: not a constant slot of node.children", core.FuncName(f), oc.desc)
				case oc.slot == 0:
					n0++
				case oc.slot == 1:
					n1++
				default:
					o.Fail(p.InstrPos(oc.ret), "slot %d does not exist", oc.slot)
				}
			}
			o.Site(n0+n1, core.FuncName(f))
			if n0 == 0 || n1 == 0 {
				o.Fail(p.Pos(f.Pos()), "%s never returns slot %d", core.FuncName(f), map[bool]int{true: 0, false: 1}[n0 == 0])
			}
			hold, _ := core.EdgesOf(f, colonAtom(seg))
			for _, oc := range outs {
				if oc.ok && oc.slot == 1 && !c03OutcomeNeeds(f, oc, hold) {
					o.Fail(p.InstrPos(oc.ret), "the parameter slot children[1] is returned for a segment that does not start with ':' (literals would be visited after parameters)")
				}
				if oc.ok && oc.slot == 0 && c03OutcomeAfter(oc, hold) {
					o.Fail(p.InstrPos(oc.ret), "the literal slot children[0] is returned for a ':'-prefixed segment (parameters would be visited before literals)")
				}
			}
		}
	})

	r.Check("D3/K5/children-owners", "node.children is touched only by the selector, the iterator and the constructor, so every write goes through the selector and every read through the ordered iterator", func(o *core.O) {
		if !o.Need(len(selectors) > 0 && len(iterators) > 0, "selector and iterator of node.children") {
			return
		}
		allowed := map[*ssa.Function]bool{}
		for _, f := range append(append([]*ssa.Function{}, selectors...), iterators...) {
			allowed[f] = true
		}
		n := 0
		for _, f := range b2PkgFuncs(p, searchPkg) {
			for _, in := range c03TouchesChildren(f) {
				n++
				if allowed[f] {
					continue
				}
				if fa, ok := in.(*ssa.FieldAddr); ok {
					if _, fresh := fa.X.(*ssa.Alloc); fresh {
						continue // constructor
					}
				}
				o.Fail(p.InstrPos(in), "%s accesses node.children directly (bypasses the literal/parameter slot discipline)", core.FuncName(f))
			}
		}
		o.Site(n, "accesses of node.children")
	})

	r.Check("D3/K3/iterator-order", "the iterator visits children[0] (literals) before children[1] (parameters), returns true at the first callback hit without visiting further children, and false only after all were visited", func(o *core.O) {
		if !o.Need(len(iterators) > 0, "function of lib/search applying a callback to node.children (forEach)") {
			return
		}
		for _, f := range iterators {
			r.Fn(core.FuncName(f))
			var fnp *ssa.Parameter
			for _, pa := range f.Params {
				if _, ok := pa.Type().Underlying().(*types.Signature); ok {
					fnp = pa
				}
			}
			isCb := core.CallOfValue(b2IsValue(fnp))
			cbs := core.Instrs(f, isCb)
			o.Site(len(cbs), core.FuncName(f))
			// order of slots
			idxs := core.Instrs(f, func(in ssa.Instruction) bool {
				switch x := in.(type) {
				case *ssa.Index:
					return core.FieldAddrNameOfLoad(x.X) == "node.children"
				case *ssa.IndexAddr:
					return core.FieldAddrName(x.X) == "node.children"
				}
				return false
			})
			if len(idxs) == 0 {
				o.Unres("%s: no indexing of node.children found", core.FuncName(f))
				continue
			}
			var consts []ssa.Instruction
			for _, in := range idxs {
				var idx ssa.Value
				switch x := in.(type) {
				case *ssa.Index:
					idx = x.Index
				case *ssa.IndexAddr:
					idx = x.Index
				}
				if _, ok := core.ConstInt(idx); ok {
					consts = append(consts, in)
					continue
				}
				if !c03Ascending(idx) {
					o.Fail(p.InstrPos(in), "%s does not index node.children in ascending order from 0 (index %s): literal children are no longer tried first", core.FuncName(f), core.Describe(idx))
				}
			}
			if len(consts) > 0 {
				// explicit slots: no use of slot 0 may follow a use of slot 1
				slot := func(want int64) func(ssa.Instruction) bool {
					return func(in ssa.Instruction) bool {
						for _, c := range consts {
							if c == in {
								var idx ssa.Value
								switch x := in.(type) {
								case *ssa.Index:
									idx = x.Index
								case *ssa.IndexAddr:
									idx = x.Index
								}
								i, _ := core.ConstInt(idx)
								return i == want
							}
						}
						return false
					}
				}
				for _, s1 := range core.Instrs(f, slot(1)) {
					if w, ok := core.Reach(core.Q{From: []core.At{core.After(s1)}, Target: slot(0)}); ok {
						o.Fail(p.InstrPos(w), "%s visits the literal slot after the parameter slot", core.FuncName(f))
					}
				}
				if len(core.Instrs(f, slot(0))) == 0 || len(core.Instrs(f, slot(1))) == 0 {
					o.Fail(p.Pos(f.Pos()), "%s does not visit both child slots", core.FuncName(f))
				}
			}
			// first hit wins
			hit := core.BoolVal(b2IsCallVal(isCb))
			hold, _ := core.EdgesOf(f, hit)
			if len(hold) == 0 {
				o.Fail(p.Pos(f.Pos()), "%s ignores the callback's result", core.FuncName(f))
				continue
			}
			if w := core.ReachableFromEdges(hold, isCb, nil); w != nil {
				o.Fail(p.InstrPos(w), "%s keeps visiting children after the callback reported a hit (a later parameter match overrides the literal one)", core.FuncName(f))
			}
			if w := core.ReachableFromEdges(hold, func(in ssa.Instruction) bool {
				return core.IsReturn(in) && !b2RetConst(0, "const:true")(in)
			}, nil); w != nil {
				o.Fail(p.InstrPos(w), "%s does not report a callback hit as true", core.FuncName(f))
			}
			if w := core.Requires(f, b2RetConst(0, "const:true"), hit); w != nil {
				o.Fail(p.InstrPos(w), "%s reports a hit although no callback matched", core.FuncName(f))
			}
			for _, ret := range core.Returns(f) {
				if d := core.Describe(core.Result(ret, 0)); d != "const:true" && d != "const:false" {
					o.Unres("%s returns %s", core.FuncName(f), d)
				}
			}
		}
	})

	r.Check("D3/K1/miss-only-after-children-tried", "the recursive matcher (a function of lib/search with a boolean result that walks a node's children through the child iterator) reports a miss only as the outcome of the iterator: no constant-false return is reachable without a call of the iterator on the way (the empty remaining route, i.e. '/' or a trailing separator, is one empty segment that ':name' children match)", func(o *core.O) {
		isIter := func(in ssa.Instruction) bool {
			c := core.AsCall(in)
			if c == nil {
				return false
			}
			for _, it := range iterators {
				if c.Common().StaticCallee() == it {
					return true
				}
			}
			return false
		}
		isIterator := map[*ssa.Function]bool{}
		for _, it := range iterators {
			isIterator[it] = true
		}
		var matchers []*ssa.Function
		for _, f := range b2PkgFuncs(p, searchPkg) {
			res := f.Signature.Results()
			if isIterator[f] || f.Parent() != nil || res.Len() != 1 || res.At(0).Type().String() != "bool" || len(core.Instrs(f, isIter)) == 0 {
				continue
			}
			matchers = append(matchers, f)
		}
		if !o.Need(len(matchers) > 0, "a boolean function of lib/search that walks children through the child iterator") {
			return
		}
		retFalse := b2RetConst(0, "const:false")
		for _, f := range matchers {
			r.Fn(core.FuncName(f))
			o.Site(len(core.Instrs(f, isIter)), core.FuncName(f))
			if w, ok := core.Reach(core.Q{From: []core.At{core.Entry(f)}, Target: retFalse, Blocked: isIter}); ok {
				o.Fail(p.InstrPos(w), "%s gives up with a constant false before the node's children were tried: a route that ends here (the empty last segment of '/' or of a trailing separator) is no longer matched by a ':name' child", core.FuncName(f))
			}
		}
	})

	r.Check("D3/K6/match", "match treats exactly the ':'-prefixed keys as parameters (named, found, key = pat[1:], value = token) and every other key by equality with the token", func(o *core.O) {
		if !o.Need(len(matchers) == 1 && len(matchers[0].Params) == 2, "the function of lib/search returning innerResult (match(pat, token))") {
			return
		}
		f := matchers[0]
		r.Fn(core.FuncName(f))
		isPat, isTok := b2Param(f, 0), b2Param(f, 1)
		colon := colonAtom(isPat)
		hold, fail := core.EdgesOf(f, colon)
		if len(hold) == 0 {
			o.Fail(p.Pos(f.Pos()), "match never tests pat[0] == ':'")
			return
		}
		stores := func(field string) []ssa.Instruction { return core.Instrs(f, core.IsStoreToField("innerResult."+field)) }
		o.Site(len(stores("named"))+len(stores("found"))+len(stores("key"))+len(stores("value")), core.FuncName(f))
		isTrue := func(v ssa.Value) bool { return core.Describe(v) == "const:true" }
		namedTrue := func(in ssa.Instruction) bool {
			st, ok := in.(*ssa.Store)
			return ok && core.IsStoreToField("innerResult.named")(in) && !(core.Describe(st.Val) == "const:false")
		}
		if w := core.Requires(f, namedTrue, colon); w != nil {
			o.Fail(p.InstrPos(w), "a key that does not start with ':' is reported as a named parameter")
		}
		// parameter arm: named, found, key, value all set on every path to the return
		for _, fld := range []string{"named", "found", "key", "value"} {
			fld := fld
			good := func(in ssa.Instruction) bool {
				st, ok := in.(*ssa.Store)
				if !ok || !core.IsStoreToField("innerResult."+fld)(in) {
					return false
				}
				switch fld {
				case "named", "found":
					return isTrue(st.Val)
				case "value":
					return isTok(st.Val)
				default: // key = pat[1:]
					sl, ok := st.Val.(*ssa.Slice)
					if !ok || !isPat(sl.X) || sl.High != nil || sl.Low == nil {
						return false
					}
					n, ok := core.ConstInt(sl.Low)
					return ok && n == 1
				}
			}
			if w, ok := core.Reach(core.Q{From: b2Heads(hold), Target: core.IsReturn, Blocked: good}); ok {
				o.Fail(p.InstrPos(w), "':'-prefixed key: innerResult.%s is not set to %s", fld, map[string]string{"named": "true", "found": "true", "key": "pat[1:]", "value": "the token"}[fld])
			}
		}
		// literal arm: found = (pat == token)
		eq := func(in ssa.Instruction) bool {
			st, ok := in.(*ssa.Store)
			if !ok || !core.IsStoreToField("innerResult.found")(in) {
				return false
			}
			b, ok := st.Val.(*ssa.BinOp)
			return ok && b.Op == token.EQL && ((isPat(b.X) && isTok(b.Y)) || (isPat(b.Y) && isTok(b.X)))
		}
		if w, ok := core.Reach(core.Q{From: b2Heads(fail), Target: core.IsReturn, Blocked: eq}); ok {
			o.Fail(p.InstrPos(w), "literal key: innerResult.found is not (pat == token)")
		}
		if w, ok := core.Reach(core.Q{From: b2Heads(fail), Target: func(in ssa.Instruction) bool {
			return core.IsStoreToField("innerResult.found")(in) && !eq(in)
		}}); ok {
			o.Fail(p.InstrPos(w), "literal key: innerResult.found is set to something other than (pat == token)")
		}
	})

	r.Check("D3/K2/readers", "the functions that call match report a hit only when found, bind a parameter exactly on named hits as (key, value), hand out an item only from a non-empty node, and recurse behind the separator", func(o *core.O) {
		if !o.Need(len(readers) > 0, "functions of lib/search that call match") {
			return
		}
		found := core.BoolVal(b2FieldLoadS("innerResult.found"))
		named := core.BoolVal(b2FieldLoadS("innerResult.named"))
		isBind := func(in ssa.Instruction) bool {
			c, ok := in.(*ssa.Call)
			if !ok || !b2CalleeIn(c, searchPkg) || len(c.Call.Args) != 3 {
				return false
			}
			return strings.HasSuffix(c.Call.Args[0].Type().String(), "search.Result")
		}
		retTrue := b2RetConst(0, "const:true")
		for _, f := range readers {
			r.Fn(core.FuncName(f))
			o.Site(len(core.Instrs(f, isMatch)), core.FuncName(f))
			if w := core.Requires(f, retTrue, found); w != nil {
				o.Fail(p.InstrPos(w), "%s reports a match although the key did not match the segment", core.FuncName(f))
			}
			binds := core.Calls(f, isBind)
			if len(binds) == 0 {
				o.Fail(p.Pos(f.Pos()), "%s never binds a path parameter", core.FuncName(f))
			}
			if w := core.Requires(f, isBind, named); w != nil {
				o.Fail(p.InstrPos(w), "%s binds a parameter for a literal segment (or not under r.named)", core.FuncName(f))
			}
			hold, _ := core.EdgesOf(f, named)
			if w, ok := core.Reach(core.Q{From: b2Heads(hold), Target: retTrue, Blocked: isBind}); ok {
				o.Fail(p.InstrPos(w), "%s: a named hit is reported without binding its parameter", core.FuncName(f))
			}
			for _, c := range binds {
				a := core.Args(c)
				if !b2FieldLoadS("innerResult.key")(a[1]) || !b2FieldLoadS("innerResult.value")(a[2]) {
					o.Fail(p.InstrPos(c), "%s binds (%s, %s) instead of (r.key, r.value)", core.FuncName(f), core.Describe(a[1]), core.Describe(a[2]))
				}
				if w := core.Requires(f, core.Is(c), found); w != nil {
					o.Fail(p.InstrPos(c), "%s binds a parameter of a key that did not match", core.FuncName(f))
				}
			}
			// recursion: the rest of the route starts behind the separator, and a failed sub-match is not a hit
			for _, c := range core.Calls(f, c03IsDescend) {
				a := core.Args(c)
				ri, ni := -1, -1
				for i, x := range a {
					if b, ok := x.Type().Underlying().(*types.Basic); ok && b.Kind() == types.String {
						if ri >= 0 {
							ri = -2
						} else if ri == -1 {
							ri = i
						}
					}
					if strings.HasSuffix(x.Type().String(), "search.node") && ni < 0 {
						ni = i
					}
				}
				if ri < 0 || ni < 0 {
					o.Unres("%s: recursive call %s: route/node arguments not identified", core.FuncName(f), core.Short(core.CalleeName(c)))
					continue
				}
				if !b2AllOrigins(p, a[ri], c03SliceBehind) {
					o.Fail(p.InstrPos(c), "%s recurses on %s, not on route[i+1:] (the separator is not skipped)", core.FuncName(f), core.Describe(a[ri]))
				}
				if !b2IsValue(c03NodeParam(f))(a[ni]) {
					o.Fail(p.InstrPos(c), "%s does not descend into the child it was given", core.FuncName(f))
				}
				sub := core.BoolVal(b2IsValue(c.(*ssa.Call)))
				if w := core.Requires(f, retTrue, sub); w != nil {
					o.Fail(p.InstrPos(w), "%s reports a match although the rest of the route did not match below this child", core.FuncName(f))
				}
				if w := core.Requires(f, isBind, sub); w != nil {
					o.Fail(p.InstrPos(w), "%s binds a parameter although the rest of the route did not match (stale binding after back-tracking)", core.FuncName(f))
				}
			}
		}
	})

	r.Check("D3/K2/item-handed-out", "Result.Item is only ever set to node.item of a node whose item was tested non-nil, and in the readers only on a found key", func(o *core.O) {
		n := 0
		found := core.BoolVal(b2FieldLoadS("innerResult.found"))
		isReader := map[*ssa.Function]bool{}
		for _, f := range readers {
			isReader[f] = true
		}
		for _, f := range b2PkgFuncs(p, searchPkg) {
			for _, st := range core.StoresToField(f, "Result.Item") {
				n++
				r.Fn(core.FuncName(f))
				ld, ok := core.Forward(st.Val).(*ssa.UnOp)
				var fa *ssa.FieldAddr
				if ok && ld.Op == token.MUL {
					fa, _ = ld.X.(*ssa.FieldAddr)
				}
				if fa == nil || core.FieldAddrName(fa) != "node.item" {
					o.Fail(p.InstrPos(st), "%s stores %s into Result.Item, not a node's item", core.FuncName(f), core.Describe(st.Val))
					continue
				}
				nonNil := core.Cmp(token.NEQ, b2LoadOfField("node.item", core.Describe(fa.X)), core.IsNil)
				if w := core.Requires(f, core.Is(st), nonNil); w != nil {
					o.Fail(p.InstrPos(st), "%s hands out the item of a node without testing it is non-nil (an inner node without a route would match)", core.FuncName(f))
				}
				if isReader[f] {
					if w := core.Requires(f, core.Is(st), found); w != nil {
						o.Fail(p.InstrPos(st), "%s hands out the item of a child whose key did not match", core.FuncName(f))
					}
					if !b2IsValue(c03NodeParam(f))(fa.X) {
						o.Fail(p.InstrPos(st), "%s hands out the item of a node other than the visited child", core.FuncName(f))
					}
				}
			}
		}
		o.Site(n, "stores to Result.Item in "+searchPkg)
	})

	r.Check("D3/K8/add-splits-at-separator", "add inserts the segment before the separator under the selector's map keyed by that segment and recurses on the rest behind the separator, into the child stored under that key", func(o *core.O) {
		n := 0
		for _, f := range b2PkgFuncs(p, searchPkg) {
			if len(selectors) == 0 {
				break
			}
			isSel := func(in ssa.Instruction) bool {
				c := core.AsCall(in)
				return c != nil && c.Common().StaticCallee() == selectors[0]
			}
			sels := core.Calls(f, isSel)
			if len(sels) == 0 {
				continue
			}
			r.Fn(core.FuncName(f))
			for _, in := range core.Instrs(f, func(in ssa.Instruction) bool { _, ok := in.(*ssa.MapUpdate); return ok }) {
				mu := in.(*ssa.MapUpdate)
				sc, _ := core.ResultOf(core.Forward(mu.Map))
				if sc == nil || !isSel(sc) {
					continue
				}
				n++
				if core.Describe(core.Args(sc)[1]) != core.Describe(mu.Key) {
					o.Fail(p.InstrPos(in), "%s stores a child under key %s in the slot selected for %s", core.FuncName(f), core.Describe(mu.Key), core.Describe(core.Args(sc)[1]))
				}
			}
			for _, in := range core.Instrs(f, func(in ssa.Instruction) bool { _, ok := in.(*ssa.Lookup); return ok }) {
				lk := in.(*ssa.Lookup)
				sc, _ := core.ResultOf(core.Forward(lk.X))
				if sc == nil || !isSel(sc) {
					continue
				}
				n++
				if core.Describe(core.Args(sc)[1]) != core.Describe(lk.Index) {
					o.Fail(p.InstrPos(in), "%s looks a child up under key %s in the slot selected for %s", core.FuncName(f), core.Describe(lk.Index), core.Describe(core.Args(sc)[1]))
				}
			}
			for _, c := range core.Calls(f, func(in ssa.Instruction) bool {
				c := core.AsCall(in)
				return c != nil && c.Common().StaticCallee() == f
			}) {
				n++
				a := core.Args(c)
				if !c03SliceBehind(a[1]) {
					o.Fail(p.InstrPos(c), "%s recurses on %s, not on route[i+1:]", core.FuncName(f), core.Describe(a[1]))
				}
				if len(f.Params) == 3 && !b2Param(f, 2)(a[2]) {
					o.Fail(p.InstrPos(c), "%s recurses with a different item", core.FuncName(f))
				}
			}
		}
		o.Site(n, "selector uses and recursive inserts")
	})

	r.Check("D3/K8/segment-prefix", "a segment cut off as route[:i] ends exactly at a separator: route[i] == '/' holds wherever the prefix is taken", func(o *core.O) {
		n := 0
		for _, f := range b2PkgFuncs(p, searchPkg) {
			for _, in := range core.Instrs(f, func(in ssa.Instruction) bool {
				sl, ok := in.(*ssa.Slice)
				if !ok || sl.High == nil || sl.Low != nil {
					return false
				}
				b, ok := sl.X.Type().Underlying().(*types.Basic)
				return ok && b.Kind() == types.String
			}) {
				sl := in.(*ssa.Slice)
				n++
				r.Fn(core.FuncName(f))
				if why := c03SepAt(f, sl.X, sl.High, c03Tgt{in: in}, 0); why != "" {
					o.Fail(p.InstrPos(in), "%s takes the prefix %s[:%s] %s (segment and separator get mixed)", core.FuncName(f), core.Describe(sl.X), core.Describe(sl.High), why)
				}
			}
		}
		o.Site(n, "prefix slices in "+searchPkg)
	})

	// ---- D4/D5: dispatch ----
	r.Check("D5/K2/dispatch", "ServeHTTP invokes the registered handler only on a Search hit in trees[r.Method] for path.Clean(r.URL.Path), with the path variables of that hit attached, and does nothing else afterwards", func(o *core.O) {
		if !o.Need(serve != nil && len(serve.Params) == 3, "patRouter.ServeHTTP(w, r)") {
			return
		}
		r.Fn(core.FuncName(serve))
		isSearchVal := b2IsCallVal(isTreeSearch)
		isRun := b2Invoke(func(v ssa.Value) bool { return core.DependsOn(v, isSearchVal) }, "ServeHTTP")
		runs := core.Calls(serve, isRun)
		searches := core.Calls(serve, isTreeSearch)
		o.Site(len(runs)+len(searches), core.FuncName(serve))
		if len(runs) == 0 || len(searches) == 0 {
			o.Fail(p.Pos(serve.Pos()), "ServeHTTP does not invoke the handler found by Tree.Search")
			return
		}
		hit := core.BoolVal(func(v ssa.Value) bool { return core.IsResult(v, 1, isTreeSearch) })
		if w := core.Requires(serve, isRun, hit); w != nil {
			o.Fail(p.InstrPos(w), "a handler is invoked although Search reported no match")
		}
		isReqMethod := b2LoadOfField("Request.Method", core.Describe(serve.Params[2]))
		for _, c := range searches {
			a := core.Args(c)
			lk, i := c03LookupResult(core.Forward(a[0]))
			if lk == nil || i != 0 || !core.IsFieldLoad(lk.X, "patRouter.trees") || !isReqMethod(lk.Index) {
				o.Fail(p.InstrPos(c), "the tree searched is not pr.trees[r.Method]")
			} else if w := core.Requires(serve, core.Is(c), core.BoolVal(func(v ssa.Value) bool {
				l, i := c03LookupResult(v)
				return l == lk && i == 1
			})); w != nil {
				o.Fail(p.InstrPos(c), "Search on a tree that was not found in pr.trees (nil tree)")
			}
			if !core.IsResult(a[1], 0, isClean) {
				o.Fail(p.InstrPos(c), "the path searched is not path.Clean(r.URL.Path)")
			} else if cc, _ := core.ResultOf(core.Forward(a[1])); !b2LoadOfField("URL.Path", "")(core.Args(cc)[0]) {
				o.Fail(p.InstrPos(c), "path.Clean is not applied to r.URL.Path")
			}
		}
		isWithVars := core.CallTo("api/pathvar.WithVars")
		for _, c := range runs {
			req := core.Args(c)[2]
			if !core.DependsOn(req, b2IsCallVal(isWithVars)) {
				o.Fail(p.InstrPos(c), "the request handed to the handler does not carry the path variables (result of pathvar.WithVars unused)")
			}
			if !core.DependsOn(req, b2Param(serve, 2)) {
				o.Fail(p.InstrPos(c), "the request handed to the handler is not derived from the incoming request")
			}
			if w, ok := core.Reach(core.Q{From: []core.At{core.After(c)}, Target: func(in ssa.Instruction) bool {
				cc := core.AsCall(in)
				return cc != nil && !strings.HasPrefix(core.CalleeName(cc), "builtin:")
			}}); ok {
				o.Fail(p.InstrPos(w), "ServeHTTP continues after the handler ran (a second answer is written)")
			}
		}
		for _, c := range core.Calls(serve, isWithVars) {
			a := core.Args(c)
			if !core.DependsOn(a[1], isSearchVal) || !b2FieldLoadS("Result.Params")(a[1]) {
				o.Fail(p.InstrPos(c), "pathvar.WithVars is not given the Params of the Search result")
			}
		}
	})

	r.Check("D5/K3/not-found-vs-not-allowed", "404 exactly when methodsAllowed found no other method; otherwise, on every path on which methodsAllowed reported other methods, the Allow header of the response writer is set to the computed list before anything answers — the built-in WriteHeader(405) and the configured not-allowed handler alike (the list is lost to a handler that runs first: 405 without Allow); methodsAllowed is asked about (r.Method, cleaned path)", func(o *core.O) {
		if !o.Need(serve != nil && len(serve.Params) == 3, "patRouter.ServeHTTP") {
			return
		}
		isMA := func(in ssa.Instruction) bool {
			c, ok := in.(*ssa.Call)
			if !ok || !b2CalleeIn(c, routerPkg) {
				return false
			}
			sig := c.Call.StaticCallee().Signature
			return sig.Results().Len() == 2 && sig.Results().At(1).Type().String() == "bool" && sig.Params().Len() == 2
		}
		mas := core.Calls(serve, isMA)
		if !o.Need(len(mas) == 1, "the single call of methodsAllowed in ServeHTTP") {
			return
		}
		ma := mas[0]
		anyOther := core.BoolVal(func(v ssa.Value) bool { return core.IsResult(v, 1, core.Is(ma)) })
		isNFDirect := core.Or(core.CallTo("net/http.NotFound"), b2Invoke(core.FieldLoad("patRouter.notFound"), "ServeHTTP"))
		isNF := func(in ssa.Instruction) bool {
			if isNFDirect(in) {
				return true
			}
			c, ok := in.(*ssa.Call)
			if !ok || !b2CalleeIn(c, routerPkg) {
				return false
			}
			return len(core.Instrs(c.Call.StaticCallee(), isNFDirect)) > 0
		}
		is405 := func(in ssa.Instruction) bool {
			c := core.AsCall(in)
			if c == nil || !b2Invoke(nil, "WriteHeader")(in) {
				return false
			}
			n, ok := core.ConstInt(c.Common().Args[0])
			return ok && n == 405
		}
		isNA := core.Or(is405, b2Invoke(core.FieldLoad("patRouter.notAllowed"), "ServeHTTP"))
		isSetAllow := func(in ssa.Instruction) bool {
			c := core.AsCall(in)
			if c == nil || core.Short(core.CalleeName(c)) != "(net/http.Header).Set" {
				return false
			}
			a := core.Args(c)
			k, ok := core.ConstString(a[1])
			// the header map is the response writer's own (w.Header(), w derived from ServeHTTP's writer parameter)
			hc, _ := core.ResultOf(core.Forward(a[0]))
			ownHeader := hc != nil && b2Invoke(func(v ssa.Value) bool { return core.DependsOn(v, b2Param(serve, 1)) }, "Header")(hc)
			return ok && k == "Allow" && core.IsResult(a[2], 0, core.Is(ma)) && ownHeader
		}
		isCustomNA := b2Invoke(core.FieldLoad("patRouter.notAllowed"), "ServeHTTP")
		nfs, nas := core.Instrs(serve, isNF), core.Instrs(serve, isNA)
		o.Site(len(nfs)+len(nas)+1, core.FuncName(serve))
		if len(nfs) == 0 || len(core.Instrs(serve, is405)) == 0 {
			o.Fail(p.Pos(serve.Pos()), "ServeHTTP lacks a not-found answer or a 405 answer")
			return
		}
		a := core.Args(ma)
		if !(b2LoadOfField("Request.Method", "")(a[1])) {
			o.Fail(p.InstrPos(ma), "methodsAllowed is not asked about r.Method")
		}
		if !core.IsResult(a[2], 0, isClean) {
			o.Fail(p.InstrPos(ma), "methodsAllowed is not asked about the cleaned path")
		}
		if w := core.Requires(serve, isNA, anyOther); w != nil {
			o.Fail(p.InstrPos(w), "405 answered although no other method matches the path (should be 404)")
		}
		if w := core.Requires(serve, isNF, core.Not(anyOther)); w != nil {
			o.Fail(p.InstrPos(w), "404 answered although another method matches the path (should be 405 with Allow)")
		}
		for _, nf := range nfs {
			if w, ok := core.Reach(core.Q{From: []core.At{core.After(nf)}, Target: core.Or(isNA, isSetAllow)}); ok {
				o.Fail(p.InstrPos(w), "after the not-found answer ServeHTTP goes on to the 405 answer")
			}
		}
		if w := core.Precedes(serve, isSetAllow, is405); w != nil {
			o.Fail(p.InstrPos(w), "WriteHeader(405) reachable before the Allow header was set to the list computed by methodsAllowed (headers written after WriteHeader are lost)")
		}
		// the configured handler owns status and body, but it cannot compute the list (the trees are private): the
		// header must be in place when it runs, on every path (round 9, after the defect fixed by 5475f0d)
		if w := core.Precedes(serve, isSetAllow, isCustomNA); w != nil {
			o.Fail(p.InstrPos(w), "the configured not-allowed handler runs before the Allow header was set to the list computed by methodsAllowed: a method mismatch is answered without Allow whenever a custom handler is configured")
		}
		// the 405/404 answers are not reachable once a handler was found: covered by D5/K2/dispatch (nothing runs after the handler)
	})

	r.Check("D5/K2/methods-allowed", "methodsAllowed skips the request's own method, tries every method tree (the loop is left only when the map is exhausted), lists a method exactly when its tree matches the path, and reports true only for a non-empty list", func(o *core.O) {
		var f *ssa.Function
		if serve != nil {
			for _, c := range core.Calls(serve, func(in ssa.Instruction) bool {
				c, ok := in.(*ssa.Call)
				return ok && b2CalleeIn(c, routerPkg) && c.Call.StaticCallee().Signature.Results().Len() == 2
			}) {
				f = c.Common().StaticCallee()
			}
		}
		if !o.Need(f != nil && len(f.Params) == 3, "methodsAllowed(method, path)") {
			return
		}
		r.Fn(core.FuncName(f))
		searches := core.Calls(f, isTreeSearch)
		o.Site(len(searches), core.FuncName(f))
		if len(searches) == 0 {
			o.Fail(p.Pos(f.Pos()), "methodsAllowed searches no tree")
			return
		}
		isKey := func(v ssa.Value) bool {
			e, ok := v.(*ssa.Extract)
			if !ok || e.Index != 1 {
				return false
			}
			_, ok = e.Tuple.(*ssa.Next)
			return ok
		}
		other := core.Cmp(token.NEQ, isKey, b2Param(f, 1))
		if w := core.Requires(f, isTreeSearch, other); w != nil {
			o.Fail(p.InstrPos(w), "the request's own method is not skipped (Allow would list the method that just failed)")
		}
		isAppend := func(in ssa.Instruction) bool {
			c, ok := in.(*ssa.Call)
			return ok && core.CalleeName(c) == "builtin:append"
		}
		apps := core.Calls(f, isAppend)
		if len(apps) == 0 {
			o.Fail(p.Pos(f.Pos()), "methodsAllowed collects nothing")
		}
		hit := core.BoolVal(func(v ssa.Value) bool { return core.IsResult(v, 1, isTreeSearch) })
		if w := core.Requires(f, isAppend, hit); w != nil {
			o.Fail(p.InstrPos(w), "a method is listed although its tree does not match the path")
		}
		if w := core.Requires(f, isAppend, other); w != nil {
			o.Fail(p.InstrPos(w), "the request's own method can be listed")
		}
		hold, _ := core.EdgesOf(f, hit)
		if w, ok := core.Reach(core.Q{From: b2Heads(hold), Target: func(in ssa.Instruction) bool {
			_, isNext := in.(*ssa.Next)
			return isNext || core.IsReturn(in)
		}, Blocked: isAppend}); ok {
			o.Fail(p.InstrPos(w), "a matching method is not added to the list")
		}
		for _, c := range apps {
			if !core.DependsOn(core.Args(c)[1], isKey) {
				o.Fail(p.InstrPos(c), "the value listed is not the tree's method")
			}
		}
		// every tree is looked at: the loop over the method trees is left only when the map is exhausted
		// (a loop that stops at the first other method that matches lists one method, chosen by map order)
		for _, nxi := range core.Instrs(f, func(in ssa.Instruction) bool { _, ok := in.(*ssa.Next); return ok }) {
			nx := nxi.(*ssa.Next)
			more := core.BoolVal(func(v ssa.Value) bool {
				e, ok := v.(*ssa.Extract)
				return ok && e.Index == 0 && e.Tuple == ssa.Value(nx)
			})
			body, done := core.EdgesOf(f, more)
			if len(body) == 0 {
				continue
			}
			if w, ok := core.Reach(core.Q{From: b2Heads(body), Target: core.IsReturn, Cut: core.CutSet(done)}); ok {
				o.Fail(p.InstrPos(w), "methodsAllowed leaves the loop over the method trees before all of them were tried: Allow lists only the methods seen up to there (which ones depends on map order)")
			}
		}
		for _, c := range searches {
			a := core.Args(c)
			e, ok := core.Forward(a[0]).(*ssa.Extract)
			if ok {
				_, ok = e.Tuple.(*ssa.Next)
			}
			if !ok || e.Index != 2 {
				o.Fail(p.InstrPos(c), "the tree searched is not the one ranged over")
			}
			if !b2Param(f, 2)(a[1]) {
				o.Fail(p.InstrPos(c), "the path searched is not the path parameter")
			}
		}
		isLenList := core.IsLenOf(func(v ssa.Value) bool { return strings.HasSuffix(v.Type().String(), "[]string") })
		nonEmpty := core.AnyOf(core.Cmp(token.GTR, isLenList, core.IsConstInt(0)), core.Cmp(token.NEQ, isLenList, core.IsConstInt(0)), core.Cmp(token.GEQ, isLenList, core.IsConstInt(1)))
		if w := core.Requires(f, b2RetConst(1, "const:true"), nonEmpty); w != nil {
			o.Fail(p.InstrPos(w), "methodsAllowed reports success for an empty list (405 with an empty Allow instead of 404)")
		}
		ne, _ := core.EdgesOf(f, nonEmpty)
		if w := core.ReachableFromEdges(ne, b2RetConst(1, "const:false"), nil); w != nil {
			o.Fail(p.InstrPos(w), "methodsAllowed reports failure although other methods match (404 instead of 405)")
		}
		for _, ret := range core.Returns(f) {
			d := core.Describe(core.Result(ret, 1))
			if d == "const:true" {
				if !core.DependsOn(core.Result(ret, 0), isKey) {
					o.Fail(p.InstrPos(ret), "the returned Allow value does not contain the collected methods")
				}
			} else if d != "const:false" {
				o.Unres("methodsAllowed returns a computed flag %s", d)
			}
		}
	})

	// ---- D6: composition ----
	r.Check("D6/K8/bind-route-args", "engine.bindRoute registers (route.Method, route.Path, handler built from route.Handler) in that order", func(o *core.O) {
		f := p.Func("api", "engine", "bindRoute")
		if !o.Need(f != nil, "api.engine.bindRoute") {
			return
		}
		r.Fn(core.FuncName(f))
		cs := core.Calls(f, b2Invoke(nil, "Handle"))
		o.Site(len(cs), core.FuncName(f))
		if len(cs) == 0 {
			o.Fail(p.Pos(f.Pos()), "bindRoute registers nothing")
		}
		for _, c := range cs {
			a := core.Args(c)
			if !b2FieldLoadS("Route.Method")(a[1]) || !b2FieldLoadS("Route.Path")(a[2]) {
				o.Fail(p.InstrPos(c), "router.Handle(%s, %s, …): expected (route.Method, route.Path, …)", core.Describe(a[1]), core.Describe(a[2]))
			}
			if !core.DependsOn(a[3], b2FieldLoadS("Route.Handler")) {
				o.Fail(p.InstrPos(c), "the handler registered is not built from route.Handler")
			}
		}
	})

	r.Check("D6/K9/pathvar-key", "pathvar.Vars reads the context key under which pathvar.WithVars stores the parameters, and WithVars stores its params argument into the request's own context", func(o *core.O) {
		wv, vs := p.Func("api/pathvar", "", "WithVars"), p.Func("api/pathvar", "", "Vars")
		if !o.Need(wv != nil && vs != nil, "pathvar.WithVars / pathvar.Vars") {
			return
		}
		r.Fn(core.FuncName(wv), core.FuncName(vs))
		sets := core.Calls(wv, core.CallTo("context.WithValue"))
		gets := core.Calls(vs, b2Invoke(nil, "Value"))
		o.Site(len(sets)+len(gets), core.FuncName(wv), core.FuncName(vs))
		if len(sets) != 1 || len(gets) != 1 {
			o.Fail(p.Pos(wv.Pos()), "expected one context.WithValue in WithVars and one Value in Vars (got %d, %d)", len(sets), len(gets))
			return
		}
		sa, ga := core.Args(sets[0]), core.Args(gets[0])
		if core.Describe(sa[1]) != core.Describe(ga[1]) {
			o.Fail(p.InstrPos(gets[0]), "Vars reads key %s but WithVars writes key %s", core.Describe(ga[1]), core.Describe(sa[1]))
		}
		if !b2Param(wv, 1)(sa[2]) {
			o.Fail(p.InstrPos(sets[0]), "WithVars stores %s, not its params argument", core.Describe(sa[2]))
		}
		for _, ret := range core.Returns(wv) {
			if !core.DependsOn(core.Result(ret, 0), b2IsCallVal(core.Is(sets[0]))) || !core.DependsOn(core.Result(ret, 0), b2Param(wv, 0)) {
				o.Fail(p.InstrPos(ret), "WithVars does not return the request with the extended context")
			}
		}
		for _, ret := range core.Returns(vs) {
			v := core.Result(ret, 0)
			if core.IsNil(v) {
				continue
			}
			if !core.DependsOn(v, b2IsCallVal(core.Is(gets[0]))) {
				o.Fail(p.InstrPos(ret), "Vars returns something other than the stored parameters")
			}
		}
	})

	r.Check("D2/K2/child-created-only-when-absent", "a fresh node is stored into a children map only when the lookup of that very key in that very map found nothing (replacing an existing child drops its whole subtree: longer routes registered earlier become unreachable and can be registered twice)", func(o *core.O) {
		n := 0
		for _, f := range b2PkgFuncs(p, "lib/search") {
			for _, in := range core.Instrs(f, func(in ssa.Instruction) bool {
				mu, ok := in.(*ssa.MapUpdate)
				if !ok {
					return false
				}
				mt, ok := mu.Map.Type().Underlying().(*types.Map)
				if !ok {
					return false
				}
				pt, ok := mt.Elem().(*types.Pointer)
				if !ok {
					return false
				}
				nt, ok := pt.Elem().(*types.Named)
				return ok && nt.Obj().Name() == "node"
			}) {
				mu := in.(*ssa.MapUpdate)
				// constructors fill fresh maps
				if _, isMake := mu.Map.(*ssa.MakeMap); isMake {
					continue
				}
				n++
				r.Fn(core.FuncName(f))
				absent := core.Not(core.BoolVal(func(v ssa.Value) bool {
					e, ok := v.(*ssa.Extract)
					if !ok || e.Index != 1 {
						return false
					}
					l, ok := e.Tuple.(*ssa.Lookup)
					return ok && l.CommaOk && l.X == mu.Map && core.Describe(l.Index) == core.Describe(mu.Key)
				}))
				if core.EdgeCount(f, absent) == 0 {
					o.Fail(p.InstrPos(in), "%s stores a child without first looking the key up in the same map", core.FuncName(f))
					continue
				}
				if w := core.Requires(f, core.Is(in), absent); w != nil {
					o.Fail(p.InstrPos(w), "%s can replace an existing child node (its subtree is dropped)", core.FuncName(f))
				}
			}
		}
		o.Site(n)
	})

}

// c03ValidatorCall matches the calls in handle of an in-package boolean function applied to the method parameter.
func c03ValidatorCall(handle *ssa.Function) func(ssa.Value) bool {
	return func(v ssa.Value) bool {
		c, ok := v.(*ssa.Call)
		if !ok || !b2CalleeIn(c, routerPkg) || len(c.Call.Args) != 1 {
			return false
		}
		if b, ok := c.Type().Underlying().(*types.Basic); !ok || b.Kind() != types.Bool {
			return false
		}
		return b2Param(handle, 1)(c.Call.Args[0])
	}
}

// c03LookupResult decomposes v = extract #i of a comma-ok map lookup.
func c03LookupResult(v ssa.Value) (*ssa.Lookup, int) {
	switch x := v.(type) {
	case *ssa.Extract:
		if l, ok := x.Tuple.(*ssa.Lookup); ok && l.CommaOk {
			return l, x.Index
		}
	case *ssa.Lookup:
		if !x.CommaOk {
			return x, 0
		}
	}
	return nil, -1
}

// c03Ascending recognises an index that runs 0,1,… : `for i := range arr`
// (φ(-1, i)+1) or `for i := 0; …; i++` (φ(0, i+1)).
func c03Ascending(idx ssa.Value) bool {
	plus1 := func(v ssa.Value) (ssa.Value, bool) {
		b, ok := v.(*ssa.BinOp)
		if !ok || b.Op != token.ADD {
			return nil, false
		}
		if n, ok := core.ConstInt(b.Y); ok && n == 1 {
			return b.X, true
		}
		if n, ok := core.ConstInt(b.X); ok && n == 1 {
			return b.Y, true
		}
		return nil, false
	}
	if x, ok := plus1(idx); ok { // range form
		ph, ok := x.(*ssa.Phi)
		if !ok || len(ph.Edges) != 2 {
			return false
		}
		for _, e := range ph.Edges {
			if e == idx {
				continue
			}
			if n, ok := core.ConstInt(e); !ok || n != -1 {
				return false
			}
		}
		return true
	}
	if ph, ok := idx.(*ssa.Phi); ok && len(ph.Edges) == 2 { // classic for
		for _, e := range ph.Edges {
			if n, ok := core.ConstInt(e); ok && n == 0 {
				continue
			}
			if x, ok := plus1(e); ok && x == ph {
				continue
			}
			return false
		}
		return true
	}
	return false
}

// c03SliceBehind matches s[i+1:].
func c03SliceBehind(v ssa.Value) bool {
	sl, ok := core.Forward(v).(*ssa.Slice)
	if !ok || sl.High != nil || sl.Low == nil {
		return false
	}
	b, ok := sl.Low.(*ssa.BinOp)
	if !ok || b.Op != token.ADD {
		return false
	}
	if n, ok := core.ConstInt(b.Y); ok && n == 1 {
		_, isC := core.ConstInt(b.X)
		return !isC
	}
	if n, ok := core.ConstInt(b.X); ok && n == 1 {
		_, isC := core.ConstInt(b.Y)
		return !isC
	}
	return false
}

// c03NodeParam returns the *node parameter of a reader closure (the visited child).
func c03NodeParam(f *ssa.Function) ssa.Value {
	for _, pa := range f.Params {
		if strings.HasSuffix(pa.Type().String(), "search.node") {
			return pa
		}
	}
	return nil
}

// c03IsDescend matches the recursive descent of a reader: a static call of an
// in-package function (*node, string, *Result …) bool.
func c03IsDescend(in ssa.Instruction) bool {
	c, ok := in.(*ssa.Call)
	if !ok || !b2CalleeIn(c, searchPkg) {
		return false
	}
	sig := c.Call.StaticCallee().Signature
	if sig.Results().Len() != 1 || sig.Results().At(0).Type().String() != "bool" {
		return false
	}
	hasNode, hasStr, hasRes := false, false, false
	for _, a := range c.Call.Args {
		t := a.Type().String()
		switch {
		case strings.HasSuffix(t, "search.node"):
			hasNode = true
		case strings.HasSuffix(t, "search.Result"):
			hasRes = true
		case t == "string":
			hasStr = true
		}
	}
	return hasNode && hasStr && hasRes
}
