package props

import (
	"fmt"
	"go/token"
	"strings"

	"godcheck/core"

	"golang.org/x/tools/go/ssa"
)

// Helpers of the C13 table that state its rules on what the code means: which virtual-node
// indices a loop visits (any spelling/direction of the loop test), which value a loop bound
// has on which path (φ-node or memory cell alike), where the presence flag of Get is decided
// (one return per outcome or one merged return), the binary search through one level of
// in-package helper, and lock paths through single-assignment local aliases.

// ---- the virtual-node loops ----

// c13HashLoops lists the index loops of f (for-loops over an induction variable stepping by
// ±1 whose only exit is the test against a bound, props/c09_util.go) that call the hash function.
func c13HashLoops(f *ssa.Function, isHashCall func(ssa.Instruction) bool) []indexLoop {
	var out []indexLoop
	for _, b := range f.Blocks {
		for _, in := range b.Instrs {
			phi, ok := in.(*ssa.Phi)
			if !ok {
				break
			}
			lp, ok := indexLoopOf(phi)
			if !ok {
				continue
			}
			has := false
			for lb := range loopBlocks(b) {
				for _, x := range lb.Instrs {
					if isHashCall(x) {
						has = true
					}
				}
			}
			if has {
				out = append(out, lp)
			}
		}
	}
	return out
}

// c13Alg names the atoms of the replica arithmetic by role: "R" = h.replicas, "p<i>" = the
// i-th parameter, and one fresh atom per merged value (a φ-node that is not a loop variable,
// or a load of a local cell that several stores reach); vals maps the fresh atoms back.
func c13Alg(vals map[string]ssa.Value) *core.Alg {
	return &core.Alg{Name: func(v ssa.Value) string {
		if core.IsFieldLoad(v, "ConsistentHash.replicas") {
			return "R"
		}
		if n := core.ParamIndexName(v); n != "" {
			return n
		}
		fresh := func(kind string) string {
			for k, x := range vals {
				if x == v {
					return k
				}
			}
			n := fmt.Sprintf("%s%d", kind, len(vals))
			vals[n] = v
			return n
		}
		switch x := v.(type) {
		case *ssa.Phi:
			if _, isLoop := indexLoopOf(x); !isLoop {
				return fresh("φ")
			}
		case *ssa.UnOp:
			if _, isCell := x.X.(*ssa.Alloc); isCell && x.Op == token.MUL {
				return fresh("cell")
			}
		}
		return ""
	}}
}

// c13Leaf is one definition a merged value may have, with the question "can this definition be
// the one in force on a path from the entry that avoids the cut edges?".
type c13Leaf struct {
	val   ssa.Value
	reach func(cut func(core.Edge) bool) bool
}

// c13Leaves expands a φ-node into its incoming values (each in force on its incoming edge)
// and a load of a local memory cell into the values stored into the cell (each in force on
// the paths from its store to the load that pass no other store to the cell). A cell that a
// live closure captures is not expanded (the closure may write it): problem != "".
func c13Leaves(fn *ssa.Function, v ssa.Value, outer func(func(core.Edge) bool) bool, depth int) (leaves []c13Leaf, problem string) {
	if outer == nil {
		outer = func(func(core.Edge) bool) bool { return true }
	}
	if depth > 4 {
		return nil, "value merged too deeply to resolve"
	}
	if c, ok := v.(*ssa.Convert); ok {
		v = c.X
	}
	if f := core.Forward(v); f != v {
		return c13Leaves(fn, f, outer, depth+1)
	}
	switch x := v.(type) {
	case *ssa.Phi:
		if _, isLoop := indexLoopOf(x); isLoop {
			break
		}
		blk := x.Block()
		for k, e := range x.Edges {
			pred := blk.Preds[k]
			via := func(cut func(core.Edge) bool) bool {
				if !outer(cut) {
					return false
				}
				if cut != nil && cut(core.Edge{From: pred, To: blk}) {
					return false
				}
				term := pred.Instrs[len(pred.Instrs)-1]
				_, ok := core.Reach(core.Q{From: []core.At{core.Entry(fn)}, Target: core.Is(term), Cut: cut})
				return ok
			}
			sub, prob := c13Leaves(fn, e, via, depth+1)
			if prob != "" {
				return nil, prob
			}
			leaves = append(leaves, sub...)
		}
		return leaves, ""
	case *ssa.UnOp:
		al, ok := x.X.(*ssa.Alloc)
		if !ok || x.Op != token.MUL || al.Referrers() == nil {
			break
		}
		var stores []*ssa.Store
		for _, r := range *al.Referrers() {
			switch y := r.(type) {
			case *ssa.Store:
				if y.Addr == ssa.Value(al) {
					stores = append(stores, y)
				} else {
					return nil, "the address of " + core.Describe(al) + " is stored"
				}
			case *ssa.MakeClosure:
				return nil, core.Describe(al) + " is captured by a closure that may assign it"
			}
		}
		isStore := func(in ssa.Instruction) bool {
			st, ok := in.(*ssa.Store)
			return ok && st.Addr == ssa.Value(al)
		}
		for _, st := range stores {
			st := st
			via := func(cut func(core.Edge) bool) bool {
				if !outer(cut) {
					return false
				}
				if _, ok := core.Reach(core.Q{From: []core.At{core.Entry(fn)}, Target: core.Is(st), Cut: cut}); !ok {
					return false // the store itself lies behind a cut edge
				}
				_, ok := core.Reach(core.Q{From: []core.At{core.After(st)}, Target: core.Is(x), Blocked: isStore, Cut: cut})
				return ok
			}
			sub, prob := c13Leaves(fn, st.Val, via, depth+1)
			if prob != "" {
				return nil, prob
			}
			leaves = append(leaves, sub...)
		}
		return leaves, ""
	}
	return []c13Leaf{{v, outer}}, ""
}

// c13TripCount returns lo and the number of indices (hi − lo + 1) the loop visits.
func c13TripCount(a *core.Alg, lp indexLoop) (lo, trips core.Poly) {
	lo, hi := lp.bounds(a)
	return lo, hi.Sub(lo).Add(core.PInt(1))
}

func c13IsZero(p core.Poly) bool {
	c, ok := p.IsConst()
	return ok && c.Sign() == 0
}

// c13CheckReplicaCap decides, for one virtual-node loop of AddWithReplicas, that it visits the
// indices 0 … min(replicas, h.replicas)−1: the trip count is one value that is the requested
// count (parameter #2) only on paths on which `replicas ≤ h.replicas` was established and
// h.replicas only on paths on which `replicas ≥ h.replicas` was established.
func c13CheckReplicaCap(o *core.O, p *core.Prog, add *ssa.Function, lp indexLoop) {
	where := p.InstrPos(lp.phi)
	vals := map[string]ssa.Value{}
	a := c13Alg(vals)
	lo, trips := c13TripCount(a, lp)
	if !c13IsZero(lo) {
		o.Fail(where, "the replica loop starts at virtual node %v, not 0", lo)
		return
	}
	if trips.Equal(core.PAtom("min(R, p2)")) {
		return
	}
	var bound ssa.Value
	if at := trips.Atoms(); len(at) == 1 && trips.Equal(core.PAtom(at[0])) {
		bound = vals[at[0]]
	}
	if bound == nil {
		o.Fail(where, "the replica loop visits %v virtual nodes: not capped by h.replicas (expected min(replicas, h.replicas))", trips)
		return
	}
	leaves, prob := c13Leaves(add, bound, nil, 0)
	if prob != "" {
		o.Fail(where, "replica loop bound cannot be resolved: %s", prob)
		return
	}
	isParam, isField := core.ParamAt(add, 2), core.FieldLoad("ConsistentHash.replicas")
	capAlg := c13Alg(map[string]ssa.Value{})
	over := core.CmpPoly(capAlg, core.PAtom("p2").Sub(core.PAtom("R")), true) // replicas > h.replicas (≥ is as good: both choices agree when equal)
	holds, fails := core.EdgesOf(add, over)
	if len(holds) == 0 {
		o.Fail(where, "no test replicas > h.replicas")
	}
	hasParam, hasField := false, false
	for _, l := range leaves {
		switch {
		case isParam(l.val):
			hasParam = true
			if l.reach(core.CutSet(fails)) {
				o.Fail(where, "the replica loop runs to the requested count on a path that did not establish replicas <= h.replicas (not capped)")
			}
		case isField(l.val):
			hasField = true
			if l.reach(core.CutSet(holds)) {
				o.Fail(where, "the replica loop runs to h.replicas on a path that did not establish replicas > h.replicas (the requested count/weight is ignored)")
			}
		default:
			o.Fail(where, "replica loop bound may be %s", core.Describe(l.val))
		}
	}
	if !hasParam || !hasField {
		o.Fail(where, "replica loop bound is not min(replicas, h.replicas)")
	}
}

// ---- the presence flag of Get ----

// c13FlagSite is a program point at which Get's second result is decided to be a constant:
// a return of the constant, or the edge of a φ-node that merges the outcomes before one return.
type c13FlagSite struct {
	val  bool
	at   ssa.Instruction // the return, or the terminator of the φ edge's source block
	edge *core.Edge
}

// c13FlagSites resolves result #idx of every return of fn to constant decisions; nonConst
// lists the returns (or merged values) whose flag is not a constant.
func c13FlagSites(fn *ssa.Function, idx int) (sites []c13FlagSite, nonConst []ssa.Instruction) {
	var expand func(v ssa.Value, at ssa.Instruction, edge *core.Edge, depth int) bool
	expand = func(v ssa.Value, at ssa.Instruction, edge *core.Edge, depth int) bool {
		v = core.Forward(v)
		switch x := v.(type) {
		case *ssa.Const:
			if x.Value == nil {
				return false
			}
			switch x.Value.String() {
			case "true":
				sites = append(sites, c13FlagSite{true, at, edge})
				return true
			case "false":
				sites = append(sites, c13FlagSite{false, at, edge})
				return true
			}
		case *ssa.Phi:
			if depth > 3 {
				return false
			}
			blk := x.Block()
			for k, e := range x.Edges {
				pred := blk.Preds[k]
				if !expand(e, pred.Instrs[len(pred.Instrs)-1], &core.Edge{From: pred, To: blk}, depth+1) {
					return false
				}
			}
			return true
		}
		return false
	}
	for _, ret := range core.Returns(fn) {
		if idx >= len(ret.Results) {
			nonConst = append(nonConst, ret)
			continue
		}
		if !expand(ret.Results[idx], ret, nil, 0) {
			nonConst = append(nonConst, ret)
		}
	}
	return
}

// reachable reports whether the site can be reached from the entry of fn without the cut edges.
func (s c13FlagSite) reachable(fn *ssa.Function, cut func(core.Edge) bool) bool {
	if s.edge != nil && cut != nil && cut(*s.edge) {
		return false
	}
	_, ok := core.Reach(core.Q{From: []core.At{core.Entry(fn)}, Target: core.Is(s.at), Cut: cut})
	return ok
}

// ---- the binary search over keys ----

func c13InHashPkg(f *ssa.Function) bool {
	return f != nil && f.Pkg != nil && f.Blocks != nil && strings.HasSuffix(f.Pkg.Pkg.Path(), "/"+hashPkg)
}

// c13IsSearch matches the result of sort.Search, directly or as the only result of a
// function of the hash package every return of which is a sort.Search result.
func c13IsSearch(v ssa.Value) bool {
	c, ok := v.(*ssa.Call)
	if !ok {
		return false
	}
	if core.Short(core.CalleeName(c)) == "sort.Search" {
		return true
	}
	callee := c.Call.StaticCallee()
	if !c13InHashPkg(callee) {
		return false
	}
	rets := core.Returns(callee)
	if len(rets) == 0 {
		return false
	}
	for _, ret := range rets {
		if len(ret.Results) != 1 {
			return false
		}
		cc, ok := core.Result(ret, 0).(*ssa.Call)
		if !ok || core.Short(core.CalleeName(cc)) != "sort.Search" {
			return false
		}
	}
	return true
}

// c13UsesSearch: f (or a closure of it) runs sort.Search, directly or through one function of the hash package.
func c13UsesSearch(f *ssa.Function) bool {
	isSearch := core.CallTo("sort.Search")
	for _, g := range core.WithAnon(f) {
		for _, c := range core.Calls(g, func(in ssa.Instruction) bool { return core.AsCall(in) != nil }) {
			if isSearch(c) {
				return true
			}
			if callee := c.Common().StaticCallee(); c13InHashPkg(callee) && callee != f {
				for _, h := range core.WithAnon(callee) {
					if len(core.Calls(h, isSearch)) > 0 {
						return true
					}
				}
			}
		}
	}
	return false
}

// ---- guarded-by through local aliases ----

// c13Resolve replaces a load of a single-assignment local that no closure captures and whose
// address goes nowhere else (`r := vn.ring`, the cell a split struct field became) by the
// value assigned: the load yields that value wherever it does not yield the zero value.
func c13Resolve(v ssa.Value) ssa.Value {
	for i := 0; i < 8; i++ {
		u, ok := v.(*ssa.UnOp)
		if !ok || u.Op != token.MUL {
			return v
		}
		al, ok := u.X.(*ssa.Alloc)
		if !ok || al.Referrers() == nil {
			return v
		}
		var st *ssa.Store
		n := 0
		for _, r := range *al.Referrers() {
			switch x := r.(type) {
			case *ssa.Store:
				if x.Addr != ssa.Value(al) {
					return v
				}
				st, n = x, n+1
			case *ssa.UnOp:
				if x.Op != token.MUL {
					return v
				}
			case *ssa.DebugRef:
			default:
				return v // captured, passed or otherwise escaping
			}
		}
		if n != 1 {
			return v
		}
		v = st.Val
	}
	return v
}

// c13Recheck re-evaluates the accesses the name-based lock-set engine could not justify: the
// base object may be known under another name (a local alias of the locked object), and an
// unexported helper may be entered only from call sites that hold the lock of the object they
// pass under such an alias.
func c13Recheck(la *core.LockAnalysis, p *core.Prog, pkg, lock string, acc []core.Access) []core.Access {
	funcs := p.PkgFuncs(pkg)
	// callSites: every use of f in the package is a plain static call → the calls; else nil, false.
	callSites := func(f *ssa.Function) ([]*ssa.Call, bool) {
		if f.Parent() != nil || f.Object() == nil || f.Object().Exported() {
			return nil, false
		}
		var out []*ssa.Call
		for _, g := range funcs {
			for _, b := range g.Blocks {
				for _, in := range b.Instrs {
					for _, op := range in.Operands(nil) {
						if *op != ssa.Value(f) {
							continue
						}
						c, ok := in.(*ssa.Call)
						if !ok || c.Call.Value != ssa.Value(f) {
							return nil, false
						}
						out = append(out, c)
					}
				}
			}
		}
		return out, len(out) > 0
	}
	var held func(fn *ssa.Function, base ssa.Value, at ssa.Instruction, write bool, depth int) bool
	held = func(fn *ssa.Function, base ssa.Value, at ssa.Instruction, write bool, depth int) bool {
		base = c13Resolve(base)
		if path := core.LockPath(base); path != "" {
			if k, has := la.Held(at)[path+"."+lock]; has && (!write || byte(k) == 'W') {
				return true
			}
		}
		par, ok := base.(*ssa.Parameter)
		if !ok || depth > 2 {
			return false
		}
		idx := -1
		for i, q := range fn.Params {
			if q == par {
				idx = i
			}
		}
		sites, ok := callSites(fn)
		if !ok || idx < 0 {
			return false
		}
		for _, c := range sites {
			if idx >= len(c.Call.Args) || !held(c.Parent(), c.Call.Args[idx], c, write, depth+1) {
				return false
			}
		}
		return true
	}
	out := make([]core.Access, len(acc))
	copy(out, acc)
	for i, a := range out {
		if a.OK {
			continue
		}
		var base ssa.Value
		switch x := a.In.(type) {
		case *ssa.FieldAddr:
			base = x.X
		case *ssa.Field:
			base = x.X
		default:
			continue
		}
		if held(a.Fn, base, a.In, a.Write, 0) {
			out[i].OK = true
		}
	}
	return out
}

// ---- role-based descriptor of the hashed expression ----

// c13Canon renders a value by role instead of by name: parameters by position, the
// induction variable of an index loop as "i", locals through the value they hold, calls by
// resolved callee. Two functions hash "the same virtual-node expression" when the renderings
// of their hash inputs agree. Values it cannot name by role fall back to core.Describe.
func c13Canon(v ssa.Value, depth int) string {
	if depth > 12 {
		return "…"
	}
	v = core.Forward(v)
	switch x := v.(type) {
	case *ssa.Parameter:
		if n := core.ParamIndexName(x); n != "" {
			return n
		}
	case *ssa.Const:
		return core.Describe(x)
	case *ssa.Phi:
		if _, isLoop := indexLoopOf(x); isLoop {
			return "i"
		}
		return "phi"
	case *ssa.Convert:
		return c13Canon(x.X, depth+1)
	case *ssa.ChangeType:
		return c13Canon(x.X, depth+1)
	case *ssa.MakeInterface:
		return c13Canon(x.X, depth+1)
	case *ssa.BinOp:
		return "(" + c13Canon(x.X, depth+1) + x.Op.String() + c13Canon(x.Y, depth+1) + ")"
	case *ssa.Call:
		var as []string
		for _, a := range x.Call.Args {
			as = append(as, c13Canon(a, depth+1))
		}
		return core.Short(core.CalleeName(x)) + "(" + strings.Join(as, ",") + ")"
	case *ssa.UnOp:
		if x.Op == token.MUL {
			if r := c13Resolve(x); r != ssa.Value(x) {
				return c13Canon(r, depth+1)
			}
			if n := core.FieldAddrName(x.X); n != "" {
				return "field:" + n
			}
		}
	}
	return core.Describe(v)
}
