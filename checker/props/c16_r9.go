package props

import (
	"go/types"

	"godcheck/core"

	"golang.org/x/tools/go/ssa"
)

// Round 9 (defect c921ad6): executeTasks called container.Execute bare. The flusher goroutine is
// started through threading.GoSafe, which recovers a panic at the goroutine's top: the loop that
// serves ticks and handed-over batches is gone, while `guarded` (cleared only by the idle-quit
// test) stays true, so no Add ever starts another flusher. Tasks added later are flushed by no
// tick, and the next Add that reaches the threshold blocks for ever on the confirmation.

// c16CallsBuiltin: f itself (not a nested literal) calls the builtin name.
func c16CallsBuiltin(f *ssa.Function, name string) bool {
	if f == nil || f.Blocks == nil {
		return false
	}
	return len(core.Instrs(f, func(in ssa.Instruction) bool {
		c := core.AsCall(in)
		if c == nil {
			return false
		}
		b, ok := c.Common().Value.(*ssa.Builtin)
		return ok && b.Name() == name
	})) > 0
}

// c16IsDeferRecover: `defer g()` where g itself calls recover() and does not panic again
// (rescue.Recover, or a literal `func() { if r := recover(); … }`).
func c16IsDeferRecover(in ssa.Instruction) bool {
	d, ok := in.(*ssa.Defer)
	if !ok || d.Call.IsInvoke() {
		return false
	}
	body := d.Call.StaticCallee()
	if body == nil {
		if fv, ok := c16ResolveFn(d.Call.Value); ok {
			body = fv.body
		}
	}
	if body == nil || !c16CallsBuiltin(body, "recover") {
		return false
	}
	rethrows := core.Instrs(body, func(in ssa.Instruction) bool { _, ok := in.(*ssa.Panic); return ok })
	return len(rethrows) == 0
}

// c16RecoverBefore: every path of f to `in` has passed a deferred recover of f, so a panic raised
// while `in` runs ends f only, and f's caller goes on.
func c16RecoverBefore(f *ssa.Function, in ssa.Instruction) bool {
	if len(core.Instrs(f, c16IsDeferRecover)) == 0 {
		return false
	}
	return core.Precedes(f, c16IsDeferRecover, core.Is(in)) == nil
}

// c16IsSafeRunner: g runs a function value it is given synchronously inside its own recover
// scope (threading.RunSafe: `defer rescue.Recover(); fn()`), by what it does, not by its name.
func c16IsSafeRunner(g *ssa.Function) bool {
	if g == nil || g.Blocks == nil {
		return false
	}
	n := 0
	for _, b := range g.Blocks {
		for _, in := range b.Instrs {
			c := core.AsCall(in)
			if c == nil {
				continue
			}
			par, ok := c.Common().Value.(*ssa.Parameter)
			if !ok || c.Common().IsInvoke() {
				// the parameter handed on (go RunSafe(fn)): not run here
				continue
			}
			if _, isSig := par.Type().Underlying().(*types.Signature); !isSig {
				continue
			}
			if _, plain := in.(*ssa.Call); !plain || !c16RecoverBefore(g, in) {
				return false
			}
			n++
		}
	}
	return n > 0
}

func c16Round9(r *core.Run, e *c16Env) {
	p := e.p
	r.Check("D3/K10/flusher-survives-panicking-batch", "the flusher survives a panicking batch: every call of TaskContainer.Execute the flusher's loop can make (directly, through functions of the package, or through function values run synchronously) runs inside a recover scope that ends below the loop – a function literal handed to a runner that recovers (threading.RunSafe), or a function other than the loop's own that deferred a recover before the call [otherwise the panic unwinds the loop and is recovered only at the goroutine's top (GoSafe): the goroutine ends while `guarded` stays true, no Add starts a flusher again, later tasks are flushed by no tick and the next threshold-reaching Add blocks for ever on the confirmation]", func(o *core.O) {
		fl := e.flusher
		if !o.Need(fl != nil && e.flSel != nil, "the flusher's loop (a select that receives from pe.commander)") {
			return
		}
		r.Fn(core.FuncName(fl))
		if _, loops := core.Reach(core.Q{From: []core.At{core.After(e.flSel)}, Target: core.Is(e.flSel)}); !loops {
			o.Unres("%s: the select that receives from pe.commander is not inside a loop of %s: where the flusher's loop ends is not understood", p.InstrPos(e.flSel), core.FuncName(fl))
			return
		}
		// the blocks of the loop: reachable from the select and reaching it again
		inLoop := func(in ssa.Instruction) bool {
			if _, ok := core.Reach(core.Q{From: []core.At{core.After(e.flSel)}, Target: core.Is(in)}); !ok {
				return false
			}
			_, ok := core.Reach(core.Q{From: []core.At{core.After(in)}, Target: core.Is(e.flSel)})
			return ok
		}
		type key struct {
			f    *ssa.Function
			prot bool
		}
		seen := map[key]bool{}
		n := 0
		var visit func(f *ssa.Function, prot bool, depth int)
		visit = func(f *ssa.Function, prot bool, depth int) {
			if f == nil || f.Blocks == nil || seen[key{f, prot}] || depth > 8 {
				return
			}
			seen[key{f, prot}] = true
			for _, b := range f.Blocks {
				for _, in := range b.Instrs {
					c := core.AsCall(in)
					if c == nil {
						continue
					}
					if _, isGo := in.(*ssa.Go); isGo {
						continue // another goroutine
					}
					if f == fl {
						// only what the loop runs: a deferred call of the loop's function runs when the flusher is over
						if _, isDefer := in.(*ssa.Defer); isDefer || !inLoop(in) {
							continue
						}
					}
					here := prot || (f != fl && c16RecoverBefore(f, in))
					if e.isExecute(in) {
						n++
						r.Fn(core.FuncName(f))
						if !here {
							o.Fail(p.InstrPos(in), "%s runs the container's Execute, reached from the flusher's loop, outside any recover scope below the loop: when the execute function panics for one batch the flusher goroutine ends (GoSafe recovers at its top) with `guarded` still true – no flusher is started again, later tasks are not flushed by the tick and the next Add that reaches the threshold blocks for ever", core.FuncName(f))
						}
						continue
					}
					cc := c.Common()
					if cc.IsInvoke() {
						continue
					}
					if _, isB := cc.Value.(*ssa.Builtin); isB {
						continue
					}
					callee := cc.StaticCallee()
					if callee != nil && (e.inPkg[callee] || callee.Parent() != nil) {
						visit(callee, here, depth+1)
					} else if fv, ok := c16ResolveFn(cc.Value); ok && fv.body != nil && callee == nil {
						visit(fv.body, here, depth+1)
					}
					if e.async != nil && e.async(c) {
						continue // function values handed to the goroutine starter run elsewhere
					}
					safe := callee != nil && c16IsSafeRunner(callee)
					for _, a := range cc.Args {
						fv, ok := c16ResolveFn(a)
						if !ok || fv.body == nil {
							continue
						}
						if !(e.inPkg[fv.body] || fv.body.Parent() != nil || fv.body.Synthetic != "") {
							continue
						}
						visit(fv.body, here || safe, depth+1)
					}
				}
			}
		}
		visit(fl, false, 0)
		o.Site(n, core.FuncName(fl))
	})
}
