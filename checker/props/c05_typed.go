package props

// D7/K9/typed-value-set-type-established
//
// reflect.Value.Set(reflect.ValueOf(x)) with x of a static, concrete type T
// panics unless T is assignable to the destination's type; for a named T
// (time.Duration) that means the destination's type IS T: a field of T's
// underlying kind (int64) is not enough. A function of lib/mapping that stores
// such a statically typed value into a reflect.Value it was handed does not know
// the destination's type, so the knowledge must come from a test: the rule
// demands that every path to the Set inside the function, or else every path to
// every in-package call of the function (following callers that hand on their
// own reflect.Value parameter, at most 4 levels), passes the true edge of a
// comparison of a reflect.Type with "the type T" - a package-level variable
// whose only store is reflect.TypeOf(<value of type T>), or reflect.TypeOf(<T>)
// itself - or the true edge of AssignableTo on such an operand. A Kind()
// comparison does not establish it: Kind()==durationType.Kind() is true of every
// int64 field.
//
// Not decided: that the reflect.Type compared and the reflect.Value stored into
// belong to the same field (the (fieldType, value) pairing convention of the
// package).

import (
	"go/token"
	"go/types"
	"sort"
	"strings"

	"godcheck/core"

	"golang.org/x/tools/go/ssa"
)

// typedValueOf: v is reflect.ValueOf(x) with x of a concrete named type; returns that type.
func typedValueOf(v ssa.Value) types.Type {
	c, ok := core.Forward(v).(*ssa.Call)
	if !ok || c.Call.IsInvoke() || core.CalleeName(c) != "reflect.ValueOf" || len(c.Call.Args) != 1 {
		return nil
	}
	mi, ok := core.Forward(c.Call.Args[0]).(*ssa.MakeInterface)
	if !ok {
		return nil
	}
	t := mi.X.Type()
	if _, named := t.(*types.Named); !named || types.IsInterface(t) {
		return nil
	}
	return t
}

// typeConstants: the package-level variables of the given functions' packages whose only
// store anywhere is reflect.TypeOf(<value of static type T>): var → T.
func typeConstants(funcs []*ssa.Function) map[*ssa.Global]types.Type {
	stores := map[*ssa.Global][]ssa.Value{}
	escaped := map[*ssa.Global]bool{}
	seenPkg := map[*ssa.Package]bool{}
	var all []*ssa.Function
	have := map[*ssa.Function]bool{}
	for _, f := range funcs {
		if !have[f] {
			have[f] = true
			all = append(all, f)
		}
	}
	for _, f := range funcs {
		if f.Pkg != nil && !seenPkg[f.Pkg] {
			seenPkg[f.Pkg] = true
			if ini := f.Pkg.Func("init"); ini != nil && !have[ini] {
				have[ini] = true
				all = append(all, ini)
			}
		}
	}
	for _, f := range all {
		for _, b := range f.Blocks {
			for _, in := range b.Instrs {
				if st, ok := in.(*ssa.Store); ok {
					if g, ok := st.Addr.(*ssa.Global); ok {
						stores[g] = append(stores[g], st.Val)
					}
					if g, ok := st.Val.(*ssa.Global); ok {
						escaped[g] = true
					}
					continue
				}
				for _, op := range in.Operands(nil) {
					if g, ok := (*op).(*ssa.Global); ok {
						if u, isLoad := in.(*ssa.UnOp); !isLoad || u.Op != token.MUL {
							escaped[g] = true // address taken
						}
					}
				}
			}
		}
	}
	out := map[*ssa.Global]types.Type{}
	for g, vs := range stores {
		if len(vs) != 1 || escaped[g] {
			continue
		}
		if t := typeOfCall(vs[0]); t != nil {
			out[g] = t
		}
	}
	return out
}

// typeOfCall: v is reflect.TypeOf(<value of concrete static type T>); returns T.
func typeOfCall(v ssa.Value) types.Type {
	c, ok := core.Forward(v).(*ssa.Call)
	if !ok || c.Call.IsInvoke() || core.CalleeName(c) != "reflect.TypeOf" || len(c.Call.Args) != 1 {
		return nil
	}
	mi, ok := core.Forward(c.Call.Args[0]).(*ssa.MakeInterface)
	if !ok || types.IsInterface(mi.X.Type()) {
		return nil
	}
	return mi.X.Type()
}

// isTypeOperand: v denotes "the type T".
func isTypeOperand(v ssa.Value, T types.Type, consts map[*ssa.Global]types.Type) bool {
	v = core.Forward(v)
	if t := typeOfCall(v); t != nil {
		return types.Identical(t, T)
	}
	if u, ok := v.(*ssa.UnOp); ok && u.Op == token.MUL {
		if g, ok := u.X.(*ssa.Global); ok {
			if t, ok := consts[g]; ok {
				return types.Identical(t, T)
			}
		}
	}
	return false
}

// typeIsAtom: a comparison some-reflect.Type == "the type T" (or T.AssignableTo(x) / x == T in either order).
func typeIsAtom(T types.Type, consts map[*ssa.Global]types.Type) core.Atom {
	return func(v ssa.Value) (bool, bool) {
		switch x := v.(type) {
		case *ssa.BinOp:
			if x.Op != token.EQL && x.Op != token.NEQ {
				return false, false
			}
			if !(isReflectType(x.X.Type()) && isReflectType(x.Y.Type())) {
				return false, false
			}
			if isTypeOperand(x.X, T, consts) || isTypeOperand(x.Y, T, consts) {
				return true, x.Op == token.EQL
			}
		case *ssa.Call:
			// T.AssignableTo(dstType): the typed value may be stored into dstType
			if x.Call.IsInvoke() && isReflectType(x.Call.Value.Type()) && x.Call.Method.Name() == "AssignableTo" && isTypeOperand(x.Call.Value, T, consts) {
				return true, true
			}
		}
		return false, false
	}
}

func c05TypedSetRule(r *core.Run, o *core.O, funcs []*ssa.Function) {
	p := r.P
	consts := typeConstants(funcs)
	var cn []string
	for g, t := range consts {
		cn = append(cn, g.Name()+" = "+types.TypeString(t, nil))
	}
	sort.Strings(cn)
	r.Extra["c05_d7_type_constants"] = cn

	type need struct {
		f     *ssa.Function
		T     types.Type
		chain string
		depth int
	}
	seen := map[string]bool{}
	var work []need
	sets := 0
	for _, f := range funcs {
		for _, in := range core.Instrs(f, core.CallTo("(reflect.Value).Set")) {
			c, ok := in.(*ssa.Call)
			if !ok || len(c.Call.Args) != 2 {
				continue
			}
			T := typedValueOf(c.Call.Args[1])
			if T == nil {
				continue
			}
			sets++
			o.Site(1, core.FuncName(f)+": Set("+types.TypeString(T, nil)+")")
			r.Fn(core.FuncName(f))
			// established inside the function?
			if requiresX(f, func(x ssa.Instruction) bool { return x == in }, typeIsAtom(T, consts)) == nil {
				continue
			}
			// the destination must come from a parameter for the obligation to move to the callers
			dst := core.Forward(c.Call.Args[0])
			if e, ok := dst.(*ssa.Call); ok && !e.Call.IsInvoke() && core.CalleeName(e) == "(reflect.Value).Elem" {
				dst = core.Forward(e.Call.Args[0])
			}
			if pa, _ := rvPath(dst); pa == nil {
				o.Fail(p.InstrPos(in), "%s stores a value of static type %s with reflect.Value.Set into %s, which is not a parameter, and no comparison of the destination's type with %s guards it: Set panics for a destination of any other type", core.FuncName(f), types.TypeString(T, nil), core.Describe(c.Call.Args[0]), types.TypeString(T, nil))
				continue
			}
			k := core.FuncName(f) + "|" + types.TypeString(T, nil)
			if !seen[k] {
				seen[k] = true
				work = append(work, need{f, T, core.FuncName(f), 0})
			}
		}
	}
	if !o.Need(sets > 0, "a reflect.Value.Set of a statically typed value (reflect.ValueOf(x), x of a named type) in "+mapPkg) {
		return
	}
	for len(work) > 0 {
		n := work[0]
		work = work[1:]
		f := n.f
		Ts := types.TypeString(n.T, nil)
		if f.Object() != nil && f.Object().Exported() {
			o.Fail(p.Pos(f.Pos()), "%s is exported and stores a %s into the reflect.Value it is handed without comparing the destination's type with %s (%s)", core.FuncName(f), Ts, Ts, n.chain)
			continue
		}
		sites, esc := callSitesOf(funcs, f)
		if esc {
			o.Fail(p.Pos(f.Pos()), "%s is used as a value; it stores a %s into the reflect.Value it is handed without a type test (%s)", core.FuncName(f), Ts, n.chain)
		}
		for _, cs := range sites {
			g := cs.Parent()
			o.Site(1, core.FuncName(g)+" -> "+core.FuncName(f))
			r.Calls++
			r.Fn(core.FuncName(g))
			if requiresX(g, func(x ssa.Instruction) bool { return x == cs.(ssa.Instruction) }, typeIsAtom(n.T, consts)) == nil {
				continue
			}
			// a caller that hands on its own reflect.Value parameter: its callers owe the test
			handsOn := false
			for j, a := range cs.Common().Args {
				if j < len(f.Params) && isReflectValue(f.Params[j].Type()) {
					if pa, _ := rvPath(a); pa != nil {
						handsOn = true
					}
				}
			}
			if handsOn && n.depth < 4 && !(g.Object() != nil && g.Object().Exported()) {
				if sg, _ := callSitesOf(funcs, g); len(sg) > 0 {
					// only when some caller of g could establish it; otherwise report here
					all := true
					for _, cg := range sg {
						if requiresX(cg.Parent(), func(x ssa.Instruction) bool { return x == cg.(ssa.Instruction) }, typeIsAtom(n.T, consts)) != nil {
							all = false
						}
					}
					if all {
						k := core.FuncName(g) + "|" + Ts
						if !seen[k] {
							seen[k] = true
							work = append(work, need{g, n.T, n.chain + " <- " + core.FuncName(g), n.depth + 1})
						}
						continue
					}
				}
			}
			o.Fail(p.InstrPos(cs), "%s calls %s, which stores a value of static type %s into the reflect.Value it is handed (reflect.Value.Set; chain %s), on a path where the field's type was never compared with %s (a package-level reflect.TypeOf(%s) variable or AssignableTo): a test of the Kind alone also admits every other type of the same underlying kind (an int64 field for time.Duration), for which Set panics instead of an error being returned",
				core.FuncName(g), core.FuncName(f), Ts, n.chain, Ts, Ts)
		}
	}
}

// c05TypedSetters: the functions of funcs that store a statically typed value
// (reflect.ValueOf(x), x of a named type) with reflect.Value.Set into a
// reflect.Value they were handed, and that have a string parameter the value is
// parsed from (fillDurationValue by role).
func c05TypedSetters(funcs []*ssa.Function) []*ssa.Function {
	var out []*ssa.Function
	for _, f := range funcs {
		found := false
		for _, in := range core.Instrs(f, core.CallTo("(reflect.Value).Set")) {
			c, ok := in.(*ssa.Call)
			if ok && len(c.Call.Args) == 2 && typedValueOf(c.Call.Args[1]) != nil {
				found = true
			}
		}
		if !found {
			continue
		}
		for _, pa := range f.Params {
			if b, ok := pa.Type().Underlying().(*types.Basic); ok && b.Kind() == types.String {
				out = append(out, f)
				break
			}
		}
	}
	return out
}

// D4/K2/validated-before-set/typed-from-document
//
// A field with options= accepts only the listed values, whatever its type. The
// typed setters (time.Duration parsed from a string) do not look at the options
// themselves, so every call that hands them a value taken from the document or
// the environment must come after a successful validateValueInOptions for this
// field's options; a default= value (the programmer's own) is exempt.
func c05TypedValidatedRule(r *core.Run, o *core.O, funcs []*ssa.Function) {
	p := r.P
	setters := c05TypedSetters(funcs)
	if !o.Need(len(setters) > 0, "a typed setter (reflect.Value.Set of a named-type value parsed from a string) in "+mapPkg) {
		return
	}
	isValidate := func(in ssa.Instruction) bool {
		c := core.AsCall(in)
		return c != nil && staticCallee(c) != nil && core.Short(core.FuncName(staticCallee(c))) == mapPkg+".validateValueInOptions"
	}
	isDefault := func(v ssa.Value) bool {
		c, i := core.ResultOf(core.Forward(v))
		return c != nil && i == 0 && !c.Call.IsInvoke() && strings.HasSuffix(core.CalleeName(c), "fieldOptionsWithContext).getDefault")
	}
	n := 0
	for _, s := range setters {
		sIdx := -1
		for j, pa := range s.Params {
			if b, ok := pa.Type().Underlying().(*types.Basic); ok && b.Kind() == types.String {
				sIdx = j
			}
		}
		sites, esc := callSitesOf(funcs, s)
		if esc {
			o.Unres("%s is used as a value: its callers cannot be enumerated", core.FuncName(s))
		}
		for _, cs := range sites {
			g := cs.Parent()
			arg := cs.Common().Args[sIdx]
			if core.DependsOn(arg, isDefault) {
				continue // default=: not a document value
			}
			n++
			r.Fn(core.FuncName(g))
			in := cs.(ssa.Instruction)
			if len(core.Calls(g, isValidate)) == 0 {
				o.Fail(p.InstrPos(in), "%s hands a value taken from the document or the environment to %s without running validateValueInOptions: a field with options= accepts a value that is not listed", core.FuncName(g), core.FuncName(s))
				continue
			}
			if w := requiresX(g, core.Is(in), core.ErrNil(0, isValidate)); w != nil {
				o.Fail(p.InstrPos(in), "%s reaches %s on a path on which validateValueInOptions was not run or its error was ignored: a field with options= accepts a value that is not listed", core.FuncName(g), core.FuncName(s))
			}
		}
	}
	o.Site(n, mapPkg+": typed setter calls with a document/environment value")
	if n == 0 {
		o.Unres("no call of a typed setter with a document or environment value found")
	}
}

// D6/K5/shared-containers-stay-private
//
// A package-level map or slice of lib/mapping is shared by every unmarshal of the
// process. If one of them is handed out as a VALUE (converted to an interface,
// stored, passed to a function, returned) it can end up inside a caller's struct -
// `emptyMap` did, for every absent required map[string]any field - and whatever the
// caller writes into its struct then shows up in every later unmarshal: the field no
// longer equals the document's value. Such variables may only be indexed, ranged
// over, measured and updated in place.
func c05SharedContainersRule(r *core.Run, o *core.O, funcs []*ssa.Function) {
	p := r.P
	n := 0
	for _, f := range funcs {
		if f.Name() == "init" && f.Parent() == nil {
			continue
		}
		for _, b := range f.Blocks {
			for _, in := range b.Instrs {
				u, ok := in.(*ssa.UnOp)
				if !ok || u.Op != token.MUL {
					continue
				}
				g, ok := u.X.(*ssa.Global)
				if !ok || g.Pkg != f.Pkg {
					continue
				}
				switch u.Type().Underlying().(type) {
				case *types.Map, *types.Slice:
				default:
					continue
				}
				n++
				var escape func(v ssa.Value, depth int) ssa.Instruction
				escape = func(v ssa.Value, depth int) ssa.Instruction {
					if depth > 4 || v.Referrers() == nil {
						return nil
					}
					for _, ref := range *v.Referrers() {
						switch x := ref.(type) {
						case *ssa.Lookup, *ssa.Range, *ssa.Index, *ssa.IndexAddr, *ssa.DebugRef:
						case *ssa.MapUpdate:
							if x.Map != v {
								return ref // stored as a key or value of another map
							}
						case *ssa.Call:
							if bi, isB := x.Call.Value.(*ssa.Builtin); isB {
								switch bi.Name() {
								case "len", "cap", "delete":
									continue
								case "append":
									// append(shared, …) builds on the shared backing array: escapes through its result
								}
							}
							return ref
						case *ssa.ChangeType:
							if w := escape(x, depth+1); w != nil {
								return w
							}
						case *ssa.Phi:
							if w := escape(x, depth+1); w != nil {
								return w
							}
						case *ssa.Slice:
							if w := escape(x, depth+1); w != nil {
								return w
							}
						default:
							return ref
						}
					}
					return nil
				}
				if w := escape(u, 0); w != nil {
					r.Fn(core.FuncName(f))
					o.Fail(p.InstrPos(w), "%s hands out the package-level %s (a map/slice shared by every unmarshal of the process) as a value: it can become part of a caller's struct, and a write through that struct then changes what later unmarshals produce", core.FuncName(f), g.Name())
				}
			}
		}
	}
	o.Site(n, mapPkg+": reads of package-level maps/slices")
}

// D8/K3/constant-index-within-length
//
// s[k] and s[k:] with a constant k on a slice that an in-package function computed
// (a list of tag segments, of option values ...) panic when the list is shorter. The
// rule demands a dominating test that establishes len(s) > k (for s[k]) or len(s) >= k
// (for s[k:]) in the same function - unless the slice was built right there with a
// sufficient constant length.
func c05ConstIndexRule(r *core.Run, o *core.O, funcs []*ssa.Function) {
	p := r.P
	inPkg := map[*ssa.Function]bool{}
	for _, f := range funcs {
		inPkg[f] = true
	}
	n := 0
	for _, f := range funcs {
		check := func(in ssa.Instruction, s ssa.Value, k int64, strict bool) {
			c, ok := core.Forward(s).(*ssa.Call)
			if !ok {
				return
			}
			callee := staticCallee(c)
			if callee == nil || !inPkg[callee] {
				return
			}
			if _, isSlice := s.Type().Underlying().(*types.Slice); !isSlice {
				return
			}
			n++
			r.Fn(core.FuncName(f))
			need := k
			if strict {
				need = k + 1
			}
			if need <= 0 {
				return
			}
			isList := func(v ssa.Value) bool { return core.Forward(v) == ssa.Value(c) }
			isLen := core.IsLenOf(isList)
			atoms := []core.Atom{gxAtLeast(isLen, need)}
			if need == 1 {
				atoms = append(atoms, core.Not(core.EmptyLen(isList))) // a length is never negative: "not empty" is ">= 1"
			}
			if w := requiresX(f, core.Is(in), atoms...); w != nil {
				o.Fail(p.InstrPos(in), "%s takes element/sub-slice %d of the list returned by %s without a test that the list has at least %d elements: for an input for which the list is shorter (a blank struct tag yields no segments) this panics instead of returning an error", core.FuncName(f), k, core.FuncName(callee), need)
			}
		}
		for _, b := range f.Blocks {
			for _, in := range b.Instrs {
				switch x := in.(type) {
				case *ssa.IndexAddr:
					if k, ok := core.ConstInt(x.Index); ok {
						check(in, x.X, k, true)
					}
				case *ssa.Index:
					if k, ok := core.ConstInt(x.Index); ok {
						check(in, x.X, k, true)
					}
				case *ssa.Slice:
					if x.Low != nil {
						if k, ok := core.ConstInt(x.Low); ok {
							check(in, x.X, k, false)
						}
					}
				}
			}
		}
	}
	o.Site(n, mapPkg+": constant subscripts of computed lists")
	if n == 0 {
		o.Unres("no constant subscript of an in-package function's result found in %s", mapPkg)
	}
}

// D6/K5/memo-key-covers-what-the-value-depends-on
//
// defaultCache memoises the parsed form of a default= text. The parse is chosen by
// the element kind (strings by segments, everything else as JSON), so the memo key
// must depend on the element kind as well as on the text: otherwise the form parsed
// for one field is served to a field of the other kind and its declared default is
// refused with a type mismatch (depending on which struct was unmarshalled first).
func c05MemoKeyRule(r *core.Run, o *core.O, funcs []*ssa.Function) {
	p := r.P
	n := 0
	for _, f := range funcs {
		for _, b := range f.Blocks {
			for _, in := range b.Instrs {
				mu, ok := in.(*ssa.MapUpdate)
				if !ok {
					continue
				}
				ld, ok := core.Forward(mu.Map).(*ssa.UnOp)
				if !ok {
					continue
				}
				g, ok := ld.X.(*ssa.Global)
				if !ok || g.Pkg != f.Pkg {
					continue
				}
				// what decides HOW the stored value is computed: the conditions of the branches between
				// the function entry and this store that test something other than the lookup's outcome
				var conds []ssa.Value
				for _, bb := range f.Blocks {
					iff, ok := gxLast(bb).(*ssa.If)
					if !ok {
						continue
					}
					// only branches that lead to differently computed stored values: both arms must reach the store
					_, r0 := core.Reach(core.Q{From: []core.At{core.Head(bb.Succs[0])}, Target: core.Is(in)})
					_, r1 := core.Reach(core.Q{From: []core.At{core.Head(bb.Succs[1])}, Target: core.Is(in)})
					if !r0 || !r1 {
						continue
					}
					conds = append(conds, iff.Cond)
				}
				n++
				r.Fn(core.FuncName(f))
				for _, c := range conds {
					bo, ok := c.(*ssa.BinOp)
					if !ok {
						continue
					}
					for _, opnd := range []ssa.Value{bo.X, bo.Y} {
						opnd = core.Forward(opnd)
						if _, isConst := opnd.(*ssa.Const); isConst {
							continue
						}
						if core.DependsOn(opnd, func(v ssa.Value) bool { _, isLookup := v.(*ssa.Lookup); return isLookup }) {
							continue // the lookup's own outcome
						}
						if !core.DependsOn(mu.Key, func(v ssa.Value) bool { return core.Forward(v) == opnd }) {
							// the value is computed differently depending on opnd, the key is not
							if valueDependsOnBranch(f, in, c) {
								o.Fail(p.InstrPos(in), "%s memoises a value in the package-level %s under a key that does not depend on %s, although %s decides how the value is computed: the form cached for one kind of field is served to the other", core.FuncName(f), g.Name(), core.Describe(opnd), core.Describe(opnd))
							}
						}
					}
				}
			}
		}
	}
	// Part 2 (round 9, structRequiredCache): data dependence. Whatever parameter the memoised value is
	// computed from must also be an input of the key - judged in the function itself and, for an
	// unexported helper, once more at its in-package call sites (a plain put(key, value) helper passes).
	type memoStore struct {
		in       ssa.Instruction
		key, val ssa.Value
		name     string
	}
	for _, f := range funcs {
		var stores []memoStore
		for _, b := range f.Blocks {
			for _, in := range b.Instrs {
				switch x := in.(type) {
				case *ssa.MapUpdate:
					if ld, ok := core.Forward(x.Map).(*ssa.UnOp); ok {
						if g, ok := ld.X.(*ssa.Global); ok && g.Pkg == f.Pkg {
							stores = append(stores, memoStore{in, x.Key, x.Value, g.Name()})
						}
					}
				case *ssa.Call:
					switch core.CalleeName(x) {
					case "(*sync.Map).Store", "(*sync.Map).LoadOrStore", "(*sync.Map).Swap":
						if g, ok := x.Call.Args[0].(*ssa.Global); ok && g.Pkg == f.Pkg {
							stores = append(stores, memoStore{in, x.Call.Args[1], x.Call.Args[2], g.Name()})
						}
					}
				}
			}
		}
		for _, ms := range stores {
			n++
			r.Fn(core.FuncName(f))
			keySrc, valSrc := c05InputsOf(ms.key), c05InputsOf(ms.val)
			for src := range valSrc {
				if keySrc[src] {
					continue
				}
				if why := c05MemoLift(funcs, f, src, keySrc); why != "" {
					o.Fail(p.InstrPos(ms.in), "%s memoises in the package-level %s a value computed from %s under a key that does not depend on it (%s): the answer computed for the first caller is served to every later caller with another %s (the memo of implicitly required structs was keyed by the type alone although the tag key decides which members count)", core.FuncName(f), ms.name, core.Describe(src), why, core.Describe(src))
				}
			}
		}
	}
	o.Site(n, mapPkg+": stores into package-level memo maps")
}

// c05InputsOf: the parameters and captured variables v is computed from (data dependence through
// operands, φ-nodes, local memory and call arguments).
func c05InputsOf(v ssa.Value) map[ssa.Value]bool {
	out := map[ssa.Value]bool{}
	core.DependsOn(v, func(x ssa.Value) bool {
		switch x.(type) {
		case *ssa.Parameter, *ssa.FreeVar:
			out[x] = true
		}
		return false
	})
	return out
}

// c05MemoLift: src is an input of the memoised value in f that the key does not cover. For an
// unexported function all of whose uses are in-package static calls the question is put once more at
// the call sites: there the actual for src must be computed from inputs of the actuals of the key's
// parameters, or be the same constant everywhere. Returns "" when covered, else where it is not.
func c05MemoLift(funcs []*ssa.Function, f *ssa.Function, src ssa.Value, keySrc map[ssa.Value]bool) string {
	pa, ok := src.(*ssa.Parameter)
	if !ok || pa.Parent() != f || f.Parent() != nil || f.Pkg == nil || (f.Object() != nil && f.Object().Exported()) {
		return "in " + core.FuncName(f)
	}
	sites, esc := callSitesOf(funcs, f)
	if esc || len(sites) == 0 {
		return "in " + core.FuncName(f)
	}
	idx := paramIndex(f, pa)
	var consts []*ssa.Const
	for _, cs := range sites {
		args := cs.Common().Args
		if idx < 0 || idx >= len(args) {
			return "in " + core.FuncName(f)
		}
		actual := core.Forward(args[idx])
		if c, isConst := core.Strip(actual).(*ssa.Const); isConst {
			consts = append(consts, c)
			continue
		}
		covered := map[ssa.Value]bool{}
		for k := range keySrc {
			if kp, isParam := k.(*ssa.Parameter); isParam && kp.Parent() == f {
				if i := paramIndex(f, kp); i >= 0 && i < len(args) {
					for s := range c05InputsOf(args[i]) {
						covered[s] = true
					}
				}
			}
		}
		in := c05InputsOf(actual)
		if len(in) == 0 {
			return "at the call in " + core.FuncName(cs.Parent()) + ", which passes " + core.Describe(actual)
		}
		for s := range in {
			if !covered[s] {
				return "at the call in " + core.FuncName(cs.Parent()) + ", which passes " + core.Describe(actual)
			}
		}
	}
	if len(consts) > 0 && len(consts) != len(sites) {
		return "constant at some call sites only"
	}
	for _, c := range consts[min(1, len(consts)):] {
		if !sameVal(c, consts[0]) {
			return "different constants at different call sites"
		}
	}
	return ""
}

// valueDependsOnBranch: between the branch on cond and the map update in, at least one arm assigns
// (stores or calls) something, i.e. the arms compute the memoised value differently.
func valueDependsOnBranch(f *ssa.Function, in ssa.Instruction, cond ssa.Value) bool {
	for _, bb := range f.Blocks {
		iff, ok := gxLast(bb).(*ssa.If)
		if !ok || iff.Cond != cond {
			continue
		}
		for _, arm := range bb.Succs {
			for _, x := range arm.Instrs {
				if _, isCall := x.(*ssa.Call); isCall {
					return true
				}
			}
		}
	}
	return false
}

// D3/K2/null-accepted-only-when-optional
//
// A field whose document value is null counts as absent. In the functions of
// lib/mapping that test a document value (a value of interface type taken from a
// valueWithParent or handed in as `any`) against nil, success (a nil error) without
// having set the field is returned from the null arm only on the true edge of the
// field's optional() - a required field given null must fail.
func c05NullRule(r *core.Run, o *core.O, funcs []*ssa.Function) {
	p := r.P
	isOptional := core.BoolVal(func(v ssa.Value) bool {
		c, ok := v.(*ssa.Call)
		return ok && !c.Call.IsInvoke() && strings.HasSuffix(core.CalleeName(c), "fieldOptionsWithContext).optional")
	})
	n := 0
	for _, f := range funcs {
		res := f.Signature.Results()
		if res.Len() == 0 || res.At(res.Len()-1).Type().String() != "error" {
			continue
		}
		isDoc := func(v ssa.Value) bool {
			v = core.Forward(v)
			if _, isIface := v.Type().Underlying().(*types.Interface); !isIface {
				return false
			}
			return core.FieldAddrNameOfLoad(v) == "valueWithParent.value"
		}
		null := core.Cmp(token.EQL, isDoc, core.IsNil)
		holds, _ := core.EdgesOf(f, null)
		if len(holds) == 0 {
			continue
		}
		n++
		r.Fn(core.FuncName(f))
		optTrue, _ := core.EdgesOf(f, isOptional)
		nilRet := func(in ssa.Instruction) bool {
			ret, ok := in.(*ssa.Return)
			return ok && core.IsNil(core.Result(ret, len(ret.Results)-1))
		}
		var from []core.At
		for _, e := range holds {
			from = append(from, core.Head(e.To))
		}
		if w, ok := core.Reach(core.Q{From: from, Target: nilRet, Cut: core.CutSet(optTrue)}); ok {
			o.Fail(p.InstrPos(w), "%s accepts a null document value (returns nil without setting the field) on a path on which the field's optional() was not found true: a required field given null is silently left zero", core.FuncName(f))
		}
	}
	o.Site(n, mapPkg+": functions testing a document value against nil")
	if n == 0 {
		o.Unres("no function of %s tests a document value against nil", mapPkg)
	}
}

// D6/K1/fresh-target-per-element
//
// While a container is filled element by element, the reflect.New target that ends
// up in the container (SetMapIndex / Set of an indexed element / append) is created
// once per element: the reflect.New call lies inside the loop that stores it. A
// target hoisted out of the loop makes every pointer element alias one object and
// lets a value element inherit the fields of the previously processed entry.
func c05FreshTargetRule(r *core.Run, o *core.O, funcs []*ssa.Function) {
	p := r.P
	n := 0
	isNew := func(v ssa.Value) *ssa.Call {
		c, ok := v.(*ssa.Call)
		if ok && !c.Call.IsInvoke() && core.CalleeName(c) == "reflect.New" {
			return c
		}
		return nil
	}
	var origin func(v ssa.Value, depth int) *ssa.Call
	origin = func(v ssa.Value, depth int) *ssa.Call {
		v = core.Forward(v)
		if c := isNew(v); c != nil {
			return c
		}
		if depth > 4 {
			return nil
		}
		if c, ok := v.(*ssa.Call); ok && !c.Call.IsInvoke() {
			switch core.CalleeName(c) {
			case "(reflect.Value).Elem", "(reflect.Value).Addr", "(reflect.Value).Convert":
				return origin(c.Call.Args[0], depth+1)
			}
		}
		if ph, ok := v.(*ssa.Phi); ok {
			for _, e := range ph.Edges {
				if c := origin(e, depth+1); c != nil {
					return c
				}
			}
		}
		return nil
	}
	isDirect := core.CallTo("(reflect.Value).SetMapIndex", "(reflect.Value).Set")
	// in-package helpers that store one of their reflect.Value parameters as an element (setMapIndex by role)
	storers := map[*ssa.Function]int{}
	for _, g := range funcs {
		if g.Parent() != nil {
			continue
		}
		for _, in := range core.Instrs(g, isDirect) {
			c, ok := in.(*ssa.Call)
			if !ok {
				continue
			}
			src := core.Forward(c.Call.Args[len(c.Call.Args)-1])
			for j, pa := range g.Params {
				if isReflectValue(pa.Type()) && core.DependsOn(src, func(v ssa.Value) bool { return v == ssa.Value(pa) }) && ssa.Value(pa) != core.Forward(c.Call.Args[0]) {
					storers[g] = j
				}
			}
		}
	}
	for _, f := range funcs {
		for _, in := range core.Instrs(f, func(in ssa.Instruction) bool {
			if isDirect(in) {
				return true
			}
			c := core.AsCall(in)
			if c == nil || staticCallee(c) == nil {
				return false
			}
			_, ok := storers[staticCallee(c)]
			return ok
		}) {
			c, ok := in.(*ssa.Call)
			if !ok {
				continue
			}
			if _, inLoop := core.Reach(core.Q{From: []core.At{core.After(c)}, Target: core.Is(c)}); !inLoop {
				continue
			}
			src := c.Call.Args[len(c.Call.Args)-1]
			if j, viaHelper := storers[staticCallee(c)]; viaHelper && !isDirect(in) {
				src = c.Call.Args[j]
			}
			nw := origin(src, 0)
			if nw == nil || nw.Parent() != f {
				continue
			}
			n++
			r.Fn(core.FuncName(f))
			if _, again := core.Reach(core.Q{From: []core.At{core.After(c)}, Target: core.Is(nw)}); !again {
				o.Fail(p.InstrPos(c), "%s stores, element after element, a target that was allocated once before the loop (%s): every pointer element then aliases one object, and a value element keeps the fields an earlier entry had set", core.FuncName(f), p.InstrPos(nw))
			}
		}
	}
	o.Site(n, mapPkg+": per-element stores of a reflect.New target")
	if n == 0 {
		o.Unres("no per-element store of a reflect.New target found in %s", mapPkg)
	}
}
