package props

// D7/K9/typed-value-set-type-established
//
// reflect.Value.Set(reflect.ValueOf(x)) with x of a static, concrete type T
// panics unless T is assignable to the destination's type; for a named T
// (time.Duration) that means the destination's type IS T: a field of T's
// underlying kind (int64) is not enough. A function of lib/mapping that stores
// such a statically typed value into a reflect.Value it was handed does not know
// the destination's type, so the knowledge must come from a test: the rule
// demands that every path to the Set inside the function, or else every path to
// every in-package call of the function (following callers that hand on their
// own reflect.Value parameter, at most 4 levels), passes the true edge of a
// comparison of a reflect.Type with "the type T" - a package-level variable
// whose only store is reflect.TypeOf(<value of type T>), or reflect.TypeOf(<T>)
// itself - or the true edge of AssignableTo on such an operand. A Kind()
// comparison does not establish it: Kind()==durationType.Kind() is true of every
// int64 field.
//
// Not decided: that the reflect.Type compared and the reflect.Value stored into
// belong to the same field (the (fieldType, value) pairing convention of the
// package).

import (
	"go/token"
	"go/types"
	"sort"

	"godcheck/core"

	"golang.org/x/tools/go/ssa"
)

// typedValueOf: v is reflect.ValueOf(x) with x of a concrete named type; returns that type.
func typedValueOf(v ssa.Value) types.Type {
	c, ok := core.Forward(v).(*ssa.Call)
	if !ok || c.Call.IsInvoke() || core.CalleeName(c) != "reflect.ValueOf" || len(c.Call.Args) != 1 {
		return nil
	}
	mi, ok := core.Forward(c.Call.Args[0]).(*ssa.MakeInterface)
	if !ok {
		return nil
	}
	t := mi.X.Type()
	if _, named := t.(*types.Named); !named || types.IsInterface(t) {
		return nil
	}
	return t
}

// typeConstants: the package-level variables of the given functions' packages whose only
// store anywhere is reflect.TypeOf(<value of static type T>): var → T.
func typeConstants(funcs []*ssa.Function) map[*ssa.Global]types.Type {
	stores := map[*ssa.Global][]ssa.Value{}
	escaped := map[*ssa.Global]bool{}
	seenPkg := map[*ssa.Package]bool{}
	var all []*ssa.Function
	have := map[*ssa.Function]bool{}
	for _, f := range funcs {
		if !have[f] {
			have[f] = true
			all = append(all, f)
		}
	}
	for _, f := range funcs {
		if f.Pkg != nil && !seenPkg[f.Pkg] {
			seenPkg[f.Pkg] = true
			if ini := f.Pkg.Func("init"); ini != nil && !have[ini] {
				have[ini] = true
				all = append(all, ini)
			}
		}
	}
	for _, f := range all {
		for _, b := range f.Blocks {
			for _, in := range b.Instrs {
				if st, ok := in.(*ssa.Store); ok {
					if g, ok := st.Addr.(*ssa.Global); ok {
						stores[g] = append(stores[g], st.Val)
					}
					if g, ok := st.Val.(*ssa.Global); ok {
						escaped[g] = true
					}
					continue
				}
				for _, op := range in.Operands(nil) {
					if g, ok := (*op).(*ssa.Global); ok {
						if u, isLoad := in.(*ssa.UnOp); !isLoad || u.Op != token.MUL {
							escaped[g] = true // address taken
						}
					}
				}
			}
		}
	}
	out := map[*ssa.Global]types.Type{}
	for g, vs := range stores {
		if len(vs) != 1 || escaped[g] {
			continue
		}
		if t := typeOfCall(vs[0]); t != nil {
			out[g] = t
		}
	}
	return out
}

// typeOfCall: v is reflect.TypeOf(<value of concrete static type T>); returns T.
func typeOfCall(v ssa.Value) types.Type {
	c, ok := core.Forward(v).(*ssa.Call)
	if !ok || c.Call.IsInvoke() || core.CalleeName(c) != "reflect.TypeOf" || len(c.Call.Args) != 1 {
		return nil
	}
	mi, ok := core.Forward(c.Call.Args[0]).(*ssa.MakeInterface)
	if !ok || types.IsInterface(mi.X.Type()) {
		return nil
	}
	return mi.X.Type()
}

// isTypeOperand: v denotes "the type T".
func isTypeOperand(v ssa.Value, T types.Type, consts map[*ssa.Global]types.Type) bool {
	v = core.Forward(v)
	if t := typeOfCall(v); t != nil {
		return types.Identical(t, T)
	}
	if u, ok := v.(*ssa.UnOp); ok && u.Op == token.MUL {
		if g, ok := u.X.(*ssa.Global); ok {
			if t, ok := consts[g]; ok {
				return types.Identical(t, T)
			}
		}
	}
	return false
}

// typeIsAtom: a comparison some-reflect.Type == "the type T" (or T.AssignableTo(x) / x == T in either order).
func typeIsAtom(T types.Type, consts map[*ssa.Global]types.Type) core.Atom {
	return func(v ssa.Value) (bool, bool) {
		switch x := v.(type) {
		case *ssa.BinOp:
			if x.Op != token.EQL && x.Op != token.NEQ {
				return false, false
			}
			if !(isReflectType(x.X.Type()) && isReflectType(x.Y.Type())) {
				return false, false
			}
			if isTypeOperand(x.X, T, consts) || isTypeOperand(x.Y, T, consts) {
				return true, x.Op == token.EQL
			}
		case *ssa.Call:
			// T.AssignableTo(dstType): the typed value may be stored into dstType
			if x.Call.IsInvoke() && isReflectType(x.Call.Value.Type()) && x.Call.Method.Name() == "AssignableTo" && isTypeOperand(x.Call.Value, T, consts) {
				return true, true
			}
		}
		return false, false
	}
}

func c05TypedSetRule(r *core.Run, o *core.O, funcs []*ssa.Function) {
	p := r.P
	consts := typeConstants(funcs)
	var cn []string
	for g, t := range consts {
		cn = append(cn, g.Name()+" = "+types.TypeString(t, nil))
	}
	sort.Strings(cn)
	r.Extra["c05_d7_type_constants"] = cn

	type need struct {
		f     *ssa.Function
		T     types.Type
		chain string
		depth int
	}
	seen := map[string]bool{}
	var work []need
	sets := 0
	for _, f := range funcs {
		for _, in := range core.Instrs(f, core.CallTo("(reflect.Value).Set")) {
			c, ok := in.(*ssa.Call)
			if !ok || len(c.Call.Args) != 2 {
				continue
			}
			T := typedValueOf(c.Call.Args[1])
			if T == nil {
				continue
			}
			sets++
			o.Site(1, core.FuncName(f)+": Set("+types.TypeString(T, nil)+")")
			r.Fn(core.FuncName(f))
			// established inside the function?
			if requiresX(f, func(x ssa.Instruction) bool { return x == in }, typeIsAtom(T, consts)) == nil {
				continue
			}
			// the destination must come from a parameter for the obligation to move to the callers
			dst := core.Forward(c.Call.Args[0])
			if e, ok := dst.(*ssa.Call); ok && !e.Call.IsInvoke() && core.CalleeName(e) == "(reflect.Value).Elem" {
				dst = core.Forward(e.Call.Args[0])
			}
			if pa, _ := rvPath(dst); pa == nil {
				o.Fail(p.InstrPos(in), "%s stores a value of static type %s with reflect.Value.Set into %s, which is not a parameter, and no comparison of the destination's type with %s guards it: Set panics for a destination of any other type", core.FuncName(f), types.TypeString(T, nil), core.Describe(c.Call.Args[0]), types.TypeString(T, nil))
				continue
			}
			k := core.FuncName(f) + "|" + types.TypeString(T, nil)
			if !seen[k] {
				seen[k] = true
				work = append(work, need{f, T, core.FuncName(f), 0})
			}
		}
	}
	if !o.Need(sets > 0, "a reflect.Value.Set of a statically typed value (reflect.ValueOf(x), x of a named type) in "+mapPkg) {
		return
	}
	for len(work) > 0 {
		n := work[0]
		work = work[1:]
		f := n.f
		Ts := types.TypeString(n.T, nil)
		if f.Object() != nil && f.Object().Exported() {
			o.Fail(p.Pos(f.Pos()), "%s is exported and stores a %s into the reflect.Value it is handed without comparing the destination's type with %s (%s)", core.FuncName(f), Ts, Ts, n.chain)
			continue
		}
		sites, esc := callSitesOf(funcs, f)
		if esc {
			o.Fail(p.Pos(f.Pos()), "%s is used as a value; it stores a %s into the reflect.Value it is handed without a type test (%s)", core.FuncName(f), Ts, n.chain)
		}
		for _, cs := range sites {
			g := cs.Parent()
			o.Site(1, core.FuncName(g)+" -> "+core.FuncName(f))
			r.Calls++
			r.Fn(core.FuncName(g))
			if requiresX(g, func(x ssa.Instruction) bool { return x == cs.(ssa.Instruction) }, typeIsAtom(n.T, consts)) == nil {
				continue
			}
			// a caller that hands on its own reflect.Value parameter: its callers owe the test
			handsOn := false
			for j, a := range cs.Common().Args {
				if j < len(f.Params) && isReflectValue(f.Params[j].Type()) {
					if pa, _ := rvPath(a); pa != nil {
						handsOn = true
					}
				}
			}
			if handsOn && n.depth < 4 && !(g.Object() != nil && g.Object().Exported()) {
				if sg, _ := callSitesOf(funcs, g); len(sg) > 0 {
					// only when some caller of g could establish it; otherwise report here
					all := true
					for _, cg := range sg {
						if requiresX(cg.Parent(), func(x ssa.Instruction) bool { return x == cg.(ssa.Instruction) }, typeIsAtom(n.T, consts)) != nil {
							all = false
						}
					}
					if all {
						k := core.FuncName(g) + "|" + Ts
						if !seen[k] {
							seen[k] = true
							work = append(work, need{g, n.T, n.chain + " <- " + core.FuncName(g), n.depth + 1})
						}
						continue
					}
				}
			}
			o.Fail(p.InstrPos(cs), "%s calls %s, which stores a value of static type %s into the reflect.Value it is handed (reflect.Value.Set; chain %s), on a path where the field's type was never compared with %s (a package-level reflect.TypeOf(%s) variable or AssignableTo): a test of the Kind alone also admits every other type of the same underlying kind (an int64 field for time.Duration), for which Set panics instead of an error being returned",
				core.FuncName(g), core.FuncName(f), Ts, n.chain, Ts, Ts)
		}
	}
}
