package props

import (
	"fmt"
	"go/token"
	"go/types"
	"sort"
	"strings"

	"godcheck/core"

	"golang.org/x/tools/go/ssa"
)

// ---------------------------------------------------------------------------
// fresh objects

// freshRoot reports whether the access path v is rooted at an object allocated
// in the same function (composite literal / new / local) that is not a spilled
// parameter: a constructor writing the object it is building.
func freshRoot(v ssa.Value) bool {
	for i := 0; i < 16; i++ {
		switch x := v.(type) {
		case *ssa.Alloc:
			n := 0
			var st *ssa.Store
			for _, r := range *x.Referrers() {
				if s, ok := r.(*ssa.Store); ok && s.Addr == x {
					st, n = s, n+1
				}
			}
			if n == 0 {
				return true // the object itself (complit / new T / zero local)
			}
			if n == 1 {
				// a local variable holding a pointer: fresh when the pointer is
				if _, isPtr := st.Val.Type().Underlying().(*types.Pointer); isPtr {
					v = st.Val
					continue
				}
				// a local struct initialised from a value (e.g. `task := <-ch`)
				_, isParam := st.Val.(*ssa.Parameter)
				return !isParam
			}
			return false
		case *ssa.FieldAddr:
			v = x.X
		case *ssa.IndexAddr:
			// element of a slice held in a field of an object under construction
			if ld, ok := x.X.(*ssa.UnOp); ok && ld.Op == token.MUL {
				if fa, ok := ld.X.(*ssa.FieldAddr); ok {
					return freshRoot(fa)
				}
			}
			v = x.X
		case *ssa.UnOp:
			if x.Op != token.MUL {
				return false
			}
			al, ok := x.X.(*ssa.Alloc)
			if !ok {
				return false // loaded from a field / parameter: shared
			}
			v = al
		case *ssa.ChangeType:
			v = x.X
		default:
			return false
		}
	}
	return false
}

// ---------------------------------------------------------------------------
// static intra-package call graph with ownership ("reachable only from")

type edgeKind int

const (
	ekCall  edgeKind = iota // call or defer: runs in the caller's goroutine
	ekSync                  // closure created by the function (not known to run elsewhere)
	ekAsync                 // closure / function started in another goroutine
)

type cgEdge struct {
	from, to *ssa.Function
	kind     edgeKind
	site     ssa.Instruction
}

type pkgGraph struct {
	p       *core.Prog
	funcs   []*ssa.Function
	in      map[*ssa.Function][]cgEdge
	out     map[*ssa.Function][]cgEdge
	escaped map[*ssa.Function]string // used as a value / through an interface: callable from anywhere
	inPkg   map[*ssa.Function]bool
}

// asyncRunners are the callees of this repository that run their function
// argument in a new goroutine (frozen table, confirmed by reading lib/threading).
var asyncRunners = map[string]bool{
	"lib/threading.GoSafe":                  true,
	"(*lib/threading.TaskRunner).Schedule":  true,
	"(*lib/threading.RoutineGroup).Run":     true,
	"(*lib/threading.RoutineGroup).RunSafe": true,
}

// c10Funcs lists the functions of the package whose bodies run as part of it: p.PkgFuncs plus the
// bound-method wrappers (`x.m` used as a function value) into which a program variant has inlined
// the method. Such a wrapper IS the method's body over the captured receiver, but it has no parent
// and belongs to no package, so PkgFuncs does not list it while the method itself is hidden (inlined
// at every use): without this the body would be invisible to every rule that enumerates the package.
func c10Funcs(p *core.Prog, rel string) []*ssa.Function {
	out := append([]*ssa.Function(nil), p.PkgFuncs(rel)...)
	seen := map[*ssa.Function]bool{}
	for _, f := range out {
		seen[f] = true
	}
	for i := 0; i < len(out); i++ {
		for _, b := range out[i].Blocks {
			for _, in := range b.Instrs {
				mc, ok := in.(*ssa.MakeClosure)
				if !ok {
					continue
				}
				if g, ok := mc.Fn.(*ssa.Function); ok && !seen[g] && g.Blocks != nil && inlinedBoundWrapper(g) {
					seen[g] = true
					out = append(out, g)
					// the literals of the inlined method live on as closures of the wrapper
					for _, a := range core.WithAnon(g)[1:] {
						if !seen[a] && a.Blocks != nil {
							seen[a] = true
							out = append(out, a)
						}
					}
				}
			}
		}
	}
	return out
}

func newPkgGraph(p *core.Prog, rel string) *pkgGraph {
	g := &pkgGraph{p: p, funcs: c10Funcs(p, rel), in: map[*ssa.Function][]cgEdge{}, out: map[*ssa.Function][]cgEdge{},
		escaped: map[*ssa.Function]string{}, inPkg: map[*ssa.Function]bool{}}
	for _, f := range g.funcs {
		g.inPkg[f] = true
	}
	add := func(e cgEdge) {
		g.in[e.to] = append(g.in[e.to], e)
		g.out[e.from] = append(g.out[e.from], e)
	}
	// real targets behind a function value (bound-method and thunk wrappers are synthetic)
	var targets func(f *ssa.Function, d int) []*ssa.Function
	targets = func(f *ssa.Function, d int) []*ssa.Function {
		if f == nil || d > 3 {
			return nil
		}
		if g.inPkg[f] {
			return []*ssa.Function{f}
		}
		if f.Synthetic == "" || f.Blocks == nil {
			return nil
		}
		var out []*ssa.Function
		for _, b := range f.Blocks {
			for _, in := range b.Instrs {
				if c, ok := in.(ssa.CallInstruction); ok {
					out = append(out, targets(c.Common().StaticCallee(), d+1)...)
				}
			}
		}
		return out
	}
	for _, f := range g.funcs {
		for _, b := range f.Blocks {
			for _, in := range b.Instrs {
				var callVal ssa.Value
				if c, ok := in.(ssa.CallInstruction); ok {
					cc := c.Common()
					callVal = cc.Value
					kind := ekCall
					if _, isGo := in.(*ssa.Go); isGo {
						kind = ekAsync
					}
					if !cc.IsInvoke() {
						switch v := cc.Value.(type) {
						case *ssa.Function:
							for _, t := range targets(v, 0) {
								add(cgEdge{f, t, kind, in})
							}
						case *ssa.MakeClosure:
							for _, t := range targets(v.Fn.(*ssa.Function), 0) {
								add(cgEdge{f, t, kind, in})
							}
						}
					}
					// function-typed arguments
					async := kind == ekAsync || asyncRunners[core.Short(core.CalleeName(c))]
					for _, a := range cc.Args {
						var fv *ssa.Function
						switch v := a.(type) {
						case *ssa.MakeClosure:
							fv = v.Fn.(*ssa.Function)
						case *ssa.Function:
							fv = v
						}
						if fv == nil {
							continue
						}
						for _, t := range targets(fv, 0) {
							if t.Parent() == f && !async {
								add(cgEdge{f, t, ekSync, in})
							} else if t.Parent() == f {
								add(cgEdge{f, t, ekAsync, in})
							} else {
								g.escaped[t] = "passed as a value in " + core.FuncName(f)
							}
						}
					}
				}
				// any other use of a function value
				for _, op := range in.Operands(nil) {
					if *op == nil || *op == callVal {
						continue
					}
					if c, ok := in.(ssa.CallInstruction); ok {
						isArg := false
						for _, a := range c.Common().Args {
							if a == *op {
								isArg = true
							}
						}
						if isArg {
							continue
						}
					}
					switch v := (*op).(type) {
					case *ssa.Function:
						for _, t := range targets(v, 0) {
							g.escaped[t] = "used as a value in " + core.FuncName(f)
						}
					}
				}
				if mc, ok := in.(*ssa.MakeClosure); ok {
					// a closure that is not (only) the operand of a call/defer/go or a call argument
					direct := true
					for _, r := range *mc.Referrers() {
						if _, isCall := r.(ssa.CallInstruction); !isCall {
							direct = false
						}
					}
					for _, t := range targets(mc.Fn.(*ssa.Function), 0) {
						if direct {
							continue
						}
						if t.Parent() == f {
							add(cgEdge{f, t, ekSync, in}) // stored in a local and called later
						} else {
							g.escaped[t] = "bound as a value in " + core.FuncName(f)
						}
					}
				}
				if mi, ok := in.(*ssa.MakeInterface); ok {
					it, ok := mi.Type().Underlying().(*types.Interface)
					if ok && it.NumMethods() > 0 {
						ms := p.SSA.MethodSets.MethodSet(mi.X.Type())
						for i := 0; i < it.NumMethods(); i++ {
							m := it.Method(i)
							if sel := ms.Lookup(m.Pkg(), m.Name()); sel != nil {
								if fn := p.SSA.MethodValue(sel); fn != nil && g.inPkg[fn] {
									g.escaped[fn] = "reachable through interface " + mi.Type().String()
								}
							}
						}
					}
				}
			}
		}
	}
	return g
}

// ownedBy computes the largest set A of functions that run only on behalf of
// root: root itself, and every unexported, non-escaping function all of whose
// callers are in A (call/defer/synchronous closure), or are constructor-phase
// calls (ctorPhase(edge) true). Functions started with `go` or handed to an
// asynchronous runner are excluded.
func (g *pkgGraph) ownedBy(root *ssa.Function, ctorPhase func(e cgEdge) bool) map[*ssa.Function]bool {
	A := map[*ssa.Function]bool{}
	for _, f := range g.funcs {
		if f == root {
			A[f] = true
			continue
		}
		if _, esc := g.escaped[f]; esc {
			continue
		}
		if f.Parent() == nil && f.Object() != nil && f.Object().Exported() {
			continue
		}
		if len(g.in[f]) == 0 {
			continue
		}
		A[f] = true
	}
	for changed := true; changed; {
		changed = false
		for _, f := range g.funcs {
			if !A[f] || f == root {
				continue
			}
			for _, e := range g.in[f] {
				ok := false
				switch {
				case e.kind == ekAsync:
				case ctorPhase != nil && ctorPhase(e):
					ok = true
				case A[e.from]:
					ok = true
				}
				if !ok {
					delete(A, f)
					changed = true
					break
				}
			}
		}
	}
	return A
}

// whyNotOwned explains the exclusion of f.
func (g *pkgGraph) whyNotOwned(f *ssa.Function, A map[*ssa.Function]bool) string {
	if why, esc := g.escaped[f]; esc {
		return why
	}
	if f.Parent() == nil && f.Object() != nil && f.Object().Exported() {
		return "exported: callable from any goroutine"
	}
	for _, e := range g.in[f] {
		if e.kind == ekAsync {
			return "started in another goroutine at " + g.p.InstrPos(e.site)
		}
		if !A[e.from] {
			return "called from " + core.FuncName(e.from) + " (" + g.whyNotOwned2(e.from) + ")"
		}
	}
	if len(g.in[f]) == 0 {
		return "no caller found"
	}
	return "?"
}

func (g *pkgGraph) whyNotOwned2(f *ssa.Function) string {
	if why, esc := g.escaped[f]; esc {
		return why
	}
	if f.Parent() == nil && f.Object() != nil && f.Object().Exported() {
		return "exported"
	}
	return "not owner-only"
}

// reachableSync lists functions reachable from f through call/sync edges.
func (g *pkgGraph) reachableSync(f *ssa.Function) []*ssa.Function {
	seen := map[*ssa.Function]bool{}
	var out []*ssa.Function
	var walk func(x *ssa.Function)
	walk = func(x *ssa.Function) {
		if x == nil || seen[x] {
			return
		}
		seen[x] = true
		out = append(out, x)
		for _, e := range g.out[x] {
			if e.kind != ekAsync {
				walk(e.to)
			}
		}
	}
	walk(f)
	return out
}

// mayStoreField: functions that (transitively, any edge kind) store to field "T.f".
func (g *pkgGraph) mayStoreField(tf string) map[*ssa.Function]bool {
	m := map[*ssa.Function]bool{}
	for _, f := range g.funcs {
		if len(core.StoresToField(f, tf)) > 0 {
			m[f] = true
		}
	}
	for changed := true; changed; {
		changed = false
		for _, f := range g.funcs {
			if m[f] {
				continue
			}
			for _, e := range g.out[f] {
				if m[e.to] {
					m[f] = true
					changed = true
					break
				}
			}
		}
	}
	return m
}

// ---------------------------------------------------------------------------
// K7 interval rule with symbolic N (C10-D5)

// linForm is c0 + cN·N + Σ c[a]·a over named atoms, integer coefficients.
type linForm struct {
	c0, cN int64
	c      map[string]int64
}

func (l linForm) String() string {
	var parts []string
	var ks []string
	for k := range l.c {
		ks = append(ks, k)
	}
	sort.Strings(ks)
	if l.cN != 0 {
		parts = append(parts, fmt.Sprintf("%d·N", l.cN))
	}
	for _, k := range ks {
		if l.c[k] != 0 {
			parts = append(parts, fmt.Sprintf("%d·%s", l.c[k], k))
		}
	}
	if l.c0 != 0 || len(parts) == 0 {
		parts = append(parts, fmt.Sprint(l.c0))
	}
	return strings.Join(parts, " + ")
}

func (l linForm) add(m linForm, k int64) linForm {
	r := linForm{c0: l.c0 + k*m.c0, cN: l.cN + k*m.cN, c: map[string]int64{}}
	for a, v := range l.c {
		r.c[a] = v
	}
	for a, v := range m.c {
		r.c[a] += k * v
		if r.c[a] == 0 {
			delete(r.c, a)
		}
	}
	return r
}

func (l linForm) neg() linForm { return linForm{c: map[string]int64{}}.add(l, -1) }

// polyToLin converts a polynomial that is linear with integer coefficients.
func polyToLin(p core.Poly, nName string) (linForm, bool) {
	l := linForm{c: map[string]int64{}}
	for mono, c := range p {
		if !c.IsInt() || !c.Num().IsInt64() {
			return l, false
		}
		v := c.Num().Int64()
		switch {
		case mono == "":
			l.c0 = v
		case mono == nName:
			l.cN = v
		case strings.Contains(mono, "*"):
			return l, false
		default:
			l.c[mono] = v
		}
	}
	return l, true
}

// boundedAbove decides  e ≤ 0  for every N ≥ 1 and every assignment of the
// ranged atoms in [0, N−1]: with e = c0 + cN·N + Σ ci·xi the maximum over the box
// is (cN + Σ⁺ci)·N + (c0 − Σ⁺ci), linear in N.
func boundedAbove(e linForm, ranged map[string]bool) bool {
	alpha, beta := e.cN, e.c0
	for a, c := range e.c {
		if c == 0 {
			continue
		}
		if !ranged[a] {
			return false
		}
		if c > 0 {
			alpha += c
			beta -= c
		}
	}
	return alpha <= 0 && alpha+beta <= 0
}

// proveLE0 searches multipliers λ ≥ 0 such that h + Σ λj·gj ≤ 0 on the box for
// all N ≥ 1, given the facts gj ≥ 0 (Farkas certificate; sound, not complete).
func proveLE0(h linForm, facts []linForm, ranged map[string]bool) bool {
	if len(facts) > 4 {
		facts = facts[:4]
	}
	lam := make([]int64, len(facts))
	var rec func(i int) bool
	rec = func(i int) bool {
		if i == len(facts) {
			e := h
			for j, f := range facts {
				if lam[j] != 0 {
					e = e.add(f, lam[j])
				}
			}
			return boundedAbove(e, ranged)
		}
		for _, l := range []int64{0, 1, 2, 3} {
			lam[i] = l
			if rec(i + 1) {
				return true
			}
		}
		return false
	}
	return rec(0)
}

// findWitness enumerates N = 1..maxN and all integer assignments of the ranged
// atoms in [0, N−1] satisfying the facts, and returns one where f ∉ [0, N−1].
func findWitness(f linForm, facts []linForm, ranged map[string]bool, maxN int64) (string, bool) {
	set := map[string]bool{}
	for a := range f.c {
		set[a] = true
	}
	for _, g := range facts {
		for a := range g.c {
			set[a] = true
		}
	}
	var atoms []string
	for a := range set {
		if !ranged[a] {
			return "", false
		}
		atoms = append(atoms, a)
	}
	sort.Strings(atoms)
	if len(atoms) > 6 {
		return "", false
	}
	eval := func(l linForm, n int64, val map[string]int64) int64 {
		s := l.c0 + l.cN*n
		for a, c := range l.c {
			s += c * val[a]
		}
		return s
	}
	best := ""
	for n := int64(1); n <= maxN; n++ {
		val := map[string]int64{}
		var rec func(i int) bool
		rec = func(i int) bool {
			if i == len(atoms) {
				for _, g := range facts {
					if eval(g, n, val) < 0 {
						return false
					}
				}
				v := eval(f, n, val)
				if v < 0 || v > n-1 {
					var ps []string
					for _, a := range atoms {
						ps = append(ps, fmt.Sprintf("%s=%d", a, val[a]))
					}
					best = fmt.Sprintf("numSlots=%d, %s gives %d (allowed 0..%d)", n, strings.Join(ps, ", "), v, n-1)
					return true
				}
				return false
			}
			for x := int64(0); x < n; x++ {
				val[atoms[i]] = x
				if rec(i + 1) {
					return true
				}
			}
			return false
		}
		if rec(0) && n >= 2 {
			return best, true
		}
	}
	return best, best != ""
}

// slotAlg names the atoms of slot arithmetic: N for loads of
// TimingWheel.numSlots, m<i> for values known to lie in [0, N−1].
type slotAlg struct {
	g        *pkgGraph
	names    map[string]string // descriptor -> atom name
	descr    map[string]string // atom name -> human descriptor
	loads    map[string][]ssa.Instruction
	memField map[string]string // atom name -> "T.f" when the atom is a memory load
	posOK    bool              // positionEntry.pos is only ever stored a slot value
	depth    int
}

func isNumSlotsLoad(v ssa.Value) bool { return core.IsFieldLoad(v, "TimingWheel.numSlots") }

// isSlotValue: v is known to lie in [0, numSlots−1] (non-negative dividends assumed).
func (s *slotAlg) isSlotValue(v ssa.Value) bool {
	if s.depth > 8 {
		return false
	}
	s.depth++
	defer func() { s.depth-- }()
	v = core.Forward(v)
	switch x := v.(type) {
	case *ssa.BinOp:
		return x.Op == token.REM && isNumSlotsLoad(x.Y)
	case *ssa.Convert:
		if isIntType(x.X.Type()) && isIntType(x.Type()) {
			return s.isSlotValue(x.X)
		}
	case *ssa.ChangeType:
		return s.isSlotValue(x.X)
	case *ssa.Phi:
		for _, e := range x.Edges {
			if !s.isSlotValue(e) {
				return false
			}
		}
		return len(x.Edges) > 0
	case *ssa.UnOp:
		if x.Op == token.MUL && core.FieldAddrName(x.X) == "positionEntry.pos" {
			return s.posOK
		}
	case *ssa.Extract:
		if c, ok := x.Tuple.(*ssa.Call); ok {
			return s.resultIsSlot(c, x.Index)
		}
	case *ssa.Call:
		return s.resultIsSlot(x, 0)
	case *ssa.Parameter:
		return s.paramIsSlot(x)
	}
	return false
}

func isIntType(t types.Type) bool {
	b, ok := t.Underlying().(*types.Basic)
	return ok && b.Info()&types.IsInteger != 0
}

func (s *slotAlg) resultIsSlot(c *ssa.Call, idx int) bool {
	callee := c.Call.StaticCallee()
	if callee == nil || !s.g.inPkg[callee] {
		return false
	}
	rets := core.Returns(callee)
	if len(rets) == 0 {
		return false
	}
	for _, r := range rets {
		if idx >= len(r.Results) || !s.isSlotValue(core.Result(r, idx)) {
			return false
		}
	}
	return true
}

// paramIsSlot: every static call of the (unexported, non-escaping) function passes a slot value.
func (s *slotAlg) paramIsSlot(pa *ssa.Parameter) bool {
	f := pa.Parent()
	if !s.g.inPkg[f] {
		return false
	}
	if _, esc := s.g.escaped[f]; esc || (f.Object() != nil && f.Object().Exported()) {
		return false
	}
	idx := -1
	for i, q := range f.Params {
		if q == pa {
			idx = i
		}
	}
	n := 0
	for _, e := range s.g.in[f] {
		c, ok := e.site.(ssa.CallInstruction)
		if !ok || c.Common().StaticCallee() != f || idx >= len(c.Common().Args) {
			return false
		}
		if !s.isSlotValue(c.Common().Args[idx]) {
			return false
		}
		n++
	}
	return n > 0
}

func (s *slotAlg) atom(v ssa.Value, prefix string) string {
	d := core.Describe(core.Forward(v))
	if c, i := core.ResultOf(core.Forward(v)); c != nil {
		d = fmt.Sprintf("%s#%d@%s", core.Short(core.CalleeName(c)), i, s.g.p.InstrPos(c))
	}
	key := prefix + ":" + d
	if n, ok := s.names[key]; ok {
		return n
	}
	n := fmt.Sprintf("%s%d", prefix, len(s.names)+1)
	s.names[key] = n
	s.descr[n] = d
	return n
}

// alg builds the normaliser: slot values are opaque atoms m<i>, numSlots is N.
func (s *slotAlg) alg() *core.Alg {
	return &core.Alg{
		Opaque: func(v ssa.Value) bool {
			return s.isSlotValue(v) || isNumSlotsLoad(v)
		},
		Name: func(v ssa.Value) string {
			if isNumSlotsLoad(v) {
				return "N"
			}
			if s.isSlotValue(v) {
				n := s.atom(v, "m")
				if ld, ok := core.Forward(v).(*ssa.UnOp); ok && ld.Op == token.MUL {
					s.loads[n] = append(s.loads[n], ld)
					s.memField[n] = core.FieldAddrName(ld.X)
				}
				return n
			}
			return s.atom(v, "u")
		},
	}
}

func (s *slotAlg) ranged() map[string]bool {
	m := map[string]bool{}
	for _, n := range s.names {
		if strings.HasPrefix(n, "m") {
			m[n] = true
		}
	}
	return m
}

// norm gives the linear form of an integer SSA value.
func (s *slotAlg) norm(v ssa.Value) (linForm, bool) {
	return polyToLin(s.alg().Norm(v), "N")
}

// factsAt collects the integer comparisons that hold whenever control reaches
// `at` (the branch block dominates it and `at` is unreachable from the other
// arm without re-evaluating the branch), as linear facts g ≥ 0.
func (s *slotAlg) factsAt(fn *ssa.Function, at ssa.Instruction) (facts []linForm, text []string, conds []*ssa.If) {
	for _, b := range fn.Blocks {
		iff, ok := b.Instrs[len(b.Instrs)-1].(*ssa.If)
		if !ok || b.Succs[0] == b.Succs[1] {
			continue
		}
		cmp, ok := iff.Cond.(*ssa.BinOp)
		if !ok || !isIntType(cmp.X.Type()) {
			continue
		}
		if !b.Dominates(at.Block()) || b == at.Block() {
			continue
		}
		for arm := 0; arm < 2; arm++ {
			other := b.Succs[1-arm]
			// b dominates `at`, so every path to `at` evaluates the branch; if `at` cannot be
			// reached from the other arm without re-evaluating it, the latest evaluation took `arm`
			if _, reach := core.Reach(core.Q{From: []core.At{core.Head(other)}, Target: core.Is(at), Blocked: core.Is(iff)}); reach {
				continue
			}
			if _, r2 := core.Reach(core.Q{From: []core.At{core.Head(b.Succs[arm])}, Target: core.Is(at), Blocked: core.Is(iff)}); !r2 {
				continue
			}
			x, okx := s.norm(cmp.X)
			y, oky := s.norm(cmp.Y)
			if !okx || !oky {
				continue
			}
			op := cmp.Op
			if arm == 1 {
				op = negCmp(op)
			}
			var g linForm
			switch op {
			case token.GTR: // x > y  ⇒ x − y − 1 ≥ 0
				g = x.add(y, -1)
				g.c0--
			case token.GEQ:
				g = x.add(y, -1)
			case token.LSS:
				g = y.add(x, -1)
				g.c0--
			case token.LEQ:
				g = y.add(x, -1)
			case token.EQL:
				facts = append(facts, x.add(y, -1), y.add(x, -1))
				text = append(text, fmt.Sprintf("%s == 0", x.add(y, -1)))
				conds = append(conds, iff, iff)
				continue
			default:
				continue
			}
			facts = append(facts, g)
			text = append(text, fmt.Sprintf("%s ≥ 0", g))
			conds = append(conds, iff)
		}
	}
	return
}

func negCmp(op token.Token) token.Token {
	switch op {
	case token.LSS:
		return token.GEQ
	case token.GEQ:
		return token.LSS
	case token.GTR:
		return token.LEQ
	case token.LEQ:
		return token.GTR
	case token.EQL:
		return token.NEQ
	case token.NEQ:
		return token.EQL
	}
	return token.ILLEGAL
}

// memStable reports whether no write to the memory atoms' fields can happen
// between their loads and the site (so that all loads denote one value).
func (s *slotAlg) memStable(fn *ssa.Function, atoms map[string]bool, site ssa.Instruction) (string, bool) {
	for a := range atoms {
		tf, isMem := s.memField[a]
		if !isMem || tf == "" {
			continue
		}
		writers := s.g.mayStoreField(tf)
		killer := func(in ssa.Instruction) bool {
			if core.IsStoreToField(tf)(in) {
				return true
			}
			c, ok := in.(ssa.CallInstruction)
			if !ok {
				return false
			}
			if _, isGo := in.(*ssa.Go); isGo {
				return false
			}
			callee := c.Common().StaticCallee()
			if callee != nil {
				return s.g.inPkg[callee] && writers[callee]
			}
			if _, isB := c.Common().Value.(*ssa.Builtin); isB {
				return false
			}
			return true // dynamic call: may re-enter the package
		}
		for _, ld := range s.loads[a] {
			if ld.Parent() != fn {
				continue
			}
			// a killer k with  load → k → site
			var bad ssa.Instruction
			core.Reach(core.Q{From: []core.At{core.After(ld)}, Blocked: core.Is(site), Target: func(in ssa.Instruction) bool {
				if bad == nil && killer(in) {
					if _, ok := core.Reach(core.Q{From: []core.At{core.After(in)}, Target: core.Is(site)}); ok {
						bad = in
					}
				}
				return false
			}})
			if bad != nil {
				return fmt.Sprintf("%s may be rewritten at %s between its load and the store", s.descr[a], s.g.p.InstrPos(bad)), false
			}
		}
	}
	return "", true
}

// ---------------------------------------------------------------------------
// guard evaluation under facts about two arguments (C10-D1 arg-guard)

// argFacts fixes what is known about the key (kind 1) and delay (kind 2)
// arguments: key == nil, delay <= 0 (nil pointer = unknown).
type argFacts struct {
	kind                func(v ssa.Value) int
	keyNil, delayNonPos *bool
}

const (
	tvUnknown = iota
	tvTrue
	tvFalse
)

func tvOf(b bool) int {
	if b {
		return tvTrue
	}
	return tvFalse
}

func tvNot(t int) int {
	switch t {
	case tvTrue:
		return tvFalse
	case tvFalse:
		return tvTrue
	}
	return tvUnknown
}

// evalCmp evaluates a comparison of the key with nil or of the delay with 0/1.
func (fa argFacts) evalCmp(b *ssa.BinOp) int {
	x, y, op := b.X, b.Y, b.Op
	if fa.kind(y) != 0 && fa.kind(x) == 0 {
		x, y, op = y, x, f10FlipCmp(op)
	}
	switch fa.kind(x) {
	case 1:
		if !core.IsNil(y) || fa.keyNil == nil {
			return tvUnknown
		}
		switch op {
		case token.EQL:
			return tvOf(*fa.keyNil)
		case token.NEQ:
			return tvOf(!*fa.keyNil)
		}
	case 2:
		k, ok := core.ConstInt(y)
		if !ok || fa.delayNonPos == nil {
			return tvUnknown
		}
		// integer normalisation: x < 1 ≡ x <= 0, x >= 1 ≡ x > 0
		if k == 1 && op == token.LSS {
			k, op = 0, token.LEQ
		} else if k == 1 && op == token.GEQ {
			k, op = 0, token.GTR
		}
		if k != 0 {
			return tvUnknown
		}
		np := *fa.delayNonPos
		switch op {
		case token.LEQ:
			return tvOf(np)
		case token.GTR:
			return tvOf(!np)
		case token.LSS, token.EQL: // delay > 0 refutes both; delay <= 0 decides neither
			if !np {
				return tvFalse
			}
		case token.GEQ, token.NEQ:
			if !np {
				return tvTrue
			}
		}
	}
	return tvUnknown
}

func f10FlipCmp(op token.Token) token.Token {
	switch op {
	case token.LSS:
		return token.GTR
	case token.GTR:
		return token.LSS
	case token.LEQ:
		return token.GEQ
	case token.GEQ:
		return token.LEQ
	}
	return op
}

// evalBool evaluates boolean v at the end of block blk reached from pred.
func (g *pkgGraph) evalBool(v ssa.Value, blk, pred *ssa.BasicBlock, fa argFacts, depth int) int {
	if depth > 6 {
		return tvUnknown
	}
	switch x := v.(type) {
	case *ssa.Const:
		if x.Value != nil && (x.Value.String() == "true" || x.Value.String() == "false") {
			return tvOf(x.Value.String() == "true")
		}
	case *ssa.UnOp:
		if x.Op == token.NOT {
			return tvNot(g.evalBool(x.X, blk, pred, fa, depth+1))
		}
	case *ssa.BinOp:
		return fa.evalCmp(x)
	case *ssa.Phi:
		if x.Block() != blk || pred == nil {
			return tvUnknown
		}
		idx, n := -1, 0
		for i, q := range blk.Preds {
			if q == pred {
				idx, n = i, n+1
			}
		}
		if n != 1 {
			return tvUnknown
		}
		return g.evalBool(x.Edges[idx], pred, nil, fa, depth+1)
	case *ssa.Call:
		callee := x.Call.StaticCallee()
		if callee == nil || !g.inPkg[callee] || callee.Signature.Results().Len() != 1 {
			return tvUnknown
		}
		// facts about the callee's parameters
		kinds := map[*ssa.Parameter]int{}
		for i, pa := range callee.Params {
			if i < len(x.Call.Args) {
				kinds[pa] = fa.kind(x.Call.Args[i])
			}
		}
		sub := argFacts{keyNil: fa.keyNil, delayNonPos: fa.delayNonPos, kind: func(v ssa.Value) int {
			pa, ok := core.Strip(core.Forward(core.Strip(v))).(*ssa.Parameter)
			if !ok {
				return 0
			}
			return kinds[pa]
		}}
		res := map[int]bool{}
		g.reachUnderD(callee, sub, depth+1, func(in ssa.Instruction, blk, pred *ssa.BasicBlock) bool {
			if ret, ok := in.(*ssa.Return); ok && len(ret.Results) == 1 {
				res[g.evalBool(ret.Results[0], blk, pred, sub, depth+1)] = true
			}
			return false
		})
		if len(res) == 1 {
			for k := range res {
				return k
			}
		}
	}
	return tvUnknown
}

// reachUnder walks the paths of fn from its entry that are feasible under the
// facts; visit is called for every instruction on them and stops a path by
// returning true.
func (g *pkgGraph) reachUnder(fn *ssa.Function, fa argFacts, visit func(in ssa.Instruction) bool) {
	g.reachUnderD(fn, fa, 0, func(in ssa.Instruction, _, _ *ssa.BasicBlock) bool { return visit(in) })
}

func (g *pkgGraph) reachUnderD(fn *ssa.Function, fa argFacts, depth int, visit func(in ssa.Instruction, blk, pred *ssa.BasicBlock) bool) {
	type st struct{ b, pred *ssa.BasicBlock }
	seen := map[st]bool{}
	work := []st{{fn.Blocks[0], nil}}
	for len(work) > 0 {
		s := work[len(work)-1]
		work = work[:len(work)-1]
		if seen[s] {
			continue
		}
		seen[s] = true
		stopped := false
		for _, in := range s.b.Instrs {
			if visit(in, s.b, s.pred) {
				stopped = true
				break
			}
		}
		if stopped {
			continue
		}
		if iff, ok := s.b.Instrs[len(s.b.Instrs)-1].(*ssa.If); ok {
			switch g.evalBool(iff.Cond, s.b, s.pred, fa, depth) {
			case tvTrue:
				work = append(work, st{s.b.Succs[0], s.b})
				continue
			case tvFalse:
				work = append(work, st{s.b.Succs[1], s.b})
				continue
			}
		}
		for _, n := range s.b.Succs {
			work = append(work, st{n, s.b})
		}
	}
}

// hasEffects: f, or a function it reaches synchronously inside the package,
// sends, selects, starts a goroutine, or stores to / updates shared memory.
func (g *pkgGraph) hasEffects(f *ssa.Function) bool {
	for _, h := range g.reachableSync(f) {
		for _, b := range h.Blocks {
			for _, in := range b.Instrs {
				switch x := in.(type) {
				case *ssa.Select, *ssa.Send, *ssa.Go, *ssa.MapUpdate:
					return true
				case *ssa.Store:
					if !freshRoot(x.Addr) {
						return true
					}
				}
			}
		}
		for _, e := range g.out[h] {
			if e.kind == ekAsync {
				return true
			}
		}
	}
	return false
}

// ---------------------------------------------------------------------------
// the list(s) a function walks (C10-D4 tick-advance when the scan is not a separate function)

type c10Walk struct {
	at   ssa.Instruction // the call that takes the first element (List.Front / List.Back)
	list ssa.Value       // its receiver
}

// c10WalkedLists resolves, for every `x.Value.(*timingEntry)` of fn, where the element x comes from:
// through φ-nodes, local slots and Element.Next/Prev back to the List.Front/Back calls that seed
// the walk. ok is false when an element has another origin (parameter, field, unknown call).
func c10WalkedLists(fn *ssa.Function) (walks []c10Walk, ok bool) {
	ok = true
	seen := map[ssa.Value]bool{}
	have := map[ssa.Instruction]bool{}
	var trace func(v ssa.Value, d int)
	trace = func(v ssa.Value, d int) {
		v = core.Forward(v)
		if seen[v] {
			return
		}
		seen[v] = true
		if d > 12 {
			ok = false
			return
		}
		switch x := v.(type) {
		case *ssa.Phi:
			for _, e := range x.Edges {
				trace(e, d+1)
			}
		case *ssa.Call:
			switch core.Short(core.CalleeName(x)) {
			case "(*container/list.Element).Next", "(*container/list.Element).Prev":
				trace(core.Args(x)[0], d+1)
			case "(*container/list.List).Front", "(*container/list.List).Back":
				if !have[x] {
					have[x] = true
					walks = append(walks, c10Walk{x, core.Args(x)[0]})
				}
			default:
				ok = false
			}
		case *ssa.Const:
			if !x.IsNil() {
				ok = false
			}
		default:
			ok = false
		}
	}
	for _, in := range core.Instrs(fn, func(in ssa.Instruction) bool {
		ta, isTA := in.(*ssa.TypeAssert)
		return isTA && strings.HasSuffix(ta.AssertedType.String(), ".timingEntry")
	}) {
		ld, isLd := core.Forward(in.(*ssa.TypeAssert).X).(*ssa.UnOp)
		if !isLd || ld.Op != token.MUL {
			ok = false
			continue
		}
		fa, isFA := ld.X.(*ssa.FieldAddr)
		if !isFA || core.FieldAddrName(fa) != "Element.Value" {
			ok = false
			continue
		}
		trace(fa.X, 0)
	}
	return walks, ok
}

// c10FullRange: idx runs over 0..bound-1 in steps of one, bound satisfying isBound:
// the induction variable of a `range` loop (φ(-1, i)+1 tested `< bound`), of a counted
// loop (φ(0, i+1) tested `< bound`), or such a variable rotated as (c + i) % bound.
// Returns "" when it does, else the reason.
func c10FullRange(idx ssa.Value, isBound func(ssa.Value) bool) string {
	idx = core.Forward(idx)
	if b, ok := idx.(*ssa.BinOp); ok && b.Op == token.REM && isBound(b.Y) {
		if s, ok := core.Forward(b.X).(*ssa.BinOp); ok && s.Op == token.ADD {
			if c10FullRange(s.X, isBound) == "" || c10FullRange(s.Y, isBound) == "" {
				return ""
			}
		}
		return "the index is not (offset + i) % bound for an i running over all slots"
	}
	boundedBy := func(v ssa.Value, blk *ssa.BasicBlock) bool {
		if blk == nil || len(blk.Instrs) == 0 {
			return false
		}
		iff, ok := blk.Instrs[len(blk.Instrs)-1].(*ssa.If)
		if !ok {
			return false
		}
		c, ok := iff.Cond.(*ssa.BinOp)
		if !ok {
			return false
		}
		switch c.Op {
		case token.LSS:
			return c.X == v && isBound(c.Y)
		case token.GTR:
			return c.Y == v && isBound(c.X)
		case token.NEQ:
			return (c.X == v && isBound(c.Y)) || (c.Y == v && isBound(c.X))
		}
		return false
	}
	isOne := func(v ssa.Value) bool { n, ok := core.ConstInt(v); return ok && n == 1 }
	// range shape: idx = φ(-1, idx) + 1
	if b, ok := idx.(*ssa.BinOp); ok && b.Op == token.ADD && isOne(b.Y) {
		if phi, ok := b.X.(*ssa.Phi); ok && len(phi.Edges) == 2 {
			init, back := phi.Edges[0], phi.Edges[1]
			if back != ssa.Value(b) {
				init, back = back, init
			}
			if n, isC := core.ConstInt(init); back == ssa.Value(b) && isC {
				if n != -1 {
					return "the loop starts at " + core.Describe(init) + "+1, not at slot 0"
				}
				if !boundedBy(b, b.Block()) {
					return "the loop is not bounded by `< len(slots)` / `< numSlots`"
				}
				return ""
			}
		}
	}
	// counted shape: idx = φ(0, idx+1)
	if phi, ok := idx.(*ssa.Phi); ok && len(phi.Edges) == 2 {
		for k := 0; k < 2; k++ {
			init, back := phi.Edges[k], core.Forward(phi.Edges[1-k])
			n, isC := core.ConstInt(init)
			inc, isInc := back.(*ssa.BinOp)
			if !isC || !isInc || inc.Op != token.ADD || inc.X != ssa.Value(phi) || !isOne(inc.Y) {
				continue
			}
			if n != 0 {
				return "the loop starts at slot " + core.Describe(init) + ", not at slot 0"
			}
			if !boundedBy(phi, phi.Block()) {
				return "the loop is not bounded by `< len(slots)` / `< numSlots`"
			}
			return ""
		}
	}
	return "the index is not the induction variable of a loop over all slots"
}
