package props

import (
	"go/constant"
	"go/token"
	"go/types"
	"strings"

	"godcheck/core"

	"golang.org/x/tools/go/ssa"
)

// Helpers of the C15 table added in robustness round 4: watch events dispatched
// through a constant table of handlers instead of a switch over the event type.
//
// A dispatch is a call, in a function that receives watch events, of a function
// VALUE that is read from a package-level table at the index (or key) event.Type
// and that is handed that event. The table must be a constant (c20Consts: an
// unexported package-level variable built once in the package initialiser from a
// literal of functions, only read everywhere else). The handler that runs for an
// event of type k is then the table's entry k – decided by evaluating the table, and
// the guards in front of the call, for the concrete k (core.ConcreteCut): nothing is
// matched against how the lookup is spelled.

// c15Dispatch is one such call.
type c15Dispatch struct {
	fn       *ssa.Function
	call     ssa.CallInstruction
	table    *c20Agg
	typeLoad ssa.Value // the load of Event.Type that selects the entry
}

// c15Handler is the function behind a table entry together with what its parameters
// denote at the dispatching call.
type c15Handler struct {
	fn   *ssa.Function
	bind map[*ssa.Parameter]ssa.Value
}

func c15IsEventPtr(t types.Type) bool {
	s := t.String()
	return strings.HasPrefix(s, "*") && strings.HasSuffix(s, "client/v3.Event")
}

// c15Dispatches finds the dispatching calls of f. why != "" when f calls a function
// value with an event but the value cannot be traced to a constant table.
func c15Dispatches(f *ssa.Function, consts *c20Consts) (out []c15Dispatch, why string) {
	for _, in := range core.Instrs(f, func(in ssa.Instruction) bool { return core.AsCall(in) != nil }) {
		c := core.AsCall(in)
		cc := c.Common()
		if cc.IsInvoke() {
			continue
		}
		switch cc.Value.(type) {
		case *ssa.Function, *ssa.MakeClosure, *ssa.Builtin:
			continue
		}
		hasEvent := false
		for _, a := range cc.Args {
			if c15IsEventPtr(a.Type()) {
				hasEvent = true
			}
		}
		if !hasEvent {
			continue
		}
		var g *ssa.Global
		var idx ssa.Value
		bad := ""
		for _, l := range gxPhiLeaves(core.Forward(cc.Value)) {
			l = core.Forward(l)
			if ct, ok := l.(*ssa.ChangeType); ok {
				l = core.Forward(ct.X)
			}
			if core.IsNil(l) {
				continue
			}
			var tg *ssa.Global
			var ti ssa.Value
			switch x := l.(type) {
			case *ssa.UnOp: // *(&table[i]) – array or slice
				if ia, ok := x.X.(*ssa.IndexAddr); ok && x.Op == token.MUL {
					tg, ti = c15GlobalOf(ia.X), ia.Index
				}
			case *ssa.Index:
				tg, ti = c15GlobalOf(x.X), x.Index
			case *ssa.Lookup:
				tg, ti = c15GlobalOf(x.X), x.Index
			case *ssa.Extract:
				if lk, ok := x.Tuple.(*ssa.Lookup); ok && x.Index == 0 {
					tg, ti = c15GlobalOf(lk.X), lk.Index
				}
			}
			if tg == nil || (g != nil && (tg != g || core.Describe(core.Strip(core.Forward(ti))) != core.Describe(core.Strip(core.Forward(idx))))) {
				bad = "the handler called with the event is not read from one package-level table"
				break
			}
			g, idx = tg, ti
		}
		if bad == "" && g == nil {
			bad = "the handler called with the event is not read from a package-level table"
		}
		if bad != "" {
			why = bad
			continue
		}
		tl := core.Strip(core.Forward(idx))
		if core.FieldAddrNameOfLoad(tl) != "Event.Type" {
			why = "the handler table " + g.Name() + " is not indexed by the event's type"
			continue
		}
		val, ok := consts.of(g)
		agg, isAgg := val.(*c20Agg)
		if !ok || !isAgg {
			why = "the handler table " + g.Name() + " is not a constant (built once from a literal of functions in the package initialiser and only read)"
			continue
		}
		out = append(out, c15Dispatch{fn: f, call: c, table: agg, typeLoad: tl})
	}
	return out, why
}

// c15GlobalOf: v is the package-level variable g, or a load of it.
func c15GlobalOf(v ssa.Value) *ssa.Global {
	if g, ok := v.(*ssa.Global); ok {
		return g
	}
	if u, ok := v.(*ssa.UnOp); ok && u.Op == token.MUL {
		if g, ok := u.X.(*ssa.Global); ok {
			return g
		}
	}
	return nil
}

// entry returns the table's entry for event type k: the function, or nil when the
// table has no entry there (out of range, missing key, nil entry).
func (d *c15Dispatch) entry(k int64) *ssa.Function {
	var e any
	if d.table.keys != nil {
		for i, key := range d.table.keys {
			if key.Kind() == constant.Int {
				if v, exact := constant.Int64Val(key); exact && v == k && i < len(d.table.elems) {
					e = d.table.elems[i]
				}
			}
		}
	} else if k >= 0 && k < int64(len(d.table.elems)) {
		e = d.table.elems[k]
	}
	f, _ := e.(*ssa.Function)
	return f
}

// reached reports whether the dispatching call can run for an event of type k: the
// guards on event.Type in front of it are evaluated for that k.
func (d *c15Dispatch) reached(k int64) bool {
	isType := func(v ssa.Value) bool { return core.FieldAddrNameOfLoad(v) == "Event.Type" }
	_, ok := core.Reach(core.Q{From: []core.At{core.Entry(d.fn)}, Target: core.Is(d.call.(ssa.Instruction)), Cut: core.ConcreteCut(d.fn, isType, k)})
	return ok
}

// handler resolves a table entry to the declared function that runs and binds its
// parameters to the arguments of the dispatching call (through the thunk of a method
// expression `(*T).m`, which passes its parameters on in order).
func (d *c15Dispatch) handler(e *ssa.Function) *c15Handler {
	args := d.call.Common().Args
	h := &c15Handler{fn: e, bind: map[*ssa.Parameter]ssa.Value{}}
	for i, pa := range e.Params {
		if i < len(args) {
			h.bind[pa] = args[i]
		}
	}
	if e.Synthetic == "" || e.Object() == nil {
		return h
	}
	tf, ok := e.Object().(*types.Func)
	if !ok {
		return h
	}
	t := e.Prog.FuncValue(tf)
	if t == nil || t.Blocks == nil {
		return h
	}
	var call ssa.CallInstruction
	n := 0
	for _, b := range e.Blocks {
		for _, in := range b.Instrs {
			if c, ok := in.(ssa.CallInstruction); ok {
				n++
				if c.Common().StaticCallee() == t {
					call = c
				}
			}
		}
	}
	if call == nil || n != 1 {
		return h
	}
	th := &c15Handler{fn: t, bind: map[*ssa.Parameter]ssa.Value{}}
	for i, a := range call.Common().Args {
		pa, isParam := a.(*ssa.Parameter)
		if !isParam || i >= len(t.Params) {
			return h
		}
		if v, ok := h.bind[pa]; ok {
			th.bind[t.Params[i]] = v
		}
	}
	return th
}

// c15Notifies: g, or an in-package function it calls statically (two levels), calls a listener.
func c15Notifies(g *ssa.Function, notify func(ssa.Instruction) bool, depth int) bool {
	if g == nil || g.Blocks == nil || depth > 2 {
		return false
	}
	for _, h := range core.WithAnon(g) {
		if len(core.Instrs(h, notify)) > 0 {
			return true
		}
		for _, c := range core.Calls(h, func(in ssa.Instruction) bool { return core.AsCall(in) != nil }) {
			if sc := c.Common().StaticCallee(); sc != nil && sc != g && sc.Pkg == g.Pkg && c15Notifies(sc, notify, depth+1) {
				return true
			}
		}
	}
	return false
}

// c15Forward is core.Forward extended to a variable CAPTURED by the function the
// load sits in (robustness round 8: the locals of a goroutine body moved into the
// fields of a small struct whose method value is run — after the loader split the
// struct, `rev` is a cell captured by the bound closure and written inside it):
// a load *fv of a free variable resolves to the value of the nearest preceding
// store to fv in the same block or its chain of unique predecessors (so the store
// lies on every path to the load, with no other store of this function in
// between), provided nobody else can write the cell: at every site where a
// function of the package creates this closure, the bound cell is a local allocation
// whose only other uses are stores made before the closure exists, loads, and
// bindings to this same function. Anything else is left as it is.
func c15Forward(p *core.Prog, pkg string, v ssa.Value) ssa.Value {
	for i := 0; i < 8; i++ {
		v = core.Forward(v)
		u, ok := v.(*ssa.UnOp)
		if !ok || u.Op != token.MUL {
			return v
		}
		fv, ok := u.X.(*ssa.FreeVar)
		if !ok || !c15PrivateCell(p, pkg, fv) {
			return v
		}
		st := c15ReachingStore(u, fv)
		if st == nil {
			return v
		}
		v = st.Val
	}
	return v
}

// c15ReachingStore: the nearest store to addr before load, in load's block or
// the chain of its unique predecessors.
func c15ReachingStore(load *ssa.UnOp, addr ssa.Value) *ssa.Store {
	b := load.Block()
	idx := -1
	for i, in := range b.Instrs {
		if in == ssa.Instruction(load) {
			idx = i
		}
	}
	for depth := 0; depth < 8 && b != nil && idx >= 0; depth++ {
		for i := idx - 1; i >= 0; i-- {
			if s, ok := b.Instrs[i].(*ssa.Store); ok && s.Addr == addr {
				return s
			}
		}
		if len(b.Preds) != 1 {
			return nil
		}
		b = b.Preds[0]
		idx = len(b.Instrs)
	}
	return nil
}

// c15PrivateCell: the cell behind free variable fv of closure g is written by g
// alone once g exists — in g it is only loaded and stored (never passed on or
// captured again), and at every creation of g in the enclosing function the
// bound value is a local allocation used only by stores to it that precede the
// creation, loads of it and that one closure (an allocation in a loop body is a
// fresh cell per iteration). The creators are looked up in package pkg.
func c15PrivateCell(p *core.Prog, pkg string, fv *ssa.FreeVar) bool {
	g := fv.Parent()
	if g == nil || fv.Referrers() == nil {
		return false
	}
	idx := -1
	for i, x := range g.FreeVars {
		if x == fv {
			idx = i
		}
	}
	if idx < 0 {
		return false
	}
	for _, r := range *fv.Referrers() {
		switch x := r.(type) {
		case *ssa.UnOp:
			if x.Op != token.MUL {
				return false
			}
		case *ssa.Store:
			if x.Addr != ssa.Value(fv) {
				return false // the cell's address escapes
			}
		case *ssa.DebugRef:
		default:
			return false
		}
	}
	// the creators: a bound method value whose method the variant inlined is a synthetic
	// function without parent, so every function of the package is searched
	made := 0
	var blocks []*ssa.BasicBlock
	seen := map[*ssa.Function]bool{}
	for _, f := range p.PkgFuncs(pkg) {
		for _, h := range core.WithAnon(f) {
			if !seen[h] {
				seen[h] = true
				blocks = append(blocks, h.Blocks...)
			}
		}
	}
	for _, b := range blocks {
		for _, in := range b.Instrs {
			mc, ok := in.(*ssa.MakeClosure)
			if !ok || mc.Fn != ssa.Value(g) {
				continue
			}
			made++
			al, ok := mc.Bindings[idx].(*ssa.Alloc)
			if !ok || al.Referrers() == nil {
				return false
			}
			for _, r := range *al.Referrers() {
				switch x := r.(type) {
				case *ssa.MakeClosure:
					if x != mc {
						return false // shared with another closure (or a second instance of g)
					}
				case *ssa.Store:
					if x.Addr != ssa.Value(al) {
						return false
					}
					if x.Block() != mc.Block() && !x.Block().Dominates(mc.Block()) {
						return false
					}
					if x.Block() == mc.Block() && !c15Before(x, mc) {
						return false // written by the creator after g may have started
					}
				case *ssa.UnOp:
					if x.Op != token.MUL {
						return false
					}
				case *ssa.DebugRef:
				default:
					return false
				}
			}
		}
	}
	return made > 0
}

func c15Before(a, b ssa.Instruction) bool {
	for _, in := range a.Block().Instrs {
		if in == a {
			return true
		}
		if in == b {
			return false
		}
	}
	return false
}
