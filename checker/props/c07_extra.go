package props

import (
	"go/token"
	"go/types"
	"strings"

	"godcheck/core"

	"golang.org/x/tools/go/ssa"
)

// c07Extra: rules added after the fourth independent seeding round.
func c07Extra(r *core.Run) {
	p := r.P
	const mrPkg = "lib/mr"
	isOptSlice := func(t types.Type) bool {
		return strings.HasSuffix(t.String(), "lib/mr.Option") && strings.HasPrefix(t.String(), "[]")
	}

	r.Check("D3/K1/workers-option-always-applied", "an option of lib/mr that sets the worker count sets it on every path: a function storing mapReduceOptions.workers from a caller-supplied number has no exit without that store (a value below the minimum is clamped, never ignored in favour of the default of 16)", func(o *core.O) {
		n := 0
		isStore := core.IsStoreToField("mapReduceOptions.workers")
		for _, f := range p.PkgFuncs(mrPkg) {
			sts := core.StoresToField(f, "mapReduceOptions.workers")
			if len(sts) == 0 {
				continue
			}
			fromCaller := false
			for _, st := range sts {
				if _, isConst := core.ConstInt(st.Val); !isConst {
					fromCaller = true
				}
			}
			if !fromCaller {
				continue // the constructor's default
			}
			n++
			r.Fn(core.FuncName(f))
			if w := core.MustPass(core.Entry(f), isStore, core.IsExit); w != nil {
				o.Fail(p.InstrPos(w), "%s can return without setting mapReduceOptions.workers: the configured worker count is silently dropped and the default applies (more mappers run at once than configured)", core.FuncName(f))
			}
		}
		o.Site(n, mrPkg+": functions setting the worker count from their caller")
	})

	r.Check("D3/K9/options-forwarded", "every entry point of lib/mr that accepts options hands them on (to the function it delegates to, or to buildOptions): worker bound and context are those the caller configured", func(o *core.O) {
		n := 0
		for _, f := range p.PkgFuncs(mrPkg) {
			if f.Parent() != nil || len(f.Params) == 0 || !f.Signature.Variadic() || !isOptSlice(f.Params[len(f.Params)-1].Type()) {
				continue
			}
			n++
			r.Fn(core.FuncName(f))
			last := len(f.Params) - 1
			forwarded := false
			for _, g := range core.WithAnon(f) {
				for _, c := range core.Calls(g, func(in ssa.Instruction) bool { return core.AsCall(in) != nil }) {
					for _, a := range c.Common().Args {
						if isOptSlice(a.Type()) && core.DependsOn(a, core.ParamOrCaptured(f, last)) {
							forwarded = true
						}
					}
				}
			}
			if !forwarded {
				o.Fail(p.Pos(f.Pos()), "%s accepts options but never passes them on: WithWorkers / WithContext given to it are silently ignored", core.FuncName(f))
			}
		}
		o.Site(n, mrPkg)
	})

	r.Check("D1/K2/source-end-by-ok-flag", "the end of the item stream is detected by the channel's ok flag, never by the item's value: every receive from the source channel in the mapper dispatcher is a comma-ok receive whose ok decides the exit (a generated nil item is an item)", func(o *core.O) {
		n := 0
		for _, f := range p.PkgFuncs(mrPkg) {
			for _, in := range core.Instrs(f, func(in ssa.Instruction) bool {
				u, ok := in.(*ssa.UnOp)
				return ok && u.Op == token.ARROW && core.IsFieldLoad(core.Forward(u.X), "mapperContext.source")
			}) {
				u := in.(*ssa.UnOp)
				n++
				r.Fn(core.FuncName(f))
				if !u.CommaOk {
					o.Fail(p.InstrPos(in), "%s receives from the source without the ok flag: a nil item ends the stream early and every later item is dropped unmapped", core.FuncName(f))
					continue
				}
				isOk := func(v ssa.Value) bool {
					e, ok := v.(*ssa.Extract)
					return ok && e.Tuple == ssa.Value(u) && e.Index == 1
				}
				if core.EdgeCount(f, core.BoolVal(isOk)) == 0 {
					o.Fail(p.InstrPos(in), "%s never tests the ok flag of the source receive", core.FuncName(f))
				}
			}
		}
		o.Site(n, mrPkg)
	})

	r.Check("D4/K3/cancel-records-before-draining", "cancel records the error before it drains the source: draining blocks until the generator returns, and a reducer that writes in that window must already find the cancel error", func(o *core.O) {
		isSet := core.CallMethod("errorx.AtomicError", "Set")
		// role: the drain helper is the in-package function that is handed one receive-capable channel and nothing else
		isDrain := func(in ssa.Instruction) bool {
			c, ok := in.(*ssa.Call)
			if !ok || c.Call.StaticCallee() == nil || c.Call.StaticCallee().Pkg == nil || c.Call.StaticCallee().Pkg.Pkg.Path() != core.Mod+"/"+mrPkg || len(c.Call.Args) != 1 {
				return false
			}
			ch, ok := c.Call.Args[0].Type().Underlying().(*types.Chan)
			return ok && ch.Dir() != types.SendOnly
		}
		n := 0
		// incl. bound-method wrappers a variant has inlined the method into (the body then lives there)
		for _, f := range pkgFuncsAll(p, mrPkg) {
			sets, drains := core.Instrs(f, isSet), core.Instrs(f, isDrain)
			if len(sets) == 0 || len(drains) == 0 {
				continue
			}
			n++
			r.Fn(core.FuncName(f))
			if w := core.Precedes(f, isSet, isDrain); w != nil {
				o.Fail(p.InstrPos(w), "%s drains before the cancel error is recorded: while it waits for the generator a reducer's write wins and the call returns (value, nil) instead of the cancel error", core.FuncName(f))
			}
		}
		o.Site(n, mrPkg)
	})

	// rules added after the ninth detection round (c07_r9.go)
	c07R9(r)
	// rule added after the robustness round's report (c07_r10.go)
	c07R10(r)
	// rule added after the tenth detection round (c07_r11.go)
	c07R11(r)
}
