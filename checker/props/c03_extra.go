package props

import (
	"godcheck/core"

	"golang.org/x/tools/go/ssa"
)

// c03Extra: rules added after the fourth independent seeding round.
func c03Extra(r *core.Run) {
	p := r.P
	r.Check("D1/K1/bind-error-propagated", "a route the router rejects is reported: in every function of package api that binds routes in a loop, the next route is bound (and success is returned) only after the previous engine.bindRoute returned nil, and its error is what is returned", func(o *core.O) {
		isBind := core.CallMethod("api.engine", "bindRoute")
		n := 0
		for _, f := range p.PkgFuncs("api") {
			for _, c := range core.Calls(f, isBind) {
				if _, ok := c.(*ssa.Call); !ok {
					continue
				}
				res := f.Signature.Results()
				if res.Len() == 0 || res.At(res.Len()-1).Type().String() != "error" {
					continue
				}
				n++
				r.Fn(core.FuncName(f))
				call := c.(*ssa.Call)
				okEdges, _ := core.EdgesOf(f, core.ErrNil(0, core.Is(call)))
				// without passing an `err == nil` edge of this call neither the next bind nor a nil return is reachable
				if w, ok := core.Reach(core.Q{From: []core.At{core.After(call)}, Target: core.Is(call), Cut: core.CutSet(okEdges)}); ok {
					o.Fail(p.InstrPos(w), "%s binds the next route although binding the previous one may have failed: the rejection (duplicate pattern, bad path, unsupported method) of every route but the last is lost", core.FuncName(f))
				}
				nilRet := func(in ssa.Instruction) bool {
					ret, ok := in.(*ssa.Return)
					return ok && core.IsNil(core.Result(ret, len(ret.Results)-1))
				}
				if w, ok := core.Reach(core.Q{From: []core.At{core.After(call)}, Target: nilRet, Cut: core.CutSet(okEdges)}); ok {
					o.Fail(p.InstrPos(w), "%s can report success although engine.bindRoute failed", core.FuncName(f))
				}
			}
		}
		o.Site(n, "api")
	})
	c03R10(r) // ninth detection round: props/c03_r10.go
}
