package props

// C05-D6: kind-restricted reflect.Value methods on document values.
//
// reflect.ValueOf(x).IsNil/Len/Cap/Index/MapKeys/MapIndex/MapRange panic
// unless x has one of a few kinds. For every interface-typed parameter P of a
// function of lib/mapping the rule computes the set of kinds P must have
// (intersection over the restricted calls on reflect.ValueOf(P) that are not
// guarded inside the function, and over the requirements of in-package callees P
// is handed to unguarded), and then demands that every in-package call site
// either establishes one of these kinds for the argument (a dominating
// Kind()==K test on the same value, a successful comma-ok/type-switch to a type
// of that kind, or a statically typed argument) or passes one of its own
// parameters (whose requirement then includes the callee's).

import (
	"go/constant"
	"go/token"
	"go/types"
	"sort"
	"strings"

	"godcheck/core"

	"golang.org/x/tools/go/ssa"
)

type kindSet uint32

const allKinds kindSet = 1<<27 - 1

func ks(ks ...uint) kindSet {
	var s kindSet
	for _, k := range ks {
		s |= 1 << k
	}
	return s
}

// reflect.Kind values (Array 17 … UnsafePointer 26)
var restrictedKinds = map[string]kindSet{
	"(reflect.Value).IsNil":    ks(18, 19, 20, 21, 22, 23, 26),
	"(reflect.Value).Len":      ks(17, 18, 21, 23, 24),
	"(reflect.Value).Cap":      ks(17, 18, 23),
	"(reflect.Value).Index":    ks(17, 23, 24),
	"(reflect.Value).MapKeys":  ks(21),
	"(reflect.Value).MapIndex": ks(21),
	"(reflect.Value).MapRange": ks(21),
}

var kindNames = map[uint]string{17: "Array", 18: "Chan", 19: "Func", 20: "Interface", 21: "Map", 22: "Pointer", 23: "Slice", 24: "String", 25: "Struct", 26: "UnsafePointer"}

func (s kindSet) String() string {
	if s == allKinds {
		return "any"
	}
	var out []string
	for k := uint(0); k < 27; k++ {
		if s&(1<<k) != 0 {
			n := kindNames[k]
			if n == "" {
				n = "kind" + string(rune('0'+k/10)) + string(rune('0'+k%10))
			}
			out = append(out, n)
		}
	}
	sort.Strings(out)
	return strings.Join(out, "|")
}

func kindOfType(t types.Type) (uint, bool) {
	switch u := t.Underlying().(type) {
	case *types.Array:
		return 17, true
	case *types.Chan:
		return 18, true
	case *types.Signature:
		return 19, true
	case *types.Interface:
		return 20, true
	case *types.Map:
		return 21, true
	case *types.Pointer:
		return 22, true
	case *types.Slice:
		return 23, true
	case *types.Basic:
		if u.Info()&types.IsString != 0 {
			return 24, true
		}
		return 0, true // some other kind, certainly not a restricted one
	case *types.Struct:
		return 25, true
	}
	return 0, false
}

// sameDoc: a and b denote the same document value: the same SSA value, or two
// loads of the same access path below a parameter spill that is stored once.
func sameDoc(a, b ssa.Value) bool {
	if sameVal(a, b) {
		return true
	}
	la, ok1 := a.(*ssa.UnOp)
	lb, ok2 := b.(*ssa.UnOp)
	if !ok1 || !ok2 || la.Op != token.MUL || lb.Op != token.MUL {
		return false
	}
	ra, rb := rootOfAddr(la.X), rootOfAddr(lb.X)
	al, ok := ra.(*ssa.Alloc)
	if !ok || ra != rb || core.Describe(a) != core.Describe(b) {
		return false
	}
	// the allocation (a spilled parameter) is written exactly once, as a whole
	n := 0
	for _, st := range storesIntoAlloc(al) {
		n++
		if st.Addr != ssa.Value(al) {
			return false
		}
	}
	return n == 1
}

func storesIntoAlloc(al *ssa.Alloc) []*ssa.Store {
	var out []*ssa.Store
	var visit func(v ssa.Value, d int)
	visit = func(v ssa.Value, d int) {
		if d > 6 || v.Referrers() == nil {
			return
		}
		for _, r := range *v.Referrers() {
			switch x := r.(type) {
			case *ssa.Store:
				if x.Addr == v {
					out = append(out, x)
				}
			case *ssa.FieldAddr:
				visit(x, d+1)
			case *ssa.IndexAddr:
				visit(x, d+1)
			}
		}
	}
	visit(al, 0)
	return out
}

// isKindOf matches reflect.TypeOf(x).Kind() and reflect.ValueOf(x).Kind().
func isKindOf(x ssa.Value) func(ssa.Value) bool {
	return func(v ssa.Value) bool {
		c, ok := core.Forward(v).(*ssa.Call)
		if !ok {
			return false
		}
		var src ssa.Value
		if c.Call.IsInvoke() {
			if c.Call.Method.Name() != "Kind" {
				return false
			}
			src = c.Call.Value
		} else if core.CalleeName(c) == "(reflect.Value).Kind" {
			src = c.Call.Args[0]
		} else {
			return false
		}
		q, ok := core.Forward(src).(*ssa.Call)
		if !ok {
			return false
		}
		switch core.CalleeName(q) {
		case "reflect.TypeOf", "reflect.ValueOf":
			return sameDoc(q.Call.Args[0], x)
		}
		return false
	}
}

// kindEstablished: instruction in of f is reachable only after x was shown to
// have a kind in want.
func kindEstablished(f *ssa.Function, in ssa.Instruction, x ssa.Value, want kindSet) bool {
	if mi, ok := x.(*ssa.MakeInterface); ok {
		if k, known := kindOfType(mi.X.Type()); known {
			return want&(1<<k) != 0
		}
	}
	var atoms []core.Atom
	for k := uint(0); k < 27; k++ {
		if want&(1<<k) != 0 {
			atoms = append(atoms, core.Cmp(token.EQL, isKindOf(x), core.IsConstInt(int64(k))))
		}
	}
	atoms = append(atoms, core.BoolVal(func(v ssa.Value) bool {
		e, ok := v.(*ssa.Extract)
		if !ok || e.Index != 1 {
			return false
		}
		ta, ok := e.Tuple.(*ssa.TypeAssert)
		if !ok || !sameDoc(ta.X, x) {
			return false
		}
		k, known := kindOfType(ta.AssertedType)
		if _, isIface := ta.AssertedType.Underlying().(*types.Interface); isIface {
			return false
		}
		return known && want&(1<<k) != 0
	}))
	n := 0
	for _, a := range atoms {
		n += core.EdgeCount(f, a)
	}
	return n > 0 && requiresX(f, core.Is(in), atoms...) == nil
}

type docParam struct {
	fn *ssa.Function
	p  *ssa.Parameter
}

type kindUse struct {
	in   ssa.Instruction
	what string
	arg  ssa.Value // the value whose kind matters at this use (the parameter or its alias)
	need kindSet   // for restricted calls
	to   *docParam // for hand-overs to an in-package callee
}

func c05KindRule(r *core.Run, o *core.O, funcs []*ssa.Function) {
	p := r.P
	inPkg := map[*ssa.Function]bool{}
	for _, f := range funcs {
		inPkg[f] = true
	}
	isAny := func(t types.Type) bool {
		i, ok := t.Underlying().(*types.Interface)
		return ok && i.NumMethods() == 0
	}
	uses := map[docParam][]kindUse{}
	var params []docParam
	for _, f := range funcs {
		for _, pa := range f.Params {
			if !isAny(pa.Type()) {
				continue
			}
			dp := docParam{f, pa}
			params = append(params, dp)
			for _, b := range f.Blocks {
				for _, in := range b.Instrs {
					c, ok := in.(*ssa.Call)
					if !ok {
						continue
					}
					name := core.CalleeName(c)
					if ksNeed, restricted := restrictedKinds[name]; restricted {
						if q, ok := core.Forward(c.Call.Args[0]).(*ssa.Call); ok && core.CalleeName(q) == "reflect.ValueOf" && sameDoc(q.Call.Args[0], pa) {
							uses[dp] = append(uses[dp], kindUse{in: in, what: strings.TrimPrefix(name, "(reflect.Value)."), arg: q.Call.Args[0], need: ksNeed})
						}
						continue
					}
					g := staticCallee(c)
					if g == nil || !inPkg[g] {
						continue
					}
					for j, a := range c.Call.Args {
						if j < len(g.Params) && isAny(g.Params[j].Type()) && sameDoc(a, pa) {
							uses[dp] = append(uses[dp], kindUse{in: in, what: "call of " + core.FuncName(g), arg: a, to: &docParam{g, g.Params[j]}})
						}
					}
				}
			}
		}
	}
	need := map[docParam]kindSet{}
	for _, dp := range params {
		need[dp] = allKinds
	}
	for changed := true; changed; {
		changed = false
		for _, dp := range params {
			n := allKinds
			for _, u := range uses[dp] {
				req := u.need
				if u.to != nil {
					req = need[*u.to]
				}
				if req == allKinds || kindEstablished(dp.fn, u.in, u.arg, req) {
					continue
				}
				n &= req
			}
			if n != need[dp] {
				need[dp], changed = n, true
			}
		}
	}
	for _, dp := range params {
		for _, u := range uses[dp] {
			if u.to == nil {
				o.Site(1)
			}
		}
		if need[dp] == allKinds {
			continue
		}
		f := dp.fn
		r.Fn(core.FuncName(f))
		if need[dp] == 0 {
			o.Fail(p.Pos(f.Pos()), "%s: no kind of %s satisfies all its unguarded reflect uses", core.FuncName(f), dp.p.Name())
			continue
		}
		if f.Object() != nil && f.Object().Exported() {
			o.Fail(p.Pos(f.Pos()), "%s is exported and needs %s to be of kind %s without testing it", core.FuncName(f), dp.p.Name(), need[dp])
			continue
		}
		sites, esc := callSitesOf(funcs, f)
		if esc {
			o.Fail(p.Pos(f.Pos()), "%s is used as a value; it needs %s to be of kind %s without testing it", core.FuncName(f), dp.p.Name(), need[dp])
		}
		idx := paramIndex(f, dp.p)
		for _, cs := range sites {
			o.Site(1, core.FuncName(cs.Parent())+" -> "+core.FuncName(f))
			r.Calls++
			a := cs.Common().Args[idx]
			g := cs.Parent()
			if kindEstablished(g, cs, a, need[dp]) {
				continue
			}
			// passing on one's own parameter: covered by that parameter's requirement
			covered := false
			for _, gp := range g.Params {
				if isAny(gp.Type()) && sameDoc(a, gp) && need[docParam{g, gp}]&^need[dp] == 0 {
					covered = true
				}
			}
			if covered {
				continue
			}
			var what []string
			for _, u := range uses[dp] {
				if u.to == nil {
					what = append(what, u.what)
				}
			}
			o.Fail(p.InstrPos(cs), "%s passes %s to %s, which applies reflect %s (or hands it to a callee that does) to it and so needs kind %s, but no Kind test / typed assertion establishes that here: a document value of another kind panics",
				core.FuncName(g), core.Describe(a), core.FuncName(f), strings.Join(what, "/"), need[dp])
		}
	}
}

// requiresX is core.Requires made aware of constant φ inputs: when a block whose
// `if` tests a φ of that block is entered through a predecessor for which the φ
// is a boolean constant (the lowering of `a && b` / `a || b` used as a value,
// e.g. in the cases of a tagless switch), only the matching successor is
// followed. It returns a target still reachable from the entry once the edges
// establishing any of the atoms are removed (nil: guarded).
func requiresX(fn *ssa.Function, target func(ssa.Instruction) bool, atoms ...core.Atom) ssa.Instruction {
	cut := map[core.Edge]bool{}
	for _, a := range atoms {
		h, _ := core.EdgesOf(fn, a)
		for _, e := range h {
			cut[e] = true
		}
	}
	type state struct{ b, pred *ssa.BasicBlock }
	seen := map[state]bool{}
	work := []state{{fn.Blocks[0], nil}}
	for len(work) > 0 {
		s := work[len(work)-1]
		work = work[:len(work)-1]
		if seen[s] {
			continue
		}
		seen[s] = true
		for _, in := range s.b.Instrs {
			if target(in) {
				return in
			}
		}
		succs := s.b.Succs
		if iff, ok := s.b.Instrs[len(s.b.Instrs)-1].(*ssa.If); ok && s.pred != nil {
			cond, flip := iff.Cond, false
			for {
				u, ok := cond.(*ssa.UnOp)
				if !ok || u.Op != token.NOT {
					break
				}
				cond, flip = u.X, !flip
			}
			if phi, ok := cond.(*ssa.Phi); ok && phi.Block() == s.b {
				for i, pb := range s.b.Preds {
					if pb != s.pred {
						continue
					}
					c, ok := phi.Edges[i].(*ssa.Const)
					if !ok || c.Value == nil || c.Value.Kind() != constant.Bool {
						continue
					}
					if constant.BoolVal(c.Value) != flip {
						succs = s.b.Succs[:1]
					} else {
						succs = s.b.Succs[1:2]
					}
				}
			}
		}
		for _, n := range succs {
			if !cut[core.Edge{From: s.b, To: n}] {
				work = append(work, state{n, s.b})
			}
		}
	}
	return nil
}

// ---------------------------------------------------------------------------
// C05-D7: document-derived reflect values reach reflect.Value.Set /
// SetMapIndex only after an assignability check.
//
// reflect.Value.Set(x) and SetMapIndex(k, e) panic unless x / k / e are
// assignable to the destination type; equal Kind() is not enough (named types,
// pointer element types, non-string key types). The rule taints every
// reflect.Value derived from a document value (reflect.ValueOf of an interface
// value or of a type-switch binding of one, Index/MapIndex/MapKeys/Elem… of such
// a value, passed on through reflect.Value parameters and results of in-package
// functions) and demands that a tainted value reaches the source operand of Set
// or the key/element operands of SetMapIndex only
//   - as result #0 of a sanitiser under its err == nil edge, a sanitiser being
//     recognised by role: an in-package function (typ reflect.Type, v
//     reflect.Value, …) (reflect.Value[, error]) whose every non-error return is
//     v itself under a successful v.Type().AssignableTo(typ) test, the result of
//     Convert(T) or a fresh reflect.New(T) with T computed from typ; or
//   - on a path where x.Type().AssignableTo(…) succeeded or x's type was compared
//     equal to another type.
// Values produced by Convert, reflect.New, MakeSlice, MakeMap… are not tainted.

func isReflectNamed(t types.Type, name string) bool { return isNamedType(t, "reflect", name) }

type assignRule struct {
	funcs      []*ssa.Function
	inPkg      map[*ssa.Function]bool
	taintParam map[*ssa.Parameter]bool
	taintRet   map[*ssa.Function]map[int]bool
	sanitizer  map[*ssa.Function]*ssa.Parameter // -> its reflect.Type parameter
}

func (a *assignRule) docAny(v ssa.Value, seen map[ssa.Value]bool) bool {
	if v == nil || seen[v] {
		return false
	}
	seen[v] = true
	if _, ok := v.Type().Underlying().(*types.Interface); !ok {
		return false
	}
	switch x := v.(type) {
	case *ssa.Const:
		return false
	case *ssa.MakeInterface:
		return a.docVal(x.X, seen)
	case *ssa.ChangeInterface:
		return a.docAny(x.X, seen)
	case *ssa.Call:
		if !x.Call.IsInvoke() && core.CalleeName(x) == "(reflect.Value).Interface" {
			return a.docRV(x.Call.Args[0], seen)
		}
		return true
	case *ssa.Phi:
		for _, e := range x.Edges {
			if a.docAny(e, seen) {
				return true
			}
		}
		return false
	}
	return true // parameters, loads, lookups, extracts of interface type
}

// docVal: a concrete value bound from a document value by an assertion / type switch.
func (a *assignRule) docVal(v ssa.Value, seen map[ssa.Value]bool) bool {
	if v == nil || seen[v] {
		return false
	}
	seen[v] = true
	switch x := v.(type) {
	case *ssa.TypeAssert:
		return a.docAny(x.X, seen)
	case *ssa.Extract:
		if ta, ok := x.Tuple.(*ssa.TypeAssert); ok && x.Index == 0 {
			return a.docAny(ta.X, seen)
		}
	case *ssa.Convert:
		return a.docVal(x.X, seen)
	case *ssa.ChangeType:
		return a.docVal(x.X, seen)
	case *ssa.Phi:
		for _, e := range x.Edges {
			if a.docVal(e, seen) {
				return true
			}
		}
	case *ssa.UnOp:
		if x.Op == token.MUL {
			if al, ok := x.X.(*ssa.Alloc); ok {
				for _, st := range storesIntoAlloc(al) {
					if st.Addr == ssa.Value(al) && a.docVal(st.Val, seen) {
						return true
					}
				}
			}
		}
	}
	return false
}

var rvPropagate = map[string]bool{
	"(reflect.Value).Index": true, "(reflect.Value).MapIndex": true, "(reflect.Value).Elem": true,
	"(reflect.Value).Field": true, "(reflect.Value).Slice": true, "(reflect.Value).Slice3": true,
	"(reflect.Value).Addr": true, "(*reflect.MapIter).Key": true, "(*reflect.MapIter).Value": true,
	"(reflect.Value).MapRange": true,
}

// docRV: a reflect.Value (or []reflect.Value / *MapIter) derived from a document value.
func (a *assignRule) docRV(v ssa.Value, seen map[ssa.Value]bool) bool {
	if v == nil || seen[v] {
		return false
	}
	seen[v] = true
	switch x := v.(type) {
	case *ssa.Parameter:
		return a.taintParam[x]
	case *ssa.Phi:
		for _, e := range x.Edges {
			if a.docRV(e, seen) {
				return true
			}
		}
	case *ssa.Extract:
		if c, ok := x.Tuple.(*ssa.Call); ok {
			if g := staticCallee(c); g != nil && a.inPkg[g] {
				return a.taintRet[g][x.Index]
			}
		}
	case *ssa.UnOp:
		if x.Op != token.MUL {
			return false
		}
		switch ad := x.X.(type) {
		case *ssa.IndexAddr: // keys[i] of rv.MapKeys()
			return a.docRV(ad.X, seen)
		case *ssa.Alloc:
			for _, st := range storesIntoAlloc(ad) {
				if st.Addr == ssa.Value(ad) && a.docRV(st.Val, seen) {
					return true
				}
			}
		}
	case *ssa.Call:
		if x.Call.IsInvoke() {
			return false
		}
		name := core.CalleeName(x)
		switch {
		case name == "reflect.ValueOf":
			return a.docAny(x.Call.Args[0], seen)
		case name == "(reflect.Value).MapKeys":
			return a.docRV(x.Call.Args[0], seen)
		case rvPropagate[name]:
			return a.docRV(x.Call.Args[0], seen)
		}
		if g := staticCallee(x); g != nil && a.inPkg[g] {
			return a.taintRet[g][0]
		}
	}
	return false
}

func (a *assignRule) tainted(v ssa.Value) bool { return a.docRV(v, map[ssa.Value]bool{}) }

func isRVLike(t types.Type) bool {
	if isReflectNamed(t, "Value") {
		return true
	}
	if s, ok := t.Underlying().(*types.Slice); ok {
		return isReflectNamed(s.Elem(), "Value")
	}
	return false
}

func (a *assignRule) propagate() {
	for changed, rounds := true, 0; changed && rounds < 20; rounds++ {
		changed = false
		for _, f := range a.funcs {
			for _, b := range f.Blocks {
				for _, in := range b.Instrs {
					c := core.AsCall(in)
					if c == nil {
						continue
					}
					g := staticCallee(c)
					if g == nil || !a.inPkg[g] {
						continue
					}
					for i, arg := range c.Common().Args {
						if i < len(g.Params) && isRVLike(g.Params[i].Type()) && !a.taintParam[g.Params[i]] && a.tainted(arg) {
							a.taintParam[g.Params[i]] = true
							changed = true
						}
					}
				}
			}
			res := f.Signature.Results()
			for _, ret := range core.Returns(f) {
				for i := 0; i < res.Len() && i < len(ret.Results); i++ {
					if isRVLike(res.At(i).Type()) && !a.taintRet[f][i] && a.tainted(core.Result(ret, i)) {
						if a.taintRet[f] == nil {
							a.taintRet[f] = map[int]bool{}
						}
						a.taintRet[f][i] = true
						changed = true
					}
				}
			}
		}
	}
}

// rvSame: two reflect.Value operands denote the same value (same register, or
// reflect.ValueOf applied twice to the same document value).
func rvSame(x, y ssa.Value) bool {
	if sameVal(x, y) {
		return true
	}
	cx, ok1 := core.Forward(x).(*ssa.Call)
	cy, ok2 := core.Forward(y).(*ssa.Call)
	return ok1 && ok2 && core.CalleeName(cx) == "reflect.ValueOf" && core.CalleeName(cy) == "reflect.ValueOf" && sameDoc(cx.Call.Args[0], cy.Call.Args[0])
}

// typeOfRV matches rv.Type() (and reflect.TypeOf(x) when rv = reflect.ValueOf(x)).
func typeOfRV(rv ssa.Value) func(ssa.Value) bool {
	return func(v ssa.Value) bool {
		c, ok := core.Forward(v).(*ssa.Call)
		if !ok || c.Call.IsInvoke() {
			return false
		}
		switch core.CalleeName(c) {
		case "(reflect.Value).Type":
			return rvSame(c.Call.Args[0], rv)
		case "reflect.TypeOf":
			q, ok := core.Forward(rv).(*ssa.Call)
			return ok && core.CalleeName(q) == "reflect.ValueOf" && sameDoc(q.Call.Args[0], c.Call.Args[0])
		}
		return false
	}
}

// assignableAtom: rv.Type().AssignableTo(T) holds (T satisfying typ; nil: any T).
func assignableAtom(rv ssa.Value, typ func(ssa.Value) bool) core.Atom {
	return core.BoolVal(func(v ssa.Value) bool {
		c, ok := v.(*ssa.Call)
		if !ok || !c.Call.IsInvoke() || c.Call.Method.Name() != "AssignableTo" || !typeOfRV(rv)(c.Call.Value) {
			return false
		}
		return typ == nil || typ(c.Call.Args[0])
	})
}

// findSanitizers recognises the sanitising helpers by role.
func (a *assignRule) findSanitizers() {
	for _, f := range a.funcs {
		if f.Parent() != nil {
			continue
		}
		res := f.Signature.Results()
		if res.Len() == 0 || res.Len() > 2 || !isReflectNamed(res.At(0).Type(), "Value") {
			continue
		}
		if res.Len() == 2 && res.At(1).Type().String() != "error" {
			continue
		}
		typ := paramOfType(f, func(t types.Type) bool { return isReflectNamed(t, "Type") })
		if typ == nil {
			continue
		}
		fromTyp := func(t ssa.Value) bool {
			return core.DependsOn(t, func(x ssa.Value) bool { return x == ssa.Value(typ) })
		}
		good, n := true, 0
		for _, ret := range core.Returns(f) {
			if res.Len() == 2 && errNonNil(a.funcs, core.Result(ret, 1)) {
				continue
			}
			n++
			r := core.Result(ret, 0)
			ok := false
			if c, isCall := r.(*ssa.Call); isCall && !c.Call.IsInvoke() {
				switch core.CalleeName(c) {
				case "(reflect.Value).Convert":
					ok = fromTyp(c.Call.Args[1])
				case "reflect.New":
					ok = fromTyp(c.Call.Args[0])
				}
			}
			if !ok {
				for _, pv := range f.Params {
					if isReflectNamed(pv.Type(), "Value") && sameVal(r, pv) {
						at := assignableAtom(pv, func(t ssa.Value) bool { return sameVal(t, typ) })
						ok = core.EdgeCount(f, at) > 0 && requiresX(f, core.Is(ret), at) == nil
					}
				}
			}
			if !ok {
				good = false
			}
		}
		if good && n > 0 {
			a.sanitizer[f] = typ
		}
	}
}

func c05AssignRule(r *core.Run, o *core.O, funcs []*ssa.Function) {
	p := r.P
	a := &assignRule{funcs: funcs, inPkg: map[*ssa.Function]bool{}, taintParam: map[*ssa.Parameter]bool{},
		taintRet: map[*ssa.Function]map[int]bool{}, sanitizer: map[*ssa.Function]*ssa.Parameter{}}
	for _, f := range funcs {
		a.inPkg[f] = true
	}
	a.findSanitizers()
	a.propagate()
	var sn []string
	for f := range a.sanitizer {
		sn = append(sn, core.FuncName(f))
	}
	sort.Strings(sn)
	r.Extra["c05_d7_sanitisers"] = sn
	// m.Type().Key() / m.Type().Elem()
	mapPart := func(t, m ssa.Value) string {
		c, ok := core.Forward(t).(*ssa.Call)
		if !ok || !c.Call.IsInvoke() {
			return ""
		}
		if n := c.Call.Method.Name(); (n == "Key" || n == "Elem") && typeOfRV(m)(c.Call.Value) {
			return n
		}
		return ""
	}
	nSinks := 0
	for _, f := range funcs {
		for _, in := range core.Instrs(f, core.CallTo("(reflect.Value).Set", "(reflect.Value).SetMapIndex")) {
			c := in.(ssa.CallInstruction)
			args := core.Args(c)
			name := strings.TrimPrefix(core.CalleeName(c), "(reflect.Value).")
			roles := map[int]string{1: "source"}
			if name == "SetMapIndex" {
				roles = map[int]string{1: "key", 2: "element"}
			}
			nSinks++
			r.Fn(core.FuncName(f))
			r.Calls++
			for i := 1; i < len(args); i++ {
				op := args[i]
				o.Site(1)
				// result #0 of a sanitiser, used under err == nil
				if q, idx := core.ResultOf(core.Forward(op)); q != nil && idx == 0 {
					if s := staticCallee(q); s != nil && a.sanitizer[s] != nil {
						if s.Signature.Results().Len() == 2 {
							if w := requiresX(f, core.Is(in), core.ErrNil(1, core.Is(q))); w != nil {
								o.Fail(p.InstrPos(in), "%s: %s %s operand comes from %s but is used although that call may have failed (its result is then a placeholder)", core.FuncName(f), name, roles[i], core.FuncName(s))
							}
						}
						if name == "SetMapIndex" {
							want := map[int]string{1: "Key", 2: "Elem"}[i]
							if got := mapPart(q.Call.Args[paramIndex(s, a.sanitizer[s])], args[0]); got != "" && got != want {
								o.Fail(p.InstrPos(in), "%s: SetMapIndex %s operand was made assignable to the map's %s type", core.FuncName(f), roles[i], got)
							}
						}
						continue
					}
				}
				if !a.tainted(op) {
					continue
				}
				at1 := assignableAtom(op, nil)
				at2 := core.Cmp(token.EQL, typeOfRV(op), func(v ssa.Value) bool { return !typeOfRV(op)(v) })
				if core.EdgeCount(f, at1)+core.EdgeCount(f, at2) > 0 && requiresX(f, core.Is(in), at1, at2) == nil {
					continue
				}
				o.Fail(p.InstrPos(in), "%s: %s %s operand %s is derived from the document and reaches reflect without an assignability check (no sanitising helper, no Type().AssignableTo / type-equality test on the path): a named, pointer or non-string destination type panics",
					core.FuncName(f), name, roles[i], core.Describe(op))
			}
		}
	}
	if nSinks == 0 {
		o.Unres("no reflect.Value.Set / SetMapIndex call found in %s", mapPkg)
	}
}

// ---------------------------------------------------------------------------
// C05-D2: what a converter produces for ONE kind, whether the kinds are told apart
// by a switch / if chain over the selector or by a lookup in a constant
// package-level table (a map, array or slice keyed by the kind) whose entries are
// constants or capture-free functions, and whether the conversion is written in
// the converter itself or delegated (`return table[kind](str)`, `return f(str)`).
//
// c05KindEval resolves values that depend only on "selector == k" and on such
// tables. The tables are decided constant by c20Consts (props/c20_util.go: one
// initialisation by a literal in the package initialiser, every other mention a
// read that neither writes nor lets the table escape).

type c05KindEval struct {
	prog   *ssa.Program
	consts map[*ssa.Package]*c20Consts
}

func newC05KindEval(prog *ssa.Program) *c05KindEval {
	return &c05KindEval{prog: prog, consts: map[*ssa.Package]*c20Consts{}}
}

func (e *c05KindEval) global(g *ssa.Global) (any, bool) {
	if g.Pkg == nil {
		return nil, false
	}
	c := e.consts[g.Pkg]
	if c == nil {
		c = &c20Consts{all: core.SSAPkgFuncs(e.prog, g.Pkg)}
		e.consts[g.Pkg] = c
	}
	return c.of(g) // unexported variables only: nothing outside the package can write them
}

type c05Tuple []any

func c05IntLike(t types.Type) bool {
	b, ok := t.Underlying().(*types.Basic)
	return ok && b.Info()&types.IsInteger != 0
}

// value: the concrete value of v when sel == k (sel may be nil: nothing is known
// about any parameter). Results: constant.Value, *ssa.Function (capture-free),
// c20Nil, *c20Agg, c05Tuple.
func (e *c05KindEval) value(v ssa.Value, sel ssa.Value, k int64, depth int) (any, bool) {
	if depth > 10 || v == nil {
		return nil, false
	}
	if sel != nil && sameVal(v, sel) {
		return constant.MakeInt64(k), true
	}
	switch x := v.(type) {
	case *ssa.Const:
		if x.Value != nil {
			return x.Value, true
		}
		return c20Zero(x.Type()), true
	case *ssa.Function:
		if len(x.FreeVars) == 0 && x.Blocks != nil {
			return x, true
		}
	case *ssa.ChangeType:
		return e.value(x.X, sel, k, depth+1)
	case *ssa.Convert:
		if c05IntLike(x.Type()) && c05IntLike(x.X.Type()) {
			if c, ok := e.value(x.X, sel, k, depth+1); ok {
				if cv, isC := c.(constant.Value); isC && cv.Kind() == constant.Int {
					if n, exact := constant.Int64Val(cv); exact && n >= 0 && n < 128 {
						return cv, true // small non-negative numbers survive every integer conversion
					}
				}
			}
		}
	case *ssa.UnOp:
		switch x.Op {
		case token.MUL:
			if fw := core.Forward(x); fw != ssa.Value(x) {
				return e.value(fw, sel, k, depth+1)
			}
			return e.cell(x.X, sel, k, depth+1)
		case token.NOT:
			if c, ok := e.value(x.X, sel, k, depth+1); ok {
				if cv, isC := c.(constant.Value); isC && cv.Kind() == constant.Bool {
					return constant.MakeBool(!constant.BoolVal(cv)), true
				}
			}
		}
	case *ssa.Lookup:
		m, ok := e.value(x.X, sel, k, depth+1)
		if !ok {
			return nil, false
		}
		agg, isAgg := m.(*c20Agg)
		if !isAgg {
			return nil, false
		}
		mt, isMap := agg.typ.Underlying().(*types.Map)
		if !isMap || len(agg.keys) != len(agg.elems) {
			return nil, false
		}
		key, ok := e.value(x.Index, sel, k, depth+1)
		if !ok {
			return nil, false
		}
		kc, isC := key.(constant.Value)
		if !isC {
			return nil, false
		}
		var val any = c20Zero(mt.Elem())
		found := false
		for i, mk := range agg.keys {
			if mk.Kind() != kc.Kind() {
				return nil, false
			}
			if constant.Compare(mk, token.EQL, kc) {
				val, found = agg.elems[i], true // a later duplicate key cannot occur in a literal
			}
		}
		if x.CommaOk {
			return c05Tuple{val, constant.MakeBool(found)}, true
		}
		return val, true
	case *ssa.Extract:
		t, ok := e.value(x.Tuple, sel, k, depth+1)
		if !ok {
			return nil, false
		}
		if tup, isT := t.(c05Tuple); isT && x.Index < len(tup) {
			return tup[x.Index], true
		}
	case *ssa.Index:
		return e.elem(x.X, x.Index, sel, k, depth, e.value)
	case *ssa.Field:
		if s, ok := e.value(x.X, sel, k, depth+1); ok {
			if agg, isAgg := s.(*c20Agg); isAgg && x.Field < len(agg.elems) {
				return agg.elems[x.Field], true
			}
		}
	case *ssa.BinOp:
		l, ok1 := e.value(x.X, sel, k, depth+1)
		r, ok2 := e.value(x.Y, sel, k, depth+1)
		if ok1 && ok2 {
			if b, ok := c05Compare(x.Op, l, r); ok {
				return constant.MakeBool(b), true
			}
		}
	}
	return nil, false
}

// cell: the value stored at an address inside a constant table.
func (e *c05KindEval) cell(addr ssa.Value, sel ssa.Value, k int64, depth int) (any, bool) {
	if depth > 10 {
		return nil, false
	}
	switch a := addr.(type) {
	case *ssa.Global:
		return e.global(a)
	case *ssa.IndexAddr:
		if _, isPtr := a.X.Type().Underlying().(*types.Pointer); isPtr {
			return e.elem(a.X, a.Index, sel, k, depth, e.cell) // &array[i]
		}
		return e.elem(a.X, a.Index, sel, k, depth, e.value) // &slice[i]
	case *ssa.FieldAddr:
		if s, ok := e.cell(a.X, sel, k, depth+1); ok {
			if agg, isAgg := s.(*c20Agg); isAgg && a.Field < len(agg.elems) {
				return agg.elems[a.Field], true
			}
		}
	}
	return nil, false
}

func (e *c05KindEval) elem(base, index ssa.Value, sel ssa.Value, k int64, depth int, of func(ssa.Value, ssa.Value, int64, int) (any, bool)) (any, bool) {
	s, ok := of(base, sel, k, depth+1)
	if !ok {
		return nil, false
	}
	agg, isAgg := s.(*c20Agg)
	if !isAgg || agg.keys != nil {
		return nil, false
	}
	iv, ok := e.value(index, sel, k, depth+1)
	if !ok {
		return nil, false
	}
	ic, isC := iv.(constant.Value)
	if !isC || ic.Kind() != constant.Int {
		return nil, false
	}
	i, exact := constant.Int64Val(ic)
	if !exact || i < 0 || i >= int64(len(agg.elems)) {
		return nil, false // out of range: the access panics; nothing is claimed
	}
	return agg.elems[i], true
}

// c05Compare decides `l op r` on two concrete values: constants of one kind, or
// a function value / nil compared with nil.
func c05Compare(op token.Token, l, r any) (bool, bool) {
	lc, lIsC := l.(constant.Value)
	rc, rIsC := r.(constant.Value)
	if lIsC && rIsC {
		if lc.Kind() != rc.Kind() {
			return false, false
		}
		switch lc.Kind() {
		case constant.Int, constant.String:
		case constant.Bool:
			if op != token.EQL && op != token.NEQ {
				return false, false
			}
		default:
			return false, false
		}
		switch op {
		case token.EQL, token.NEQ, token.LSS, token.LEQ, token.GTR, token.GEQ:
			return constant.Compare(lc, op, rc), true
		}
		return false, false
	}
	if op != token.EQL && op != token.NEQ {
		return false, false
	}
	isNilV := func(v any) (isNil, known bool) {
		switch v.(type) {
		case c20Nil:
			return true, true
		case *ssa.Function:
			return false, true
		}
		return false, false
	}
	ln, lk := isNilV(l)
	rn, rk := isNilV(r)
	if !lk || !rk || (!ln && !rn) {
		return false, false // two function values are not comparable
	}
	return (ln == rn) == (op == token.EQL), true
}

// cut deletes the branch edges of fn that cannot be taken when sel == k: every
// `if` whose condition has a concrete value under that assumption (a comparison
// of the selector with constants, the comma-ok of a lookup of the selector in a
// constant table, a nil test of the entry found, …) keeps only the edge taken.
func (e *c05KindEval) cut(fn *ssa.Function, sel ssa.Value, k int64) func(core.Edge) bool {
	dead := map[core.Edge]bool{}
	var spelled func(core.Edge) bool // comparisons of the selector itself with constants
	if sel != nil {
		spelled = cutForValue(fn, sel, k)
	}
	for _, b := range fn.Blocks {
		if len(b.Instrs) == 0 {
			continue
		}
		iff, ok := b.Instrs[len(b.Instrs)-1].(*ssa.If)
		if !ok {
			continue
		}
		if spelled != nil {
			for _, s := range b.Succs {
				if ed := (core.Edge{From: b, To: s}); spelled(ed) {
					dead[ed] = true
				}
			}
		}
		c, ok := e.value(iff.Cond, sel, k, 0)
		if !ok {
			continue
		}
		cv, isC := c.(constant.Value)
		if !isC || cv.Kind() != constant.Bool {
			continue
		}
		if constant.BoolVal(cv) {
			dead[core.Edge{From: b, To: b.Succs[1]}] = true
		} else {
			dead[core.Edge{From: b, To: b.Succs[0]}] = true
		}
	}
	return func(ed core.Edge) bool { return dead[ed] }
}

// produced: the dynamic types of result #0 on the returns of the converter prod
// that are reachable when its selector equals k and whose error result may be
// nil. A return that hands on both results of a call (`return conv(str)`), or
// result #0 of a call under that call's err == nil, produces what the callee
// produces: the static callee, or the capture-free function the callee value
// resolves to for this kind through a constant table (a nil entry: the call
// panics, nothing is produced). why != "" when a dynamic type is not static.
func (e *c05KindEval) produced(prod *ssa.Function, sel ssa.Value, k int64, depth int) (ts []types.Type, why string) {
	if depth > 4 {
		return nil, "delegation chain of " + core.FuncName(prod) + " too deep"
	}
	if prod.Blocks == nil || prod.Signature.Results().Len() != 2 {
		return nil, core.FuncName(prod) + " is not a (value, error) function with a body"
	}
	var pkgFuncs []*ssa.Function
	if prod.Pkg != nil {
		pkgFuncs = core.SSAPkgFuncs(e.prog, prod.Pkg)
	} else if prod.Parent() != nil && prod.Parent().Pkg != nil {
		pkgFuncs = core.SSAPkgFuncs(e.prog, prod.Parent().Pkg)
	}
	cut := e.cut(prod, sel, k)
	for _, in := range reachableUnder(prod, cut, core.IsReturn) {
		ret := in.(*ssa.Return)
		if len(ret.Results) != 2 {
			return nil, core.FuncName(prod) + " has a return without two results"
		}
		r0, r1 := core.Result(ret, 0), core.Result(ret, 1)
		if errNonNil(pkgFuncs, r1) {
			continue
		}
		if c1, i1 := core.ResultOf(r1); c1 != nil && c1.Parent() == prod {
			// a call's error handed on where it was found non-nil
			if requiresX(prod, core.Is(ret), core.Not(core.ErrNil(i1, core.Is(c1)))) == nil {
				continue
			}
		}
		if mi, isMI := r0.(*ssa.MakeInterface); isMI {
			ts = append(ts, mi.X.Type())
			continue
		}
		q, i0 := core.ResultOf(r0)
		if q == nil || i0 != 0 || q.Parent() != prod || q.Call.IsInvoke() {
			return nil, core.FuncName(prod) + " returns " + core.Describe(r0) + ", whose dynamic type is not static"
		}
		if q1, i1 := core.ResultOf(r1); q1 != q || i1 != 1 {
			// not the call's own error: the value must only be handed on when the call succeeded
			if w := requiresX(prod, core.Is(ret), core.ErrNil(1, core.Is(q))); w != nil {
				return nil, core.FuncName(prod) + " hands on result #0 of a call that may have failed (a placeholder of another type)"
			}
		}
		callee := staticCallee(q)
		if callee == nil {
			cv, ok := e.value(q.Call.Value, sel, k, 0)
			if !ok {
				return nil, "the function " + core.FuncName(prod) + " calls for this kind (" + core.Describe(q.Call.Value) + ") cannot be resolved through a constant table"
			}
			switch f := cv.(type) {
			case c20Nil:
				continue // calling a nil function panics: no value is produced
			case *ssa.Function:
				callee = f
			default:
				return nil, "the callee " + core.Describe(q.Call.Value) + " of " + core.FuncName(prod) + " is not a function constant"
			}
		}
		// the callee's own selector: its reflect.Kind parameter, when it is handed
		// this selector or a constant
		var csel ssa.Value
		ck := k
		if cp := paramOfType(callee, isReflectKind); cp != nil && len(callee.FreeVars) == 0 {
			arg := q.Call.Args[paramIndex(callee, cp)]
			if av, ok := e.value(arg, sel, k, 0); ok {
				if ac, isC := av.(constant.Value); isC && ac.Kind() == constant.Int {
					if n, exact := constant.Int64Val(ac); exact {
						csel, ck = cp, n
					}
				}
			}
		}
		sub, w := e.produced(callee, csel, ck, depth+1)
		if w != "" {
			return nil, w
		}
		ts = append(ts, sub...)
	}
	return ts, ""
}

// c05HasOptsField: t is a struct (or a pointer to one) with exactly one field
// satisfying isOpts - a bundle of the per-field context handed around as one value.
func c05HasOptsField(t types.Type, isOpts func(types.Type) bool) bool {
	if pt, ok := t.Underlying().(*types.Pointer); ok {
		t = pt.Elem()
	}
	st, ok := t.Underlying().(*types.Struct)
	if !ok {
		return false
	}
	n := 0
	for i := 0; i < st.NumFields(); i++ {
		if isOpts(st.Field(i).Type()) {
			n++
		}
	}
	return n == 1
}

// c05Dispatch: a per-kind setter reached through a constant table. The function
// `entry` asserts its parameter #pIdx without comma-ok; it is never called
// directly, only stored in constant package-level tables, and every function
// value drawn from those tables is only ever called - by the dynamic call q of
// the dispatcher d, which hands its own parameter v on as argument #pIdx and
// has a reflect.Kind parameter sel. Which entry q reaches for a kind is
// evaluated by c05KindEval.
type c05Dispatch struct {
	d      *ssa.Function
	sel, v *ssa.Parameter
	q      *ssa.Call
}

func (e *c05KindEval) dispatchersOf(entry *ssa.Function, pIdx int) (out []c05Dispatch, ok bool) {
	if entry.Pkg == nil || entry.Parent() != nil || len(entry.FreeVars) > 0 || entry.Signature.Recv() != nil ||
		(entry.Object() != nil && entry.Object().Exported()) {
		return nil, false
	}
	pkgFuncs := core.SSAPkgFuncs(e.prog, entry.Pkg)
	initFn := entry.Pkg.Func("init")
	uses := 0
	for _, f := range pkgFuncs {
		for _, b := range f.Blocks {
			for _, in := range b.Instrs {
				for _, op := range in.Operands(nil) {
					if *op != ssa.Value(entry) {
						continue
					}
					switch x := in.(type) {
					case *ssa.MapUpdate:
						if f != initFn || x.Value != ssa.Value(entry) {
							return nil, false
						}
					case *ssa.Store:
						if f != initFn || x.Val != ssa.Value(entry) {
							return nil, false
						}
					default:
						return nil, false // called directly, passed on, compared, …
					}
					uses++
				}
			}
		}
	}
	if uses == 0 {
		return nil, false
	}
	// the constant tables holding it account for every one of these uses
	var tables []*ssa.Global
	occ := 0
	var names []string
	for n := range entry.Pkg.Members {
		names = append(names, n)
	}
	sort.Strings(names)
	for _, n := range names {
		g, isG := entry.Pkg.Members[n].(*ssa.Global)
		if !isG {
			continue
		}
		val, isConst := e.global(g)
		if !isConst {
			continue
		}
		k := 0
		for _, f := range c20FuncsIn(val, nil) {
			if f == entry {
				k++
			}
		}
		if k > 0 {
			tables, occ = append(tables, g), occ+k
		}
	}
	if occ != uses {
		return nil, false
	}
	// what is drawn from the tables is only called
	var calls []*ssa.Call
	var drawn func(v ssa.Value, depth int) bool
	drawn = func(v ssa.Value, depth int) bool {
		if depth > 8 || v.Referrers() == nil {
			return false
		}
		_, isFn := v.Type().Underlying().(*types.Signature)
		for _, ref := range *v.Referrers() {
			switch x := ref.(type) {
			case *ssa.DebugRef:
			case *ssa.BinOp:
				if !isFn || (x.Op != token.EQL && x.Op != token.NEQ) {
					return false
				}
			case *ssa.Call:
				if isFn {
					if x.Call.IsInvoke() || x.Call.Value != v {
						return false
					}
					for _, a := range x.Call.Args {
						if a == v {
							return false
						}
					}
					calls = append(calls, x)
					continue
				}
				bi, isBI := x.Call.Value.(*ssa.Builtin)
				if !isBI || (bi.Name() != "len" && bi.Name() != "cap") {
					return false
				}
			case *ssa.Lookup:
				if isFn || x.X != v || !drawn(x, depth+1) {
					return false
				}
			case *ssa.Extract:
				if b, isB := x.Type().Underlying().(*types.Basic); isB && b.Info()&types.IsBoolean != 0 {
					continue
				}
				if isFn || !drawn(x, depth+1) {
					return false
				}
			case *ssa.IndexAddr:
				if isFn || x.X != v || !drawn(x, depth+1) {
					return false
				}
			case *ssa.Index:
				if isFn || x.X != v || !drawn(x, depth+1) {
					return false
				}
			case *ssa.FieldAddr:
				if isFn || !drawn(x, depth+1) {
					return false
				}
			case *ssa.Field:
				if isFn || !drawn(x, depth+1) {
					return false
				}
			case *ssa.UnOp:
				if isFn || x.Op != token.MUL || !drawn(x, depth+1) {
					return false
				}
			default:
				return false
			}
		}
		return true
	}
	for _, g := range tables {
		for _, f := range pkgFuncs {
			if f == initFn {
				continue
			}
			for _, b := range f.Blocks {
				for _, in := range b.Instrs {
					for _, op := range in.Operands(nil) {
						if *op != ssa.Value(g) {
							continue
						}
						switch x := in.(type) {
						case *ssa.DebugRef:
						case *ssa.UnOp:
							if x.Op != token.MUL || !drawn(x, 0) {
								return nil, false
							}
						case *ssa.IndexAddr:
							if x.X != ssa.Value(g) || !drawn(x, 0) {
								return nil, false
							}
						case *ssa.FieldAddr:
							if !drawn(x, 0) {
								return nil, false
							}
						default:
							return nil, false
						}
					}
				}
			}
		}
	}
	seen := map[*ssa.Call]bool{}
	for _, q := range calls {
		if seen[q] {
			continue
		}
		seen[q] = true
		d := q.Parent()
		sel := paramOfType(d, isReflectKind)
		if sel == nil || pIdx >= len(q.Call.Args) {
			return nil, false
		}
		var v *ssa.Parameter
		for _, pa := range d.Params {
			if sameVal(q.Call.Args[pIdx], pa) {
				v = pa
			}
		}
		if v == nil {
			return nil, false
		}
		out = append(out, c05Dispatch{d: d, sel: sel, v: v, q: q})
	}
	return out, len(out) > 0
}
