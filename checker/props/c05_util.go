package props

// C05-D6: kind-restricted reflect.Value methods on document values.
//
// reflect.ValueOf(x).IsNil/Len/Cap/Index/MapKeys/MapIndex/MapRange panic
// unless x has one of a few kinds. For every interface-typed parameter P of a
// function of lib/mapping the rule computes the set of kinds P must have
// (intersection over the restricted calls on reflect.ValueOf(P) that are not
// guarded inside the function, and over the requirements of in-package callees P
// is handed to unguarded), and then demands that every in-package call site
// either establishes one of these kinds for the argument (a dominating
// Kind()==K test on the same value, a successful comma-ok/type-switch to a type
// of that kind, or a statically typed argument) or passes one of its own
// parameters (whose requirement then includes the callee's).

import (
	"go/constant"
	"go/token"
	"go/types"
	"sort"
	"strings"

	"godcheck/core"

	"golang.org/x/tools/go/ssa"
)

type kindSet uint32

const allKinds kindSet = 1<<27 - 1

func ks(ks ...uint) kindSet {
	var s kindSet
	for _, k := range ks {
		s |= 1 << k
	}
	return s
}

// reflect.Kind values (Array 17 … UnsafePointer 26)
var restrictedKinds = map[string]kindSet{
	"(reflect.Value).IsNil":    ks(18, 19, 20, 21, 22, 23, 26),
	"(reflect.Value).Len":      ks(17, 18, 21, 23, 24),
	"(reflect.Value).Cap":      ks(17, 18, 23),
	"(reflect.Value).Index":    ks(17, 23, 24),
	"(reflect.Value).MapKeys":  ks(21),
	"(reflect.Value).MapIndex": ks(21),
	"(reflect.Value).MapRange": ks(21),
}

var kindNames = map[uint]string{17: "Array", 18: "Chan", 19: "Func", 20: "Interface", 21: "Map", 22: "Pointer", 23: "Slice", 24: "String", 26: "UnsafePointer"}

func (s kindSet) String() string {
	if s == allKinds {
		return "any"
	}
	var out []string
	for k := uint(0); k < 27; k++ {
		if s&(1<<k) != 0 {
			n := kindNames[k]
			if n == "" {
				n = "kind" + string(rune('0'+k/10)) + string(rune('0'+k%10))
			}
			out = append(out, n)
		}
	}
	sort.Strings(out)
	return strings.Join(out, "|")
}

func kindOfType(t types.Type) (uint, bool) {
	switch u := t.Underlying().(type) {
	case *types.Array:
		return 17, true
	case *types.Chan:
		return 18, true
	case *types.Signature:
		return 19, true
	case *types.Interface:
		return 20, true
	case *types.Map:
		return 21, true
	case *types.Pointer:
		return 22, true
	case *types.Slice:
		return 23, true
	case *types.Basic:
		if u.Info()&types.IsString != 0 {
			return 24, true
		}
		return 0, true // some other kind, certainly not a restricted one
	case *types.Struct:
		return 25, true
	}
	return 0, false
}

// sameDoc: a and b denote the same document value: the same SSA value, or two
// loads of the same access path below a parameter spill that is stored once.
func sameDoc(a, b ssa.Value) bool {
	if sameVal(a, b) {
		return true
	}
	la, ok1 := a.(*ssa.UnOp)
	lb, ok2 := b.(*ssa.UnOp)
	if !ok1 || !ok2 || la.Op != token.MUL || lb.Op != token.MUL {
		return false
	}
	ra, rb := rootOfAddr(la.X), rootOfAddr(lb.X)
	al, ok := ra.(*ssa.Alloc)
	if !ok || ra != rb || core.Describe(a) != core.Describe(b) {
		return false
	}
	// the allocation (a spilled parameter) is written exactly once, as a whole
	n := 0
	for _, st := range storesIntoAlloc(al) {
		n++
		if st.Addr != ssa.Value(al) {
			return false
		}
	}
	return n == 1
}

func storesIntoAlloc(al *ssa.Alloc) []*ssa.Store {
	var out []*ssa.Store
	var visit func(v ssa.Value, d int)
	visit = func(v ssa.Value, d int) {
		if d > 6 || v.Referrers() == nil {
			return
		}
		for _, r := range *v.Referrers() {
			switch x := r.(type) {
			case *ssa.Store:
				if x.Addr == v {
					out = append(out, x)
				}
			case *ssa.FieldAddr:
				visit(x, d+1)
			case *ssa.IndexAddr:
				visit(x, d+1)
			}
		}
	}
	visit(al, 0)
	return out
}

// isKindOf matches reflect.TypeOf(x).Kind() and reflect.ValueOf(x).Kind().
func isKindOf(x ssa.Value) func(ssa.Value) bool {
	return func(v ssa.Value) bool {
		c, ok := core.Forward(v).(*ssa.Call)
		if !ok {
			return false
		}
		var src ssa.Value
		if c.Call.IsInvoke() {
			if c.Call.Method.Name() != "Kind" {
				return false
			}
			src = c.Call.Value
		} else if core.CalleeName(c) == "(reflect.Value).Kind" {
			src = c.Call.Args[0]
		} else {
			return false
		}
		q, ok := core.Forward(src).(*ssa.Call)
		if !ok {
			return false
		}
		switch core.CalleeName(q) {
		case "reflect.TypeOf", "reflect.ValueOf":
			return sameDoc(q.Call.Args[0], x)
		}
		return false
	}
}

// kindEstablished: instruction in of f is reachable only after x was shown to
// have a kind in want.
func kindEstablished(f *ssa.Function, in ssa.Instruction, x ssa.Value, want kindSet) bool {
	if mi, ok := x.(*ssa.MakeInterface); ok {
		if k, known := kindOfType(mi.X.Type()); known {
			return want&(1<<k) != 0
		}
	}
	var atoms []core.Atom
	for k := uint(0); k < 27; k++ {
		if want&(1<<k) != 0 {
			atoms = append(atoms, core.Cmp(token.EQL, isKindOf(x), core.IsConstInt(int64(k))))
		}
	}
	atoms = append(atoms, core.BoolVal(func(v ssa.Value) bool {
		e, ok := v.(*ssa.Extract)
		if !ok || e.Index != 1 {
			return false
		}
		ta, ok := e.Tuple.(*ssa.TypeAssert)
		if !ok || !sameDoc(ta.X, x) {
			return false
		}
		k, known := kindOfType(ta.AssertedType)
		if _, isIface := ta.AssertedType.Underlying().(*types.Interface); isIface {
			return false
		}
		return known && want&(1<<k) != 0
	}))
	n := 0
	for _, a := range atoms {
		n += core.EdgeCount(f, a)
	}
	return n > 0 && requiresX(f, core.Is(in), atoms...) == nil
}

type docParam struct {
	fn *ssa.Function
	p  *ssa.Parameter
}

type kindUse struct {
	in   ssa.Instruction
	what string
	arg  ssa.Value // the value whose kind matters at this use (the parameter or its alias)
	need kindSet   // for restricted calls
	to   *docParam // for hand-overs to an in-package callee
}

func c05KindRule(r *core.Run, o *core.O, funcs []*ssa.Function) {
	p := r.P
	inPkg := map[*ssa.Function]bool{}
	for _, f := range funcs {
		inPkg[f] = true
	}
	isAny := func(t types.Type) bool {
		i, ok := t.Underlying().(*types.Interface)
		return ok && i.NumMethods() == 0
	}
	uses := map[docParam][]kindUse{}
	var params []docParam
	for _, f := range funcs {
		for _, pa := range f.Params {
			if !isAny(pa.Type()) {
				continue
			}
			dp := docParam{f, pa}
			params = append(params, dp)
			for _, b := range f.Blocks {
				for _, in := range b.Instrs {
					c, ok := in.(*ssa.Call)
					if !ok {
						continue
					}
					name := core.CalleeName(c)
					if ksNeed, restricted := restrictedKinds[name]; restricted {
						if q, ok := core.Forward(c.Call.Args[0]).(*ssa.Call); ok && core.CalleeName(q) == "reflect.ValueOf" && sameDoc(q.Call.Args[0], pa) {
							uses[dp] = append(uses[dp], kindUse{in: in, what: strings.TrimPrefix(name, "(reflect.Value)."), arg: q.Call.Args[0], need: ksNeed})
						}
						continue
					}
					g := staticCallee(c)
					if g == nil || !inPkg[g] {
						continue
					}
					for j, a := range c.Call.Args {
						if j < len(g.Params) && isAny(g.Params[j].Type()) && sameDoc(a, pa) {
							uses[dp] = append(uses[dp], kindUse{in: in, what: "call of " + core.FuncName(g), arg: a, to: &docParam{g, g.Params[j]}})
						}
					}
				}
			}
		}
	}
	need := map[docParam]kindSet{}
	for _, dp := range params {
		need[dp] = allKinds
	}
	for changed := true; changed; {
		changed = false
		for _, dp := range params {
			n := allKinds
			for _, u := range uses[dp] {
				req := u.need
				if u.to != nil {
					req = need[*u.to]
				}
				if req == allKinds || kindEstablished(dp.fn, u.in, u.arg, req) {
					continue
				}
				n &= req
			}
			if n != need[dp] {
				need[dp], changed = n, true
			}
		}
	}
	for _, dp := range params {
		for _, u := range uses[dp] {
			if u.to == nil {
				o.Site(1)
			}
		}
		if need[dp] == allKinds {
			continue
		}
		f := dp.fn
		r.Fn(core.FuncName(f))
		if need[dp] == 0 {
			o.Fail(p.Pos(f.Pos()), "%s: no kind of %s satisfies all its unguarded reflect uses", core.FuncName(f), dp.p.Name())
			continue
		}
		if f.Object() != nil && f.Object().Exported() {
			o.Fail(p.Pos(f.Pos()), "%s is exported and needs %s to be of kind %s without testing it", core.FuncName(f), dp.p.Name(), need[dp])
			continue
		}
		sites, esc := callSitesOf(funcs, f)
		if esc {
			o.Fail(p.Pos(f.Pos()), "%s is used as a value; it needs %s to be of kind %s without testing it", core.FuncName(f), dp.p.Name(), need[dp])
		}
		idx := paramIndex(f, dp.p)
		for _, cs := range sites {
			o.Site(1, core.FuncName(cs.Parent())+" -> "+core.FuncName(f))
			r.Calls++
			a := cs.Common().Args[idx]
			g := cs.Parent()
			if kindEstablished(g, cs, a, need[dp]) {
				continue
			}
			// passing on one's own parameter: covered by that parameter's requirement
			covered := false
			for _, gp := range g.Params {
				if isAny(gp.Type()) && sameDoc(a, gp) && need[docParam{g, gp}]&^need[dp] == 0 {
					covered = true
				}
			}
			if covered {
				continue
			}
			var what []string
			for _, u := range uses[dp] {
				if u.to == nil {
					what = append(what, u.what)
				}
			}
			o.Fail(p.InstrPos(cs), "%s passes %s to %s, which applies reflect %s (or hands it to a callee that does) to it and so needs kind %s, but no Kind test / typed assertion establishes that here: a document value of another kind panics",
				core.FuncName(g), core.Describe(a), core.FuncName(f), strings.Join(what, "/"), need[dp])
		}
	}
}

// requiresX is core.Requires made aware of constant φ inputs: when a block whose
// `if` tests a φ of that block is entered through a predecessor for which the φ
// is a boolean constant (the lowering of `a && b` / `a || b` used as a value,
// e.g. in the cases of a tagless switch), only the matching successor is
// followed. It returns a target still reachable from the entry once the edges
// establishing any of the atoms are removed (nil: guarded).
func requiresX(fn *ssa.Function, target func(ssa.Instruction) bool, atoms ...core.Atom) ssa.Instruction {
	cut := map[core.Edge]bool{}
	for _, a := range atoms {
		h, _ := core.EdgesOf(fn, a)
		for _, e := range h {
			cut[e] = true
		}
	}
	type state struct{ b, pred *ssa.BasicBlock }
	seen := map[state]bool{}
	work := []state{{fn.Blocks[0], nil}}
	for len(work) > 0 {
		s := work[len(work)-1]
		work = work[:len(work)-1]
		if seen[s] {
			continue
		}
		seen[s] = true
		for _, in := range s.b.Instrs {
			if target(in) {
				return in
			}
		}
		succs := s.b.Succs
		if iff, ok := s.b.Instrs[len(s.b.Instrs)-1].(*ssa.If); ok && s.pred != nil {
			cond, flip := iff.Cond, false
			for {
				u, ok := cond.(*ssa.UnOp)
				if !ok || u.Op != token.NOT {
					break
				}
				cond, flip = u.X, !flip
			}
			if phi, ok := cond.(*ssa.Phi); ok && phi.Block() == s.b {
				for i, pb := range s.b.Preds {
					if pb != s.pred {
						continue
					}
					c, ok := phi.Edges[i].(*ssa.Const)
					if !ok || c.Value == nil || c.Value.Kind() != constant.Bool {
						continue
					}
					if constant.BoolVal(c.Value) != flip {
						succs = s.b.Succs[:1]
					} else {
						succs = s.b.Succs[1:2]
					}
				}
			}
		}
		for _, n := range succs {
			if !cut[core.Edge{From: s.b, To: n}] {
				work = append(work, state{n, s.b})
			}
		}
	}
	return nil
}
