package props

import (
	"go/token"
	"go/types"

	"godcheck/core"

	"golang.org/x/tools/go/ssa"
)

// c13Routing: the clients of the ring named by the property's observation points
// ("node chosen by cache.New(cluster) / kv.NewStore for a key"). The per-method
// obligations (which parameter a kv.Store method routes by, what a cluster
// method hands the chosen node) are imported from C12 and C06 (registry.go,
// prefixes KV/ and CL/); what is decided here is the lookup itself.
func c13Routing(r *core.Run) {
	p := r.P
	const kvPkg = "lib/store/kv"
	isGet := core.CallMethod("hash.ConsistentHash", "Get")
	pkgs := []string{kvPkg, cachePkg}
	// routers: functions that return the node they looked up for one of their parameters
	// (kvStore.getRedis); a call of a router is a lookup as well. Two rounds: a router of a router.
	routerKey := map[*ssa.Function]int{}
	lookups := func(f *ssa.Function) (calls []ssa.CallInstruction, keys []ssa.Value) {
		for _, c := range core.Calls(f, func(in ssa.Instruction) bool { return core.AsCall(in) != nil }) {
			if isGet(c) {
				if a := core.Args(c); len(a) >= 2 {
					calls, keys = append(calls, c), append(keys, a[1])
				}
				continue
			}
			if callee := c.Common().StaticCallee(); callee != nil {
				if i, ok := routerKey[callee]; ok && i < len(c.Common().Args) {
					if _, isCall := c.(*ssa.Call); isCall {
						calls, keys = append(calls, c), append(keys, c.Common().Args[i])
					}
				}
			}
		}
		return
	}
	for round := 0; round < 2; round++ {
		for _, pkg := range pkgs {
			for _, f := range p.PkgFuncs(pkg) {
				calls, keys := lookups(f)
				if len(calls) == 0 || c13routerResult(f, calls) < 0 {
					continue
				}
				for _, k := range keys {
					for i := range f.Params {
						if core.ParamAt(f, i)(c13KeyStrip(k)) {
							routerKey[f] = i
						}
					}
				}
			}
		}
	}

	r.Check("D5/K8/ring-lookup-by-the-key-itself", "every function of lib/store/kv and lib/store/cache that asks the ring for a node (ConsistentHash.Get, or a function of these packages that returns the node it looked up for its parameter: kvStore.getRedis) looks up, unaltered, a string parameter of its own or an element of its own []string parameter; a function that hands the looked-up node on to its caller (kvStore.getRedis) returns on every path exactly that lookup's node, or no node – the latter only on an edge on which the lookup reported absence ['returns the same node every time while membership is unchanged' and 'reports absence only when no node of positive weight is present', observed at the node kv.NewStore / cache.New choose for a key: a lookup by anything but the key (its address, its length, a derived or constant string) sends one key to several nodes or all keys to few, a node from elsewhere is not the ring's choice, and an error on the found path reports absence although the ring returned a node]", func(o *core.O) {
		routers := 0
		for _, pkg := range pkgs {
			n := 0
			for _, f := range p.PkgFuncs(pkg) {
				gets, keys := lookups(f)
				if len(gets) == 0 {
					continue
				}
				r.Fn(core.FuncName(f))
				n += len(gets)
				for i, g := range gets {
					if what, ok := c13OwnKey(f, keys[i]); !ok {
						o.Fail(p.InstrPos(g), "%s looks up %s on the ring, not its own key parameter unaltered: the node used for a key is not the node the ring assigns to that key", core.FuncName(f), what)
					}
				}
				if c13routerCheck(o, p, f, gets) {
					routers++
				}
			}
			o.Site(n, pkg)
			if n == 0 {
				o.Unres("no ConsistentHash.Get call found in %s (the routing of keys to nodes moved)", pkg)
			}
		}
		if routers == 0 {
			o.Unres("no function of %s or %s returns the node it looked up on the ring (kvStore.getRedis not found by its role)", kvPkg, cachePkg)
		}
	})

	r.Check("D5/K8/node-used-for-the-looked-up-key", "in lib/store/kv and lib/store/cache, a function that uses the node of a ring lookup itself – calls a method on it that takes strings, or files strings under it in a map (the multi-key delete) – hands it the very string it looked up (the same value, or the same element of its keys parameter) [same clauses: a key operated on the node that the ring chose for ANOTHER key is not on 'the same node every time'; what functions do with a node they pass on to a callback or to their caller is decided by the imported KV/ rules, resp. on the inlined program variants]", func(o *core.O) {
		n := 0
		for _, pkg := range pkgs {
			for _, f := range p.PkgFuncs(pkg) {
				gets, keys := lookups(f)
				if len(gets) == 0 {
					continue
				}
				r.Fn(core.FuncName(f))
				for i, g := range gets {
					key := keys[i]
					one := []ssa.CallInstruction{g}
					for _, c := range core.Calls(f, func(in ssa.Instruction) bool { return core.AsCall(in) != nil && in != ssa.Instruction(g) }) {
						ca := core.Args(c)
						if !c.Common().IsInvoke() && c.Common().StaticCallee() == nil {
							// the node handed to a function value (cluster.withNode(key, fn) style): what fn does with it
							// is seen once the helper and the literal are inlined (program variants, DESIGN §2.6b)
							for _, a := range ca {
								if c13nodeOf(a, one) != nil {
									n++
									o.Unres("%s hands the looked-up node to a function value: which key it is used for is not decided on this shape", core.FuncName(f))
								}
							}
							continue
						}
						if len(ca) == 0 || c13nodeOf(ca[0], one) == nil {
							continue // not a method call on the looked-up node
						}
						var strs []ssa.Value
						known := true
						for _, a := range ca[1:] {
							ss, ok := c13Strings(a)
							known = known && ok
							strs = append(strs, ss...)
						}
						if len(strs) == 0 {
							continue
						}
						n++
						same := false
						for _, sv := range strs {
							same = same || c13SameKey(sv, key)
						}
						if !same && known {
							o.Fail(p.InstrPos(c), "%s: the node the ring chose for %s is called with %s instead: that key is operated on a node the ring did not choose for it", core.FuncName(f), core.Describe(c13KeyStrip(key)), core.Describe(c13KeyStrip(strs[0])))
						}
					}
					for _, in := range core.Instrs(f, func(in ssa.Instruction) bool {
						mu, ok := in.(*ssa.MapUpdate)
						return ok && c13nodeOf(mu.Key, one) != nil
					}) {
						mu := in.(*ssa.MapUpdate)
						val := core.Strip(core.Forward(mu.Value))
						if c, ok := val.(*ssa.Call); ok && core.CalleeName(c) == "builtin:append" && len(c.Call.Args) == 2 {
							val = c.Call.Args[1]
						}
						strs, known := c13Strings(val)
						n++
						if !known {
							o.Fail(p.InstrPos(mu), "%s files %s under the node the ring chose for %s, not exactly that key: other keys are later operated on a node the ring did not choose for them", core.FuncName(f), core.Describe(c13KeyStrip(val)), core.Describe(c13KeyStrip(key)))
							continue
						}
						for _, sv := range strs {
							if !c13SameKey(sv, key) {
								o.Fail(p.InstrPos(mu), "%s files %s under the node the ring chose for %s: that key is later operated on a node the ring did not choose for it", core.FuncName(f), core.Describe(c13KeyStrip(sv)), core.Describe(c13KeyStrip(key)))
							}
						}
					}
				}
			}
		}
		o.Site(n, kvPkg, cachePkg)
	})
}

// c13OwnKey decides whether v (the argument of a ring lookup in f) is, through
// value-preserving wrappers and local temporaries only, a string parameter of
// f (or of the function whose closure f is) or an element of a []string
// parameter. The description of what it is instead is returned for the message.
func c13OwnKey(f *ssa.Function, v ssa.Value) (string, bool) {
	isStr, isStrSlice, strip := c13IsStr, c13IsStrSlice, c13KeyStrip
	param := func(v ssa.Value, want func(types.Type) bool) bool {
		v = strip(v)
		if pa, ok := v.(*ssa.Parameter); ok {
			return want(pa.Type())
		}
		// a parameter of the enclosing function captured by a function literal
		for root := f.Parent(); root != nil; root = root.Parent() {
			for i, pa := range root.Params {
				if want(pa.Type()) && core.CapturedParam(root, i)(v) {
					return true
				}
			}
		}
		return false
	}
	x := strip(v)
	if !isStr(x.Type()) {
		return core.Describe(x) + " (a " + x.Type().String() + ")", false
	}
	if param(x, isStr) {
		return "", true
	}
	if u, ok := x.(*ssa.UnOp); ok && u.Op == token.MUL {
		if ia, ok := u.X.(*ssa.IndexAddr); ok && param(ia.X, isStrSlice) {
			return "", true
		}
	}
	if ix, ok := x.(*ssa.Index); ok && param(ix.X, isStrSlice) {
		return "", true
	}
	return core.Describe(x), false
}

// c13nodeOf resolves v to the ring lookup whose node (result #0, possibly type
// asserted) it is; nil when it is anything else.
func c13nodeOf(v ssa.Value, gets []ssa.CallInstruction) ssa.CallInstruction {
	for i := 0; i < 16; i++ {
		v = core.Strip(core.Forward(v))
		switch x := v.(type) {
		case *ssa.TypeAssert:
			v = x.X
			continue
		case *ssa.Call:
			for _, g := range gets {
				if gv, ok := g.(ssa.Value); ok && gv == ssa.Value(x) && !c13isTuple(x.Type()) {
					return g
				}
			}
		case *ssa.Extract:
			if ta, ok := x.Tuple.(*ssa.TypeAssert); ok && x.Index == 0 {
				v = ta.X
				continue
			}
			if x.Index == 0 {
				for _, g := range gets {
					if gv, ok := g.(ssa.Value); ok && x.Tuple == gv {
						return g
					}
				}
			}
		}
		return nil
	}
	return nil
}

// c13routerResult is the index of the result through which f returns a node it
// looked up (gets); -1 when it returns none.
func c13routerResult(f *ssa.Function, gets []ssa.CallInstruction) int {
	idx := -1
	for _, ret := range core.Returns(f) {
		for i := range ret.Results {
			for _, leaf := range gxPhiLeaves(core.Result(ret, i)) {
				if c13nodeOf(leaf, gets) != nil {
					idx = i
				}
			}
		}
	}
	return idx
}

// c13routerCheck: when f returns a node it looked up on the ring, every return
// of f yields exactly a lookup's node, or nil (and a non-nil error) only on an edge on which that
// lookup's ok is false (or a comma-ok assertion of the node failed). It reports whether f is such a function.
func c13routerCheck(o *core.O, p *core.Prog, f *ssa.Function, gets []ssa.CallInstruction) bool {
	rets := core.Returns(f)
	idx := c13routerResult(f, gets)
	if idx < 0 {
		return false
	}
	isOk := func(v ssa.Value) bool {
		for _, g := range gets {
			if core.IsResult(v, 1, core.Is(g)) {
				return true
			}
		}
		return false
	}
	isFalse := func(v ssa.Value) bool {
		c, ok := v.(*ssa.Const)
		return ok && c.Value != nil && c.Value.String() == "false"
	}
	isTrue := func(v ssa.Value) bool {
		c, ok := v.(*ssa.Const)
		return ok && c.Value != nil && c.Value.String() == "true"
	}
	// a defensive comma-ok assertion of the looked-up node to its static type may fail as well
	isAssertOk := func(v ssa.Value) bool {
		ex, ok := v.(*ssa.Extract)
		if !ok || ex.Index != 1 {
			return false
		}
		ta, ok := ex.Tuple.(*ssa.TypeAssert)
		return ok && c13nodeOf(ta.X, gets) != nil
	}
	absent := core.AnyOf(core.Not(core.BoolVal(isOk)), core.Cmp(token.EQL, isOk, isFalse), core.Cmp(token.NEQ, isOk, isTrue), core.Not(core.BoolVal(isAssertOk)), core.Cmp(token.NEQ, isOk, core.IsNil))
	absentEdges, _ := core.EdgesOf(f, absent)
	// free: the value enters the return (through edge, or directly) on a path that passes no edge reporting absence
	free := func(ret *ssa.Return, edge *core.Edge) bool {
		if edge != nil {
			return gxEdgeReachable(f, *edge, absentEdges)
		}
		return core.Requires(f, core.Is(ret), absent) != nil
	}
	errType := types.Universe.Lookup("error").Type()
	isErr := func(t types.Type) bool { return types.Identical(t, errType) }
	for _, ret := range rets {
		ret := ret
		gxLeavesWithEdges(core.Result(ret, idx), func(leaf ssa.Value, edge *core.Edge) {
			lf := core.Strip(core.Forward(leaf))
			switch {
			case core.IsNil(lf):
				if free(ret, edge) {
					o.Fail(p.InstrPos(ret), "%s can return no node although the ring lookup did not report absence: a key that the ring assigns to a present node is reported as having none", core.FuncName(f))
				}
			case c13nodeOf(leaf, gets) != nil:
			default:
				o.Fail(p.InstrPos(ret), "%s can return %s as the node for a key: not the node the ring looked up for it", core.FuncName(f), core.Describe(lf))
			}
		})
		for j := range ret.Results {
			if j == idx || !isErr(ret.Results[j].Type()) {
				continue
			}
			gxLeavesWithEdges(core.Result(ret, j), func(leaf ssa.Value, edge *core.Edge) {
				if lf := core.Strip(core.Forward(leaf)); !core.IsNil(lf) && free(ret, edge) {
					o.Fail(p.InstrPos(ret), "%s can return the error %s although the ring lookup did not report absence: a key that the ring assigns to a present node is reported as having none", core.FuncName(f), core.Describe(lf))
				}
			})
		}
	}
	return true
}

func c13IsStr(t types.Type) bool {
	b, ok := t.Underlying().(*types.Basic)
	return ok && b.Info()&types.IsString != 0
}

func c13IsStrSlice(t types.Type) bool {
	s, ok := t.Underlying().(*types.Slice)
	return ok && c13IsStr(s.Elem())
}

// c13KeyStrip looks through local temporaries and the wrappers that keep a
// string what it is: interface boxing and named<->underlying string conversions.
func c13KeyStrip(v ssa.Value) ssa.Value {
	for i := 0; i < 16; i++ {
		v = core.Forward(v)
		switch x := v.(type) {
		case *ssa.MakeInterface:
			v = x.X
			continue
		case *ssa.ChangeInterface:
			v = x.X
			continue
		case *ssa.ChangeType:
			v = x.X
			continue
		case *ssa.Convert:
			if c13IsStr(x.Type()) && c13IsStr(x.X.Type()) {
				v = x.X
				continue
			}
		}
		break
	}
	return v
}

// c13SameKey: a and k denote the same string: one SSA value, two loads of one
// captured variable, or two loads of the same element (same index value or
// equal constant indices) of the same slice parameter.
func c13SameKey(a, k ssa.Value) bool {
	a, k = c13KeyStrip(a), c13KeyStrip(k)
	if a == k {
		return true
	}
	ua, ok1 := a.(*ssa.UnOp)
	uk, ok2 := k.(*ssa.UnOp)
	if !ok1 || !ok2 || ua.Op != token.MUL || uk.Op != token.MUL {
		return false
	}
	if fa, ok := ua.X.(*ssa.FreeVar); ok {
		return ua.X == uk.X && fa != nil
	}
	ia, ok1 := ua.X.(*ssa.IndexAddr)
	ik, ok2 := uk.X.(*ssa.IndexAddr)
	if !ok1 || !ok2 {
		return false
	}
	ba, bk := c13KeyStrip(ia.X), c13KeyStrip(ik.X)
	if _, isParam := ba.(*ssa.Parameter); !isParam || ba != bk {
		return false
	}
	if ia.Index == ik.Index {
		return true
	}
	ca, ok1 := core.ConstInt(ia.Index)
	ck, ok2 := core.ConstInt(ik.Index)
	return ok1 && ok2 && ca == ck
}

// c13Strings lists the strings a call argument hands over: the argument itself
// when it is a string, the elements of a []string built on the spot (variadic
// call, slice literal). ok=false: a []string whose elements are not known here.
func c13Strings(v ssa.Value) (out []ssa.Value, ok bool) {
	x := c13KeyStrip(v)
	if c13IsStr(x.Type()) {
		return []ssa.Value{x}, true
	}
	if !c13IsStrSlice(x.Type()) {
		return nil, true
	}
	if core.IsNil(x) {
		return nil, true
	}
	sl, isSlice := x.(*ssa.Slice)
	if !isSlice {
		return nil, false
	}
	al, isAlloc := sl.X.(*ssa.Alloc)
	if !isAlloc || sl.Low != nil || sl.High != nil {
		return nil, false
	}
	for _, r := range *al.Referrers() {
		switch y := r.(type) {
		case *ssa.IndexAddr:
			for _, rr := range *y.Referrers() {
				if st, isStore := rr.(*ssa.Store); isStore && st.Addr == ssa.Value(y) {
					out = append(out, st.Val)
				} else {
					return nil, false
				}
			}
		case *ssa.Slice:
		default:
			return nil, false
		}
	}
	return out, true
}

func c13isTuple(t types.Type) bool { _, ok := t.(*types.Tuple); return ok }
