package props

import (
	"go/token"
	"go/types"
	"strings"

	"godcheck/core"

	"golang.org/x/tools/go/ssa"
)

// c15InvokesGet: g (its closures and its static callees up to depth) asks etcd for a snapshot (EtcdClient.Get).
func c15InvokesGet(g *ssa.Function, depth int) bool {
	seen := map[*ssa.Function]bool{}
	var rec func(g *ssa.Function, d int) bool
	rec = func(g *ssa.Function, d int) bool {
		if g == nil || g.Blocks == nil || seen[g] || d > depth {
			return false
		}
		seen[g] = true
		for _, h := range core.WithAnon(g) {
			for _, c := range core.Calls(h, func(in ssa.Instruction) bool { return core.AsCall(in) != nil }) {
				if strings.HasSuffix(core.CalleeName(c), "internal.EtcdClient).Get") {
					return true
				}
				if rec(c.Common().StaticCallee(), d+1) {
					return true
				}
			}
		}
		return false
	}
	return rec(g, 0)
}

// c15SnapshotRevision: the revision a snapshot loader hands to the watcher is the header revision of the snapshot.
//
// The watcher opens its watch at (returned revision)+1, and reads 0 as "no revision known: watch from now". The
// snapshot and the watch are two requests; what is committed between them is seen only if the watch starts right
// after the revision the snapshot was taken at. That revision is the Revision of the response header: it is the only
// revision in the response that exists for an empty snapshot (no key, so no Create/ModRevision to look at) and that is
// not smaller than any change the snapshot contains. Any other source (a constant, a key's ModRevision, a maximum
// over the keys, a counter) is 0 or stale for some history.
func c15SnapshotRevision(r *core.Run, pkg string) {
	p := r.P
	r.Explanation += " The revision returned by the snapshot loader (start of the watch) is the header Revision of the EtcdClient.Get response on every return."
	r.NotDecided += " Not decided for the snapshot revision: that the watcher adds exactly one to it (D4/K1 checks that the watcher is started from the loaded revision)."
	r.Check("D4/K8/watch-starts-at-snapshot-revision", "the function that takes the snapshot of a prefix (asks EtcdClient.Get) and returns the int64 revision the watcher starts from returns, on every return, the Revision of the header of that Get response (or what another such loader returned): the header revision is defined for an empty snapshot and covers every change in it; a revision computed from the keys (ModRevision, maximum over Kvs) or a constant is 0 for an empty prefix - the watcher reads 0 as 'from now' - so a key put between the snapshot and the creation of the watch is in neither [clause: value list equals the keys currently present, including changes that happened while the watch was down; first load and every reload]", func(o *core.O) {
		// resp: every leaf is result #0 of EtcdClient.Get, or of an in-package function that asks Get
		isResp := func(v ssa.Value) bool {
			ok := true
			any := false
			for _, l := range gxPhiLeaves(core.Forward(v)) {
				l = core.Forward(l)
				any = true
				if core.IsResult(l, 0, core.CallMethod("EtcdClient", "Get")) {
					continue
				}
				if c, ok2 := l.(*ssa.Call); ok2 && c.Call.StaticCallee() != nil && c15InvokesGet(c.Call.StaticCallee(), 2) {
					continue
				}
				if e, ok2 := l.(*ssa.Extract); ok2 {
					if c, ok3 := e.Tuple.(*ssa.Call); ok3 && c.Call.StaticCallee() != nil && c15InvokesGet(c.Call.StaticCallee(), 2) {
						continue
					}
				}
				ok = false
			}
			return ok && any
		}
		isNamed := func(t types.Type, name string) bool {
			if pt, ok := t.Underlying().(*types.Pointer); ok {
				t = pt.Elem()
			}
			n, ok := t.(*types.Named)
			return ok && n.Obj().Name() == name
		}
		// header of the Get response: resp.Header or resp.GetHeader()
		isHeader := func(v ssa.Value) bool {
			any := false
			for _, l := range gxPhiLeaves(core.Forward(v)) {
				l = core.Forward(l)
				any = true
				if core.FieldAddrNameOfLoad(l) == "GetResponse.Header" {
					if base, _ := core.FieldOf(l); base != nil && isResp(base) {
						continue
					}
				}
				if c, ok := l.(*ssa.Call); ok && c.Call.StaticCallee() != nil && c.Call.StaticCallee().Name() == "GetHeader" && len(c.Call.Args) == 1 && isNamed(c.Call.Args[0].Type(), "GetResponse") && isResp(c.Call.Args[0]) {
					continue
				}
				return false
			}
			return any
		}
		// why: "" when leaf is the header revision of the snapshot
		why := func(f *ssa.Function, l ssa.Value) string {
			l = core.Forward(l)
			if core.FieldAddrNameOfLoad(l) == "ResponseHeader.Revision" {
				if base, _ := core.FieldOf(l); base != nil && isHeader(base) {
					return ""
				}
				return "the Revision of a header that is not the header of the EtcdClient.Get response"
			}
			if c, ok := l.(*ssa.Call); ok && c.Call.StaticCallee() != nil {
				g := c.Call.StaticCallee()
				if g.Name() == "GetRevision" && len(c.Call.Args) == 1 && isNamed(c.Call.Args[0].Type(), "ResponseHeader") && isHeader(c.Call.Args[0]) {
					return ""
				}
				if g != f && g.Pkg == f.Pkg && c.Type().String() == "int64" && c15InvokesGet(g, 2) {
					return "" // another loader, decided on its own
				}
			}
			if k, ok := core.ConstInt(l); ok {
				if k == 0 {
					return "the constant 0, which the watcher reads as 'watch from now'"
				}
				return "a constant"
			}
			return core.Describe(l) + ", which is not the header revision of the snapshot"
		}
		n := 0
		for _, f := range p.PkgFuncs(pkg) {
			res := f.Signature.Results()
			if f.Blocks == nil || res.Len() != 1 || res.At(0).Type().String() != "int64" || !c15InvokesGet(f, 2) {
				continue
			}
			n++
			r.Fn(core.FuncName(f))
			rets := core.Returns(f)
			o.Site(len(rets), core.FuncName(f))
			for _, ret := range rets {
				if len(ret.Results) != 1 {
					continue
				}
				for _, l := range gxPhiLeaves(core.Forward(ret.Results[0])) {
					if w := why(f, l); w != "" {
						o.Fail(p.InstrPos(ret), "%s takes the snapshot of a prefix and returns as the revision to watch from %s: for an empty prefix (no publisher yet, or all expired while disconnected) the revision is 0 or stale, the watch is opened 'from now' or too late, and a registration committed between the snapshot and the watch is never delivered - the subscriber misses that value until the next reload", core.FuncName(f), w)
						break
					}
				}
			}
		}
		if n == 0 {
			o.Unres("anchor not found: no function of %s asks EtcdClient.Get and returns an int64 revision", pkg)
		}
	})
}

// c15RemovalVisitsWholeList: forgetting a key removes every occurrence of it from the key list of its value.
//
// container.values[v] is a plain list: the adder appends the key on every delivered put, and the same put is
// delivered more than once in ordinary histories (a watch stream re-created from the load revision replays the events
// since; several watchers of one cluster fan every event out to all listeners; a re-put). container.mapping holds
// the key once. The remover drops mapping[key] at once, so it has exactly one chance to clear the list: if its scan
// stops at the first element equal to the key, the later occurrences stay for ever (further deletes find no mapping).
func c15RemovalVisitsWholeList(r *core.Run, pkg string) {
	p := r.P
	r.Explanation += " The scan with which the remover takes a forgotten key out of its value's list goes on after a match: no return is reachable from the matching edge without passing the loop head again."
	r.NotDecided += " Not decided for the key removal scan: removers that leave the comparison to a callee that is not inlined; that every non-matching element is kept."
	r.Check("D3/K3/removed-key-scan-visits-whole-list", "the function that forgets a key (deletes it from container.mapping) removes EVERY occurrence of the key from the key list of its value: where it compares the elements of values[..] with the key inside a loop, meeting the key does not end the scan - from the edge on which element == key holds, every path to a return passes the head of that loop again (the list is appended to on every delivered put and the same put is delivered again after a watch stream is re-created or through a second watcher, so a key can stand in the list twice while mapping holds it once; mapping[key] is dropped at once, so occurrences left behind are never removed and the value stays listed although no key carries it) [clause: value list equals the set of distinct values of the keys currently present, for any sequence of puts and deletes]", func(o *core.O) {
		isMapping := func(v ssa.Value) bool { return core.IsFieldLoad(core.Forward(v), "container.mapping") }
		isValues := func(v ssa.Value) bool { return core.IsFieldLoad(core.Forward(v), "container.values") }
		n := 0
		for _, f := range p.PkgFuncs(pkg) {
			var forgets []*ssa.Call
			for _, in := range core.Instrs(f, func(in ssa.Instruction) bool {
				c, ok := in.(*ssa.Call)
				if !ok {
					return false
				}
				b, ok := c.Call.Value.(*ssa.Builtin)
				return ok && b.Name() == "delete" && isMapping(c.Call.Args[0])
			}) {
				forgets = append(forgets, in.(*ssa.Call))
			}
			if len(forgets) == 0 {
				continue
			}
			r.Fn(core.FuncName(f))
			for _, fg := range forgets {
				n++
				key := core.Describe(core.Forward(fg.Call.Args[1]))
				isKey := func(v ssa.Value) bool { return core.Describe(core.Forward(v)) == key }
				isElem := func(v ssa.Value) bool {
					if isKey(v) {
						return false
					}
					return core.DependsOn(v, func(x ssa.Value) bool {
						l, ok := x.(*ssa.Lookup)
						return ok && isValues(l.X)
					})
				}
				met, _ := core.EdgesOf(f, core.Cmp(token.EQL, isElem, isKey))
				o.Site(1+len(met), core.FuncName(f))
				for _, e := range met {
					head := c15LoopHead(e.From)
					if head == nil {
						continue // comparison outside any loop: a single element, nothing to scan
					}
					inHead := func(in ssa.Instruction) bool { return in.Block() == head }
					if w, ok := core.Reach(core.Q{From: []core.At{core.Head(e.To)}, Target: core.IsReturn, Blocked: inHead}); ok {
						o.Fail(p.InstrPos(w), "%s stops scanning the key list of the value at the first element equal to the forgotten key (a return is reached from the match at %s without another turn of the loop): when the key stands in the list twice - its put was delivered twice, by a re-created watch stream or a second watcher - one occurrence stays, mapping[key] is gone so no later delete removes it, and Values() lists the value for ever although no key carries it", core.FuncName(f), p.InstrPos(gxLast(e.From)))
					}
				}
			}
		}
		if n == 0 {
			o.Unres("no function of %s deletes from container.mapping", pkg)
		}
	})
}

// c15LoopHead: the head of the innermost natural loop that contains b (nil when b is in no loop): the deepest
// dominator h of b (b included) that has a back edge x -> h (h dominates x) from a block x reachable from b.
func c15LoopHead(b *ssa.BasicBlock) *ssa.BasicBlock {
	for h := b; h != nil; h = h.Idom() {
		// blocks reachable from b without passing h
		reach := map[*ssa.BasicBlock]bool{}
		var walk func(x *ssa.BasicBlock)
		walk = func(x *ssa.BasicBlock) {
			if reach[x] || x == h {
				return
			}
			reach[x] = true
			for _, s := range x.Succs {
				walk(s)
			}
		}
		if b == h {
			for _, s := range b.Succs {
				walk(s)
			}
			reach[b] = true
		} else {
			walk(b)
		}
		for _, x := range h.Preds {
			if h.Dominates(x) && reach[x] {
				return h
			}
		}
	}
	return nil
}
