package props

import (
	"fmt"
	"go/constant"
	"go/token"
	"go/types"
	"strings"

	"godcheck/core"

	"golang.org/x/tools/go/ssa"
)

// Round 10 (seeded change C01-vm3): BreakerHandler classifies a request by the status its
// status-recording writer holds when the handler has returned. Which status that is depends on
// the writer's WriteHeader as a *state machine* over the writer's own fields – not on the single
// store D5/K2/http-status-below-500 looks at: a WriteHeader that keeps the first status it saw
// records 103 for a handler that sends Early Hints and then 502.
//
// The rule below does not match how WriteHeader is written. It *runs* it: a small concrete
// interpreter over the scalar fields of the writer (c01wInterp) executes the method – and the
// in-package helpers, closures and deferred calls it uses – on the writer exactly as
// BreakerHandler builds it (constant fields of the literal, zero otherwise), for short sequences
// of WriteHeader calls with concrete statuses, and compares the field BreakerHandler reads with
// 500 afterwards. Branches on values the interpreter does not know (the wrapped writer, results
// of foreign calls) are explored both ways; a claim is violated when every such exploration
// ends on the wrong side of 500, unresolved when they disagree.

type c01wRecv struct{}            // the writer under interpretation (pointer to it)
type c01wAddr struct{ field int } // &writer.field
type c01wCell struct{ v any }     // a local variable (ssa.Alloc)
type c01wTuple []any              // a multi-value result
type c01wClosure struct {
	fn   *ssa.Function
	bind []any
}

type c01wInterp struct {
	st      *types.Struct
	pkg     *ssa.Package
	state   []any // per field: constant.Value, or nil when not known
	oracle  []bool
	used    int
	steps   int
	problem string
}

type c01wAbort struct{}

func (e *c01wInterp) abort(format string, args ...any) {
	if e.problem == "" {
		e.problem = fmt.Sprintf(format, args...)
	}
	panic(c01wAbort{})
}

func c01wZero(t types.Type) any {
	switch b := t.Underlying().(type) {
	case *types.Basic:
		switch {
		case b.Info()&types.IsBoolean != 0:
			return constant.MakeBool(false)
		case b.Info()&types.IsInteger != 0:
			return constant.MakeInt64(0)
		case b.Info()&types.IsFloat != 0:
			return constant.MakeFloat64(0)
		case b.Info()&types.IsString != 0:
			return constant.MakeString("")
		}
	}
	return nil
}

func (e *c01wInterp) taint(v any) {
	switch x := v.(type) {
	case c01wRecv:
		for i := range e.state {
			e.state[i] = nil
		}
	case c01wAddr:
		e.state[x.field] = nil
	case *c01wCell:
		inner := x.v
		x.v = nil
		if inner != nil {
			e.taint(inner)
		}
	case c01wClosure:
		for _, b := range x.bind {
			e.taint(b)
		}
	case c01wTuple:
		for _, b := range x {
			e.taint(b)
		}
	}
}

func c01wIsRef(v any) bool {
	switch x := v.(type) {
	case c01wRecv, c01wAddr, *c01wCell:
		return true
	case c01wClosure:
		for _, b := range x.bind {
			if c01wIsRef(b) {
				return true
			}
		}
	}
	return false
}

// decide answers a branch on an unknown condition from the oracle (false first).
func (e *c01wInterp) decide() bool {
	if e.used < len(e.oracle) {
		e.used++
		return e.oracle[e.used-1]
	}
	e.oracle = append(e.oracle, false)
	e.used++
	return false
}

func (e *c01wInterp) call(fn *ssa.Function, args []any, bind []any, depth int) any {
	if depth > 6 {
		e.abort("call depth exceeded in %s", core.FuncName(fn))
	}
	env := map[ssa.Value]any{}
	for i, prm := range fn.Params {
		if i < len(args) {
			env[prm] = args[i]
		}
	}
	for i, fv := range fn.FreeVars {
		if i < len(bind) {
			env[fv] = bind[i]
		}
	}
	val := func(v ssa.Value) any {
		switch x := v.(type) {
		case *ssa.Const:
			if x.Value == nil {
				return nil // nil / zero of a non-basic type: treated as unknown, see nilness below
			}
			return x.Value
		case *ssa.Function:
			return c01wClosure{fn: x}
		}
		return env[v]
	}
	type deferred struct {
		callee any
		fn     *ssa.Function
		args   []any
	}
	var defers []deferred
	invoke := func(cc *ssa.CallCommon) any {
		var args []any
		for _, a := range cc.Args {
			args = append(args, val(a))
		}
		foreign := func() any {
			for _, a := range args {
				if c01wIsRef(a) {
					e.taint(a)
				}
			}
			if cc.IsInvoke() {
				if c01wIsRef(val(cc.Value)) {
					e.taint(val(cc.Value))
				}
			}
			return nil
		}
		if cc.IsInvoke() {
			return foreign()
		}
		switch cv := cc.Value.(type) {
		case *ssa.Function:
			if cv.Blocks != nil && cv.Pkg == e.pkg {
				return e.call(cv, args, nil, depth+1)
			}
			return foreign()
		case *ssa.Builtin:
			return foreign()
		}
		if cl, ok := val(cc.Value).(c01wClosure); ok && cl.fn.Blocks != nil && cl.fn.Pkg == e.pkg {
			return e.call(cl.fn, args, cl.bind, depth+1)
		}
		if c01wIsRef(val(cc.Value)) {
			e.taint(val(cc.Value))
		}
		return foreign()
	}
	if len(fn.Blocks) == 0 {
		return nil
	}
	var prev *ssa.BasicBlock
	cur := fn.Blocks[0]
	for {
		var next *ssa.BasicBlock
		for _, in := range cur.Instrs {
			e.steps++
			if e.steps > 20000 {
				e.abort("step limit exceeded in %s (loop?)", core.FuncName(fn))
			}
			switch x := in.(type) {
			case *ssa.DebugRef:
			case *ssa.Phi:
				for i, pb := range cur.Preds {
					if pb == prev {
						env[x] = val(x.Edges[i])
						break
					}
				}
			case *ssa.Alloc:
				env[x] = &c01wCell{v: c01wZero(x.Type().Underlying().(*types.Pointer).Elem())}
			case *ssa.FieldAddr:
				if _, ok := val(x.X).(c01wRecv); ok {
					env[x] = c01wAddr{x.Field}
				}
			case *ssa.UnOp:
				a := val(x.X)
				switch x.Op {
				case token.MUL:
					switch ad := a.(type) {
					case c01wAddr:
						env[x] = e.state[ad.field]
					case *c01wCell:
						env[x] = ad.v
					}
				case token.NOT:
					if c, ok := a.(constant.Value); ok && c.Kind() == constant.Bool {
						env[x] = constant.MakeBool(!constant.BoolVal(c))
					}
				case token.SUB, token.XOR:
					if c, ok := a.(constant.Value); ok && (c.Kind() == constant.Int || c.Kind() == constant.Float) {
						env[x] = constant.UnaryOp(x.Op, c, 0)
					}
				}
			case *ssa.BinOp:
				env[x] = c01wBinOp(x, val(x.X), val(x.Y))
			case *ssa.Convert:
				env[x] = c01wConv(val(x.X), x.Type())
			case *ssa.ChangeType:
				env[x] = val(x.X)
			case *ssa.Store:
				v := val(x.Val)
				switch ad := val(x.Addr).(type) {
				case c01wAddr:
					if c, ok := v.(constant.Value); ok {
						e.state[ad.field] = c
					} else {
						e.state[ad.field] = nil
						if c01wIsRef(v) {
							e.taint(v)
						}
					}
				case *c01wCell:
					ad.v = v
				default:
					if c01wIsRef(v) {
						e.taint(v) // stored where it cannot be followed
					}
				}
			case *ssa.MakeClosure:
				cl := c01wClosure{fn: x.Fn.(*ssa.Function)}
				for _, b := range x.Bindings {
					cl.bind = append(cl.bind, val(b))
				}
				env[x] = cl
			case *ssa.Call:
				env[x] = invoke(x.Common())
			case *ssa.Go:
				for _, a := range x.Call.Args {
					if c01wIsRef(val(a)) {
						e.taint(val(a))
					}
				}
				if c01wIsRef(val(x.Call.Value)) {
					e.taint(val(x.Call.Value))
				}
			case *ssa.Defer:
				d := deferred{}
				cc := x.Common()
				for _, a := range cc.Args {
					d.args = append(d.args, val(a))
				}
				if !cc.IsInvoke() {
					if f, ok := cc.Value.(*ssa.Function); ok {
						d.fn = f
					} else {
						d.callee = val(cc.Value)
					}
				}
				defers = append(defers, d)
			case *ssa.RunDefers:
				for i := len(defers) - 1; i >= 0; i-- {
					d := defers[i]
					switch {
					case d.fn != nil && d.fn.Blocks != nil && d.fn.Pkg == e.pkg:
						e.call(d.fn, d.args, nil, depth+1)
					default:
						if cl, ok := d.callee.(c01wClosure); ok && cl.fn.Blocks != nil && cl.fn.Pkg == e.pkg {
							e.call(cl.fn, d.args, cl.bind, depth+1)
							continue
						}
						for _, a := range d.args {
							if c01wIsRef(a) {
								e.taint(a)
							}
						}
						if c01wIsRef(d.callee) {
							e.taint(d.callee)
						}
					}
				}
				defers = nil
			case *ssa.Extract:
				if t, ok := val(x.Tuple).(c01wTuple); ok && x.Index < len(t) {
					env[x] = t[x.Index]
				}
			case *ssa.If:
				var take bool
				if c, ok := val(x.Cond).(constant.Value); ok && c.Kind() == constant.Bool {
					take = constant.BoolVal(c)
				} else {
					take = e.decide()
				}
				if take {
					next = cur.Succs[0]
				} else {
					next = cur.Succs[1]
				}
			case *ssa.Jump:
				next = cur.Succs[0]
			case *ssa.Return:
				switch len(x.Results) {
				case 0:
					return nil
				case 1:
					return val(x.Results[0])
				}
				var t c01wTuple
				for _, r := range x.Results {
					t = append(t, val(r))
				}
				return t
			case *ssa.Panic:
				e.abort("%s panics", core.FuncName(fn))
			default:
				// anything else (interfaces, slices, maps, type assertions …): the value is not known;
				// a reference to the writer flowing into it can no longer be followed
				for _, op := range in.Operands(nil) {
					if *op != nil && c01wIsRef(val(*op)) {
						e.taint(val(*op))
					}
				}
			}
		}
		if next == nil {
			e.abort("%s: block without terminator", core.FuncName(fn))
		}
		prev, cur = cur, next
	}
}

func c01wConv(v any, t types.Type) any {
	c, ok := v.(constant.Value)
	if !ok {
		return nil
	}
	b, ok := t.Underlying().(*types.Basic)
	if !ok {
		return nil
	}
	switch {
	case b.Info()&types.IsInteger != 0 && c.Kind() == constant.Int:
		return c
	case b.Info()&types.IsFloat != 0 && (c.Kind() == constant.Int || c.Kind() == constant.Float):
		return constant.ToFloat(c)
	}
	return nil
}

func c01wBinOp(x *ssa.BinOp, a, b any) any {
	// the writer itself is never nil
	isNilConst := func(v ssa.Value) bool { c, ok := v.(*ssa.Const); return ok && c.Value == nil }
	if x.Op == token.EQL || x.Op == token.NEQ {
		if _, ok := a.(c01wRecv); ok && isNilConst(x.Y) {
			return constant.MakeBool(x.Op == token.NEQ)
		}
		if _, ok := b.(c01wRecv); ok && isNilConst(x.X) {
			return constant.MakeBool(x.Op == token.NEQ)
		}
	}
	ca, ok1 := a.(constant.Value)
	cb, ok2 := b.(constant.Value)
	if !ok1 || !ok2 {
		return nil
	}
	switch x.Op {
	case token.EQL, token.NEQ, token.LSS, token.LEQ, token.GTR, token.GEQ:
		if ca.Kind() != cb.Kind() && !(c01wNumeric(ca) && c01wNumeric(cb)) {
			return nil
		}
		if ca.Kind() == constant.Bool && x.Op != token.EQL && x.Op != token.NEQ {
			return nil
		}
		return constant.MakeBool(constant.Compare(ca, x.Op, cb))
	case token.ADD, token.SUB, token.MUL, token.AND, token.OR, token.XOR, token.AND_NOT:
		if ca.Kind() == constant.Int && cb.Kind() == constant.Int {
			return constant.BinaryOp(ca, x.Op, cb)
		}
		if x.Op == token.ADD && ca.Kind() == constant.String && cb.Kind() == constant.String {
			return constant.BinaryOp(ca, x.Op, cb)
		}
	case token.QUO, token.REM:
		if ca.Kind() == constant.Int && cb.Kind() == constant.Int && constant.Sign(cb) != 0 {
			op := x.Op
			if op == token.QUO {
				op = token.QUO_ASSIGN
			}
			return constant.BinaryOp(ca, op, cb)
		}
	}
	return nil
}

func c01wNumeric(c constant.Value) bool {
	return c.Kind() == constant.Int || c.Kind() == constant.Float
}

// c01wRun executes the method for each status of seq in turn on a copy of init, once for every
// resolution of the branches the interpreter cannot decide, and returns the values the observed
// field can hold afterwards (nil entry: not known) – or a problem when the interpretation gave up.
func c01wRun(m *ssa.Function, st *types.Struct, init []any, seq []int64, field int) (finals []any, problem string) {
	var oracle []bool
	for runs := 0; runs < 64; runs++ {
		e := &c01wInterp{st: st, pkg: m.Pkg, state: append([]any(nil), init...), oracle: oracle}
		func() {
			defer func() {
				if r := recover(); r != nil {
					if _, ok := r.(c01wAbort); !ok {
						panic(r)
					}
				}
			}()
			for _, s := range seq {
				e.call(m, []any{c01wRecv{}, constant.MakeInt64(s)}, nil, 0)
			}
		}()
		if e.problem != "" {
			return nil, e.problem
		}
		finals = append(finals, e.state[field])
		// next resolution: flip the last 'false' decision
		oracle = e.oracle[:e.used]
		i := len(oracle) - 1
		for i >= 0 && oracle[i] {
			i--
		}
		if i < 0 {
			return finals, ""
		}
		oracle = append(append([]bool(nil), oracle[:i]...), true)
	}
	return nil, "more than 64 resolutions of undetermined branches"
}

func c01R10(r *core.Run) {
	p := r.P
	r.Check("D5/K2/recorded-status-is-the-final-status", "the status BreakerHandler compares with 500 is the one its status-recording writer holds after the handler's WriteHeader calls, so that writer's WriteHeader – executed (not matched) on the writer as BreakerHandler builds it – must end on the side of 500 of the final status: after WriteHeader(s) alone, and after an informational WriteHeader(100|102|103) followed by WriteHeader(s) (net/http forwards 1xx headers and then sends the final one), the recorded status is ≥ 500 for s ∈ {500,502,503,504} and < 500 for s ∈ {200,204,301,404,499} [clauses 'failure on an unacceptable error' / 'one that keeps failing is cut off' and 'HTTP status below 500 never moves a breaker towards open' for the HTTP integration: a writer that latches the first status books the 502 sent after Early Hints as a success and such a route is never cut off]", func(o *core.O) {
		f := p.Func("api/handler", "", "BreakerHandler")
		if !o.Need(f != nil, "api/handler.BreakerHandler") {
			return
		}
		isServe := core.CallMethod("net/http.Handler", "ServeHTTP")
		// the writer type: what the next handler is given
		var named *types.Named
		var alloc *ssa.Alloc
		var h *ssa.Function
		for _, g := range core.WithAnon(f) {
			for _, sv := range core.Calls(g, isServe) {
				args := core.Args(sv)
				if len(args) < 2 {
					continue
				}
				v := core.Strip(core.Forward(core.Strip(args[1])))
				if mi, ok := v.(*ssa.MakeInterface); ok {
					v = core.Strip(core.Forward(core.Strip(mi.X)))
				}
				al, ok := v.(*ssa.Alloc)
				if !ok {
					continue
				}
				pt, ok := al.Type().Underlying().(*types.Pointer)
				if !ok {
					continue
				}
				if n, ok := pt.Elem().(*types.Named); ok {
					if _, isStruct := n.Underlying().(*types.Struct); isStruct {
						named, alloc, h = n, al, g
					}
				}
			}
		}
		if !o.Need(named != nil, "the status-recording writer (a local struct) BreakerHandler hands to the next handler") {
			return
		}
		st := named.Underlying().(*types.Struct)
		// the field compared with 500 in BreakerHandler
		field := -1
		for _, g := range core.WithAnon(f) {
			for _, in := range core.Instrs(g, func(in ssa.Instruction) bool { _, ok := in.(*ssa.BinOp); return ok }) {
				b := in.(*ssa.BinOp)
				for _, side := range []ssa.Value{b.X, b.Y} {
					ld, ok := core.Strip(side).(*ssa.UnOp)
					if !ok || ld.Op != token.MUL {
						continue
					}
					fa, ok := ld.X.(*ssa.FieldAddr)
					if !ok {
						continue
					}
					if pt, ok := fa.X.Type().Underlying().(*types.Pointer); !ok || !types.Identical(pt.Elem(), named) {
						continue
					}
					if ok, _ := thresholdAtom(func(v ssa.Value) bool { return v == side }, 500)(b); ok {
						if field >= 0 && field != fa.Field {
							o.Unres("%s: two different fields of the writer are compared with 500", p.InstrPos(in))
							return
						}
						field = fa.Field
					}
				}
			}
		}
		if !o.Need(field >= 0, "the field of "+named.Obj().Name()+" BreakerHandler compares with 500") {
			return
		}
		var m *ssa.Function
		for i := 0; i < named.NumMethods(); i++ {
			if named.Method(i).Name() == "WriteHeader" {
				m = p.SSA.FuncValue(named.Method(i))
			}
		}
		if !o.Need(m != nil && m.Blocks != nil && len(m.Params) == 2, "the WriteHeader method of "+named.Obj().Name()) {
			return
		}
		if _, ok := m.Params[0].Type().Underlying().(*types.Pointer); !ok {
			o.Fail(p.Pos(m.Pos()), "WriteHeader has a value receiver: the status it records is lost, BreakerHandler always reads the initial one")
			return
		}
		r.Fn(core.FuncName(m))
		// the writer as BreakerHandler builds it
		init := make([]any, st.NumFields())
		for i := range init {
			init[i] = c01wZero(st.Field(i).Type())
		}
		for _, ref := range *alloc.Referrers() {
			fa, ok := ref.(*ssa.FieldAddr)
			if !ok {
				continue
			}
			for _, r2 := range *fa.Referrers() {
				if s, ok := r2.(*ssa.Store); ok && s.Addr == ssa.Value(fa) && s.Parent() == h {
					if c, ok := core.Strip(s.Val).(*ssa.Const); ok && c.Value != nil {
						init[fa.Field] = c.Value
					} else {
						init[fa.Field] = nil
					}
				}
			}
		}
		fname := named.Obj().Name() + "." + st.Field(field).Name()
		info := []int64{100, 102, 103}
		n := 0
		var firstMsg [2]string
		var failed [2]int
		fail := func(dir int, format string, args ...any) {
			if failed[dir] == 0 {
				firstMsg[dir] = fmt.Sprintf(format, args...)
			}
			failed[dir]++
		}
		check := func(seq []int64, wantFail bool) {
			n++
			final := seq[len(seq)-1]
			var calls []string
			for _, s := range seq {
				calls = append(calls, fmt.Sprintf("WriteHeader(%d)", s))
			}
			what := strings.Join(calls, " then ")
			finals, problem := c01wRun(m, st, init, seq, field)
			if problem != "" {
				o.Unres("%s: %s on a fresh writer could not be evaluated: %s", p.Pos(m.Pos()), what, problem)
				return
			}
			good, bad, unknown := 0, 0, 0
			var shown string
			for _, v := range finals {
				c, ok := v.(constant.Value)
				if !ok || c.Kind() != constant.Int {
					unknown++
					continue
				}
				if constant.Compare(c, token.GEQ, constant.MakeInt64(500)) == wantFail {
					good++
				} else {
					bad++
					shown = c.ExactString()
				}
			}
			switch {
			case bad > 0 && good == 0 && unknown == 0:
				if wantFail {
					fail(0, "after %s on the writer BreakerHandler builds, %s is %s (< 500) although the client is sent %d: the deferred report calls Accept, the failure is booked as a success and a route that answers like this every time is never cut off", what, fname, shown, final)
				} else {
					fail(1, "after %s on the writer BreakerHandler builds, %s is %s (≥ 500) although the client is sent %d: a benign response is booked as a failure and moves the breaker towards open", what, fname, shown, final)
				}
			case bad > 0 || unknown > 0:
				o.Unres("%s: after %s the value of %s depends on something the evaluation does not know (%d of %d resolutions on the right side of 500)", p.Pos(m.Pos()), what, fname, good, len(finals))
			}
		}
		for _, s := range []int64{500, 502, 503, 504} {
			check([]int64{s}, true)
			for _, i := range info {
				check([]int64{i, s}, true)
			}
		}
		for _, s := range []int64{200, 204, 301, 404, 499} {
			check([]int64{s}, false)
			for _, i := range info {
				check([]int64{i, s}, false)
			}
		}
		for dir := range firstMsg {
			if failed[dir] > 0 {
				o.Fail(p.Pos(m.Pos()), "%s (%d of the evaluated call sequences end on the wrong side of 500)", firstMsg[dir], failed[dir])
			}
		}
		o.Site(n, core.FuncName(m), fname)
	})
}
