package props

import (
	"godcheck/core"
)

// c02Extra: rules added after the fourth independent seeding round.
func c02Extra(r *core.Run) {
	p := r.P
	defer c02R9(r)
	r.Check("D3/K2/first-status-wins", "the buffered status of the timeout writer is committed once: a store of a caller-supplied code into timeoutWriter.code happens only while wroteHeader is still false (and the response has not timed out), so a later WriteHeader cannot overwrite the status the handler already committed", func(o *core.O) {
		n := 0
		for _, f := range p.PkgFuncs(c02Hdl) {
			for _, st := range core.StoresToField(f, "timeoutWriter.code") {
				if _, isConst := core.ConstInt(core.Forward(st.Val)); isConst {
					continue // initialisation / fixed status written by the runner itself
				}
				n++
				r.Fn(core.FuncName(f))
				wrote := core.BoolVal(core.FieldLoad("timeoutWriter.wroteHeader"))
				if core.EdgeCount(f, core.Not(wrote)) == 0 || core.Requires(f, core.Is(st), core.Not(wrote)) != nil {
					o.Fail(p.InstrPos(st), "%s can overwrite the buffered status although the header was already written: the client receives a later status instead of the handler's", core.FuncName(f))
				}
				timedOut := core.BoolVal(core.FieldLoad("timeoutWriter.timedOut"))
				if core.EdgeCount(f, core.Not(timedOut)) == 0 || core.Requires(f, core.Is(st), core.Not(timedOut)) != nil {
					o.Fail(p.InstrPos(st), "%s changes the buffered status after the request timed out", core.FuncName(f))
				}
			}
		}
		o.Site(n, c02Hdl)
	})
}
