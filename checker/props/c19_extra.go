package props

import (
	"godcheck/core"

	"golang.org/x/tools/go/ssa"
)

// c19Extra: rules added after the third independent seeding round — the
// configured limits reach the rule fields of the same meaning.
func c19Extra(r *core.Run, pkg string) {
	p := r.P
	// option field of logx → rule field it configures
	ruleField := map[string]string{
		"logOptions.maxSize":     "SizeLimitRotateRule.maxSize",
		"logOptions.maxBackups":  "SizeLimitRotateRule.maxBackups",
		"logOptions.keepDays":    "DailyRotateRule.days",
		"logOptions.gzipEnabled": "DailyRotateRule.gzip",
	}
	// logx.Config (LogConf) field → option field it sets
	confField := map[string]string{
		"logOptions.maxSize":    "Config.MaxSize",
		"logOptions.maxBackups": "Config.MaxBackups",
		"logOptions.keepDays":   "Config.KeepDays",
	}
	optOf := func(v ssa.Value) string {
		for of := range ruleField {
			if core.IsFieldLoad(core.Strip(core.Forward(v)), of) {
				return of
			}
		}
		return ""
	}
	r.Check("D3/K8/config-reaches-rule", "the limits configured for the log files reach the rotate rule's field of the same meaning: every rule constructor called with logx option values receives maxSize/maxBackups/keepDays/gzip at the parameter that it stores into SizeLimitRotateRule.maxSize/.maxBackups/DailyRotateRule.days/.gzip; option setters fed from the logx Config receive the field they are named after", func(o *core.O) {
		n := 0
		for _, g := range p.PkgFuncs(pkg) {
			for _, c := range core.Calls(g, func(in ssa.Instruction) bool {
				cc := core.AsCall(in)
				return cc != nil && cc.Common().StaticCallee() != nil && cc.Common().StaticCallee().Pkg != nil && cc.Common().StaticCallee().Pkg.Pkg.Path() == core.Mod+"/"+pkg
			}) {
				ctor := c.Common().StaticCallee()
				args := core.Args(c)
				for i, a := range args {
					of := optOf(a)
					if of == "" {
						continue
					}
					// which rule fields does parameter i of the constructor feed?
					feeds := map[string]bool{}
					any := false
					for _, rf := range ruleField {
						for _, st := range core.StoresToField(ctor, rf) {
							any = true
							if core.DependsOn(st.Val, core.ParamAt(ctor, i)) {
								feeds[rf] = true
							}
						}
					}
					if !any {
						continue // not a rule constructor
					}
					n++
					r.Fn(core.FuncName(g))
					want := ruleField[of]
					for rf := range feeds {
						if rf != want {
							o.Fail(p.InstrPos(c), "%s passes %s at the parameter %s stores into %s (expected %s): the configured limits are mixed up – files grow to the wrong size / the wrong number of backups is kept", core.FuncName(g), of, core.FuncName(ctor), rf, want)
						}
					}
					if len(core.StoresToField(ctor, want)) > 0 && !feeds[want] {
						o.Fail(p.InstrPos(c), "%s passes %s at a parameter %s does not store into %s", core.FuncName(g), of, core.FuncName(ctor), want)
					}
				}
			}
		}
		// setters: the closure of WithX stores its parent's parameter into logOptions.x; callers reading LogConf pass LogConf.X
		for _, set := range p.PkgFuncs(pkg) {
			par := set.Parent()
			if par == nil {
				continue
			}
			for of, cf := range confField {
				sts := core.StoresToField(set, of)
				if len(sts) == 0 {
					continue
				}

				ok := false
				for _, st := range sts {
					if core.DependsOn(st.Val, core.CapturedParam(par, 0)) {
						ok = true
					}
				}
				if !ok {
					continue
				}
				for _, g := range p.PkgFuncs(pkg) {
					for _, c := range core.Calls(g, func(in ssa.Instruction) bool {
						cc := core.AsCall(in)
						return cc != nil && cc.Common().StaticCallee() == par
					}) {
						a := core.Args(c)
						if len(a) != 1 {
							continue
						}
						name := core.FieldAddrNameOfLoad(core.Strip(core.Forward(a[0])))
						isConf := false
						for _, x := range confField {
							if x == name {
								isConf = true
							}
						}
						if !isConf {
							continue
						}
						n++
						if name != cf {
							o.Fail(p.InstrPos(c), "%s sets %s from %s (expected %s)", core.FuncName(g), of, name, cf)
						}
					}
				}
			}
		}
		o.Site(n, pkg)
	})

	r.Check("D2/K8/backup-name-from-a-fresh-clock-read", "a backup is named after the moment of the rotation: no BackupFilename result depends on the rule's stored rotatedTime (rotate asks for the name before the rule is marked rotated, so a name built from the stored stamp repeats and the second rotation renames over the first backup)", func(o *core.O) {
		n := 0
		for _, f := range p.PkgFuncs(pkg) {
			if f.Name() != "BackupFilename" || f.Parent() != nil || f.Signature.Recv() == nil {
				continue
			}
			n++
			r.Fn(core.FuncName(f))
			for _, ret := range core.Returns(f) {
				if core.DependsOn(core.Result(ret, 0), core.FieldLoad("DailyRotateRule.rotatedTime")) {
					o.Fail(p.InstrPos(ret), "%s builds the backup name from the stored rotatedTime: two rotations without an intervening clock read get the same name and the later one overwrites the earlier backup", core.FuncName(f))
				}
			}
		}
		o.Site(n, pkg)
	})

	r.Check("D1/K5/write-does-not-retain", "a Write([]byte) method of lib/logx that hands the record to another goroutine (channel send, go statement, closure, stored field) hands over a copy, never the caller's slice itself: io.Writer forbids retaining the argument, and logx's own plain-text path writes through fmt.Fprint, which recycles its buffer as soon as Write returns – a record still queued would be overwritten", func(o *core.O) {
		n := 0
		for _, f := range p.PkgFuncs(pkg) {
			if f.Parent() != nil || f.Name() != "Write" || f.Signature.Recv() == nil || len(f.Params) != 2 || f.Params[1].Type().String() != "[]byte" {
				continue
			}
			n++
			r.Fn(core.FuncName(f))
			isArg := func(v ssa.Value) bool {
				// the parameter itself or a re-slice of it (same backing array); a copy (append to a fresh slice, copy into make) is a different value
				for i := 0; i < 8; i++ {
					v = core.Forward(v)
					switch x := v.(type) {
					case *ssa.Slice:
						v = x.X
						continue
					case *ssa.ChangeType:
						v = x.X
						continue
					}
					break
				}
				prm, ok := v.(*ssa.Parameter)
				return ok && prm == f.Params[1]
			}
			for _, g := range core.WithAnon(f) {
				for _, b := range g.Blocks {
					for _, in := range b.Instrs {
						switch x := in.(type) {
						case *ssa.Send:
							if isArg(x.X) {
								o.Fail(p.InstrPos(in), "%s sends the caller's slice to a channel: the receiver reads it after Write returned, when the caller may already have reused the buffer (fmt.Fprint does) – records are mangled, duplicated or lost", core.FuncName(f))
							}
						case *ssa.Store:
							root := x.Addr
							for i := 0; i < 6; i++ {
								switch y := root.(type) {
								case *ssa.IndexAddr:
									root = y.X
									continue
								case *ssa.FieldAddr:
									root = y.X
									continue
								}
								break
							}
							if _, local := root.(*ssa.Alloc); !local && isArg(x.Val) {
								o.Fail(p.InstrPos(in), "%s stores the caller's slice in %s and so retains it beyond the call", core.FuncName(f), core.Describe(x.Addr))
							}
						case *ssa.Go:
							for _, a := range x.Call.Args {
								if isArg(a) {
									o.Fail(p.InstrPos(in), "%s passes the caller's slice to a goroutine", core.FuncName(f))
								}
							}
						case *ssa.Select:
							for _, st := range x.States {
								if st.Send != nil && isArg(st.Send) {
									o.Fail(p.InstrPos(in), "%s sends the caller's slice to a channel: the receiver reads it after Write returned, when the caller may already have reused the buffer (fmt.Fprint does) – records are mangled, duplicated or lost", core.FuncName(f))
								}
							}
						}
					}
				}
			}
		}
		o.Site(n, pkg)
	})

	c19R8(r, pkg)
	c19R9(r, pkg)
	c19R10(r, pkg)
	c19R11(r, pkg)
	c19R12(r, pkg)
}
