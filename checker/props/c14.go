package props

import (
	"fmt"
	"go/token"
	"go/types"
	"math/big"
	"sort"
	"strings"

	"godcheck/core"

	"golang.org/x/tools/go/ssa"
)

func init() { register("C14", c14) }

const (
	p2cPkg   = "rpc/internal/balancer/p2c"
	codesPkg = "rpc/internal/codes"
)

// c14Weight decides that the EWMA weight value v lies in [0,1]: every value
// that can flow into it is a constant in [0,1] or math.Exp(c·td) with c < 0
// and td clamped at 0 on the path that carries it.
func c14Weight(fn *ssa.Function, v ssa.Value) (ok bool, why string) {
	leaves := gxPhiLeaves(core.Forward(v))
	if len(leaves) == 0 {
		return false, "no value"
	}
	for _, l := range leaves {
		if f, isC := core.ConstFloat(l); isC {
			if f < 0 || f > 1 {
				return false, fmt.Sprintf("constant weight %g outside [0,1]", f)
			}
			continue
		}
		c, isCall := l.(*ssa.Call)
		if !isCall || core.CalleeName(c) != "math.Exp" {
			return false, "weight may be " + core.Describe(l) + " (neither a constant in [0,1] nor math.Exp of a non-positive exponent)"
		}
		// exponent = c·TD, c < 0, TD >= 0
		vals := map[string]ssa.Value{}
		a := &core.Alg{Name: func(x ssa.Value) string {
			n := fmt.Sprintf("v%d", len(vals))
			for k, old := range vals {
				if old == x {
					return k
				}
			}
			vals[n] = x
			return n
		}}
		e := a.Norm(c.Call.Args[0])
		if len(e) != 1 {
			return false, "exponent of the weight is " + e.String() + ", expected −td/decay"
		}
		for mono, coef := range e {
			td, isAtom := vals[mono]
			if !isAtom {
				return false, "exponent of the weight is " + e.String() + ", expected −td/decay"
			}
			if coef.Sign() >= 0 {
				return false, "exponent of the weight has a non-negative factor (" + e.String() + "): w = exp(+td/decay) ≥ 1"
			}
			if !c14NonNeg(fn, td) {
				return false, "the elapsed time in the weight's exponent is not clamped at 0 (a completion that swapped `last` out of order makes w > 1)"
			}
		}
	}
	return true, ""
}

// c14NonNeg: v is a constant ≥ 0, max(…, const ≥ 0), or a φ each of whose
// incoming values is such, or enters only along edges established by `x ≥ 0`.
func c14NonNeg(fn *ssa.Function, v ssa.Value) bool {
	v = core.Forward(v)
	if f, ok := core.ConstFloat(v); ok {
		return f >= 0
	}
	switch x := v.(type) {
	case *ssa.Call:
		if core.CalleeName(x) == "builtin:max" {
			for _, a := range x.Call.Args {
				if f, ok := core.ConstFloat(a); ok && f >= 0 {
					return true
				}
			}
		}
	case *ssa.Phi:
		for i, e := range x.Edges {
			if f, ok := core.ConstFloat(e); ok && f >= 0 {
				continue
			}
			is := func(w ssa.Value) bool { return w == e }
			isZero := func(w ssa.Value) bool { f, ok := core.ConstFloat(w); return ok && f == 0 }
			_, ge := core.EdgesOf(fn, core.Cmp(token.LSS, is, isZero))
			_, gt := core.EdgesOf(fn, core.Cmp(token.LEQ, is, isZero))
			cut := append(append([]core.Edge{}, ge...), gt...)
			if len(cut) == 0 || gxEdgeReachable(fn, core.Edge{From: x.Block().Preds[i], To: x.Block()}, cut) {
				return false
			}
		}
		return true
	}
	return false
}

// c14Origins classifies where a *subConn value can come from.
func c14Origins(tb *c14Tables, v ssa.Value, depth int, seen map[ssa.Value]bool, out map[string]int) {
	v = core.Forward(v)
	if seen[v] {
		return
	}
	seen[v] = true
	switch x := v.(type) {
	case *ssa.Phi:
		for _, e := range x.Edges {
			c14Origins(tb, e, depth, seen, out)
		}
		return
	case *ssa.Const:
		if x.Value == nil {
			out["nil"]++
			return
		}
	case *ssa.UnOp:
		if ia, ok := x.X.(*ssa.IndexAddr); ok && x.Op == token.MUL && core.IsFieldLoad(ia.X, "p2cPicker.conns") {
			out["elem"]++
			return
		}
	case *ssa.Call:
		if c14OriginsOfCall(tb, x, 0, 1, depth, seen, out) {
			return
		}
	case *ssa.Extract:
		// one result of a call returning several candidates (a candidate-selection helper)
		if call, ok := x.Tuple.(*ssa.Call); ok && c14OriginsOfCall(tb, call, x.Index, call.Type().(*types.Tuple).Len(), depth, seen, out) {
			return
		}
	}
	out["other:"+core.Describe(v)]++
}

// c14OriginsOfCall classifies result idx (of n) of a call: every function the call may
// invoke — its static callee, or, for a call of a function value, the members of the
// constant table(s) and the function constants the value is taken from — is looked
// into (module functions only, bounded depth); parameters are followed to the arguments.
func c14OriginsOfCall(tb *c14Tables, x *ssa.Call, idx, n, depth int, seen map[ssa.Value]bool, out map[string]int) bool {
	if depth >= 3 {
		return false
	}
	callees, ok := tb.callees(x)
	if !ok {
		return false
	}
	for _, callee := range callees {
		if callee.Blocks == nil || callee.Pkg == nil || !strings.HasPrefix(callee.Pkg.Pkg.Path(), core.Mod+"/") {
			return false
		}
	}
	for _, callee := range callees {
		for _, ret := range core.Returns(callee) {
			if len(ret.Results) != n {
				out["other:"+core.Describe(x)]++
				continue
			}
			for _, l := range gxPhiLeaves(core.Result(ret, idx)) {
				if pa, ok := l.(*ssa.Parameter); ok {
					for i, cp := range callee.Params {
						if cp == pa && i < len(x.Call.Args) {
							c14Origins(tb, x.Call.Args[i], depth+1, seen, out)
						}
					}
					continue
				}
				c14Origins(tb, l, depth+1, map[ssa.Value]bool{}, out)
			}
		}
	}
	return true
}

func c14(r *core.Run) {
	p := r.P
	defer c14Extra(r)
	r.Explanation = "Decides on the current source: both EWMA updates of the done-callback are convex combinations a·old + (1−a)·new of the atomically loaded old value (normal form, K7), with a weight that is 0 or exp(c·td), c < 0, td clamped at 0; the integer success score is that real value rounded towards the sample (up only when going up, down only when going down, never to nearest or by plain truncation); the latency sample is now − start; the success target is 1000 except under Err != nil ∧ !Acceptable(Err), where it is 0, and Acceptable rejects exactly {DeadlineExceeded, Internal, Unavailable, DataLoss, Unimplemented}; Pick increments inflight of the chosen connection exactly once on every successful return (never on a failing one), returns that connection's conn and a callback bound to it, and the callback decrements the same counter exactly once on every path, with no other writer; picker state only under its lock; the chosen connection is an element of p.conns, which Build fills from ReadySCs with an initial score in [0,1000]; healthy ⇔ success > 500; the retry loop leaves early only when both candidates are healthy; choose returns the lower-load candidate unless the other one was not picked for more than 1 s; load ≡ ⌊√(lag+1)⌋·(inflight+1)."
	r.NotDecided = "selection frequencies, the number of completions until a failing backend turns unhealthy, the once-per-second bound under traffic, behaviour of concurrent completions (the EWMA read-modify-write is not atomic as a whole), float rounding."

	pick := p.Func(p2cPkg, "p2cPicker", "Pick")
	build := p.Func(p2cPkg, "p2cPickerBuilder", "Build")
	tb := newC14Tables() // constant package-level tables (of codes, of candidate-selection functions)

	// role: the done-callback is the closure stored into PickResult.Done by Pick
	var done *ssa.Function
	var doneBind map[string]ssa.Value
	var doneStore ssa.Instruction
	if pick != nil {
		for _, st := range core.StoresToField(pick, "PickResult.Done") {
			if f, b := gxClosureOf(st.Val); f != nil {
				done, doneBind, doneStore = f, b, st
			}
		}
	}
	isInflight := gxAtomicOn("subConn.inflight", "AddInt64")
	isNow := func(v ssa.Value) bool {
		c, ok := core.Strip(core.Forward(v)).(*ssa.Call)
		return ok && core.Short(core.CalleeName(c)) == "lib/timex.Now"
	}
	// the captured *subConn of the callback
	connVar := ""
	for k, v := range doneBind {
		if strings.HasSuffix(v.Type().String(), "p2c.subConn") {
			connVar = k
		}
	}
	isConn := func(v ssa.Value) bool { return v != nil && connVar != "" && gxFreeVarOf(core.Forward(v)) == connVar }

	for _, field := range []string{"lag", "success"} {
		field := field
		tf := "subConn." + field
		r.Check("D1/K7/ewma-convex/"+field, "the value stored to "+tf+" by the done-callback (for the success score: the real value under its rounding towards the sample) has the normal form a·old + (1−a)·new, old being the atomic load of the same field of the same connection; the weight a is 0 or exp(c·td) with c < 0 and td ≥ 0", func(o *core.O) {
			if !o.Need(pick != nil && done != nil, "the closure stored into PickResult.Done by p2cPicker.Pick") || !o.Need(connVar != "", "the *subConn captured by the done-callback") {
				return
			}
			r.Fn(core.FuncName(done))
			stores := core.Calls(done, gxAtomicOn(tf, "StoreUint64"))
			o.Site(len(stores), core.FuncName(done))
			if len(stores) == 0 {
				o.Fail(p.Pos(done.Pos()), "the done-callback never updates %s", tf)
				return
			}
			for _, st := range stores {
				args := core.Args(st)
				if !isConn(gxFieldBase(args[0])) {
					o.Fail(p.InstrPos(st), "%s is updated on %s, not on the connection the callback was built for", tf, core.Describe(args[0]))
				}
				val := core.Forward(args[1])
				if cv, ok := val.(*ssa.Convert); ok {
					val = cv.X
				}
				if field == "success" {
					// the score is the EWMA value rounded towards the sample (φ of a truncation and a
					// ceil, …): the normal form is that of the one real value under the rounding
					// skeleton; the rounding itself is D1/K7/success-rounds-towards-sample (c14_r9.go)
					if rv := c14RealValue(args[1]); rv != nil {
						val = rv
					}
				}
				vals := map[string]ssa.Value{}
				a := &core.Alg{Opaque: func(x ssa.Value) bool {
					c, ok := x.(*ssa.Call)
					return ok && core.CalleeName(c) == "math.Exp"
				}, Name: func(x ssa.Value) string {
					if c, ok := x.(*ssa.Call); ok && gxAtomicOn(tf, "LoadUint64")(c) && isConn(gxFieldBase(c.Call.Args[0])) {
						return "old"
					}
					for k, old := range vals {
						if old == x {
							return k
						}
					}
					n := fmt.Sprintf("v%d", len(vals))
					vals[n] = x
					return n
				}}
				poly := a.Norm(val)
				ca, rest, lin := poly.Coef("old")
				if !lin || len(ca) == 0 {
					o.Fail(p.InstrPos(st), "stored value %s is not linear in the previous %s (atomic load of the same field)", poly, field)
					continue
				}
				oneMinusA := core.PInt(1).Sub(ca)
				// new sample: the single atom of rest that does not occur in a (or a constant)
				inA := map[string]bool{}
				for _, x := range ca.Atoms() {
					inA[x] = true
				}
				var extra []string
				for _, x := range rest.Atoms() {
					if !inA[x] {
						extra = append(extra, x)
					}
				}
				var sample ssa.Value
				convex := false
				switch len(extra) {
				case 0:
					// rest = N·(1−a) for a constant N
					n := new(big.Rat)
					if c, ok := rest[""]; ok {
						if d, ok2 := oneMinusA[""]; ok2 {
							n.Quo(c, d)
						}
					}
					convex = rest.Equal(oneMinusA.Scale(n))
				case 1:
					b, rem, l2 := rest.Coef(extra[0])
					convex = l2 && len(rem) == 0 && ca.Add(b).Equal(core.PInt(1))
					sample = vals[extra[0]]
					if !convex && l2 && len(rem) == 0 {
						o.Fail(p.InstrPos(st), "%s is stored as (%s)·old + (%s)·new: the weights sum to %s, not 1 — the score leaves the range of its inputs", tf, ca, b, ca.Add(b))
						convex = true // reported; still decide weight and sample
					}
				}
				if !convex {
					o.Fail(p.InstrPos(st), "%s is stored as %s, which is not a convex combination a·old + (1−a)·new", tf, poly)
					continue
				}
				// the weight
				if len(ca) != 1 {
					o.Fail(p.InstrPos(st), "weight of the old value is %s: cannot be bounded to [0,1]", ca)
					continue
				}
				for mono, coef := range ca {
					w, isAtom := vals[mono]
					if !isAtom || coef.Cmp(big.NewRat(1, 1)) != 0 {
						o.Fail(p.InstrPos(st), "weight of the old value is %s: cannot be bounded to [0,1]", ca)
						continue
					}
					if ok, why := c14Weight(done, w); !ok {
						o.Fail(p.InstrPos(st), "%s", why)
					}
				}
				// the sample
				switch field {
				case "lag":
					if sample == nil {
						o.Fail(p.InstrPos(st), "the latency sample is a constant")
						continue
					}
					n := 0
					for _, l := range gxPhiLeaves(sample) {
						if f, ok := core.ConstFloat(l); ok && f == 0 {
							continue
						}
						n++
						la := &core.Alg{Name: func(x ssa.Value) string {
							if isNow(x) {
								return "now"
							}
							if fv := gxFreeVarOf(x); fv != "" && isNow(doneBind[fv]) {
								return "start"
							}
							return ""
						}}
						if got := la.Norm(l); !got.Equal(core.ParsePoly("now - start")) {
							o.Fail(p.InstrPos(st), "the latency sample is %s, expected now − start (start = timex.Now() taken when the callback was built)", got)
						}
					}
					if n == 0 {
						o.Fail(p.InstrPos(st), "the latency sample is always 0")
					}
				case "success":
					c14Target(o, p, done, st, sample)
				}
			}
		})
	}

	r.Check("D1/K6/acceptable-table", "codes.Acceptable returns false exactly for DeadlineExceeded, Internal, Unavailable, DataLoss, Unimplemented and true for every other status code", func(o *core.O) {
		f := p.Func(codesPkg, "", "Acceptable")
		if !o.Need(f != nil, "rpc/internal/codes.Acceptable") {
			return
		}
		r.Fn(core.FuncName(f))
		unacceptable := map[int64]string{4: "DeadlineExceeded", 13: "Internal", 14: "Unavailable", 15: "DataLoss", 12: "Unimplemented"}
		// preferred: EVALUATE the classifier on every gRPC status code (0..16), on codes outside that
		// range and on the nil error — whatever it is written as (switch, if-chain, lookup in a
		// never-written set/table, helper). Only when it cannot be evaluated, decide it edge by edge.
		if got, ok := c14AcceptableTable(tb, f); ok {
			o.Site(len(got), core.FuncName(f))
			for _, g := range got {
				name, bad := unacceptable[g.code]
				switch {
				case bad && g.res:
					o.Fail(p.Pos(f.Pos()), "Acceptable(%s) = true, expected false (a backend failing with it keeps a healthy score)", name)
				case !bad && !g.res && g.errNil:
					o.Fail(p.Pos(f.Pos()), "Acceptable(nil) = false, expected true")
				case !bad && !g.res:
					o.Fail(p.Pos(f.Pos()), "Acceptable(code %d) = false, expected true", g.code)
				}
			}
			return
		}
		isTag := func(v ssa.Value) bool {
			c, ok := core.Strip(core.Forward(v)).(*ssa.Call)
			return ok && core.CalleeName(c) == "google.golang.org/grpc/status.Code" && core.IsParam(f.Params[0].Name())(c.Call.Args[0])
		}
		verdict := func(from []core.At, cut []core.Edge) string {
			set := map[string]bool{}
			for _, ret := range core.Returns(f) {
				if _, ok := core.Reach(core.Q{From: from, Target: core.Is(ret), Cut: core.CutSet(cut)}); ok {
					set[core.Describe(core.Result(ret, 0))] = true
				}
			}
			var ks []string
			for k := range set {
				ks = append(ks, strings.TrimPrefix(k, "const:"))
			}
			sort.Strings(ks)
			return strings.Join(ks, "|")
		}
		var all []core.Edge
		explicit := 0
		for k := int64(0); k <= 16; k++ {
			holds, _ := core.EdgesOf(f, core.Cmp(token.EQL, isTag, core.IsConstInt(k)))
			all = append(all, holds...)
			name, bad := unacceptable[k]
			if len(holds) == 0 {
				continue
			}
			explicit++
			var from []core.At
			for _, e := range holds {
				from = append(from, core.Head(e.To))
			}
			got := verdict(from, nil)
			if bad && got != "false" {
				o.Fail(p.Pos(f.Pos()), "Acceptable(%s) = %s, expected false", name, got)
			}
			if !bad && got != "true" {
				o.Fail(p.Pos(f.Pos()), "Acceptable(code %d) = %s, expected true", k, got)
			}
		}
		o.Site(explicit, core.FuncName(f))
		def := verdict([]core.At{core.Entry(f)}, all)
		for k, name := range unacceptable {
			if holds, _ := core.EdgesOf(f, core.Cmp(token.EQL, isTag, core.IsConstInt(k))); len(holds) == 0 && def != "false" {
				o.Fail(p.Pos(f.Pos()), "Acceptable(%s) = %s, expected false (a backend failing with it keeps a healthy score)", name, def)
			}
		}
		if def != "true" {
			o.Fail(p.Pos(f.Pos()), "Acceptable of the remaining codes = %q, expected true", def)
		}
	})

	r.Check("D2/K1/inflight-inc-once", "every successful return of Pick is preceded by exactly one inflight += 1 on the chosen connection, whose conn is the returned SubConn and to which the Done callback is bound; failing returns increment nothing", func(o *core.O) {
		if !o.Need(pick != nil, "p2cPicker.Pick") {
			return
		}
		r.Fn(core.FuncName(pick))
		incs := core.Calls(pick, isInflight)
		o.Site(len(incs), core.FuncName(pick))
		if len(incs) == 0 {
			o.Fail(p.Pos(pick.Pos()), "Pick never increments inflight")
			return
		}
		var chosen ssa.Value
		for _, c := range incs {
			if d, ok := core.ConstInt(c.Common().Args[1]); !ok || d != 1 {
				o.Fail(p.InstrPos(c), "inflight changed by %s in Pick, expected +1", core.Describe(c.Common().Args[1]))
			}
			b := gxFieldBase(c.Common().Args[0])
			if chosen != nil && !gxSame(chosen, b) {
				o.Fail(p.InstrPos(c), "inflight incremented on two different connections")
			}
			chosen = b
		}
		isInc := func(in ssa.Instruction) bool { return isInflight(in) }
		nOK := 0
		for _, ret := range core.Returns(pick) {
			if len(ret.Results) != 2 {
				continue
			}
			if cell := c14ErrCell(ret, 1); cell != nil {
				// The error is a result variable assigned on the way (named results; what is left of
				// `p.withLock(func() { …; result, err = …; return; … })` once helper and literal are
				// inlined): the outcome of a path is decided by the assignments it passes, not by the
				// return it ends in. A path that passes a store of a non-nil error fails; one that
				// passes none returns the zero value, nil.
				// A result assigned from a helper with several returns (`result, err = p.pickLocked()`,
				// helper inlined) is one store of a φ: there the path is decided by the edge through
				// which it enters the φ (cell.failE / cell.clearE).
				isFailSt, cutFail := cell.isFail, core.CutSet(cell.failE)
				if _, ok := core.Reach(core.Q{From: cell.afterFail(), Target: cell.clearPoints()}); ok {
					o.Unres("the error result of Pick is reset to nil after a failure was assigned (%s)", p.InstrPos(ret))
				}
				if _, ok := core.Reach(core.Q{From: []core.At{core.Entry(pick)}, Target: core.Is(ret), Blocked: isFailSt, Cut: cutFail}); ok {
					nOK++
					if _, ok := core.Reach(core.Q{From: []core.At{core.Entry(pick)}, Target: core.Is(ret), Blocked: core.Or(isInc, isFailSt), Cut: cutFail}); ok {
						o.Fail(p.InstrPos(ret), "a successful return of Pick is reachable without incrementing inflight")
					}
				}
				if w, ok := core.Reach(core.Q{From: afterAll(incs), Target: cell.failPoints()}); ok {
					o.Fail(p.InstrPos(w), "Pick fails after having incremented inflight (no callback will decrement it)")
				}
				if w, ok := core.Reach(core.Q{From: cell.afterFail(), Target: isInc}); ok {
					o.Fail(p.InstrPos(w), "Pick increments inflight on a path on which it has already decided to fail (no callback will decrement it)")
				}
			} else if core.IsNil(core.Result(ret, 1)) {
				nOK++
				if _, ok := core.Reach(core.Q{From: []core.At{core.Entry(pick)}, Target: core.Is(ret), Blocked: isInc}); ok {
					o.Fail(p.InstrPos(ret), "a successful return of Pick is reachable without incrementing inflight")
				}
			} else if w, ok := core.Reach(core.Q{From: afterAll(incs), Target: core.Is(ret)}); ok {
				o.Fail(p.InstrPos(w), "Pick fails after having incremented inflight (no callback will decrement it)")
			}
		}
		if nOK == 0 {
			o.Fail(p.Pos(pick.Pos()), "Pick has no successful return")
		}
		if w := core.AtMostOnce(pick, isInc); w != nil {
			o.Fail(p.InstrPos(w), "a path through Pick increments inflight twice")
		}
		// returned SubConn and callback belong to the chosen connection
		scs := core.StoresToField(pick, "PickResult.SubConn")
		if len(scs) == 0 {
			o.Fail(p.Pos(pick.Pos()), "Pick never sets PickResult.SubConn")
		}
		for _, st := range scs {
			v := core.Forward(st.Val)
			u, ok := v.(*ssa.UnOp)
			if !ok || core.FieldAddrName(u.X) != "subConn.conn" || !gxSame(gxFieldBase(u.X), chosen) {
				o.Fail(p.InstrPos(st), "the returned SubConn is %s, not the conn of the connection whose inflight was incremented", core.Describe(v))
			}
		}
		if !o.Need(done != nil && connVar != "", "the done-callback and its captured connection") {
			return
		}
		if !gxSame(doneBind[connVar], chosen) {
			o.Fail(p.InstrPos(doneStore), "the Done callback is bound to %s, not to the connection whose inflight was incremented", core.Describe(doneBind[connVar]))
		}
	})

	r.Check("D2/K1/inflight-dec-once", "the done-callback decrements inflight of its own connection exactly once on every path; nothing else in the package writes inflight", func(o *core.O) {
		if !o.Need(done != nil && connVar != "", "the done-callback and its captured connection") {
			return
		}
		decs := core.Calls(done, isInflight)
		o.Site(len(decs), core.FuncName(done))
		for _, c := range decs {
			if d, ok := core.ConstInt(c.Common().Args[1]); !ok || d != -1 {
				o.Fail(p.InstrPos(c), "inflight changed by %s in the done-callback, expected −1", core.Describe(c.Common().Args[1]))
			}
			if !isConn(gxFieldBase(c.Common().Args[0])) {
				o.Fail(p.InstrPos(c), "the done-callback decrements inflight of %s, not of its own connection", core.Describe(c.Common().Args[0]))
			}
		}
		isDec := func(in ssa.Instruction) bool { return isInflight(in) }
		if w := core.MustPass(core.Entry(done), isDec, core.IsExit); w != nil {
			o.Fail(p.InstrPos(w), "a path through the done-callback ends without decrementing inflight")
		}
		if w := core.AtMostOnce(done, isDec); w != nil {
			o.Fail(p.InstrPos(w), "a path through the done-callback decrements inflight twice")
		}
		// ownership: no other writer
		anyWrite := gxAtomicOn("subConn.inflight", "AddInt64", "StoreInt64", "SwapInt64", "CompareAndSwapInt64")
		for _, f := range p.PkgFuncs(p2cPkg) {
			for _, in := range core.Instrs(f, func(in ssa.Instruction) bool {
				return anyWrite(in) || core.IsStoreToField("subConn.inflight")(in)
			}) {
				if f != pick && f != done {
					o.Fail(p.InstrPos(in), "%s writes inflight (only Pick and the done-callback may)", core.FuncName(f))
				}
			}
		}
	})

	r.Check("D3/K4/picker-guarded", "p2cPicker.conns and p2cPicker.r are touched only with p.lock held (or before the picker escapes Build); lock balance", func(o *core.O) {
		la := core.NewLockAnalysis(p, p2cPkg)
		acc := la.CheckGuards([]core.Guard{
			{Type: "p2cPicker", Field: "conns", Lock: "lock"},
			{Type: "p2cPicker", Field: "r", Lock: "lock"},
		}, nil, nil)
		// a function that is only called, or only held in a never-written table of function values whose
		// elements are only called (candidate selectors indexed by the number of connections), runs with
		// the locks held at all those call sites
		for i := range acc {
			if !acc[i].OK && c14HeldThroughTables(tb, p, la, p2cPkg, acc[i]) {
				acc[i].OK = true
			}
		}
		core.ReportAccesses(o, p, acc)
		gxReportImbalance(o, p, la)
	})

	r.Check("D3/K8/picked-from-conns", "the connection chosen by Pick is an element of p.conns on every path; Build fills conns from info.ReadySCs with an initial score in [0,1000]", func(o *core.O) {
		if !o.Need(pick != nil && build != nil, "p2cPicker.Pick / p2cPickerBuilder.Build") {
			return
		}
		incs := core.Calls(pick, isInflight)
		if !o.Need(len(incs) > 0, "inflight increment in Pick") {
			return
		}
		out := map[string]int{}
		c14Origins(tb, gxFieldBase(incs[0].Common().Args[0]), 0, map[ssa.Value]bool{}, out)
		o.Site(out["elem"], core.FuncName(pick))
		for k := range out {
			if k != "elem" && k != "nil" {
				o.Fail(p.InstrPos(incs[0]), "the chosen connection may be %s, which is not an element of p.conns", strings.TrimPrefix(k, "other:"))
			}
		}
		if out["elem"] == 0 {
			o.Fail(p.InstrPos(incs[0]), "the chosen connection never comes from p.conns")
		}
		r.Fn(core.FuncName(build))
		isReady := func(v ssa.Value) bool { return core.FieldAddrNameOfLoad(v) == "PickerBuildInfo.ReadySCs" }
		cs := core.StoresToField(build, "subConn.conn")
		o.Site(len(cs), core.FuncName(build))
		if len(cs) == 0 {
			o.Fail(p.Pos(build.Pos()), "Build never sets subConn.conn")
		}
		for _, st := range cs {
			if !core.DependsOn(st.Val, isReady) {
				o.Fail(p.InstrPos(st), "subConn.conn is %s, not a key of info.ReadySCs", core.Describe(st.Val))
			}
		}
		ss := core.StoresToField(build, "subConn.success")
		o.Site(len(ss), core.FuncName(build))
		if len(ss) == 0 {
			o.Fail(p.Pos(build.Pos()), "Build leaves the success score at 0 (every new connection starts unhealthy)")
		}
		for _, st := range ss {
			if f, ok := core.ConstFloat(st.Val); !ok || f <= 500 || f > 1000 {
				o.Fail(p.InstrPos(st), "initial success score %s is not a constant in (500,1000]", core.Describe(st.Val))
			}
		}
	})

	// role: healthy = the bool functions of the package that atomically load subConn.success
	isSuccLoad := gxAtomicLoadOf("subConn.success")
	var healthy []*ssa.Function
	for _, f := range p.PkgFuncs(p2cPkg) {
		if f.Signature.Results().Len() == 1 && f.Signature.Results().At(0).Type().String() == "bool" && f != done &&
			len(core.Calls(f, gxAtomicOn("subConn.success", "LoadUint64"))) > 0 {
			healthy = append(healthy, f)
		}
	}
	r.Check("D3/K6/healthy-threshold", "a connection is healthy iff its success score > 500; Pick's retry loop ends early only when both candidates are healthy", func(o *core.O) {
		if !o.Need(len(healthy) > 0, "a bool function of the package loading subConn.success") || !o.Need(pick != nil, "Pick") {
			return
		}
		for _, f := range healthy {
			r.Fn(core.FuncName(f))
			for _, ret := range core.Returns(f) {
				o.Site(1, core.FuncName(f))
				if k, ok := gxGreaterThan(core.Result(ret, 0), isSuccLoad); !ok || k != 500 {
					o.Fail(p.InstrPos(ret), "%s returns %s, expected success > 500", core.FuncName(f), core.Describe(core.Result(ret, 0)))
				}
			}
		}
		isHealthy := func(in ssa.Instruction) bool {
			c, ok := in.(*ssa.Call)
			if !ok {
				return false
			}
			for _, f := range healthy {
				if c.Call.StaticCallee() == f {
					return true
				}
			}
			return false
		}
		isSelection := func(in ssa.Instruction) bool {
			c, ok := in.(*ssa.Call)
			return ok && c.Call.StaticCallee() != nil && c.Call.StaticCallee().Pkg == pick.Pkg && !isHealthy(in) &&
				strings.HasSuffix(c.Type().String(), "p2c.subConn")
		}
		// role: the retry loop lives in Pick, or — one level down — in a candidate-selection function Pick
		// calls directly or through a never-written table of function values (the only tester among the
		// callees: the selectors for one and two connections have nothing to test)
		type tester struct {
			fn  *ssa.Function
			via ssa.CallInstruction // the call in Pick that (possibly) runs fn; nil for Pick itself
		}
		var testers []tester
		if len(core.Calls(pick, isHealthy)) > 0 {
			testers = append(testers, tester{pick, nil})
		} else {
			for _, c := range core.Calls(pick, func(in ssa.Instruction) bool { _, ok := in.(*ssa.Call); return ok && !isHealthy(in) }) {
				fns, _ := tb.callees(c)
				for _, f := range fns {
					isH := false
					for _, h := range healthy {
						isH = isH || h == f
					}
					if !isH && f.Pkg == pick.Pkg && f.Blocks != nil && len(core.Calls(f, isHealthy)) > 0 {
						testers = append(testers, tester{f, c})
					}
				}
			}
		}
		if len(testers) == 0 {
			o.Site(0, core.FuncName(pick))
			o.Fail(p.Pos(pick.Pos()), "Pick tests the health of 0 candidate(s), expected both")
			return
		}
		for _, t := range testers {
			fn := t.fn
			r.Fn(core.FuncName(fn))
			hs := core.Calls(fn, isHealthy)
			o.Site(len(hs), core.FuncName(fn))
			if len(hs) < 2 {
				o.Fail(p.Pos(fn.Pos()), "Pick tests the health of %d candidate(s), expected both", len(hs))
				continue
			}
			// what follows the loop: the selection call (loop in Pick), or handing the candidates back to Pick,
			// which then must go on to a selection call
			var after []ssa.Instruction
			var cands [][]ssa.Value // the candidates handed on at after[i]
			if t.via == nil {
				for _, in := range core.Instrs(fn, isSelection) {
					if _, ok := core.Reach(core.Q{From: afterAll(hs), Target: core.Is(in)}); ok {
						after = append(after, in)
						cands = append(cands, core.Args(in.(ssa.CallInstruction))[1:])
					}
				}
			} else {
				// … and Pick selects from what the call handed back (or from constants), nothing else
				viaVal, _ := t.via.(ssa.Value)
				sels := 0
				for _, in := range core.Instrs(pick, isSelection) {
					if _, ok := core.Reach(core.Q{From: []core.At{core.After(t.via)}, Target: core.Is(in)}); !ok {
						continue
					}
					sels++
					for _, arg := range core.Args(in.(ssa.CallInstruction))[1:] {
						for _, l := range gxPhiLeaves(arg) {
							l = core.Forward(l)
							if ex, isEx := l.(*ssa.Extract); isEx {
								l = ex.Tuple
							}
							if _, isC := l.(*ssa.Const); !isC && (viaVal == nil || l != viaVal) {
								o.Fail(p.InstrPos(in), "candidate %s is selected from without having been health-tested", core.Describe(l))
							}
						}
					}
				}
				if sels > 0 {
					for _, ret := range core.Returns(fn) {
						if _, ok := core.Reach(core.Q{From: afterAll(hs), Target: core.Is(ret)}); ok {
							after = append(after, ret)
							var rs []ssa.Value
							for i := range ret.Results {
								rs = append(rs, core.Result(ret, i))
							}
							cands = append(cands, rs)
						}
					}
				}
			}
			if len(after) == 0 {
				o.Fail(p.Pos(fn.Pos()), "no selection call follows the health tests")
				continue
			}
			// "tries used up": the edge leaving the loop at a test of the loop counter (a φ) against a constant,
			// whichever way the counter runs and the comparison is spelled
			var exhausted []core.Edge
			for _, b := range fn.Blocks {
				iff, ok := b.Instrs[len(b.Instrs)-1].(*ssa.If)
				if !ok {
					continue
				}
				cmp, ok := iff.Cond.(*ssa.BinOp)
				if !ok {
					continue
				}
				_, xPhi := cmp.X.(*ssa.Phi)
				_, yPhi := cmp.Y.(*ssa.Phi)
				_, xC := core.ConstInt(cmp.X)
				_, yC := core.ConstInt(cmp.Y)
				if !(xPhi && yC) && !(yPhi && xC) {
					continue
				}
				for _, s := range b.Succs {
					if _, back := core.Reach(core.Q{From: []core.At{core.Head(s)}, Target: core.Is(iff)}); !back {
						exhausted = append(exhausted, core.Edge{From: b, To: s})
					}
				}
			}
			recv := map[ssa.Value]bool{}
			for _, h := range hs {
				h := h
				recv[core.Forward(h.Common().Args[0])] = true
				healthyEdges, _ := core.EdgesOf(fn, core.BoolVal(func(v ssa.Value) bool { return v == h.Value() }))
				if w, _ := core.Reach(core.Q{From: []core.At{core.Entry(fn)}, Target: core.Is(after...), Cut: core.CutSet(exhausted, healthyEdges)}); w != nil {
					o.Fail(p.InstrPos(h), "the retry loop can be left before the tries are used up although this candidate is unhealthy")
				}
			}
			if len(recv) < 2 {
				o.Fail(p.Pos(fn.Pos()), "both health tests look at the same candidate")
			}
			for i, a := range after {
				for _, arg := range cands[i] {
					for _, l := range gxPhiLeaves(arg) {
						if _, isC := l.(*ssa.Const); !isC && !recv[core.Forward(l)] {
							o.Fail(p.InstrPos(a), "candidate %s is selected from without having been health-tested", core.Describe(l))
						}
					}
				}
			}
		}
	})

	// role: load = the int64 functions of the package that atomically load subConn.lag and subConn.inflight
	var loads []*ssa.Function
	for _, f := range p.PkgFuncs(p2cPkg) {
		if f != done && f.Parent() == nil && len(core.Calls(f, gxAtomicOn("subConn.lag", "LoadUint64"))) > 0 &&
			len(core.Calls(f, gxAtomicOn("subConn.inflight", "LoadInt64"))) > 0 {
			loads = append(loads, f)
		}
	}
	r.Check("D3/K7/load-formula", "load ≡ int(sqrt(lag+1))·(inflight+1), replaced by the penalty constant only when that product is 0", func(o *core.O) {
		if !o.Need(len(loads) > 0, "a function of the package loading subConn.lag and subConn.inflight") {
			return
		}
		want := core.ParsePoly("int(sqrt(lag + 1))*(inflight + 1)")
		for _, f := range loads {
			r.Fn(core.FuncName(f))
			a := &core.Alg{Name: func(v ssa.Value) string {
				if gxAtomicLoadOf("subConn.lag")(v) {
					return "lag"
				}
				if gxAtomicLoadOf("subConn.inflight")(v) {
					return "inflight"
				}
				return ""
			}}
			formula := 0
			for _, ret := range core.Returns(f) {
				o.Site(1, core.FuncName(f))
				v := core.Result(ret, 0)
				if c, ok := core.ConstInt(v); ok {
					if c < 1<<20 {
						o.Fail(p.InstrPos(ret), "penalty load %d is not larger than realistic loads", c)
					}
					isProd := func(x ssa.Value) bool { return a.Norm(x).Equal(want) }
					if w := core.Requires(f, core.Is(ret), core.Cmp(token.EQL, isProd, core.IsConstInt(0))); w != nil {
						o.Fail(p.InstrPos(ret), "the penalty is returned although the computed load is not 0")
					}
					continue
				}
				formula++
				if got := a.Norm(v); !got.Equal(want) {
					o.Fail(p.InstrPos(ret), "load is %s, expected %s", got, want)
				}
			}
			if formula == 0 {
				o.Fail(p.Pos(f.Pos()), "%s never returns the computed load", core.FuncName(f))
			}
		}
	})

	r.Check("D3/K2/choose-lower-load-or-stale", "choose returns one of its two candidates: the one with the lower load, or the other one only when it was not picked for more than 1 s (now − pick > 1e9 ns); conversely the lower-load one is preferred over the other only where that staleness test or the claiming compare-and-swap failed (no further condition keeps a stale connection from being probed)", func(o *core.O) {
		if !o.Need(len(loads) > 0 && pick != nil, "load function / Pick") {
			return
		}
		isLoadCall := func(v ssa.Value) bool {
			c, ok := core.Forward(v).(*ssa.Call)
			if !ok {
				return false
			}
			for _, f := range loads {
				if c.Call.StaticCallee() == f {
					return true
				}
			}
			return false
		}
		// role: choose = the functions of the package comparing two loads
		n := 0
		for _, f := range p.PkgFuncs(p2cPkg) {
			var cmp *ssa.If
			for _, b := range f.Blocks {
				if iff, ok := gxLast(b).(*ssa.If); ok {
					if bo, ok := iff.Cond.(*ssa.BinOp); ok && isLoadCall(bo.X) && isLoadCall(bo.Y) {
						cmp = iff
					}
				}
			}
			if cmp == nil {
				continue
			}
			n++
			r.Fn(core.FuncName(f))
			c14Choose(o, p, f, cmp, isNow)
		}
		o.Site(n)
		if n == 0 {
			o.Fail(p.Pos(pick.Pos()), "no function of the package compares the loads of two candidates")
		}
	})
}

func afterAll[T ssa.Instruction](ins []T) []core.At {
	var out []core.At
	for _, in := range ins {
		out = append(out, core.After(in))
	}
	return out
}

// c14Target decides the success target: a φ of the constants 1000 and 0, with 0
// only under Err != nil ∧ !Acceptable(Err) and 1000 only otherwise.
func c14Target(o *core.O, p *core.Prog, done *ssa.Function, st ssa.CallInstruction, sample ssa.Value) {
	ph, ok := sample.(*ssa.Phi)
	if !ok {
		if sample == nil {
			o.Fail(p.InstrPos(st), "the success target is a constant: the score does not depend on the call's outcome")
		} else {
			o.Unres("the success target %s is not a φ of constants", core.Describe(sample))
		}
		return
	}
	isErr := core.FieldLoad("DoneInfo.Err")
	errNil := core.Cmp(token.EQL, isErr, core.IsNil)
	acceptable := core.BoolVal(func(v ssa.Value) bool {
		c, ok := v.(*ssa.Call)
		return ok && core.Short(core.CalleeName(c)) == codesPkg+".Acceptable" && isErr(c.Call.Args[0])
	})
	errNilE, errNonNilE := core.EdgesOf(done, errNil)
	accE, notAccE := core.EdgesOf(done, acceptable)
	if len(errNilE) == 0 || len(accE) == 0 {
		o.Fail(p.InstrPos(st), "the done-callback does not test info.Err != nil and codes.Acceptable(info.Err)")
		return
	}
	seen := map[int64]bool{}
	var walk func(ph *ssa.Phi)
	walk = func(ph *ssa.Phi) {
		for i, e := range ph.Edges {
			if inner, ok := e.(*ssa.Phi); ok {
				walk(inner)
				continue
			}
			edge := core.Edge{From: ph.Block().Preds[i], To: ph.Block()}
			f, ok := core.ConstFloat(e)
			switch {
			case ok && f == 1000:
				seen[1000] = true
				// reachable only when Err == nil or Acceptable: cutting both kinds of edges must disconnect it
				if gxEdgeReachable(done, edge, append(append([]core.Edge{}, errNilE...), accE...)) {
					o.Fail(p.InstrPos(st), "the success target is 1000 on a path where info.Err != nil and !Acceptable(info.Err): an unacceptable completion raises the score")
				}
			case ok && f == 0:
				seen[0] = true
				if gxEdgeReachable(done, edge, errNonNilE) {
					o.Fail(p.InstrPos(st), "the success target is 0 on a path where info.Err == nil: a successful completion lowers the score")
				}
				if gxEdgeReachable(done, edge, notAccE) {
					o.Fail(p.InstrPos(st), "the success target is 0 on a path where Acceptable(info.Err) holds: an acceptable completion lowers the score")
				}
			default:
				o.Fail(p.InstrPos(st), "the success target may be %s, expected 1000 or 0", core.Describe(e))
			}
		}
	}
	walk(ph)
	if !seen[0] || !seen[1000] {
		o.Fail(p.InstrPos(st), "the success target does not take both values 1000 and 0")
	}
}

// c14Choose decides the selection rule of f, whose `if` cmp compares the loads of two candidates.
func c14Choose(o *core.O, p *core.Prog, f *ssa.Function, cmp *ssa.If, isNow func(ssa.Value) bool) {
	bo := cmp.Cond.(*ssa.BinOp)
	recvOf := func(v ssa.Value) ssa.Value { return core.Forward(core.Forward(v).(*ssa.Call).Call.Args[0]) }
	x, y := recvOf(bo.X), recvOf(bo.Y)
	// normalise to: on the true edge `hi` has the strictly higher load
	var hiT, loT ssa.Value
	switch bo.Op {
	case token.GTR, token.GEQ:
		hiT, loT = x, y
	case token.LSS, token.LEQ:
		hiT, loT = y, x
	default:
		o.Unres("load comparison %s not understood", core.Describe(bo))
		return
	}
	tb, fb := cmp.Block().Succs[0], cmp.Block().Succs[1]
	// classify a value as the lower / higher candidate after the comparison
	side := func(ph *ssa.Phi, i int) int { // 1 = true side, 0 = false side, -1 unknown
		pred := ph.Block().Preds[i]
		switch {
		case pred == cmp.Block() && ph.Block() == tb, tb.Dominates(pred) && len(tb.Preds) == 1:
			return 1
		case pred == cmp.Block() && ph.Block() == fb, fb.Dominates(pred) && len(fb.Preds) == 1:
			return 0
		}
		return -1
	}
	class := func(v ssa.Value) string {
		ph, ok := v.(*ssa.Phi)
		if !ok || len(ph.Edges) != 2 {
			return "?"
		}
		var onT, onF ssa.Value
		for i, e := range ph.Edges {
			switch side(ph, i) {
			case 1:
				onT = e
			case 0:
				onF = e
			}
		}
		switch {
		case onT == loT && onF == hiT:
			return "low"
		case onT == hiT && onF == loT:
			return "high"
		}
		return "?"
	}
	// The outcomes of choose: every value a return can yield, with — where returns were merged into one
	// (`if c2 != nil { … }; store; return c1`: the single-candidate path and the lower-load path share a
	// tail) — the CFG edge through which it enters the returned φ. A φ that is itself the lower / higher
	// candidate is one outcome; the block of a φ that is taken apart must not lie on a cycle.
	type outcome struct {
		ret  *ssa.Return
		val  ssa.Value
		edge *core.Edge
	}
	var outcomes []outcome
	var expand func(ret *ssa.Return, v ssa.Value, edge *core.Edge, depth int)
	expand = func(ret *ssa.Return, v ssa.Value, edge *core.Edge, depth int) {
		ph, isPhi := v.(*ssa.Phi)
		if !isPhi || class(v) != "?" || depth > 3 || len(ph.Edges) != len(ph.Block().Preds) {
			outcomes = append(outcomes, outcome{ret, v, edge})
			return
		}
		for _, s := range ph.Block().Succs {
			if _, again := core.Reach(core.Q{From: []core.At{core.Head(s)}, Target: core.Is(gxLast(ph.Block()))}); again {
				outcomes = append(outcomes, outcome{ret, v, edge})
				return
			}
		}
		for i, e := range ph.Edges {
			for j, pr := range ph.Block().Preds {
				if j != i && pr == ph.Block().Preds[i] {
					outcomes = append(outcomes, outcome{ret, v, edge})
					return
				}
			}
			ed := core.Edge{From: ph.Block().Preds[i], To: ph.Block()}
			expand(ret, e, &ed, depth+1)
		}
	}
	for _, ret := range core.Returns(f) {
		expand(ret, core.Result(ret, 0), nil, 0)
	}
	afterCmp := []core.At{core.Head(tb), core.Head(fb)}
	// the outcome can only be produced on a path that passed an edge on which one of the atoms holds
	requires := func(oc outcome, atoms ...core.Atom) bool {
		if oc.edge == nil {
			return core.Requires(f, core.Is(oc.ret), atoms...) == nil
		}
		var cut []core.Edge
		for _, a := range atoms {
			h, _ := core.EdgesOf(f, a)
			cut = append(cut, h...)
		}
		return !gxEdgeReachable(f, *oc.edge, cut)
	}
	nLow := 0
	var lows []outcome
	for _, oc := range outcomes {
		ret, v := oc.ret, oc.val
		after := false
		if oc.edge == nil {
			_, after = core.Reach(core.Q{From: afterCmp, Target: core.Is(ret)})
		} else if oc.edge.From == cmp.Block() {
			after = true
		} else {
			_, after = core.Reach(core.Q{From: afterCmp, Target: core.Is(gxLast(oc.edge.From))})
		}
		if !after {
			// returns not after the comparison (single candidate): must return a parameter
			if _, isP := v.(*ssa.Parameter); !isP {
				o.Fail(p.InstrPos(ret), "choose returns %s, not one of its candidates", core.Describe(v))
			}
			continue
		}
		switch class(v) {
		case "low":
			nLow++
			lows = append(lows, oc)
		case "high":
			stale := core.Cmp(token.GTR, func(d ssa.Value) bool {
				s, ok := d.(*ssa.BinOp)
				if !ok || s.Op != token.SUB || !isNow(s.X) {
					return false
				}
				c, ok := s.Y.(*ssa.Call)
				return ok && gxAtomicOn("subConn.pick", "LoadInt64")(c) && gxFieldBase(c.Call.Args[0]) == v
			}, core.IsConstInt(1e9))
			if core.EdgeCount(f, stale) == 0 {
				o.Fail(p.InstrPos(ret), "the higher-load candidate is returned without the test now − pick > 1 s on it")
			} else if !requires(oc, stale) {
				o.Fail(p.InstrPos(ret), "the higher-load candidate can be returned although it was picked within the last second")
			}
		default:
			o.Fail(p.InstrPos(ret), "choose returns %s: neither the lower-load candidate nor the stale higher-load one", core.Describe(v))
		}
	}
	if nLow == 0 {
		o.Fail(p.Pos(f.Pos()), "choose never returns the lower-load candidate")
	}
	// the converse (every connection is probed about once per second): the lower-load candidate
	// is preferred over a stale higher-load one only when the staleness test or the claim (CAS) failed
	var hv ssa.Value
	for _, b := range f.Blocks {
		for _, in := range b.Instrs {
			if ph, ok := in.(*ssa.Phi); ok && class(ph) == "high" {
				hv = ph
			}
		}
	}
	if hv == nil {
		return
	}
	staleH := core.Cmp(token.GTR, func(d ssa.Value) bool {
		s, ok := d.(*ssa.BinOp)
		if !ok || s.Op != token.SUB || !isNow(s.X) {
			return false
		}
		c, ok := s.Y.(*ssa.Call)
		return ok && gxAtomicOn("subConn.pick", "LoadInt64")(c) && gxFieldBase(c.Call.Args[0]) == hv
	}, core.IsConstInt(1e9))
	claimed := core.BoolVal(func(v ssa.Value) bool {
		c, ok := v.(*ssa.Call)
		return ok && gxAtomicOn("subConn.pick", "CompareAndSwapInt64")(c) && gxFieldBase(c.Call.Args[0]) == hv
	})
	if core.EdgeCount(f, staleH) == 0 {
		return // reported above
	}
	for _, oc := range lows {
		if !requires(oc, core.Not(staleH), core.Not(claimed)) {
			o.Fail(p.InstrPos(oc.ret), "choose can prefer the lower-load candidate although the other one was not picked for more than 1 s and could be claimed: a further condition stands between the staleness test and the forced pick, so a connection that fails it (e.g. an unhealthy one) is never probed again and cannot recover")
		}
	}
}
