package props

import (
	"go/token"
	"go/types"

	"godcheck/core"

	"golang.org/x/tools/go/ssa"
)

// Rule added after the missed change C10-um3 (detection round 8).
//
// Drain runs inside the wheel's single owner loop and hands each pending task to the drain
// function through a runner of a collaborating package (lib/threading) that bounds the number of
// tasks in flight with a buffered channel: a slot is taken (blocking) before a task is started
// and given back when it has ended. "Drain hands EVERY still-pending task to the drain function"
// therefore needs the slot to come back on every way a task can end – also when the drain
// function panics: otherwise `capacity` panicking tasks use the slots up, the next hand-over
// blocks for ever inside the owner loop, the remaining tasks are never handed over and no later
// operation is served.

// c10ChanOp classifies a blocking channel operation on a channel kept in a struct field:
// the field ("T.f") and the direction (+1 send, -1 receive); "" for anything else.
func c10ChanOp(in ssa.Instruction) (ch ssa.Value, dir int) {
	switch x := in.(type) {
	case *ssa.Send:
		return x.Chan, +1
	case *ssa.UnOp:
		if x.Op == token.ARROW {
			return x.X, -1
		}
	}
	return nil, 0
}

// c10ChanField names the struct field a channel value is loaded from ("" if it is not one),
// through direction-only conversions.
func c10ChanField(v ssa.Value) string {
	v = core.Forward(v)
	for i := 0; i < 4; i++ {
		ct, ok := v.(*ssa.ChangeType)
		if !ok {
			break
		}
		if _, isCh := ct.X.Type().Underlying().(*types.Chan); !isCh {
			break
		}
		v = core.Forward(ct.X)
	}
	return core.FieldAddrNameOfLoad(v)
}

// c10IsChan: v denotes the channel of field tf – loaded from the field, or a local alias of it
// (also when the alias is captured by a closure).
func c10IsChan(v ssa.Value, tf string) bool {
	if c10ChanField(v) == tf {
		return true
	}
	return core.CapturedLocal(func(st ssa.Value) bool { return c10ChanField(st) == tf })(core.Forward(v))
}

// c10Limiter is the bounded-concurrency protocol of a runner function.
type c10Limiter struct {
	field string // "T.f" of the channel
	dir   int    // direction of the acquiring operation
}

func (l c10Limiter) isRelease(in ssa.Instruction) bool {
	ch, d := c10ChanOp(in)
	return d == -l.dir && ch != nil && c10IsChan(ch, l.field)
}

// c10Releases: calling c gives the slot back on every normal path through it (the release
// itself, or – one level down – a call of a function or literal that does).
func (l c10Limiter) releases(c *ssa.Function, depth int) bool {
	if c == nil || c.Blocks == nil || depth > 2 {
		return false
	}
	site := l.releaseSite(depth)
	if len(core.Instrs(c, site)) == 0 {
		return false
	}
	return core.MustPass(core.Entry(c), site, core.IsReturn) == nil
}

// releaseSite matches an instruction that gives the slot back: the channel operation, or a plain
// call of a function/literal that always does.
func (l c10Limiter) releaseSite(depth int) func(ssa.Instruction) bool {
	return func(in ssa.Instruction) bool {
		if l.isRelease(in) {
			return true
		}
		c, ok := in.(*ssa.Call)
		if !ok || c.Call.IsInvoke() {
			return false
		}
		callee := c.Call.StaticCallee()
		if callee == nil {
			callee, _ = gxClosureOf(c.Call.Value)
		}
		return callee != nil && l.releases(callee, depth+1)
	}
}

// c10FuncArgs resolves the function literals passed in one argument of a call: the literal
// itself, or the elements of the slice literal built for a variadic parameter.
func c10FuncArgs(v ssa.Value) []*ssa.Function {
	v = core.Forward(v)
	if f, _ := gxClosureOf(v); f != nil {
		return []*ssa.Function{f}
	}
	if f, ok := v.(*ssa.Function); ok {
		return []*ssa.Function{f}
	}
	sl, ok := v.(*ssa.Slice)
	if !ok {
		return nil
	}
	al, ok := sl.X.(*ssa.Alloc)
	if !ok {
		return nil
	}
	var out []*ssa.Function
	for _, ref := range *al.Referrers() {
		ia, ok := ref.(*ssa.IndexAddr)
		if !ok {
			continue
		}
		for _, r2 := range *ia.Referrers() {
			if st, ok := r2.(*ssa.Store); ok && st.Addr == ia {
				if f, _ := gxClosureOf(st.Val); f != nil {
					out = append(out, f)
				} else if f, ok := st.Val.(*ssa.Function); ok {
					out = append(out, f)
				}
			}
		}
	}
	return out
}

// c10RunsParam: function d calls its k-th parameter (a function, or every element of a slice of
// functions it loops over) on every path to its return – it cannot return without having run
// it. why != "" explains a failure.
func c10RunsParam(d *ssa.Function, k int) (ok bool, why string) {
	if d == nil || d.Blocks == nil || k >= len(d.Params) {
		return false, "its body is not available"
	}
	isP := core.ParamAt(d, k)
	switch d.Params[k].Type().Underlying().(type) {
	case *types.Signature:
		call := func(in ssa.Instruction) bool {
			_, plain := in.(*ssa.Call)
			return plain && core.CallOfValue(isP)(in)
		}
		if len(core.Instrs(d, call)) == 0 {
			return false, "it never calls the function it is given"
		}
		isNil, _ := core.EdgesOf(d, core.Cmp(token.EQL, isP, core.IsNil))
		if w, reach := core.Reach(core.Q{From: []core.At{core.Entry(d)}, Target: core.IsReturn, Blocked: call, Cut: core.CutSet(isNil)}); reach {
			_ = w
			return false, "it can return without calling the function it is given"
		}
		return true, ""
	case *types.Slice:
		call := func(in ssa.Instruction) bool {
			c, plain := in.(*ssa.Call)
			if !plain || c.Call.IsInvoke() {
				return false
			}
			switch x := core.Forward(c.Call.Value).(type) {
			case *ssa.UnOp:
				if ia, isIA := x.X.(*ssa.IndexAddr); isIA && x.Op == token.MUL {
					return isP(ia.X)
				}
			case *ssa.Index:
				return isP(x.X)
			}
			return false
		}
		if len(core.Instrs(d, call)) == 0 {
			return false, "it never calls the functions it is given"
		}
		more := core.AnyOf(core.Cmp(token.LSS, core.AnyVal, core.IsLenOf(isP)), core.Cmp(token.NEQ, core.AnyVal, core.IsLenOf(isP)))
		goOn, done := core.EdgesOf(d, more)
		if len(goOn) == 0 || len(done) == 0 {
			return false, "no loop over the functions it is given found"
		}
		// (1) the only way to the return that bypasses a call is the loop's exhaustion
		if _, reach := core.Reach(core.Q{From: []core.At{core.Entry(d)}, Target: core.IsReturn, Blocked: call, Cut: core.CutSet(done)}); reach {
			return false, "it can return without having called the functions it is given (a path to its return bypasses the loop over them)"
		}
		// (2) no iteration skips its element
		for _, e := range goOn {
			test := gxLast(e.From)
			if _, reach := core.Reach(core.Q{From: []core.At{core.Head(e.To)}, Target: core.Is(test), Blocked: call}); reach {
				return false, "an iteration of its loop can skip the function"
			}
		}
		return true, ""
	}
	return false, "the parameter is neither a function nor a slice of functions"
}

// c10Recovers: f calls the builtin recover itself (the only place where it takes effect when f
// is the deferred function).
func c10Recovers(f *ssa.Function) bool {
	if f == nil || f.Blocks == nil {
		return false
	}
	return len(core.Instrs(f, func(in ssa.Instruction) bool {
		c, ok := in.(*ssa.Call)
		if !ok {
			return false
		}
		b, isB := c.Call.Value.(*ssa.Builtin)
		return isB && b.Name() == "recover"
	})) > 0
}

// c10DeferredFn resolves the function a defer statement registers (a literal, a function, a method).
func c10DeferredFn(d *ssa.Defer) *ssa.Function {
	if d.Call.IsInvoke() {
		return nil
	}
	if f := d.Call.StaticCallee(); f != nil {
		return f
	}
	f, _ := gxClosureOf(d.Call.Value)
	return f
}

// c10Contains: h runs its k-th parameter only synchronously and under its own recover (a panic of
// the parameter does not leave h).
func c10Contains(h *ssa.Function, k int) bool {
	if h == nil || h.Blocks == nil || k >= len(h.Params) {
		return false
	}
	isP := core.ParamOrCaptured(h, k)
	n := 0
	for _, g := range core.WithAnon(h) {
		for _, in := range core.Instrs(g, func(in ssa.Instruction) bool {
			c := core.AsCall(in)
			if c == nil {
				return false
			}
			if core.CallOfValue(isP)(in) {
				return true
			}
			for _, a := range c.Common().Args {
				if isP(a) {
					return true
				}
			}
			return false
		}) {
			if _, plain := in.(*ssa.Call); !plain || g != h || !core.CallOfValue(isP)(in) {
				return false // started asynchronously, deferred, or handed on: not followed
			}
			guarded := false
			for _, d := range core.Instrs(h, func(in ssa.Instruction) bool { _, ok := in.(*ssa.Defer); return ok }) {
				if core.Dominates(d, in) && c10Recovers(c10DeferredFn(d.(*ssa.Defer))) {
					guarded = true
				}
			}
			if !guarded {
				return false
			}
			n++
		}
	}
	return n > 0
}

type c10SlotCheck struct {
	p     *core.Prog
	l     c10Limiter
	sites int
	fails []struct{ where, msg string }
	seen  map[*ssa.Function]bool
}

func (s *c10SlotCheck) fail(in ssa.Instruction, msg string) {
	s.fails = append(s.fails, struct{ where, msg string }{s.p.InstrPos(in), msg})
}

// deferredRelease: a defer statement of g that dominates `at` and whose deferred call gives the
// slot back on every path (so also when the code after it panics). note is the reason why a
// deferred call that contains a release was not accepted.
func (s *c10SlotCheck) deferredRelease(g *ssa.Function, at ssa.Instruction) (ok bool, note string) {
	for _, in := range core.Instrs(g, func(in ssa.Instruction) bool { _, ok := in.(*ssa.Defer); return ok }) {
		d := in.(*ssa.Defer)
		if !core.Dominates(d, at) {
			continue
		}
		fn := c10DeferredFn(d)
		if fn != nil && s.l.releases(fn, 0) {
			return true, ""
		}
		if fn == nil || fn.Blocks == nil {
			continue
		}
		if len(core.Instrs(fn, s.l.releaseSite(1))) > 0 {
			note = "the deferred " + core.FuncName(fn) + " gives the slot back only on some of its paths"
		}
		// a deferred clean-up runner (rescue.Recover(cleanups...)) handed a literal that releases
		for k, a := range d.Call.Args {
			for _, lit := range c10FuncArgs(a) {
				if !s.l.releases(lit, 0) {
					if len(core.Instrs(lit, s.l.releaseSite(1))) > 0 {
						note = "the deferred clean-up " + core.FuncName(lit) + " gives the slot back only on some of its paths"
					}
					continue
				}
				if runs, why := c10RunsParam(fn, k); runs {
					return true, ""
				} else {
					note = "the deferred " + core.FuncName(fn) + " does not always run the clean-up that gives the slot back: " + why
				}
			}
		}
	}
	return false, note
}

// check examines every place where the function value held in parameter i of root (or captured
// from it by root's literals) is run.
func (s *c10SlotCheck) check(root *ssa.Function, i int, depth int) {
	if root == nil || root.Blocks == nil || depth > 3 || s.seen[root] {
		return
	}
	s.seen[root] = true
	isTask := core.ParamOrCaptured(root, i)
	for _, g := range core.WithAnon(root) {
		for _, in := range core.Instrs(g, func(in ssa.Instruction) bool { return core.AsCall(in) != nil }) {
			c := core.AsCall(in)
			direct := core.CallOfValue(isTask)(in)
			handed := -1
			if !direct {
				for k, a := range c.Common().Args {
					if isTask(a) {
						handed = k
					}
				}
				if handed < 0 {
					continue
				}
			}
			switch in.(type) {
			case *ssa.Call:
			case *ssa.Go:
				if direct {
					s.sites++
					s.fail(in, "the task is started in a goroutine of its own: nothing gives its slot back when it has ended")
				} else if h := c.Common().StaticCallee(); h != nil && h.Blocks != nil {
					s.check(h, handed, depth+1)
				}
				continue
			default:
				continue
			}
			s.sites++
			ok, note := s.deferredRelease(g, in)
			if ok {
				continue
			}
			if !direct {
				h := c.Common().StaticCallee()
				if h != nil && c10Contains(h, handed) {
					// the task cannot panic out of h: a release on every normal path after it is enough
					if core.MustPass(core.After(in), s.l.releaseSite(0), core.IsReturn) == nil {
						continue
					}
					s.fail(in, "after the task has run (inside "+core.FuncName(h)+") a path returns without giving the slot back")
					continue
				}
				if h != nil && h.Blocks != nil && h.Pkg == root.Pkg {
					before := len(s.fails)
					n0 := s.sites
					s.check(h, handed, depth+1)
					if s.sites > n0 || len(s.fails) > before {
						continue
					}
				}
			}
			msg := "no deferred release of the slot is registered before the task runs: a task that panics keeps its slot"
			if len(core.Instrs(g, s.l.isRelease)) > 0 || core.MustPass(core.After(in), s.l.releaseSite(0), core.IsReturn) == nil {
				msg = "the slot is given back by a plain statement after the task (not by a deferred call registered before it): a task that panics keeps its slot"
			}
			if note != "" {
				msg = note
			}
			s.fail(in, msg)
		}
	}
}

func c10Round8(r *core.Run) {
	p := r.P
	r.Check("D3/K1/drain-runner-slot-released", "Drain hands EVERY still-pending task to the drain function, whatever that function does: the runner the drain handler uses to run the hand-overs (a function of another package that is given the hand-over literal) and that bounds the tasks in flight by a blocking operation on a channel field gives the slot back on every way the task can end – the opposite channel operation is made by a deferred call registered before the task runs (directly, or as a clean-up handed to a deferred function that runs its clean-ups on every path), or follows a call that contains the task's panic (else `capacity` panicking drain callbacks use the slots up, the next hand-over blocks inside the wheel's owner loop for ever: the remaining pending tasks are never handed to the drain function and no later operation is served)", func(o *core.O) {
		t, why := resolveTW(p)
		if t == nil {
			o.Unres("timing wheel roles not resolved: %s", why)
			return
		}
		h := t.handler["drainChannel"]
		if !o.Need(h != nil, "handler of drainChannel") {
			return
		}
		// the runner functions: static callees outside the wheel's package that the drain handler
		// (or a function it calls synchronously) hands a function literal of the wheel's package to
		type use struct {
			callee *ssa.Function
			param  int
			site   ssa.Instruction
		}
		var uses []use
		for _, f := range t.g.reachableSync(h) {
			for _, in := range core.Instrs(f, func(in ssa.Instruction) bool { _, ok := in.(*ssa.Call); return ok }) {
				c := in.(*ssa.Call)
				callee := c.Call.StaticCallee()
				if callee == nil || callee.Blocks == nil || t.g.inPkg[callee] || callee.Pkg == nil || p.SSAPkgs[callee.Pkg.Pkg.Path()] == nil {
					continue
				}
				for k, a := range c.Call.Args {
					if _, isFn := a.Type().Underlying().(*types.Signature); !isFn {
						continue
					}
					if lit, _ := gxClosureOf(a); lit != nil && t.g.inPkg[lit] {
						uses = append(uses, use{callee, k, in})
					}
				}
			}
		}
		o.Site(len(uses), core.FuncName(h)+": hand-overs to a runner")
		if len(uses) == 0 {
			o.Unres("%s hands no function literal to a runner of another package: how the drain function is run is not recognised", core.FuncName(h))
			return
		}
		done := map[*ssa.Function]bool{}
		for _, u := range uses {
			if done[u.callee] {
				continue
			}
			done[u.callee] = true
			r.Fn(core.FuncName(u.callee))
			// the acquiring operation: a blocking operation on a channel field made by the runner itself
			// (synchronously: the caller – the owner loop – waits there)
			var lims []c10Limiter
			var acq ssa.Instruction
			dirs := map[string]map[int]bool{}
			for _, in := range core.Instrs(u.callee, func(in ssa.Instruction) bool { _, d := c10ChanOp(in); return d != 0 }) {
				ch, d := c10ChanOp(in)
				if tf := c10ChanField(ch); tf != "" {
					if dirs[tf] == nil {
						dirs[tf] = map[int]bool{}
					}
					if !dirs[tf][d] {
						lims = append(lims, c10Limiter{tf, d})
					}
					dirs[tf][d] = true
					acq = in
				}
			}
			// a channel the runner itself both sends to and receives from is not a slot counter held across the task
			kept := lims[:0]
			for _, l := range lims {
				if !dirs[l.field][-l.dir] {
					kept = append(kept, l)
				}
			}
			lims = kept
			if len(lims) == 0 {
				continue // no bound on the tasks in flight: the hand-over cannot block
			}
			for _, l := range lims {
				s := &c10SlotCheck{p: p, l: l, seen: map[*ssa.Function]bool{}}
				s.check(u.callee, u.param, 0)
				o.Site(s.sites, core.FuncName(u.callee)+": runs of the task")
				if s.sites == 0 {
					o.Unres("%s takes a slot (%s) but the place where it runs the task it is given was not found", core.FuncName(u.callee), p.InstrPos(acq))
					continue
				}
				for _, f := range s.fails {
					o.Fail(f.where, "%s (used by %s to run the drain function, slot taken by the blocking operation on %s at %s): %s – once as many drain callbacks have panicked as the channel has room, the next hand-over blocks inside the wheel's owner loop: the remaining pending tasks are never handed to the drain function and every later operation hangs", core.FuncName(u.callee), core.FuncName(h), l.field, p.InstrPos(acq), f.msg)
				}
			}
		}
	})
}
