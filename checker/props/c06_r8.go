package props

import (
	"go/token"
	"go/types"
	"strings"

	"godcheck/core"

	"golang.org/x/tools/go/ssa"
)

// Rules added after the eighth independent seeding round (C06-um2, C06-um3).

const (
	c06RedisPkg = "lib/store/redis"
	c06GoRedis  = "github.com/go-redis/redis"
)

// c06IsErrorType: the predeclared interface type error.
func c06IsErrorType(t types.Type) bool {
	return t != nil && types.Identical(t, types.Universe.Lookup("error").Type())
}

// c06ErrResult returns the index of the error result when the last result of
// sig has type error, else -1.
func c06ErrResult(sig *types.Signature) int {
	if sig == nil || sig.Results().Len() == 0 {
		return -1
	}
	n := sig.Results().Len()
	if c06IsErrorType(sig.Results().At(n - 1).Type()) {
		return n - 1
	}
	return -1
}

// c06ErrValuesOf lists the SSA values that are the error result of call c
// (the call itself for a single result, the extracts of the last component of a tuple).
func c06ErrValuesOf(c *ssa.Call) []ssa.Value {
	sig := c.Call.Signature()
	idx := c06ErrResult(sig)
	if idx < 0 {
		return nil
	}
	if sig.Results().Len() == 1 {
		return []ssa.Value{c}
	}
	var out []ssa.Value
	if c.Referrers() != nil {
		for _, r := range *c.Referrers() {
			if e, ok := r.(*ssa.Extract); ok && e.Index == idx {
				out = append(out, e)
			}
		}
	}
	return out
}

// c06IsGoRedisErrorSource: a statically resolved call into the go-redis client
// library whose last result is an error (cmd.Result(), cmd.Err(), …): the place
// where the outcome of a command issued to the server becomes a Go error value.
func c06IsGoRedisErrorSource(in ssa.Instruction) bool {
	c, ok := in.(*ssa.Call)
	if !ok || c.Call.IsInvoke() {
		return false
	}
	callee := c.Call.StaticCallee()
	if callee == nil || callee.Pkg == nil || !strings.HasPrefix(callee.Pkg.Pkg.Path(), c06GoRedis) {
		return false
	}
	return c06ErrResult(c.Call.Signature()) >= 0
}

// c06IsRedisNil matches the go-redis constant redis.Nil (proto.RedisError("redis: nil")).
func c06IsRedisNil(v ssa.Value) bool {
	c, ok := core.Strip(v).(*ssa.Const)
	if !ok || c.Value == nil {
		return false
	}
	s, isS := core.ConstString(c)
	return isS && s == "redis: nil" && strings.HasPrefix(c.Type().String(), c06GoRedis)
}

// c06OwnLoad resolves, inside function h of environment e, a load of a variable
// (h's own or one it captured) to the value h itself stored there, when h has
// exactly one store into the variable, that store dominates the load, the
// address of the variable escapes nowhere, and every other store is in a
// function that lexically encloses h (which does not run while h runs on its
// behalf). Anything else is returned unchanged.
func (e *c06Env) c06OwnLoad(v ssa.Value) ssa.Value {
	for i := 0; i < 4; i++ {
		v = core.Strip(v)
		u, ok := v.(*ssa.UnOp)
		if !ok || u.Op != token.MUL {
			return v
		}
		al := e.home(u.X)
		if al == nil {
			return v
		}
		sts, clean := e.cellStores(al)
		if !clean {
			return v
		}
		var own *ssa.Store
		for _, st := range sts {
			if st.Parent() == u.Parent() {
				if own != nil {
					return v
				}
				own = st
				continue
			}
			encl := false
			for p := u.Parent().Parent(); p != nil; p = p.Parent() {
				if p == st.Parent() {
					encl = true
				}
			}
			if !encl {
				return v
			}
		}
		if own == nil || !core.Dominates(own, u) {
			return v
		}
		v = own.Val
	}
	return v
}

// c06OnlyWhen reports, for function h, the returns that can hand out a nil
// constant as their last (error) result on a path starting at `from` that takes
// none of the edges `holds`: for a φ-merged result every nil leaf is judged by
// the edge it enters the φ through.
func c06OnlyWhen(h *ssa.Function, from core.At, holds []core.Edge) []ssa.Instruction {
	cut := core.CutSet(holds)
	var bad []ssa.Instruction
	for _, ret := range core.Returns(h) {
		if len(ret.Results) == 0 {
			continue
		}
		flagged := false
		gxLeavesWithEdges(core.Result(ret, len(ret.Results)-1), func(leaf ssa.Value, edge *core.Edge) {
			if flagged || !core.IsNil(core.Strip(leaf)) {
				return
			}
			if edge == nil {
				if _, ok := core.Reach(core.Q{From: []core.At{from}, Target: core.Is(ret), Cut: cut}); ok {
					flagged = true
				}
				return
			}
			if cut(*edge) {
				return
			}
			// the edge is taken iff the terminator of its source block is reached; and the return after it
			if _, ok := core.Reach(core.Q{From: []core.At{from}, Target: core.Is(gxLast(edge.From)), Cut: cut}); !ok {
				return
			}
			if _, ok := core.Reach(core.Q{From: []core.At{core.Head(edge.To)}, Target: core.Is(ret), Cut: cut}); ok {
				flagged = true
			}
		})
		if flagged {
			bad = append(bad, ret)
		}
	}
	return bad
}

// c06MissPredicate decides whether the in-module function g is a predicate
// over one error that is true ONLY when its argument is nil or redis.Nil
// (a small helper a maintainer may introduce: isMiss(err)). Every `true` that
// can be returned must be established by such a comparison of the parameter.
func c06MissPredicate(g *ssa.Function) bool {
	if g == nil || g.Blocks == nil || len(g.Params) != 1 || !c06IsErrorType(g.Params[0].Type()) {
		return false
	}
	res := g.Signature.Results()
	if res.Len() != 1 {
		return false
	}
	if b, ok := res.At(0).Type().Underlying().(*types.Basic); !ok || b.Kind() != types.Bool {
		return false
	}
	isP := func(v ssa.Value) bool { return core.Strip(core.Forward(v)) == ssa.Value(g.Params[0]) }
	atoms := []core.Atom{core.Cmp(token.EQL, isP, core.IsNil), core.Cmp(token.EQL, isP, c06IsRedisNil)}
	var holds []core.Edge
	for _, a := range atoms {
		h, _ := core.EdgesOf(g, a)
		holds = append(holds, h...)
	}
	cut := core.CutSet(holds)
	ok := true
	for _, ret := range core.Returns(g) {
		gxLeavesWithEdges(core.Result(ret, 0), func(leaf ssa.Value, edge *core.Edge) {
			if !ok {
				return
			}
			// a leaf that is itself one of the comparisons (positive polarity) is true only when it holds
			for _, a := range atoms {
				if m, pos := a(leaf); m && pos {
					return
				}
			}
			if c, isC := leaf.(*ssa.Const); isC && c.Value != nil && c.Value.String() == "false" {
				return
			}
			if c, isC := leaf.(*ssa.Const); isC && c.Value != nil && c.Value.String() == "true" {
				if edge == nil {
					if _, r := core.Reach(core.Q{From: []core.At{core.Entry(g)}, Target: core.Is(ret), Cut: cut}); !r {
						return
					}
				} else if !gxEdgeReachable(g, *edge, holds) {
					return
				}
			}
			ok = false
		})
	}
	return ok
}

// c06AbsentOrNil builds, for function h, the edges on which "the command's
// error is nil or exactly redis.Nil" is established: comparisons of the error
// with nil / redis.Nil in either order and polarity, errors.Is(err, redis.Nil),
// and a call of a one-argument predicate that is true only for those two.
func c06AbsentOrNil(h *ssa.Function, isErr func(ssa.Value) bool) []core.Edge {
	isMissCall := func(v ssa.Value) bool {
		c, ok := v.(*ssa.Call)
		if !ok || c.Call.IsInvoke() {
			return false
		}
		callee := c.Call.StaticCallee()
		if callee == nil {
			return false
		}
		if core.Short(core.CalleeName(c)) == "errors.Is" && len(c.Call.Args) == 2 {
			return isErr(c.Call.Args[0]) && c06IsRedisNil(c.Call.Args[1])
		}
		return len(c.Call.Args) == 1 && isErr(c.Call.Args[0]) && c06MissPredicate(callee)
	}
	atoms := []core.Atom{core.Cmp(token.EQL, isErr, core.IsNil), core.Cmp(token.EQL, isErr, c06IsRedisNil), core.BoolVal(isMissCall)}
	var holds []core.Edge
	for _, a := range atoms {
		hs, _ := core.EdgesOf(h, a)
		holds = append(holds, hs...)
	}
	// `miss := err == nil || err == redis.Nil; if miss {…}`: the condition is a φ of booleans. Its true
	// edge establishes the disjunction when every incoming value is the constant false, one of the
	// atoms, or the constant true entering over an edge on which an atom already holds.
	for _, b := range h.Blocks {
		iff, ok := gxLast(b).(*ssa.If)
		if !ok {
			continue
		}
		cond, flip := iff.Cond, false
		for {
			u, isNot := cond.(*ssa.UnOp)
			if !isNot || u.Op != token.NOT {
				break
			}
			cond, flip = u.X, !flip
		}
		phi, ok := cond.(*ssa.Phi)
		if !ok || phi.Block() != b {
			continue
		}
		held := core.CutSet(holds)
		all := len(phi.Edges) > 0
		for i, in := range phi.Edges {
			if c, isC := in.(*ssa.Const); isC && c.Value != nil {
				if c.Value.String() == "false" || (c.Value.String() == "true" && held(core.Edge{From: b.Preds[i], To: b})) {
					continue
				}
				all = false
				continue
			}
			m := false
			for _, a := range atoms {
				if mm, pos := a(in); mm && pos {
					m = true
				}
			}
			if !m {
				all = false
			}
		}
		if all {
			if flip {
				holds = append(holds, core.Edge{From: b, To: b.Succs[1]})
			} else {
				holds = append(holds, core.Edge{From: b, To: b.Succs[0]})
			}
		}
	}
	return holds
}

// c06CacheReadFuncs resolves "the function the cache lookup reads Redis
// through": the statically resolved callees, in the Redis client wrapper
// package, of the calls in node.doGetCache that yield (string, error); a
// callee that issues no command itself and merely forwards to another such
// method (Get → GetCtx) is followed.
func c06CacheReadFuncs(f *ssa.Function) []*ssa.Function {
	isRead := func(g *ssa.Function) bool {
		if g == nil || g.Blocks == nil || g.Pkg == nil || g.Pkg.Pkg.Path() != core.Mod+"/"+c06RedisPkg {
			return false
		}
		res := g.Signature.Results()
		if res.Len() != 2 || !c06IsErrorType(res.At(1).Type()) {
			return false
		}
		b, ok := res.At(0).Type().Underlying().(*types.Basic)
		return ok && b.Kind() == types.String
	}
	hasCmd := func(g *ssa.Function) bool {
		for _, h := range newC06Env(g).fns {
			if len(core.Instrs(h, c06IsGoRedisErrorSource)) > 0 {
				return true
			}
		}
		return false
	}
	var out []*ssa.Function
	seen := map[*ssa.Function]bool{}
	var visit func(g *ssa.Function, depth int)
	visit = func(g *ssa.Function, depth int) {
		if seen[g] || depth > 3 {
			return
		}
		seen[g] = true
		if hasCmd(g) {
			out = append(out, g)
			return
		}
		for _, c := range core.Calls(g, c06AnyCall) {
			if callee := c.Common().StaticCallee(); isRead(callee) {
				visit(callee, depth+1)
			}
		}
	}
	for _, c := range core.Calls(f, c06AnyCall) {
		if callee := c.Common().StaticCallee(); isRead(callee) {
			visit(callee, 0)
		}
	}
	return out
}

// c06GlobalPath resolves v to "a load of package-level variable g (or of the
// field path fp inside it)"; g is nil for anything else.
func c06GlobalPath(v ssa.Value) (g *ssa.Global, fp string) {
	v = core.Strip(core.Forward(core.Strip(v)))
	u, ok := v.(*ssa.UnOp)
	if !ok || u.Op != token.MUL {
		if fl, isF := v.(*ssa.Field); isF {
			g, fp = c06GlobalPath(fl.X)
			if g != nil {
				return g, fp + "." + core.FieldAddrName(fl)
			}
		}
		return nil, ""
	}
	return c06GlobalAddr(u.X)
}

func c06GlobalAddr(addr ssa.Value) (*ssa.Global, string) {
	switch x := addr.(type) {
	case *ssa.Global:
		return x, ""
	case *ssa.FieldAddr:
		if g, fp := c06GlobalAddr(x.X); g != nil {
			return g, fp + "." + core.FieldAddrName(x)
		}
		// a pointer held in a global: (*g).f
		if g, fp := c06GlobalPath(x.X); g != nil {
			return g, fp + "->" + core.FieldAddrName(x)
		}
	}
	return nil, ""
}

// c06IsBarrierType: the interface lib/syncx.SingleFlight.
func c06IsBarrierType(t types.Type) bool {
	n, ok := t.(*types.Named)
	return ok && n.Obj().Pkg() != nil && n.Obj().Pkg().Path() == core.Mod+"/lib/syncx" && n.Obj().Name() == "SingleFlight"
}

// c06PkgInitFuncs: the package initialiser of sp and the explicit init functions it runs.
func c06PkgInitFuncs(sp *ssa.Package) map[*ssa.Function]bool {
	out := map[*ssa.Function]bool{}
	ini := sp.Func("init")
	if ini == nil {
		return out
	}
	out[ini] = true
	for _, c := range core.Calls(ini, c06AnyCall) {
		if callee := c.Common().StaticCallee(); callee != nil && callee.Pkg == sp && strings.HasPrefix(callee.Name(), "init#") {
			out[callee] = true
		}
	}
	return out
}

func c06Round8(r *core.Run) {
	p := r.P
	r.Explanation += " The Redis read the cache lookup goes through returns a nil error after the GET command only where the command's error was established nil or redis.Nil, at every level up to the wrapper method; every cache the sqlc package builds is handed one and the same package-level barrier, written only by the package initialiser, and the node stores and uses exactly the barrier it was given."
	r.NotDecided += " Not decided for the barrier: caches a user builds himself and hands to NewConnWithCache; constructors reached through function values. Not decided for the cache GET: what go-redis reports for a failed command (trusted: a non-nil error other than redis.Nil)."

	// ---- C06-um2: a failed cache GET must not look like an absent key ----
	r.Check("D6/K2/cache-get-miss-only-when-absent", "in the Redis read the cache lookup goes through (the client-wrapper method node.doGetCache gets its value from, and the function values that method creates and hands to the breaker), a nil error is returned after the GET command only on an edge establishing that the command's error is nil or exactly redis.Nil, and each enclosing level returns nil only when the level below did ['a cache failure other than a miss is returned to the caller instead of falling through to the database': a failed GET — cancelled context, I/O error — that comes back as (\"\", nil) is indistinguishable from an absent key, doGetCache reports a miss and doTake queries the database]", func(o *core.O) {
		f := p.Func(cachePkg, "node", "doGetCache")
		if !o.Need(f != nil, "cache.node.doGetCache") {
			return
		}
		reads := c06CacheReadFuncs(f)
		if len(reads) == 0 {
			o.Unres("no Redis client-wrapper method returning (string, error) and issuing a go-redis command is called from %s", core.FuncName(f))
			return
		}
		for _, g := range reads {
			r.Fn(core.FuncName(g))
			env := newC06Env(g)
			for _, h := range env.fns {
				srcs := core.Instrs(h, c06IsGoRedisErrorSource)
				if len(srcs) == 0 {
					continue
				}
				o.Site(len(srcs), core.FuncName(h))
				errVals := map[ssa.Value]bool{}
				for _, s := range srcs {
					for _, v := range c06ErrValuesOf(s.(*ssa.Call)) {
						errVals[v] = true
					}
				}
				if len(errVals) == 0 {
					o.Fail(p.InstrPos(srcs[0]), "%s: the error of the GET command is never read", core.FuncName(h))
					continue
				}
				isErr := func(v ssa.Value) bool { return errVals[env.c06OwnLoad(core.Forward(v))] || errVals[core.Strip(v)] }
				holds := c06AbsentOrNil(h, isErr)
				for _, s := range srcs {
					for _, ret := range c06OnlyWhen(h, core.After(s), holds) {
						o.Fail(p.InstrPos(ret), "%s returns a nil error after the GET command on a path that established neither err == nil nor err == redis.Nil: a GET that failed (cancelled context, connection error) reads as an absent key, the cache reports a miss and the read falls through to the database instead of returning the cache failure", core.FuncName(h))
					}
				}
				// every enclosing level hands the error on: the function that created h (or holds it)
				// returns nil after the call it handed h to only when that call's error is nil
				cur := h
				for depth := 0; cur != g && depth < 4; depth++ {
					sites := env.site[cur]
					if len(sites) == 0 {
						o.Unres("%s: cannot find where the function issuing the GET command is created", core.FuncName(cur))
						break
					}
					parent := sites[0].Parent()
					var via []ssa.Instruction
					for _, c := range core.Calls(parent, c06AnyCall) {
						if _, isGo := c.(*ssa.Go); isGo {
							continue
						}
						if _, isDefer := c.(*ssa.Defer); isDefer {
							continue
						}
						uses := !c.Common().IsInvoke() && env.funcOf(c.Common().Value) == cur
						for _, a := range c.Common().Args {
							if env.funcOf(a) == cur {
								uses = true
							}
						}
						if uses {
							via = append(via, c.(ssa.Instruction))
						}
					}
					if len(via) == 0 {
						o.Unres("%s: the function issuing the GET command is neither called nor handed to a call in %s", core.FuncName(cur), core.FuncName(parent))
						break
					}
					for _, c := range via {
						call, isCall := c.(*ssa.Call)
						if !isCall {
							continue
						}
						ev := c06ErrValuesOf(call)
						if len(ev) == 0 {
							o.Fail(p.InstrPos(c), "%s: the call running the GET closure yields no error: the command's failure cannot reach the caller", core.FuncName(parent))
							continue
						}
						evs := map[ssa.Value]bool{}
						for _, v := range ev {
							evs[v] = true
						}
						isE := func(v ssa.Value) bool { return evs[env.c06OwnLoad(core.Forward(v))] || evs[core.Strip(v)] }
						hs, _ := core.EdgesOf(parent, core.Cmp(token.EQL, isE, core.IsNil))
						for _, ret := range c06OnlyWhen(parent, core.After(c), hs) {
							o.Fail(p.InstrPos(ret), "%s returns a nil error after running the GET closure on a path that did not establish its error == nil: the cache failure is dropped and the lookup reads as a miss", core.FuncName(parent))
						}
					}
					cur = parent
				}
			}
		}
	})

	// ---- C06-um3: one stampede barrier for every cache of the package ----
	r.Check("D2/K9/one-barrier-for-all-conns", "every cache the sqlc package builds (each call, anywhere in the package, of a function with a syncx.SingleFlight parameter — cache.New, cache.NewNode) receives as its barrier one and the same package-level variable, which is written only by the package initialiser and never with nil ['concurrent reads of one uncached key cause at most one database query at a time' quantifies over all readers of the key: two CachedConn values over the same Redis serve the same keys, and with a barrier of their own each runs its own database query at the same time]", func(o *core.O) {
		sp := p.Pkg(sqlcPkg)
		if !o.Need(sp != nil, "package "+sqlcPkg) {
			return
		}
		fns := p.PkgFuncs(sqlcPkg)
		inPkg := map[*ssa.Function]bool{}
		for _, f := range fns {
			inPkg[f] = true
		}
		type use struct {
			at  ssa.Instruction
			arg ssa.Value
		}
		// resolve a barrier argument that is a parameter of an unexported in-package helper through the helper's callers
		var resolve func(v ssa.Value, at ssa.Instruction, depth int) []use
		resolve = func(v ssa.Value, at ssa.Instruction, depth int) []use {
			w := core.Strip(core.Forward(core.Strip(v)))
			pa, isP := w.(*ssa.Parameter)
			if !isP || depth > 2 || pa.Parent().Object() == nil || pa.Parent().Object().Exported() {
				return []use{{at, v}}
			}
			idx := -1
			for i, q := range pa.Parent().Params {
				if q == pa {
					idx = i
				}
			}
			var out []use
			for _, f := range fns {
				for _, c := range core.Calls(f, c06AnyCall) {
					if c.Common().StaticCallee() == pa.Parent() && idx >= 0 && idx < len(c.Common().Args) {
						out = append(out, resolve(c.Common().Args[idx], c.(ssa.Instruction), depth+1)...)
					}
				}
			}
			if len(out) == 0 {
				return []use{{at, v}}
			}
			return out
		}
		var uses []use
		for _, f := range fns {
			for _, c := range core.Calls(f, c06AnyCall) {
				cc := c.Common()
				if cc.IsInvoke() {
					continue
				}
				callee := cc.StaticCallee()
				if callee == nil || inPkg[callee] {
					continue // in-package helpers are looked through from their own body
				}
				sig := cc.Signature()
				for i := 0; i < sig.Params().Len() && i < len(cc.Args); i++ {
					if sig.Variadic() && i == sig.Params().Len()-1 {
						break
					}
					if c06IsBarrierType(sig.Params().At(i).Type()) {
						r.Fn(core.FuncName(f))
						uses = append(uses, resolve(cc.Args[i], c.(ssa.Instruction), 0)...)
					}
				}
			}
		}
		o.Site(len(uses), sqlcPkg)
		if len(uses) == 0 {
			return
		}
		var shared *ssa.Global
		var sharedPath string
		for _, u := range uses {
			g, fp := c06GlobalPath(u.arg)
			if g == nil {
				o.Fail(p.InstrPos(u.at), "a cache is built with the barrier %s, which is not the package-wide barrier: connections built here do not share the stampede protection with the others over the same Redis (several database queries at a time for one uncached key)", core.Describe(u.arg))
				continue
			}
			if shared == nil {
				shared, sharedPath = g, fp
			} else if g != shared || fp != sharedPath {
				o.Fail(p.InstrPos(u.at), "caches of the package are built with different barriers (%s%s here, %s%s elsewhere): their connections do not share the stampede protection", g.Name(), fp, shared.Name(), sharedPath)
			}
		}
		if shared == nil {
			return
		}
		inits := c06PkgInitFuncs(shared.Pkg)
		all := append([]*ssa.Function{}, core.SSAPkgFuncs(p.SSA, shared.Pkg)...)
		for f := range inits {
			all = append(all, f)
		}
		seen := map[*ssa.Function]bool{}
		stores := 0
		for _, f := range all {
			if seen[f] {
				continue
			}
			seen[f] = true
			for _, in := range core.Instrs(f, func(in ssa.Instruction) bool { _, ok := in.(*ssa.Store); return ok }) {
				st := in.(*ssa.Store)
				g, fp := c06GlobalAddr(st.Addr)
				if g != shared || !(fp == sharedPath || strings.HasPrefix(sharedPath, fp)) {
					continue
				}
				stores++
				root := f
				for root.Parent() != nil {
					root = root.Parent()
				}
				if !inits[root] || root != f {
					o.Fail(p.InstrPos(in), "the package-wide barrier %s is replaced outside the package initialiser: caches built before and after do not share one barrier", shared.Name())
				} else if fp == sharedPath && core.IsNil(core.Strip(st.Val)) {
					o.Fail(p.InstrPos(in), "the package-wide barrier %s is initialised with nil", shared.Name())
				}
			}
		}
		if stores == 0 {
			o.Fail(p.Pos(shared.Pos()), "the package-wide barrier %s is never initialised", shared.Name())
		}
	})

	r.Check("D2/K9/node-uses-the-given-barrier", "the barrier a cache node runs its take through is the one its constructor was given: every store into node.barrier in the cache package stores a SingleFlight parameter of the storing function (or of the function enclosing it), and every barrier call in doTake is made on the node's barrier field [the sharing of the barrier among connections ends at the node otherwise: a node with a barrier of its own lets readers on other connections query the database at the same time]", func(o *core.O) {
		n := 0
		for _, f := range p.PkgFuncs(cachePkg) {
			sts := core.StoresToField(f, "node.barrier")
			if len(sts) == 0 {
				continue
			}
			r.Fn(core.FuncName(f))
			root := f
			for root.Parent() != nil {
				root = root.Parent()
			}
			env := newC06Env(root)
			for _, st := range sts {
				n++
				pa, ok := core.Strip(core.Forward(core.Strip(st.Val))).(*ssa.Parameter)
				if !ok {
					pa, ok = env.value(st.Val).(*ssa.Parameter)
				}
				if !ok || !c06IsBarrierType(pa.Type()) {
					o.Fail(p.InstrPos(st), "%s stores %s as the node's barrier instead of the barrier it was given: the node does not share the stampede protection of the package that built it", core.FuncName(f), core.Describe(st.Val))
				}
			}
		}
		o.Site(n, cachePkg)
		if n == 0 {
			return
		}
		doTake := p.Func(cachePkg, "node", "doTake")
		if !o.Need(doTake != nil, "cache.node.doTake") {
			return
		}
		bars := core.Calls(doTake, func(in ssa.Instruction) bool {
			c := core.AsCall(in)
			return c != nil && c.Common().IsInvoke() && c06IsBarrierType(c.Common().Value.Type())
		})
		o.Site(len(bars), core.FuncName(doTake))
		if len(bars) == 0 {
			o.Unres("no call on a syncx.SingleFlight value in %s", core.FuncName(doTake))
		}
		for _, b := range bars {
			if recv := b.Common().Value; !core.IsFieldLoad(recv, "node.barrier") {
				o.Fail(p.InstrPos(b), "doTake runs the take through %s, not through the node's barrier field", core.Describe(recv))
			}
		}
	})
}

// c06AnyCall matches every call instruction (call, go, defer).
func c06AnyCall(in ssa.Instruction) bool { return core.AsCall(in) != nil }
